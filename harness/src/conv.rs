//! Conversion of the implementation's data (records, outputs, errors) into the
//! canonical tagged-list JSON the correspondence driver compares with the model.
use serde_json::{json, Value};
use sqllogictest::*;
use std::time::Duration;

pub fn loc_json(loc: &Location) -> Value {
    // Location's `upper` chain is private; its Display prints "file:line\nat file:line..."
    let s = loc.to_string();
    let mut out = vec![];
    for (i, l) in s.split("\nat ").enumerate() {
        let _ = i;
        match l.rfind(':') {
            Some(p) => out.push(json!([l[..p], l[p + 1..].parse::<u64>().unwrap_or(u64::MAX)])),
            None => out.push(json!([l, 0])),
        }
    }
    Value::Array(out)
}

pub fn dur_json(d: &Duration) -> Value {
    json!([d.as_secs(), d.subsec_nanos()])
}

pub fn retry_json(r: &Option<RetryConfig>) -> Value {
    match r {
        None => Value::Null,
        Some(r) => json!([r.attempts as u64, r.backoff.as_secs(), r.backoff.subsec_nanos()]),
    }
}

pub fn cond_json(c: &Condition) -> Value {
    match c {
        Condition::OnlyIf { label } => json!(["onlyif", label]),
        Condition::SkipIf { label } => json!(["skipif", label]),
    }
}

pub fn conn_json(c: &Connection) -> Value {
    match c {
        Connection::Default => json!(["default"]),
        Connection::Named(n) => json!(["named", n]),
    }
}

pub fn experr_json(e: &ExpectedError) -> Value {
    match e {
        ExpectedError::Empty => json!(["empty"]),
        ExpectedError::Inline(r) => json!(["inline", r.as_str()]),
        ExpectedError::Multiline(t) => json!(["multi", t]),
    }
}

pub fn sort_json(s: &Option<SortMode>) -> Value {
    match s {
        None => Value::Null,
        Some(SortMode::NoSort) => json!("nosort"),
        Some(SortMode::RowSort) => json!("rowsort"),
        Some(SortMode::ValueSort) => json!("valuesort"),
    }
}

pub fn types_str<T: ColumnType>(t: &[T]) -> String {
    t.iter().map(|c| c.to_char()).collect()
}

pub fn record_json<T: ColumnType>(r: &Record<T>) -> Value {
    match r {
        Record::Include { loc, filename } => json!(["include", loc_json(loc), filename]),
        Record::Statement { loc, conditions, connection, sql, expected, retry } => {
            let e = match expected {
                StatementExpect::Ok => json!(["ok"]),
                StatementExpect::Count(n) => json!(["count", n]),
                StatementExpect::Error(e) => json!(["error", experr_json(e)]),
            };
            json!(["statement", loc_json(loc),
                conditions.iter().map(cond_json).collect::<Vec<_>>(),
                conn_json(connection), sql, e, retry_json(retry)])
        }
        Record::Query { loc, conditions, connection, sql, expected, retry } => {
            let e = match expected {
                QueryExpect::Results { types, sort_mode, label, results, .. } => {
                    json!(["results", types_str(types), sort_json(sort_mode), label, results])
                }
                QueryExpect::Error(e) => json!(["error", experr_json(e)]),
            };
            json!(["query", loc_json(loc),
                conditions.iter().map(cond_json).collect::<Vec<_>>(),
                conn_json(connection), sql, e, retry_json(retry)])
        }
        Record::System { loc, conditions, command, stdout, retry, .. } => {
            json!(["system", loc_json(loc),
                conditions.iter().map(cond_json).collect::<Vec<_>>(),
                command, stdout, retry_json(retry)])
        }
        Record::Sleep { loc, duration } => json!(["sleep", loc_json(loc), dur_json(duration)]),
        Record::Subtest { loc, name } => json!(["subtest", loc_json(loc), name]),
        Record::Halt { loc } => json!(["halt", loc_json(loc)]),
        Record::Control(c) => match c {
            Control::SortMode(m) => json!(["control", ["sortmode", sort_json(&Some(*m))]]),
            Control::ResultMode(m) => json!(["control", ["resultmode",
                match m { ResultMode::RowWise => "rowwise", ResultMode::ValueWise => "valuewise" }]]),
            Control::Substitution(b) => json!(["control", ["substitution", b]]),
            _ => json!(["control", ["unknown"]]),
        },
        Record::HashThreshold { loc, threshold } => json!(["hash-threshold", loc_json(loc), threshold]),
        Record::Condition(c) => json!(["condition", cond_json(c)]),
        Record::Connection(c) => json!(["connection", conn_json(c)]),
        Record::Comment(ls) => json!(["comment", ls]),
        Record::Newline => json!(["newline"]),
        Record::Injected(Injected::BeginInclude(f)) => json!(["begin-include", f]),
        Record::Injected(Injected::EndInclude(f)) => json!(["end-include", f]),
        _ => json!(["unknown-record"]),
    }
}

pub fn parse_kind_code(k: &ParseErrorKind) -> u64 {
    match k {
        ParseErrorKind::UnexpectedToken(_) => 1,
        ParseErrorKind::UnexpectedEOF => 2,
        ParseErrorKind::InvalidSortMode(_) => 3,
        ParseErrorKind::InvalidLine(_) => 4,
        ParseErrorKind::InvalidType(_) => 5,
        ParseErrorKind::InvalidNumber(_) => 6,
        ParseErrorKind::InvalidErrorMessage(_) => 7,
        ParseErrorKind::DuplicatedErrorMessage => 8,
        ParseErrorKind::InvalidRetryConfig(_) => 9,
        ParseErrorKind::StatementHasResults => 10,
        ParseErrorKind::InvalidDuration(_) => 11,
        ParseErrorKind::InvalidControl(_) => 12,
        ParseErrorKind::InvalidIncludeFile(_) => 13,
        ParseErrorKind::EmptyIncludeFile(_) => 14,
        ParseErrorKind::FileNotFound => 15,
        _ => 99,
    }
}

pub fn test_kind_code(k: &TestErrorKind) -> u64 {
    match k {
        TestErrorKind::ParseError(_) => 0,
        TestErrorKind::Ok { .. } => 1,
        TestErrorKind::Fail { .. } => 2,
        TestErrorKind::ErrorMismatch { .. } => 3,
        TestErrorKind::StatementResultMismatch { .. } => 4,
        TestErrorKind::QueryResultMismatch { .. } => 5,
        TestErrorKind::QueryResultColumnsMismatch { .. } => 6,
        TestErrorKind::SystemFail { .. } => 7,
        TestErrorKind::SystemStdoutMismatch { .. } => 8,
        _ => 99,
    }
}

pub fn test_error_json(e: &TestError) -> Value {
    let k = e.kind();
    let sub = match &k {
        TestErrorKind::ParseError(p) => parse_kind_code(p),
        _ => 0,
    };
    let detail = match &k {
        TestErrorKind::Fail { err, .. } => err.to_string(),
        TestErrorKind::ErrorMismatch { err, .. } => err.to_string(),
        TestErrorKind::StatementResultMismatch { actual, .. } => actual.clone(),
        TestErrorKind::QueryResultMismatch { actual, .. } => actual.clone(),
        _ => String::new(),
    };
    json!(["err", test_kind_code(&k), sub, loc_json(&e.location()), detail])
}

pub fn output_json<T: ColumnType>(o: &RecordOutput<T>) -> Value {
    match o {
        RecordOutput::Nothing => json!(["nothing"]),
        RecordOutput::Query { types, rows, error } => {
            json!(["query", types_str(types), rows, error.as_ref().map(|e| e.to_string())])
        }
        RecordOutput::Statement { count, error } => {
            json!(["statement", count, error.as_ref().map(|e| e.to_string())])
        }
        RecordOutput::System { stdout, error, .. } => json!(["system", stdout, error.is_some()]),
        _ => json!(["unknown-output"]),
    }
}
