//! slt-impl <family>: reads one JSON case per line on stdin, drives the real
//! implementation (built from /repo's current working tree through path
//! dependencies) via its public API, prints one canonical JSON observable per line.
mod conv;
mod mock;

use conv::*;
use mock::*;
use serde_json::{json, Value};
use sqllogictest::*;
use std::collections::HashSet;
use std::io::{BufRead, Write};
use std::panic::{catch_unwind, AssertUnwindSafe};
use std::sync::{Arc, Mutex};

fn strs(v: &Value) -> Vec<String> {
    v.as_array().map(|a| a.iter().map(|s| s.as_str().unwrap().to_string()).collect()).unwrap_or_default()
}

fn make_shared(case: &Value) -> Arc<Mutex<Shared>> {
    let mut sh = Shared::default();
    if let Some(a) = case.get("answers").and_then(|a| a.as_array()) {
        sh.answers = a.iter().map(parse_ans).collect();
    }
    if let Some(d) = case.get("default_answer") {
        if !d.is_null() {
            sh.default = Some(parse_ans(d));
        }
    }
    if let Some(a) = case.get("sys").and_then(|a| a.as_array()) {
        sh.sys = a.iter().map(parse_sys).collect();
    }
    if let Some(d) = case.get("sys_default") {
        if !d.is_null() {
            sh.sys_default = Some(parse_sys(d));
        }
    }
    if let Some(a) = case.get("make_fail").and_then(|a| a.as_array()) {
        sh.make_fail = a.iter().map(|x| x.as_u64().unwrap() as usize).collect();
    }
    sh.engine_name = case.get("engine_name").and_then(|s| s.as_str()).unwrap_or("").to_string();
    Arc::new(Mutex::new(sh))
}

fn configure<T: ColumnType + 'static>(case: &Value, runner: &mut Runner<MockDb<T>, MockMaker<T>>) {
    if case.get("strict_cols").and_then(|b| b.as_bool()).unwrap_or(false) {
        runner.with_column_validator(strict_column_validator);
    }
    for l in strs(case.get("labels").unwrap_or(&Value::Null)) {
        runner.add_label(&l);
    }
    if let Some(vars) = case.get("vars").and_then(|v| v.as_array()) {
        for kv in vars {
            runner.set_var(kv[0].as_str().unwrap().to_string(), kv[1].as_str().unwrap().to_string());
        }
    }
    if let Some(t) = case.get("hash_threshold").and_then(|t| t.as_u64()) {
        runner.with_hash_threshold(t as usize);
    }
}

/// regex oracle table: every inline pattern of the parsed records against every
/// error text the scripted database can produce (evaluated by the regex crate itself).
fn oracle_table<T: ColumnType>(records: &[Record<T>], case: &Value) -> Value {
    let mut pats: Vec<String> = vec![];
    for r in records {
        let e = match r {
            Record::Statement { expected: StatementExpect::Error(e), .. } => Some(e),
            Record::Query { expected: QueryExpect::Error(e), .. } => Some(e),
            _ => None,
        };
        if let Some(ExpectedError::Inline(re)) = e {
            if !pats.contains(&re.as_str().to_string()) {
                pats.push(re.as_str().to_string());
            }
        }
    }
    let mut texts: Vec<String> = vec![];
    let mut add = |v: &Value| {
        if let Some(a) = v.as_array() {
            if a.first().and_then(|t| t.as_str()) == Some("err") {
                let t = a[1].as_str().unwrap().to_string();
                if !texts.contains(&t) {
                    texts.push(t);
                }
            }
        }
    };
    if let Some(a) = case.get("answers").and_then(|a| a.as_array()) {
        a.iter().for_each(&mut add);
    }
    if let Some(d) = case.get("default_answer") {
        add(d);
    }
    for t in strs(case.get("oracle_texts").unwrap_or(&Value::Null)) {
        if !texts.contains(&t) {
            texts.push(t);
        }
    }
    if let Some(a) = case.get("make_fail").and_then(|a| a.as_array()) {
        for k in a {
            texts.push(format!("connect failed {}", k.as_u64().unwrap()));
        }
    }
    // every message substitution can produce for the SQL of these records
    let name_re = regex::Regex::new(r"\$\{?([A-Za-z0-9_]+)").unwrap();
    for r in records {
        let sql = match r {
            Record::Statement { sql, .. } | Record::Query { sql, .. } => sql,
            _ => continue,
        };
        let parsed = catch_unwind(AssertUnwindSafe(|| subst::Template::from_str(sql).map(|_| ()).map_err(|e| e.to_string())));
        if let Ok(Err(msg)) = parsed {
            let t = format!("substitution failed: {msg}");
            if !texts.contains(&t) {
                texts.push(t);
            }
        }
        for c in name_re.captures_iter(sql) {
            let t = format!("substitution failed: No such variable: ${}", &c[1]);
            if !texts.contains(&t) {
                texts.push(t);
            }
        }
    }
    let mut out = vec![];
    for p in &pats {
        if let Ok(re) = regex::Regex::new(p) {
            for t in &texts {
                out.push(json!([p, t, re.is_match(t)]));
            }
        }
    }
    Value::Array(out)
}

fn run_family<T: ColumnType + 'static>(case: &Value) -> Value {
    let text = case["text"].as_str().unwrap();
    let name = case.get("name").and_then(|s| s.as_str()).unwrap_or("t.slt").to_string();
    let mode = case.get("mode").and_then(|s| s.as_str()).unwrap_or("each");
    let shared = make_shared(case);
    set_current(Some(shared.clone()));
    let mut out = serde_json::Map::new();

    let parsed = parse_with_name::<T>(text, name.clone());
    match &parsed {
        Ok(rs) => {
            out.insert("parse".into(), json!(["ok", rs.iter().map(record_json).collect::<Vec<_>>()]));
            out.insert("oracle".into(), oracle_table(rs, case));
        }
        Err(e) => {
            out.insert("parse".into(), json!(["err", parse_kind_code(&e.kind()), e.location().line()]));
        }
    }

    // background system commands (`cmd &`) are spawned for real, outside the run_command hook: the scripts use `touch <bgdir>/<name> &`
    // and the markers found in <bgdir> afterwards are the observation
    let bgdir = case.get("bgdir").and_then(|s| s.as_str()).map(|s| s.to_string());
    if let Some(d) = &bgdir {
        let _ = std::fs::remove_dir_all(d);
        std::fs::create_dir_all(d).unwrap();
    }
    let mut runner = Runner::new(MockMaker::<T>::new(shared.clone()));
    configure(case, &mut runner);
    match mode {
        "parse" => {}
        "each" => {
            if let Ok(rs) = parsed {
                let mut results = vec![];
                // `shutdown_before`: indices of records in front of which the runner is shut down (the runner stays in use afterwards)
                let shut_at: Vec<usize> = case.get("shutdown_before").and_then(|a| a.as_array())
                    .map(|a| a.iter().filter_map(|x| x.as_u64()).map(|x| x as usize).collect()).unwrap_or_default();
                let mut ri = 0usize;          // index among the statement / query / system records
                for r in rs.into_iter() {
                    let executable = matches!(r, Record::Statement { .. } | Record::Query { .. } | Record::System { .. });
                    if executable {
                        for _ in shut_at.iter().filter(|&&k| k == ri) {
                            shared.lock().unwrap().events.push(json!(["shutdown-call"]));
                            runner.shutdown();
                        }
                        ri += 1;
                    }
                    let res = runner.run(r);
                    results.push(match res {
                        Ok(o) => json!(["ok", output_json(&o)]),
                        Err(e) => test_error_json(&e),
                    });
                }
                out.insert("results".into(), Value::Array(results));
            }
        }
        "multi" => {
            if let Ok(rs) = parsed {
                let res = runner.run_multi(rs);
                out.insert("final".into(), match res {
                    Ok(()) => json!(["ok"]),
                    Err(e) => test_error_json(&e),
                });
            }
        }
        "script" => {
            let res = runner.run_script_with_name(text, name);
            out.insert("final".into(), match res {
                Ok(()) => json!(["ok"]),
                Err(e) => test_error_json(&e),
            });
        }
        m => panic!("unknown mode {m}"),
    }
    if case.get("shutdown").and_then(|b| b.as_bool()).unwrap_or(false) {
        runner.shutdown();
    }
    drop(runner);
    set_current(None);
    if let Some(d) = &bgdir {
        // the spawned processes are not waited for by the runner: poll until the directory has been stable for 300 ms (2 s at most)
        let list = |d: &str| -> Vec<String> {
            let mut v: Vec<String> = std::fs::read_dir(d).map(|it| it.filter_map(|e| e.ok()).map(|e| e.file_name().to_string_lossy().to_string()).collect()).unwrap_or_default();
            v.sort();
            v
        };
        let t0 = std::time::Instant::now();
        let mut last = list(d);
        let mut stable_since = std::time::Instant::now();
        // `bg_expect` (how many markers the generator's reference expects) only bounds the WAIT under load: fewer markers than that are
        // waited for up to 3 s before being reported as missing; more markers than that are reported as soon as the directory is stable
        let expect = case.get("bg_expect").and_then(|n| n.as_u64()).unwrap_or(0) as usize;
        while t0.elapsed() < std::time::Duration::from_millis(3000)
            && (last.len() < expect || stable_since.elapsed() < std::time::Duration::from_millis(300)) {
            std::thread::sleep(std::time::Duration::from_millis(25));
            let cur = list(d);
            if cur != last {
                last = cur;
                stable_since = std::time::Instant::now();
            }
        }
        out.insert("bg_markers".into(), json!(last));
        let _ = std::fs::remove_dir_all(d);
    }
    let sh = shared.lock().unwrap();
    out.insert("events".into(), Value::Array(sh.events.clone()));
    Value::Object(out)
}

/// validity table for Regex::new over every inline-error candidate of the text
fn re_valid_table(text: &str) -> Value {
    let mut out = vec![];
    let mut seen: Vec<String> = vec![];
    for line in text.lines() {
        let toks: Vec<&str> = line.split_whitespace().collect();
        if toks.len() >= 3 && (toks[0] == "statement" || toks[0] == "query") && toks[1] == "error" {
            let cand = toks[2..].join(" ");
            if !seen.contains(&cand) {
                out.push(json!([cand, regex::Regex::new(&cand).is_ok()]));
                seen.push(cand);
            }
        }
    }
    Value::Array(out)
}

fn parse_family<T: ColumnType>(case: &Value) -> Value {
    let text = case["text"].as_str().unwrap();
    let name = case.get("name").and_then(|s| s.as_str()).unwrap_or("t.slt").to_string();
    let parsed = parse_with_name::<T>(text, name);
    let p = match &parsed {
        Ok(rs) => json!(["ok", rs.iter().map(record_json).collect::<Vec<_>>()]),
        Err(e) => json!(["err", parse_kind_code(&e.kind()), e.location().line()]),
    };
    json!({"parse": p, "re_valid": re_valid_table(text)})
}

fn parse_json<T: ColumnType>(text: &str, name: &str) -> Value {
    match parse_with_name::<T>(text, name.to_string()) {
        Ok(rs) => json!(["ok", rs.iter().map(record_json).collect::<Vec<_>>()]),
        Err(e) => json!(["err", parse_kind_code(&e.kind()), e.location().line()]),
    }
}

/// format family: parse -> Display every record (one writeln! each, as --format/--override do)
/// -> parse again -> format again
fn format_family<T: ColumnType>(case: &Value) -> Value {
    let text = case["text"].as_str().unwrap();
    let mut out = serde_json::Map::new();
    let mut tables = vec![re_valid_table(text)];
    out.insert("parse".into(), parse_json::<T>(text, "t.slt"));
    if let Ok(rs) = parse_with_name::<T>(text, "t.slt") {
        let fmt1 = catch_unwind(AssertUnwindSafe(|| {
            let mut s = String::new();
            for r in &rs {
                s.push_str(&r.to_string());
                s.push('\n');
            }
            s
        }));
        match fmt1 {
            Err(_) => {
                out.insert("fmt".into(), json!(["panic"]));
            }
            Ok(f1) => {
                out.insert("fmt".into(), json!(["ok", f1]));
                tables.push(re_valid_table(&f1));
                out.insert("reparse".into(), parse_json::<T>(&f1, "t.slt"));
                if let Ok(rs2) = parse_with_name::<T>(&f1, "t.slt") {
                    let mut s = String::new();
                    for r in &rs2 {
                        s.push_str(&r.to_string());
                        s.push('\n');
                    }
                    out.insert("fmt2".into(), json!(["ok", s]));
                }
            }
        }
    }
    let mut all = vec![];
    for t in tables {
        if let Value::Array(a) = t {
            for e in a {
                if !all.contains(&e) {
                    all.push(e);
                }
            }
        }
    }
    out.insert("re_valid".into(), Value::Array(all));
    Value::Object(out)
}

// ------------------------------------------------------------------ file trees
static TREE_COUNTER: std::sync::atomic::AtomicUsize = std::sync::atomic::AtomicUsize::new(0);

pub struct Tree {
    pub root: std::path::PathBuf,
}

impl Tree {
    /// files: [[relpath, "file", content] | [relpath, "dir"] | [relpath, "binary"]]
    pub fn create(files: &Value) -> Tree {
        let n = TREE_COUNTER.fetch_add(1, std::sync::atomic::Ordering::SeqCst);
        let base = std::env::var("SLT_HARNESS_TMP").unwrap_or_else(|_| "/verif/.cache/tmp".to_string());
        let root = std::path::PathBuf::from(format!("{}/t{}_{}", base, std::process::id(), n));
        let _ = std::fs::remove_dir_all(&root);
        std::fs::create_dir_all(&root).unwrap();
        for f in files.as_array().unwrap() {
            let rel = f[0].as_str().unwrap();
            let p = root.join(rel);
            match f[1].as_str().unwrap() {
                "dir" => std::fs::create_dir_all(&p).unwrap(),
                "binary" => {
                    std::fs::create_dir_all(p.parent().unwrap()).unwrap();
                    std::fs::write(&p, [0xffu8, 0xfe, 0x00, 0x80]).unwrap();
                }
                _ => {
                    std::fs::create_dir_all(p.parent().unwrap()).unwrap();
                    std::fs::write(&p, f[2].as_str().unwrap()).unwrap();
                }
            }
        }
        Tree { root }
    }
    pub fn prefix(&self) -> String {
        format!("{}/", self.root.to_string_lossy())
    }
    /// every file below the root: [relpath, content (lossy)]
    pub fn listing(&self) -> Value {
        let mut out = vec![];
        fn walk(dir: &std::path::Path, root: &std::path::Path, out: &mut Vec<Value>) {
            let mut ents: Vec<_> = std::fs::read_dir(dir).unwrap().map(|e| e.unwrap().path()).collect();
            ents.sort();
            for p in ents {
                if p.is_dir() {
                    walk(&p, root, out);
                } else {
                    let rel = p.strip_prefix(root).unwrap().to_string_lossy().to_string();
                    let bytes = std::fs::read(&p).unwrap();
                    out.push(json!([rel, String::from_utf8_lossy(&bytes)]));
                }
            }
        }
        walk(&self.root, &self.root, &mut out);
        Value::Array(out)
    }
}

impl Drop for Tree {
    fn drop(&mut self) {
        let _ = std::fs::remove_dir_all(&self.root);
    }
}

/// replace the temp root prefix in every string of a JSON value
fn strip_prefix_json(v: &Value, prefix: &str) -> Value {
    match v {
        Value::String(s) => Value::String(s.replace(prefix, "")),
        Value::Array(a) => Value::Array(a.iter().map(|x| strip_prefix_json(x, prefix)).collect()),
        Value::Object(o) => Value::Object(o.iter().map(|(k, x)| (k.clone(), strip_prefix_json(x, prefix))).collect()),
        x => x.clone(),
    }
}

fn parse_error_json(e: &ParseError) -> Value {
    json!(["err", parse_kind_code(&e.kind()), loc_json(&e.location())])
}

/// the file-system and glob views the implementation gets while expanding `main`
/// (computed with std::fs and the glob crate, breadth first over everything reachable)
fn fs_glob_tables<T: ColumnType>(main_abs: &str) -> (Value, Value, Value) {
    let mut fs_tbl = vec![];
    let mut glob_tbl = vec![];
    let mut re_tbl: Vec<Value> = vec![];
    let mut queue = vec![main_abs.to_string()];
    let mut seen: Vec<String> = vec![];
    let mut seen_pat: Vec<String> = vec![];
    while let Some(p) = queue.pop() {
        if seen.contains(&p) {
            continue;
        }
        seen.push(p.clone());
        let path = std::path::Path::new(&p);
        if !path.exists() {
            fs_tbl.push(json!([p, "missing"]));
            continue;
        }
        if path.is_dir() {
            fs_tbl.push(json!([p, "dir"]));
            continue;
        }
        let text = match std::fs::read_to_string(path) {
            Ok(t) => t,
            Err(_) => {
                fs_tbl.push(json!([p, "binary"]));
                continue;
            }
        };
        fs_tbl.push(json!([p, "file", text]));
        if let Value::Array(a) = re_valid_table(&text) {
            for e in a {
                if !re_tbl.contains(&e) {
                    re_tbl.push(e);
                }
            }
        }
        if let Ok(rs) = parse_with_name::<T>(&text, p.clone()) {
            for r in rs {
                if let Record::Include { filename, .. } = r {
                    let mut pb = path.to_path_buf();
                    pb.pop();
                    pb.push(filename.clone());
                    let complete = pb.as_os_str().to_string_lossy().to_string();
                    if seen_pat.contains(&complete) {
                        continue;
                    }
                    seen_pat.push(complete.clone());
                    match glob::glob(&complete) {
                        Err(_) => glob_tbl.push(json!([complete, "bad", []])),
                        Ok(it) => {
                            let mut ms = vec![];
                            let mut unreadable = false;
                            for m in it {
                                match m {
                                    Ok(pb) => ms.push(pb.as_os_str().to_string_lossy().to_string()),
                                    Err(_) => unreadable = true,
                                }
                            }
                            for m in &ms {
                                queue.push(m.clone());
                            }
                            glob_tbl.push(json!([complete, if unreadable { "unreadable" } else { "ok" }, ms]));
                        }
                    }
                }
            }
        }
    }
    (Value::Array(fs_tbl), Value::Array(glob_tbl), Value::Array(re_tbl))
}

/// family "file": parse_file / run_file on a real directory tree
fn file_family<T: ColumnType + 'static>(case: &Value) -> Value {
    let tree = Tree::create(&case["files"]);
    // "bare": the script is named by a bare relative path (no directory part) from the tree's root as working directory
    let bare = case.get("bare").and_then(|b| b.as_bool()).unwrap_or(false);
    let old_cwd = std::env::current_dir().ok();
    if bare {
        std::env::set_current_dir(&tree.root).unwrap();
    }
    let main_abs = if bare { case["main"].as_str().unwrap().to_string() } else { format!("{}{}", tree.prefix(), case["main"].as_str().unwrap()) };
    let mode = case.get("mode").and_then(|s| s.as_str()).unwrap_or("parse");
    let mut out = serde_json::Map::new();
    let (fs_tbl, glob_tbl, re_tbl) = fs_glob_tables::<T>(&main_abs);
    out.insert("fs".into(), fs_tbl);
    out.insert("glob".into(), glob_tbl);
    out.insert("re_valid".into(), re_tbl);
    let parsed = catch_unwind(AssertUnwindSafe(|| parse_file::<T>(&main_abs)));
    match &parsed {
        Err(_) => {
            out.insert("parse".into(), json!(["panic"]));
        }
        Ok(Ok(rs)) => {
            out.insert("parse".into(), json!(["ok", rs.iter().map(record_json).collect::<Vec<_>>()]));
            out.insert("oracle".into(), oracle_table(rs, case));
        }
        Ok(Err(e)) => {
            out.insert("parse".into(), parse_error_json(e));
        }
    }
    if mode == "run" {
        let shared = make_shared(case);
        set_current(Some(shared.clone()));
        let mut runner = Runner::new(MockMaker::<T>::new(shared.clone()));
        configure(case, &mut runner);
        let res = catch_unwind(AssertUnwindSafe(|| runner.run_file(&main_abs)));
        out.insert("final".into(), match res {
            Err(_) => json!(["panic"]),
            Ok(Ok(())) => json!(["ok"]),
            Ok(Err(e)) => test_error_json(&e),
        });
        runner.shutdown();
        drop(runner);
        set_current(None);
        out.insert("events".into(), Value::Array(shared.lock().unwrap().events.clone()));
    }
    if let (true, Some(d)) = (bare, old_cwd) {
        let _ = std::env::set_current_dir(d);
    }
    let v = strip_prefix_json(&Value::Object(out), &tree.prefix());
    drop(tree);
    v
}

/// family "update": Runner::update_test_file on a real tree, then run_file against the same
/// scripted database, then a second update.  Optional crash: the mock driver panics at request k.
fn update_family<T: ColumnType + 'static>(case: &Value) -> Value {
    let tree = Tree::create(&case["files"]);
    let main_abs = format!("{}{}", tree.prefix(), case["main"].as_str().unwrap());
    let sep = case.get("sep").and_then(|s| s.as_str()).unwrap_or(" ").to_string();
    let strict = case.get("strict_cols").and_then(|b| b.as_bool()).unwrap_or(false);
    let mut out = serde_json::Map::new();
    let (fs_tbl, glob_tbl, re_tbl) = fs_glob_tables::<T>(&main_abs);
    out.insert("fs".into(), fs_tbl);
    out.insert("glob".into(), glob_tbl);
    out.insert("re_valid".into(), re_tbl);
    let before = catch_unwind(AssertUnwindSafe(|| parse_file::<T>(&main_abs)));
    match &before {
        Ok(Ok(rs)) => {
            out.insert("parse".into(), json!(["ok", rs.iter().map(record_json).collect::<Vec<_>>()]));
            out.insert("oracle".into(), oracle_table(rs, case));
        }
        Ok(Err(e)) => {
            out.insert("parse".into(), parse_error_json(e));
        }
        Err(_) => {
            out.insert("parse".into(), json!(["panic"]));
        }
    }
    let originals: Vec<(String, Vec<u8>)> = {
        let mut v = vec![];
        if let Value::Array(a) = tree.listing() {
            for e in a {
                let rel = e[0].as_str().unwrap().to_string();
                let bytes = std::fs::read(tree.root.join(&rel)).unwrap();
                v.push((rel, bytes));
            }
        }
        v
    };
    // verdict of every record of the original file against the same database (Runner::run per record,
    // no retry clauses in the generated files that use this), up to the first halt
    if case.get("judge_before").and_then(|b| b.as_bool()).unwrap_or(false) {
        if let Ok(Ok(rs)) = &before {
            let shared = make_shared(case);
            set_current(Some(shared.clone()));
            let mut runner = Runner::new(MockMaker::<T>::new(shared.clone()));
            configure(case, &mut runner);
            let mut verdicts = vec![];
            // "after halt" is what the property says: every record after the first halt of the flattened script, in whichever
            // file it lies (a run stops there).  An earlier version of this oracle scoped the halt per file, copying the
            // updater's stack of flags, and so hid defect D18.
            let mut halted = false;
            for r in rs.iter() {
                match r {
                    Record::Injected(Injected::BeginInclude(_)) | Record::Injected(Injected::EndInclude(_)) => { verdicts.push(json!("marker")); continue; }
                    _ => {}
                }
                if halted { verdicts.push(json!("after-halt")); continue; }
                if let Record::Halt { .. } = r { halted = true; verdicts.push(json!("halt")); continue; }
                let res = catch_unwind(AssertUnwindSafe(|| runner.run(r.clone())));
                verdicts.push(match res {
                    Ok(Ok(o)) => json!(["ok", output_json(&o)]),
                    Ok(Err(e)) => test_error_json(&e),
                    Err(_) => json!(["panic"]),
                });
            }
            drop(runner);
            set_current(None);
            out.insert("verdicts_before".into(), Value::Array(verdicts));
        }
    }
    let cv: ColumnTypeValidator<T> = if strict { strict_column_validator } else { default_column_validator };
    let do_update = |answers_case: &Value, snapshots: Option<Arc<Mutex<Vec<Value>>>>| -> (Value, Value) {
        let shared = make_shared(answers_case);
        if let Some(snaps) = snapshots {
            let root = tree.root.clone();
            let orig = originals.clone();
            shared.lock().unwrap().on_request = Some(Box::new(move |k| {
                // which original files differ from their old content right now?
                for (rel, old) in &orig {
                    let cur = std::fs::read(root.join(rel)).unwrap_or_default();
                    if &cur != old {
                        snaps.lock().unwrap().push(json!([k, rel, String::from_utf8_lossy(&cur)]));
                    }
                }
            }));
        }
        set_current(Some(shared.clone()));
        let mut runner = Runner::new(MockMaker::<T>::new(shared.clone()));
        configure(answers_case, &mut runner);
        let res = catch_unwind(AssertUnwindSafe(|| {
            futures::executor::block_on(runner.update_test_file(&main_abs, &sep, default_validator, default_normalizer, cv))
                .map_err(|e| e.to_string())
        }));
        let r = match res {
            Ok(Ok(())) => json!(["ok"]),
            Ok(Err(e)) => json!(["err", e]),
            Err(_) => json!(["panic"]),
        };
        let _ = catch_unwind(AssertUnwindSafe(|| runner.shutdown()));
        drop(runner);
        set_current(None);
        shared.lock().unwrap().on_request = None;
        let ev = Value::Array(shared.lock().unwrap().events.clone());
        (r, ev)
    };
    let snaps = Arc::new(Mutex::new(vec![]));
    let (r1, ev1) = do_update(case, Some(snaps.clone()));
    out.insert("update1".into(), r1.clone());
    out.insert("events1".into(), ev1);
    out.insert("snapshots".into(), Value::Array(snaps.lock().unwrap().clone()));
    out.insert("listing1".into(), tree.listing());
    if r1 == json!(["ok"]) && case.get("panic_at").is_none() {
        let after = catch_unwind(AssertUnwindSafe(|| parse_file::<T>(&main_abs)));
        out.insert("parse_after".into(), match &after {
            Ok(Ok(rs)) => json!(["ok", rs.iter().map(record_json).collect::<Vec<_>>()]),
            Ok(Err(e)) => parse_error_json(e),
            Err(_) => json!(["panic"]),
        });
        // run the updated file against the same database from the same initial state
        let shared = make_shared(case);
        set_current(Some(shared.clone()));
        let mut runner = Runner::new(MockMaker::<T>::new(shared.clone()));
        configure(case, &mut runner);
        let res = catch_unwind(AssertUnwindSafe(|| runner.run_file(&main_abs)));
        out.insert("run".into(), match res {
            Err(_) => json!(["panic"]),
            Ok(Ok(())) => json!(["ok"]),
            Ok(Err(e)) => test_error_json(&e),
        });
        runner.shutdown();
        drop(runner);
        set_current(None);
        out.insert("events_run".into(), Value::Array(shared.lock().unwrap().events.clone()));
        let (r2, _) = do_update(case, None);
        out.insert("update2".into(), r2);
        out.insert("listing2".into(), tree.listing());
    }
    let v = strip_prefix_json(&Value::Object(out), &tree.prefix());
    drop(tree);
    v
}

/// family "testdir": two runners alive at once; what `$__TEST_DIR__` expands to (C13)
fn testdir_family(_case: &Value) -> Value {
    let script = "control substitution on\n\nstatement ok\nA $__TEST_DIR__\n\nstatement ok\nB $__TEST_DIR__\n\nsystem ok\necho $__TEST_DIR__\n";
    let mk = || {
        let shared = Arc::new(Mutex::new(Shared::default()));
        let runner = Runner::new(MockMaker::<DefaultColumnType>::new(shared.clone()));
        (shared, runner)
    };
    let dirs_of = |shared: &Arc<Mutex<Shared>>| -> Vec<String> {
        shared.lock().unwrap().events.iter().filter_map(|e| {
            let a = e.as_array()?;
            match a[0].as_str()? {
                "sql" => Some(a[2].as_str()?[2..].to_string()),
                "cmd" => Some(a[3].as_str()?[5..].to_string()),
                _ => None,
            }
        }).collect()
    };
    let (s1, mut r1) = mk();
    let (s2, mut r2) = mk();
    set_current(Some(s1.clone()));
    let ok1 = r1.run_script(script).is_ok();
    set_current(Some(s2.clone()));
    let ok2 = r2.run_script(script).is_ok();
    set_current(None);
    let d1 = dirs_of(&s1);
    let d2 = dirs_of(&s2);
    let same1 = d1.len() == 3 && d1.iter().all(|d| d == &d1[0]);
    let same2 = d2.len() == 3 && d2.iter().all(|d| d == &d2[0]);
    let distinct = !d1.is_empty() && !d2.is_empty() && d1[0] != d2[0];
    let exist_alive = d1.iter().chain(d2.iter()).all(|d| std::path::Path::new(d).is_dir());
    // "for as long as the runner lives": shutting the sessions down does not end the runner's life - the directory is still there,
    // and records run afterwards still see the same one (with what was written into it)
    let mut after_shutdown = true;
    if let Some(d) = d1.first() {
        let _ = std::fs::write(std::path::Path::new(d).join("kept.txt"), b"x");
        r1.shutdown();
        after_shutdown &= std::path::Path::new(d).join("kept.txt").is_file();
        set_current(Some(s1.clone()));
        let n0 = dirs_of(&s1).len();
        let ok3 = r1.run_script("control substitution on\n\nstatement ok\nC $__TEST_DIR__\n").is_ok();
        set_current(None);
        let d3 = dirs_of(&s1);
        after_shutdown &= ok3 && d3.len() == n0 + 1 && d3.last() == Some(d) && std::path::Path::new(d).join("kept.txt").is_file();
    }
    drop(r1);
    let gone1 = !d1.is_empty() && !std::path::Path::new(&d1[0]).exists();
    let still2 = !d2.is_empty() && std::path::Path::new(&d2[0]).is_dir();
    drop(r2);
    let gone2 = !d2.is_empty() && !std::path::Path::new(&d2[0]).exists();
    // the library's run_parallel: one runner per file, each with its own test directory
    let par = parallel_testdirs();
    json!({"ok": ok1 && ok2, "same_within_runner": same1 && same2, "distinct_between_runners": distinct,
           "exist_while_alive": exist_alive, "same_after_shutdown": after_shutdown, "removed_on_drop": gone1 && gone2, "other_survives_drop": still2,
           "parallel_runners_distinct": par.0, "parallel_dirs_removed": par.1})
}

static PAR_SHARED: std::sync::OnceLock<Arc<Mutex<Shared>>> = std::sync::OnceLock::new();

fn par_builder(_host: String, db: String) -> std::future::Ready<MockDb<DefaultColumnType>> {
    let shared = PAR_SHARED.get().unwrap().clone();
    let id = {
        let mut sh = shared.lock().unwrap();
        let id = sh.next_conn;
        sh.next_conn += 1;
        sh.events.push(json!(["connect-db", id, db]));
        id
    };
    std::future::ready(MockDb::new_raw(shared, id))
}

fn parallel_testdirs() -> (bool, bool) {
    let tree = Tree::create(&json!([
        ["p/a.slt", "file", "control substitution on\n\nstatement ok\nP $__TEST_DIR__\n\nstatement ok\nQ $__TEST_DIR__\n"],
        ["p/b.slt", "file", "control substitution on\n\nstatement ok\nP $__TEST_DIR__\n"],
        ["p/c.slt", "file", "control substitution on\n\nstatement ok\nP $__TEST_DIR__\n"]
    ]));
    let shared = PAR_SHARED.get_or_init(|| Arc::new(Mutex::new(Shared::default()))).clone();
    shared.lock().unwrap().events.clear();
    set_current(Some(shared.clone()));
    let mut runner = Runner::new(MockMaker::<DefaultColumnType>::new(shared.clone()));
    let glob = format!("{}p/*.slt", tree.prefix());
    let res = catch_unwind(AssertUnwindSafe(|| runner.run_parallel(&glob, vec!["h".to_string()], par_builder, 2)));
    set_current(None);
    let mut dirs: Vec<(usize, String)> = vec![];
    for e in shared.lock().unwrap().events.iter() {
        let a = e.as_array().unwrap();
        if a[0] == "sql" {
            let t = a[2].as_str().unwrap();
            if t.starts_with("P ") || t.starts_with("Q ") {
                dirs.push((a[1].as_u64().unwrap() as usize, t[2..].to_string()));
            }
        }
    }
    let mut per_conn: std::collections::BTreeMap<usize, Vec<String>> = Default::default();
    for (id, d) in &dirs {
        per_conn.entry(*id).or_default().push(d.clone());
    }
    let stable = per_conn.values().all(|v| v.iter().all(|d| d == &v[0]));
    let firsts: Vec<&String> = per_conn.values().map(|v| &v[0]).collect();
    let mut uniq = firsts.clone();
    uniq.sort();
    uniq.dedup();
    let distinct = res.is_ok() && stable && per_conn.len() == 3 && uniq.len() == 3;
    drop(runner);
    let removed = !dirs.is_empty() && dirs.iter().all(|(_, d)| !std::path::Path::new(d).exists());
    (distinct, removed)
}

fn fake_engine_path() -> String {
    std::env::var("FAKE_ENGINE").unwrap_or_else(|_| {
        std::env::current_exe().unwrap().parent().unwrap().join("fake-engine").to_string_lossy().to_string()
    })
}

/// family "driver": ExternalDriver against a scripted child (C20)
fn driver_family(case: &Value) -> Value {
    use sqllogictest_engines::external::{ExternalDriver, ExternalDriverError};
    let n = TREE_COUNTER.fetch_add(1, std::sync::atomic::Ordering::SeqCst);
    let base = std::env::var("SLT_HARNESS_TMP").unwrap_or_else(|_| "/verif/.cache/tmp".to_string());
    let dir = format!("{}/d{}_{}", base, std::process::id(), n);
    std::fs::create_dir_all(&dir).unwrap();
    let script = format!("{dir}/script.json");
    let logp = format!("{dir}/log.jsonl");
    std::fs::write(&script, serde_json::to_string(&case["script"]).unwrap()).unwrap();
    let timeout = std::time::Duration::from_millis(case.get("timeout_ms").and_then(|t| t.as_u64()).unwrap_or(3000));
    let rt = tokio::runtime::Builder::new_current_thread().enable_all().build().unwrap();
    let out = rt.block_on(async {
        let mut cmd = tokio::process::Command::new(fake_engine_path());
        cmd.args(["raw", &script, &logp]);
        let mut calls = vec![];
        let mut drv = match ExternalDriver::connect(cmd).await {
            Ok(d) => d,
            Err(e) => return json!({"connect": ["err", e.to_string()]}),
        };
        let mut hung = false;
        for sql in case["requests"].as_array().unwrap() {
            let sql = sql.as_str().unwrap();
            match tokio::time::timeout(timeout, drv.run(sql)).await {
                Err(_) => {
                    calls.push(json!(["timeout"]));
                    hung = true;
                    break;
                }
                Ok(Ok(DBOutput::Rows { rows, .. })) => calls.push(json!(["rows", rows])),
                Ok(Ok(DBOutput::StatementComplete(n))) => calls.push(json!(["complete", n])),
                Ok(Ok(_)) => calls.push(json!(["other"])),
                Ok(Err(e)) => {
                    let class = match &e {
                        ExternalDriverError::Sql(_) => "sql",
                        ExternalDriverError::Json(_) => "json",
                        ExternalDriverError::Io(_) => "io",
                    };
                    let text = match &e {
                        ExternalDriverError::Sql(t) => t.clone(),
                        _ => String::new(),
                    };
                    calls.push(json!(["err", class, text]));
                }
            }
        }
        let mut shutdown = json!(null);
        if !hung && case.get("shutdown").and_then(|b| b.as_bool()).unwrap_or(true) {
            shutdown = match tokio::time::timeout(timeout, drv.shutdown()).await {
                Ok(()) => json!("ok"),
                Err(_) => json!("timeout"),
            };
        }
        drop(drv);
        json!({"calls": calls, "shutdown": shutdown})
    });
    // give a killed child a moment, then read what it saw
    std::thread::sleep(std::time::Duration::from_millis(30));
    let mut received = vec![];
    let mut saw_eof = false;
    if let Ok(l) = std::fs::read_to_string(&logp) {
        for line in l.lines() {
            if let Ok(v) = serde_json::from_str::<Value>(line) {
                match v["ev"].as_str() {
                    Some("SQL") => received.push(json!([v["req"], v["raw"]])),
                    Some("EOF") => saw_eof = true,
                    _ => {}
                }
            }
        }
    }
    let _ = std::fs::remove_dir_all(&dir);
    let mut o = out.as_object().cloned().unwrap_or_default();
    o.insert("received".into(), Value::Array(received));
    o.insert("child_saw_eof".into(), json!(saw_eof));
    Value::Object(o)
}

/// family "parlib": the library's Runner::run_parallel with a logging connection builder (C17, known finding D10)
fn parlib_family(_case: &Value) -> Value {
    if let Some(thr) = _case.get("threshold").and_then(|t| t.as_u64()) {
        // C15: a threshold set through the API applies to the files run by run_parallel as well
        let line = _case["hash_line"].as_str().unwrap_or("");
        let body_hashed = format!("query II\nselect 1\n----\n{line}\n");
        let body_full = "query II\nselect 1\n----\n1 2\n3 4\n".to_string();
        let tree = Tree::create(&json!([["h/one.slt", "file", body_hashed], ["h/two.slt", "file", body_hashed]]));
        let treef = Tree::create(&json!([["f/one.slt", "file", body_full]]));
        let shared = PAR_SHARED.get_or_init(|| Arc::new(Mutex::new(Shared::default()))).clone();
        let mut out = serde_json::Map::new();
        for (name, t, glob) in [("hashed_with_threshold", thr as usize, format!("{}h/*.slt", tree.prefix())),
                                ("full_with_threshold", thr as usize, format!("{}f/*.slt", treef.prefix())),
                                ("full_without_threshold", 0usize, format!("{}f/*.slt", treef.prefix())),
                                ("hashed_without_threshold", 0usize, format!("{}h/*.slt", tree.prefix()))] {
            {
                let mut sh = shared.lock().unwrap();
                sh.events.clear();
                sh.answers.clear();
                sh.calls = 0;
                sh.default = Some(Ans::Rows { types: "II".to_string(), rows: vec![vec!["1".into(), "2".into()], vec!["3".into(), "4".into()]] });
            }
            set_current(Some(shared.clone()));
            let mut runner = Runner::new(MockMaker::<DefaultColumnType>::new(shared.clone()));
            if t > 0 {
                runner.with_hash_threshold(t);
            }
            let res = catch_unwind(AssertUnwindSafe(|| runner.run_parallel(&glob, vec!["h".to_string()], par_builder, 2)));
            drop(runner);
            set_current(None);
            out.insert(name.to_string(), json!(match res { Ok(Ok(())) => "pass".to_string(), Ok(Err(e)) => format!("fail: {e}").chars().take(300).collect(), Err(_) => "panic".to_string() }));
        }
        shared.lock().unwrap().default = None;
        return Value::Object(out);
    }
    let tree = Tree::create(&json!([
        ["p/a-b.slt", "file", "statement ok\nselect A\n"],
        ["p/a_b.slt", "file", "statement ok\nselect B\n"],
        ["p/c.slt", "file", "connection x\nstatement ok\nselect C\n"]
    ]));
    let shared = PAR_SHARED.get_or_init(|| Arc::new(Mutex::new(Shared::default()))).clone();
    shared.lock().unwrap().events.clear();
    set_current(Some(shared.clone()));
    let mut runner = Runner::new(MockMaker::<DefaultColumnType>::new(shared.clone()));
    let glob = format!("{}p/*.slt", tree.prefix());
    let res = catch_unwind(AssertUnwindSafe(|| runner.run_parallel(&glob, vec!["h".to_string()], par_builder, 2)));
    runner.shutdown();
    drop(runner);
    set_current(None);
    let evs = shared.lock().unwrap().events.clone();
    let count = |p: &dyn Fn(&Value) -> bool| evs.iter().filter(|e| p(e)).count();
    let creates = count(&|e| e[0] == "sql" && e[2].as_str().unwrap_or("").starts_with("CREATE DATABASE"));
    let drops = count(&|e| e[0] == "sql" && e[2].as_str().unwrap_or("").starts_with("DROP DATABASE"));
    let connects = count(&|e| e[0] == "connect-db");
    let shutdowns = count(&|e| e[0] == "shutdown").saturating_sub(1); // minus the parent's own default session
    let mut dbs: Vec<String> = evs.iter().filter(|e| e[0] == "connect-db").map(|e| e[2].as_str().unwrap().to_string()).collect();
    dbs.sort();
    let distinct = { let mut d = dbs.clone(); d.dedup(); d.len() };
    // second observation: `$__DATABASE__` names the file's own database on every connection of that file, also when the
    // parent runner carries variables of its own (set_var), including one called __DATABASE__
    let tree2 = Tree::create(&json!([
        ["q/alpha.slt", "file", "control substitution on\n\nstatement ok\nDB=$__DATABASE__\n\nconnection other\nstatement ok\nDB=$__DATABASE__\n"],
        ["q/beta.slt", "file", "control substitution on\n\nstatement ok\nDB=${__DATABASE__}\n"]
    ]));
    shared.lock().unwrap().events.clear();
    set_current(Some(shared.clone()));
    let mut runner2 = Runner::new(MockMaker::<DefaultColumnType>::new(shared.clone()));
    runner2.set_var("__DATABASE__".to_string(), "main".to_string());
    runner2.set_var("foo".to_string(), "bar".to_string());
    let glob2 = format!("{}q/*.slt", tree2.prefix());
    let res2 = catch_unwind(AssertUnwindSafe(|| runner2.run_parallel(&glob2, vec!["h".to_string()], par_builder, 2)));
    drop(runner2);
    set_current(None);
    let evs2 = shared.lock().unwrap().events.clone();
    let mut db_of: std::collections::HashMap<u64, String> = std::collections::HashMap::new();
    let mut mismatches = vec![];
    let mut seen = 0;
    for e in evs2.iter() {
        if e[0] == "connect-db" {
            db_of.insert(e[1].as_u64().unwrap(), e[2].as_str().unwrap().to_string());
        } else if e[0] == "sql" {
            let t = e[2].as_str().unwrap_or("");
            if let Some(rest) = t.strip_prefix("DB=") {
                seen += 1;
                let name = rest.split(' ').next().unwrap_or("");
                let own = db_of.get(&e[1].as_u64().unwrap()).cloned().unwrap_or_default();
                if name != own {
                    mismatches.push(json!([t, own]));
                }
            }
        }
    }
    json!({"ok": res.map(|r| r.is_ok()).unwrap_or(false), "creates": creates, "drops": drops, "connects": connects,
           "shutdowns": shutdowns, "distinct_db_names": distinct,
           "dbvar_ok": res2.map(|r| r.is_ok()).unwrap_or(false), "dbvar_seen": seen, "dbvar_mismatches": mismatches})
}

fn dispatch(family: &str, case: &Value) -> Value {
    match family {
        "driver" => driver_family(case),
        "testdir" => testdir_family(case),
        "parlib" => parlib_family(case),
        "update" => {
            if case.get("coltype").and_then(|s| s.as_str()) == Some("two") {
                update_family::<TwoType>(case)
            } else {
                update_family::<DefaultColumnType>(case)
            }
        }
        "file" => {
            if case.get("coltype").and_then(|s| s.as_str()) == Some("two") {
                file_family::<TwoType>(case)
            } else {
                file_family::<DefaultColumnType>(case)
            }
        }
        "format" => {
            if case.get("coltype").and_then(|s| s.as_str()) == Some("two") {
                format_family::<TwoType>(case)
            } else {
                format_family::<DefaultColumnType>(case)
            }
        }
        "parse" => {
            if case.get("coltype").and_then(|s| s.as_str()) == Some("two") {
                parse_family::<TwoType>(case)
            } else {
                parse_family::<DefaultColumnType>(case)
            }
        }
        "run" => {
            if case.get("coltype").and_then(|s| s.as_str()) == Some("two") {
                run_family::<TwoType>(case)
            } else {
                run_family::<DefaultColumnType>(case)
            }
        }
        f => panic!("unknown family {f}"),
    }
}

/// replace the per-runner test directory and the __NOW__ timestamp by placeholders
fn canon_dynamic(v: &Value, re_testdir: &regex::Regex, re_now: &regex::Regex) -> Value {
    match v {
        Value::String(s) => {
            let a = re_testdir.replace_all(s, "<TESTDIR>");
            Value::String(re_now.replace_all(&a, "<NOW>").to_string())
        }
        Value::Array(a) => Value::Array(a.iter().map(|x| canon_dynamic(x, re_testdir, re_now)).collect()),
        Value::Object(o) => Value::Object(o.iter().map(|(k, x)| (k.clone(), canon_dynamic(x, re_testdir, re_now))).collect()),
        x => x.clone(),
    }
}

fn main() {
    let family = std::env::args().nth(1).expect("usage: slt-impl <family>");
    std::panic::set_hook(Box::new(|_| {}));
    // per-runner test directories are created below a known directory so that they can be canonicalised
    let td = std::env::var("SLT_HARNESS_TMP").unwrap_or_else(|_| "/verif/.cache/tmp".to_string()) + "/td";
    std::fs::create_dir_all(&td).unwrap();
    std::env::set_var("TMPDIR", &td);
    let re_testdir = regex::Regex::new(&format!("{}/\\.tmp[A-Za-z0-9]{{6}}", regex::escape(&td))).unwrap();
    // __NOW__ is the current time in nanoseconds (19 digits): match on its current 4-digit prefix
    let now = std::time::SystemTime::now().duration_since(std::time::UNIX_EPOCH).unwrap().as_nanos().to_string();
    let re_now = regex::Regex::new(&format!("{}[0-9]{{15}}", &now[..4])).unwrap();
    let stdin = std::io::stdin();
    let stdout = std::io::stdout();
    let mut w = std::io::BufWriter::new(stdout.lock());
    for line in stdin.lock().lines() {
        let line = line.unwrap();
        if line.trim().is_empty() {
            continue;
        }
        let case: Value = serde_json::from_str(&line).expect("bad case json");
        // process environment for this case (substitution falls back to it)
        let mut env_set: Vec<String> = vec![];
        if let Some(env) = case.get("env").and_then(|e| e.as_array()) {
            for kv in env {
                let k = kv[0].as_str().unwrap().to_string();
                std::env::set_var(&k, kv[1].as_str().unwrap());
                env_set.push(k);
            }
        }
        let res = catch_unwind(AssertUnwindSafe(|| dispatch(&family, &case)));
        for k in env_set {
            std::env::remove_var(k);
        }
        let res = res.map(|v| canon_dynamic(&v, &re_testdir, &re_now));
        let v = match res {
            Ok(v) => v,
            Err(p) => {
                set_current(None);
                let msg = p
                    .downcast_ref::<String>()
                    .cloned()
                    .or_else(|| p.downcast_ref::<&str>().map(|s| s.to_string()))
                    .unwrap_or_default();
                json!({ "panic": msg })
            }
        };
        writeln!(w, "{}", serde_json::to_string(&v).unwrap()).unwrap();
    }
    let _ = HashSet::<u8>::new();
}
