//! Scripted mock database / connection maker / shell.  All observation points
//! are public traits of the library (AsyncDB incl. its `sleep` and
//! `run_command` hooks, MakeConnection); nothing in /repo is instrumented.
use async_trait::async_trait;
use serde_json::{json, Value};
use sqllogictest::*;
use std::cell::RefCell;
use std::collections::HashSet;
use std::marker::PhantomData;
use std::os::unix::process::ExitStatusExt;
use std::sync::{Arc, Mutex};
use std::time::Duration;

#[derive(Clone, Debug)]
pub enum Ans {
    Rows { types: String, rows: Vec<Vec<String>> },
    Complete(u64),
    Err(String),
    /// rows [[connection id, per-connection call index]] — a per-session counter
    Echo,
    Panic,
}

#[derive(Clone, Debug)]
pub enum SysAns {
    Exit { code: i32, stdout: String, stderr: String },
    SpawnErr,
}

pub fn parse_ans(v: &Value) -> Ans {
    let a = v.as_array().expect("answer must be a list");
    match a[0].as_str().unwrap() {
        "rows" => Ans::Rows {
            types: a[1].as_str().unwrap().to_string(),
            rows: a[2]
                .as_array()
                .unwrap()
                .iter()
                .map(|r| r.as_array().unwrap().iter().map(|s| s.as_str().unwrap().to_string()).collect())
                .collect(),
        },
        "complete" => Ans::Complete(a[1].as_u64().unwrap()),
        "err" => Ans::Err(a[1].as_str().unwrap().to_string()),
        "echo" => Ans::Echo,
        "panic" => Ans::Panic,
        x => panic!("unknown answer tag {x}"),
    }
}

pub fn parse_sys(v: &Value) -> SysAns {
    let a = v.as_array().expect("sys answer must be a list");
    match a[0].as_str().unwrap() {
        "exit" => SysAns::Exit {
            code: a[1].as_i64().unwrap() as i32,
            stdout: a[2].as_str().unwrap().to_string(),
            stderr: a.get(3).and_then(|s| s.as_str()).unwrap_or("").to_string(),
        },
        "spawnerr" => SysAns::SpawnErr,
        x => panic!("unknown sys tag {x}"),
    }
}

#[derive(Default)]
pub struct Shared {
    pub answers: Vec<Ans>,
    pub default: Option<Ans>,
    pub calls: usize,
    pub events: Vec<Value>,
    pub makes: usize,
    pub make_fail: HashSet<usize>,
    pub sys: Vec<SysAns>,
    pub sys_default: Option<SysAns>,
    pub sys_calls: usize,
    pub engine_name: String,
    pub next_conn: usize,
    /// hook called at each database request (used for crash-point snapshots)
    pub on_request: Option<Box<dyn FnMut(usize) + Send>>,
}

thread_local! {
    pub static CUR: RefCell<Option<Arc<Mutex<Shared>>>> = RefCell::new(None);
}

pub fn set_current(s: Option<Arc<Mutex<Shared>>>) {
    CUR.with(|c| *c.borrow_mut() = s);
}
fn with_current<R>(f: impl FnOnce(&mut Shared) -> R) -> Option<R> {
    CUR.with(|c| c.borrow().as_ref().map(|s| f(&mut s.lock().unwrap())))
}

#[derive(Debug)]
pub struct MockError(pub String);
impl std::fmt::Display for MockError {
    fn fmt(&self, f: &mut std::fmt::Formatter<'_>) -> std::fmt::Result {
        write!(f, "{}", self.0)
    }
}
impl std::error::Error for MockError {}

pub struct MockDb<T> {
    pub shared: Arc<Mutex<Shared>>,
    pub id: usize,
    pub calls: usize,
    pub engine_name: String,
    _p: PhantomData<T>,
}

impl<T> MockDb<T> {
    pub fn new_raw(shared: Arc<Mutex<Shared>>, id: usize) -> Self {
        MockDb { shared, id, calls: 0, engine_name: String::new(), _p: PhantomData }
    }
}

pub fn types_of<T: ColumnType>(s: &str) -> Vec<T> {
    s.chars().filter_map(|c| T::from_char(c)).collect()
}

#[async_trait]
impl<T: ColumnType + 'static> AsyncDB for MockDb<T> {
    type Error = MockError;
    type ColumnType = T;

    async fn run(&mut self, sql: &str) -> Result<DBOutput<T>, MockError> {
        let ans = {
            let mut sh = self.shared.lock().unwrap();
            let k = sh.calls;
            sh.calls += 1;
            sh.events.push(json!(["sql", self.id, sql]));
            if let Some(mut h) = sh.on_request.take() {
                h(k);
                sh.on_request = Some(h);
            }
            sh.answers.get(k).cloned().or_else(|| sh.default.clone()).unwrap_or(Ans::Complete(0))
        };
        let my = self.calls;
        self.calls += 1;
        match ans {
            Ans::Rows { types, rows } => Ok(DBOutput::Rows { types: types_of::<T>(&types), rows }),
            Ans::Complete(n) => Ok(DBOutput::StatementComplete(n)),
            Ans::Err(m) => Err(MockError(m)),
            Ans::Echo => Ok(DBOutput::Rows {
                types: types_of::<T>("II"),
                rows: vec![vec![self.id.to_string(), my.to_string()]],
            }),
            Ans::Panic => panic!("mock database driver panic"),
        }
    }

    async fn shutdown(&mut self) {
        self.shared.lock().unwrap().events.push(json!(["shutdown", self.id]));
    }

    fn engine_name(&self) -> &str {
        &self.engine_name
    }

    async fn sleep(dur: Duration) {
        with_current(|sh| sh.events.push(json!(["sleep", dur.as_secs(), dur.subsec_nanos()])));
    }

    async fn run_command(command: std::process::Command) -> std::io::Result<std::process::Output> {
        let ans = with_current(|sh| {
            let k = sh.sys_calls;
            sh.sys_calls += 1;
            let mut ev = vec![json!("cmd"), json!(command.get_program().to_string_lossy())];
            for a in command.get_args() {
                ev.push(json!(a.to_string_lossy()));
            }
            sh.events.push(Value::Array(ev));
            sh.sys.get(k).cloned().or_else(|| sh.sys_default.clone())
        })
        .flatten();
        match ans {
            Some(SysAns::Exit { code, stdout, stderr }) => Ok(std::process::Output {
                status: std::process::ExitStatus::from_raw((code & 0xff) << 8),
                stdout: stdout.into_bytes(),
                stderr: stderr.into_bytes(),
            }),
            Some(SysAns::SpawnErr) => Err(std::io::Error::new(std::io::ErrorKind::NotFound, "spawn failed")),
            None => Ok(std::process::Output {
                status: std::process::ExitStatus::from_raw(0),
                stdout: vec![],
                stderr: vec![],
            }),
        }
    }
}

pub struct MockMaker<T> {
    pub shared: Arc<Mutex<Shared>>,
    _p: PhantomData<T>,
}

impl<T> MockMaker<T> {
    pub fn new(shared: Arc<Mutex<Shared>>) -> Self {
        MockMaker { shared, _p: PhantomData }
    }
}

impl<T: ColumnType + 'static> MakeConnection for MockMaker<T> {
    type Conn = MockDb<T>;
    type MakeFuture = std::future::Ready<Result<MockDb<T>, MockError>>;

    fn make(&mut self) -> Self::MakeFuture {
        let mut sh = self.shared.lock().unwrap();
        let k = sh.makes;
        sh.makes += 1;
        if sh.make_fail.contains(&k) {
            sh.events.push(json!(["connect-fail", k]));
            return std::future::ready(Err(MockError(format!("connect failed {k}"))));
        }
        let id = sh.next_conn;
        sh.next_conn += 1;
        sh.events.push(json!(["connect", id]));
        let engine_name = sh.engine_name.clone();
        drop(sh);
        std::future::ready(Ok(MockDb {
            shared: self.shared.clone(),
            id,
            calls: 0,
            engine_name,
            _p: PhantomData,
        }))
    }
}

/// A column type with a *partial* from_char (DefaultColumnType accepts everything).
#[derive(Debug, PartialEq, Eq, Clone)]
pub enum TwoType {
    Text,
    Int,
}
impl ColumnType for TwoType {
    fn from_char(c: char) -> Option<Self> {
        match c {
            'T' => Some(TwoType::Text),
            'I' => Some(TwoType::Int),
            _ => None,
        }
    }
    fn to_char(&self) -> char {
        match self {
            TwoType::Text => 'T',
            TwoType::Int => 'I',
        }
    }
}
