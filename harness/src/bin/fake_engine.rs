//! fake-engine: a scripted child process standing in for a database engine behind
//! `sqllogictest --engine external` / `ExternalDriver`.
//!
//!   fake-engine raw <script.json> <log>          (C20: scripted reply bytes, chunking, truncation)
//!   fake-engine engine <scenario.json> <log> <db> (C16-C19: SQL-keyed replies, latencies, faults, signals)
//!
//! Every observable goes to <log> as one appended line of JSON (O_APPEND, one write each):
//!   {"t": monotonic ns, "pid": .., "db": .., "ev": "START"|"SQL"|"EOF"|"EXIT", "sql": ..}
use serde_json::{json, Value};
use std::io::{Read, Write};

fn now_ns() -> u128 {
    let mut ts = libc::timespec { tv_sec: 0, tv_nsec: 0 };
    unsafe { libc::clock_gettime(libc::CLOCK_MONOTONIC, &mut ts) };
    ts.tv_sec as u128 * 1_000_000_000 + ts.tv_nsec as u128
}

fn log(path: &str, v: Value) {
    let mut f = std::fs::OpenOptions::new().create(true).append(true).open(path).unwrap();
    let mut line = serde_json::to_string(&v).unwrap();
    line.push('\n');
    f.write_all(line.as_bytes()).unwrap();
}

/// read the next JSON value from stdin (requests are written back to back without delimiter)
fn next_request(buf: &mut Vec<u8>) -> Option<(Value, Vec<u8>)> {
    let mut stdin = std::io::stdin();
    loop {
        {
            let mut it = serde_json::Deserializer::from_slice(buf).into_iter::<Value>();
            match it.next() {
                Some(Ok(v)) => {
                    let n = it.byte_offset();
                    let raw = buf[..n].to_vec();
                    buf.drain(..n);
                    return Some((v, raw));
                }
                Some(Err(e)) if !e.is_eof() => {
                    // not JSON: hand the raw bytes over as they are
                    let raw = std::mem::take(buf);
                    return Some((Value::Null, raw));
                }
                _ => {}
            }
        }
        let mut chunk = [0u8; 4096];
        match stdin.read(&mut chunk) {
            Ok(0) | Err(_) => return None,
            Ok(n) => buf.extend_from_slice(&chunk[..n]),
        }
    }
}

fn sleep_ms(ms: u64) {
    if ms > 0 {
        std::thread::sleep(std::time::Duration::from_millis(ms));
    }
}

/// the pid of the sqllogictest CLI among our ancestors (bash -c may or may not exec us directly)
fn cli_pid() -> Option<i32> {
    let mut pid = unsafe { libc::getppid() };
    for _ in 0..6 {
        let comm = std::fs::read_to_string(format!("/proc/{pid}/comm")).unwrap_or_default();
        if comm.trim() == "sqllogictest" {
            return Some(pid);
        }
        let stat = std::fs::read_to_string(format!("/proc/{pid}/stat")).ok()?;
        let after = stat.rsplit(')').next()?.split_whitespace().nth(1)?.parse::<i32>().ok()?;
        if after <= 1 {
            return None;
        }
        pid = after;
    }
    None
}

fn raw_mode(script_path: &str, logp: &str) {
    let script: Value = serde_json::from_str(&std::fs::read_to_string(script_path).unwrap()).unwrap();
    let pid = std::process::id();
    log(logp, json!({"t": now_ns().to_string(), "pid": pid, "ev": "START"}));
    let mode = script["mode"].as_str().unwrap_or("lockstep");
    let replies = script["replies"].as_array().cloned().unwrap_or_default();
    let mut out = std::io::stdout();
    let write_reply = |out: &mut std::io::Stdout, r: &Value| -> bool {
        // r = {"chunks": [[bytes...], ...], "delay_ms": n, "then": "close"|"exit"|null}
        for ch in r["chunks"].as_array().unwrap() {
            let bytes: Vec<u8> = ch.as_array().unwrap().iter().map(|b| b.as_u64().unwrap() as u8).collect();
            if out.write_all(&bytes).is_err() || out.flush().is_err() {
                return false;
            }
            sleep_ms(r["delay_ms"].as_u64().unwrap_or(0));
        }
        match r["then"].as_str() {
            Some("exit") => {
                log(logp, json!({"t": now_ns().to_string(), "pid": pid, "ev": "EXIT"}));
                std::process::exit(0);
            }
            Some("close") => {
                // close stdout but keep running (reading stdin until EOF)
                unsafe { libc::close(1) };
            }
            _ => {}
        }
        true
    };
    if mode == "eager" {
        for r in &replies {
            write_reply(&mut out, r);
        }
    }
    let mut buf = vec![];
    let mut k = 0;
    while let Some((v, raw)) = next_request(&mut buf) {
        log(logp, json!({"t": now_ns().to_string(), "pid": pid, "ev": "SQL", "req": v, "raw": raw}));
        if mode != "eager" {
            if let Some(r) = replies.get(k) {
                write_reply(&mut out, r);
            }
        }
        k += 1;
    }
    log(logp, json!({"t": now_ns().to_string(), "pid": pid, "ev": "EOF"}));
}

fn engine_mode(scen_path: &str, logp: &str, db: &str) {
    let scen: Value = serde_json::from_str(&std::fs::read_to_string(scen_path).unwrap()).unwrap();
    let pid = std::process::id();
    // index of this engine process among all started so far (serial mode: the k-th connection)
    let start_index = std::fs::read_to_string(logp).map(|s| s.lines().filter(|l| l.contains("\"START\"")).count()).unwrap_or(0);
    log(logp, json!({"t": now_ns().to_string(), "pid": pid, "db": db, "ev": "START", "index": start_index}));
    let rules = scen["rules"].as_array().cloned().unwrap_or_default();
    for r in &rules {
        let hit = r.get("start_db_prefix").and_then(|p| p.as_str()).map(|p| db.starts_with(p)).unwrap_or(false)
            || r.get("start_index").and_then(|i| i.as_u64()).map(|i| i as usize == start_index).unwrap_or(false);
        if hit && r.get("exit_at_start").and_then(|b| b.as_bool()).unwrap_or(false) {
            log(logp, json!({"t": now_ns().to_string(), "pid": pid, "db": db, "ev": "EXIT"}));
            std::process::exit(3);
        }
    }
    let mut out = std::io::stdout();
    let mut buf = vec![];
    let mut nreq: u64 = 0;
    while let Some((v, _raw)) = next_request(&mut buf) {
        let sql = v.get("sql").and_then(|s| s.as_str()).unwrap_or("").to_string();
        // global request counter across all engine processes (one line per request in the log)
        log(logp, json!({"t": now_ns().to_string(), "pid": pid, "db": db, "ev": "SQL", "sql": sql}));
        let global_k = std::fs::read_to_string(logp).map(|s| s.lines().filter(|l| l.contains("\"SQL\"")).count()).unwrap_or(0) as u64;
        nreq += 1;
        let mut reply = json!({"result": [["1"]]});
        let mut delay = scen.get("delay_ms").and_then(|d| d.as_u64()).unwrap_or(0);
        let mut exit_after = false;
        let mut exit_before = false;
        for r in &rules {
            let m = r.get("match").and_then(|m| m.as_str());
            let at = r.get("at_request").and_then(|k| k.as_u64());
            let hit = m.map(|m| sql.contains(m)).unwrap_or(false) || at.map(|k| k == global_k).unwrap_or(false);
            if !hit {
                continue;
            }
            if let Some(rp) = r.get("reply") {
                reply = rp.clone();
            }
            if let Some(e) = r.get("err").and_then(|e| e.as_str()) {
                reply = json!({"err": e});
            }
            if let Some(d) = r.get("delay_ms").and_then(|d| d.as_u64()) {
                delay = d;
            }
            if let (Some(sig), Some(after)) = (r.get("signal").and_then(|s| s.as_str()), r.get("after_reply_ms").and_then(|a| a.as_u64())) {
                // deliver the signal some time AFTER this request has been answered (the CLI is then busy with whatever follows:
                // a sleep record, a retry back-off, a system command)
                if let Some(p) = cli_pid() {
                    let s = if sig == "KILL" { libc::SIGKILL } else { libc::SIGINT };
                    let (logp2, db2, sig2) = (logp.to_string(), db.to_string(), sig.to_string());
                    std::thread::spawn(move || {
                        sleep_ms(after);
                        log(&logp2, json!({"t": now_ns().to_string(), "pid": pid, "db": db2, "ev": "SIGNAL", "sig": sig2, "to": p}));
                        unsafe { libc::kill(p, s) };
                    });
                }
            } else if let Some(sig) = r.get("signal").and_then(|s| s.as_str()) {
                if let Some(p) = cli_pid() {
                    let s = if sig == "KILL" { libc::SIGKILL } else { libc::SIGINT };
                    log(logp, json!({"t": now_ns().to_string(), "pid": pid, "db": db, "ev": "SIGNAL", "sig": sig, "to": p}));
                    unsafe { libc::kill(p, s) };
                    // grace: let the signal be handled before we answer
                    sleep_ms(r.get("grace_ms").and_then(|g| g.as_u64()).unwrap_or(300));
                }
            }
            if r.get("exit_before_reply").and_then(|b| b.as_bool()).unwrap_or(false) {
                exit_before = true;
            }
            if r.get("exit_after_reply").and_then(|b| b.as_bool()).unwrap_or(false) {
                exit_after = true;
            }
        }
        if exit_before {
            log(logp, json!({"t": now_ns().to_string(), "pid": pid, "db": db, "ev": "EXIT"}));
            std::process::exit(4);
        }
        sleep_ms(delay);
        let s = serde_json::to_string(&reply).unwrap();
        if out.write_all(s.as_bytes()).is_err() || out.flush().is_err() {
            break;
        }
        if exit_after {
            log(logp, json!({"t": now_ns().to_string(), "pid": pid, "db": db, "ev": "EXIT"}));
            std::process::exit(5);
        }
    }
    let _ = nreq;
    // sessions whose end depends on one another (a lock held by the other session of the same file, say): after its input ended this
    // engine can only finish once its peer - the other engine started for the same database - has seen the end of ITS input
    for r in &rules {
        let hit = r.get("start_db_prefix").and_then(|p| p.as_str()).map(|p| db.starts_with(p)).unwrap_or(false);
        if let (true, Some(role)) = (hit, r.get("eof_wait_peer").and_then(|m| m.as_str())) {
            let lines = |text: &str| -> Vec<Value> { text.lines().filter_map(|l| serde_json::from_str::<Value>(l).ok()).collect() };
            let log_now = std::fs::read_to_string(logp).unwrap_or_default();
            let starts: Vec<u64> = lines(&log_now).iter().filter(|e| e["ev"] == "START" && e["db"] == db).filter_map(|e| e["pid"].as_u64()).collect();
            let i_am_first = starts.first().copied() == Some(pid as u64);
            if (role == "first") == i_am_first && starts.len() >= 2 {
                for _ in 0..7500 {
                    let t = std::fs::read_to_string(logp).unwrap_or_default();
                    let peer_done = lines(&t).iter().any(|e| (e["ev"] == "EOF" || e["ev"] == "EXIT") && e["db"] == db && e["pid"].as_u64() != Some(pid as u64));
                    if peer_done {
                        break;
                    }
                    sleep_ms(20);
                }
            }
        }
    }
    // an engine that needs time to wind down after its input ended (it stays connected to its database until it exits)
    for r in &rules {
        let hit = r.get("start_db_prefix").and_then(|p| p.as_str()).map(|p| db.starts_with(p)).unwrap_or(false);
        if let (true, Some(ms)) = (hit, r.get("linger_ms").and_then(|m| m.as_u64())) {
            sleep_ms(ms);
        }
    }
    log(logp, json!({"t": now_ns().to_string(), "pid": pid, "db": db, "ev": "EOF"}));
}

fn main() {
    let args: Vec<String> = std::env::args().collect();
    match args.get(1).map(|s| s.as_str()) {
        Some("raw") => raw_mode(&args[2], &args[3]),
        Some("engine") => engine_mode(&args[2], &args[3], args.get(4).map(|s| s.as_str()).unwrap_or("")),
        _ => {
            eprintln!("usage: fake-engine raw <script> <log> | engine <scenario> <log> <db>");
            std::process::exit(2);
        }
    }
}
