fn main(){}
