#!/bin/bash
# usage: try_mutant.sh <patch.diff> <pid> [pid...]   — apply to /repo, run quick checks, always revert
set -u
patch="$1"; shift
cd /verif
if ! git -C /repo diff --quiet; then echo "/repo dirty, refusing"; exit 3; fi
git -C /repo apply "$patch" || { echo "patch does not apply"; exit 3; }
trap 'git -C /repo checkout -- . ; echo "[reverted /repo]"' EXIT
for pid in "$@"; do
  echo "=== $pid on $(basename $(dirname $patch))"
  python3 tools/vcheck.py "$pid" --tier quick 2>&1 | grep -E "^(OK|VIOLATION|KNOWN|INFRA)" | head -5
done
