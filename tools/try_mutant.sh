#!/bin/bash
# usage: try_mutant.sh <patch.diff> <pid> [pid...]   — apply to /repo, run quick checks, always revert
set -u
patch="$1"; shift
cd /verif
if ! git -C /repo diff --quiet; then echo "/repo dirty, refusing"; exit 3; fi
git -C /repo apply "$patch" 2>/dev/null || git -C /repo apply --3way "$patch" || { git -C /repo reset -q --hard HEAD; echo "patch does not apply"; exit 3; }
if git -C /repo diff --name-only --diff-filter=U | grep -q .; then git -C /repo reset -q --hard HEAD; echo "patch conflicts"; exit 3; fi
trap 'git -C /repo reset -q --hard HEAD ; echo "[reverted /repo]"' EXIT
for pid in "$@"; do
  echo "=== $pid on $(basename $(dirname $patch))"
  python3 tools/vcheck.py "$pid" --tier quick 2>&1 | grep -E "^(OK|VIOLATION|KNOWN|INFRA)" | head -5
done
