#!/bin/bash
# usage: mutant_regress.sh [name...] — apply every kept seeded change to /repo in turn, run the quick checks named in its meta.json (caught_by), revert.
# Writes seeded/RESULTS.txt: one line per change. /repo must be clean; nothing else may use /repo meanwhile.
cd /verif
out=seeded/RESULTS.txt
names="$@"; [ -z "$names" ] && names=$(ls seeded | grep -E '^C[0-9]+-m[0-9]+$')
[ $# -eq 0 ] && : > $out
for n in $names; do
  d=/verif/seeded/$n
  patch=$d/patch.diff; [ -f $d/patch.rebased.diff ] && patch=$d/patch.rebased.diff
  pids=$(python3 -c "import json;print(' '.join(json.load(open('$d/meta.json'))['caught_by']))")
  res=$(bash tools/try_mutant.sh $patch $pids 2>&1)
  line="$n patch=$(basename $patch)"
  if echo "$res" | grep -q "patch does not apply\|patch conflicts"; then line="$line DOES-NOT-APPLY (superseded by a fix commit; see meta.json)"; else
  for p in $pids; do
    blk=$(echo "$res" | awk "/^=== $p on/{f=1;next}/^===/{f=0}f")
    if echo "$blk" | grep -q "^VIOLATION property=$p"; then line="$line $p=caught"; elif echo "$blk" | grep -q "^OK"; then line="$line $p=MISSED"; else line="$line $p=?"; fi
  done; fi
  echo "$line" | tee -a $out
done
