"""sltgen.py — grammar-directed generator of abstract sqllogictest scripts A and concrete
layouts L, with an independent renderer render(A, L) and elaborator elab(A) (the records
the format says were written, with their 1-based line numbers).  Used by C03 (round trip),
C04 (injection into valid scripts), C05 (formatting), C06/C07 (update).

The renderer/elaborator here are written from the format's documentation and are
independent of the Coq model's parser; the check compares all three (implementation,
parser model, this elaboration)."""
import random

BLANKS = [" ", " ", " ", "\t", "  ", " \t", " ", "　", " "]
SORTS = ["nosort", "rowsort", "valuesort"]
UNITS = ["ns", "nsec", "nanos", "us", "usec", "ms", "msec", "millis", "s", "sec", "secs", "second", "seconds",
         "m", "min", "mins", "minute", "minutes", "h", "hr", "hrs", "hour", "hours", "d", "day", "days",
         "w", "week", "weeks", "M", "month", "months", "y", "year", "years"]
UNIT_NS = {}
for u in UNITS:
    if u in ("ns", "nsec", "nanos"): UNIT_NS[u] = 1
    elif u in ("us", "usec"): UNIT_NS[u] = 1000
    elif u in ("ms", "msec", "millis"): UNIT_NS[u] = 10**6
    elif u in ("s", "sec", "secs", "second", "seconds"): UNIT_NS[u] = 10**9
    elif u in ("m", "min", "mins", "minute", "minutes"): UNIT_NS[u] = 60 * 10**9
    elif u in ("h", "hr", "hrs", "hour", "hours"): UNIT_NS[u] = 3600 * 10**9
    elif u in ("d", "day", "days"): UNIT_NS[u] = 86400 * 10**9
    elif u in ("w", "week", "weeks"): UNIT_NS[u] = 604800 * 10**9
    elif u in ("M", "month", "months"): UNIT_NS[u] = 2630016 * 10**9
    else: UNIT_NS[u] = 31557600 * 10**9

WORDS = ["select", "1", "from", "t", "where", "x=1", "--", "'a b'", "é", "insert", "(1,2)", ";", "$x", "\\n", "#no", "----x", "🙂", "a\tb", "  lead", "trail  "]


def gen_duration(rng, simple=False):
    """returns (token text, total nanoseconds)"""
    if simple or rng.random() < 0.5:
        n = rng.choice([0, 1, 2, 5, 10, 90, 500, 1500])
        u = rng.choice(["s", "ms", "us", "ns", "m", "h"])
        return "%d%s" % (n, u), n * UNIT_NS[u]
    k = rng.randint(1, 3)
    txt, tot = "", 0
    for _ in range(k):
        n = rng.choice([0, 1, 3, 7, 59, 60, 999, 1000, 1001, 86399])
        u = rng.choice(UNITS)
        txt += "%d%s" % (n, u)
        tot += n * UNIT_NS[u]
    return txt, tot


def word(rng):
    return rng.choice(["a", "b", "lbl", "x1", "pg", "name", "é", "A", "t-1", "a.b", "#h", "retryx", "1", "ok"])


def sql_line(rng, first=False):
    k = rng.randint(1, 5)
    l = " ".join(rng.choice(WORDS) for _ in range(k))
    if l == "----" or (not first and l == ""):
        l = "select 1"
    return l


def gen_retry(rng, p=0.25):
    if rng.random() < p:
        d, ns = gen_duration(rng)
        return {"attempts": rng.choice([1, 2, 3, 10]), "dur": d, "ns": ns}
    return None


def multiline_text(rng):
    n = rng.randint(1, 4)
    ls = []
    for i in range(n):
        if i > 0 and i < n - 1 and rng.random() < 0.2 and ls[-1] != "":
            ls.append("")
        else:
            ls.append(rng.choice(["error: boom", "line two", "  indented", "x", "----", "# not a comment", "tab\there", "é🙂", "statement ok",
                                  "LINE 1: select * from ", "trailing blanks   ", "tab at the end\t", "   "]))
    while ls and ls[-1] == "":
        ls.pop()
    while ls and ls[0] == "":
        ls.pop(0)
    if not ls:
        ls = ["msg"]
    # the text is returned trimmed by the parser: make the ends blank-free
    ls[0] = ls[0].lstrip() or "x"
    ls[-1] = ls[-1].rstrip() or "x"
    return ls


def gen_item(rng, allow_include=True):
    r = rng.random()
    if r < 0.30:
        it = {"kind": "statement"}
        form = rng.choice(["ok", "ok", "count", "error", "error-inline", "error-multi"])
        it["form"] = form
        if form == "count":
            it["count"] = rng.choice([0, 1, 5, 18446744073709551615, 42])
        if form == "error-inline":
            it["regex_tokens"] = [rng.choice(["boom", "a.*b", "\\(x\\)", "err[0-9]+", "not", "found", "é", "^x$", "retry", "backoff"]) for _ in range(rng.randint(1, 3))]
            if len(it["regex_tokens"]) == 4 and it["regex_tokens"][0] == "retry" and it["regex_tokens"][2] == "backoff":
                it["regex_tokens"] = ["boom"]
            it["retry"] = None
        else:
            it["retry"] = gen_retry(rng)
        if form == "error-multi":
            it["multi"] = multiline_text(rng)
        it["sql"] = [sql_line(rng, True)] + [sql_line(rng) for _ in range(rng.choice([0, 0, 1, 2]))]
        return it
    if r < 0.58:
        it = {"kind": "query"}
        form = rng.choice(["results", "results", "results", "error", "error-inline", "error-multi"])
        it["form"] = form
        if form == "results":
            it["types"] = rng.choice(["I", "T", "II", "ITR", "?", "R", "TT", "IX"])
            it["sort"] = rng.choice([None, None] + SORTS)
            if rng.random() < 0.3:
                lb = rng.choice(["lbl", "join-1", "x", "a.b", "é"])
                it["label"] = lb
            else:
                it["label"] = None
            it["retry"] = gen_retry(rng)
            it["has_results"] = rng.random() < 0.85
            it["results"] = [rng.choice(["1", "1 2", "a  b", "NULL", "  padded  ", "x\ty", "é", "3 values hashing to abc", "#1", "----"]) for _ in range(rng.randint(0, 4))] if it["has_results"] else []
        elif form == "error-inline":
            it["regex_tokens"] = [rng.choice(["boom", "a.*b", "\\(x\\)", "err[0-9]+", "é"]) for _ in range(rng.randint(1, 3))]
            it["retry"] = None
        else:
            it["retry"] = gen_retry(rng)
            if form == "error-multi":
                it["multi"] = multiline_text(rng)
        it["sql"] = [sql_line(rng, True)] + [sql_line(rng) for _ in range(rng.choice([0, 0, 1, 2]))]
        return it
    if r < 0.66:
        it = {"kind": "system", "retry": gen_retry(rng)}
        it["sql"] = [rng.choice(["echo hi", "true", "echo $__TEST_DIR__ > x", "cat <<EOF"])] + [sql_line(rng) for _ in range(rng.choice([0, 0, 1]))]
        it["multi"] = multiline_text(rng) if rng.random() < 0.5 else None
        return it
    if r < 0.72:
        return {"kind": "cond", "neg": rng.random() < 0.5, "label": word(rng)}
    if r < 0.77:
        return {"kind": "connection", "name": rng.choice(["default", "a", "A", "conn2", "Default"])}
    if r < 0.83:
        w = rng.choice(["sortmode", "resultmode", "substitution"])
        v = rng.choice(SORTS) if w == "sortmode" else rng.choice(["rowwise", "valuewise"]) if w == "resultmode" else rng.choice(["on", "off"])
        return {"kind": "control", "what": w, "value": v}
    if r < 0.86:
        return {"kind": "threshold", "n": rng.choice([0, 8, 100, 18446744073709551615])}
    if r < 0.89:
        return {"kind": "halt"}
    if r < 0.92:
        d, ns = gen_duration(rng)
        return {"kind": "sleep", "dur": d, "ns": ns}
    if r < 0.95:
        return {"kind": "subtest", "name": word(rng)}
    if r < 0.97 and allow_include:
        return {"kind": "include", "file": rng.choice(["a.slt", "dir/*.slt", "../x.part"])}
    return {"kind": "comment", "lines": [rng.choice(["", " a comment", "# double", " trailing  ", "\ttab", " é🙂"]) for _ in range(rng.randint(1, 3))]}


def gen_script(rng, n=None, allow_include=True):
    n = rng.randint(0, 12) if n is None else n
    return [gen_item(rng, allow_include) for _ in range(n)]


class Layout:
    """random concrete layout choices; plain=True gives the canonical single-blank LF layout"""
    def __init__(self, rng, plain=False, crlf=None, exotic=True):
        self.rng, self.plain = rng, plain
        self.crlf = (rng.random() < 0.25) if crlf is None else crlf
        self.exotic = exotic

    def sep(self):
        if self.plain or self.rng.random() < 0.7:
            return " "
        b = self.rng.choice(BLANKS if self.exotic else [" ", "\t", "  "])
        return b

    def lead(self):
        return "" if self.plain or self.rng.random() < 0.9 else self.rng.choice([" ", "\t"])

    def trail(self):
        return "" if self.plain or self.rng.random() < 0.8 else self.rng.choice([" ", "\t", "  "])

    def eol(self):
        if self.plain:
            return "\n"
        if self.crlf:
            return "\r\n" if self.rng.random() < 0.9 else "\n"
        return "\n"


def header_line(lay, toks):
    s = lay.lead()
    for i, t in enumerate(toks):
        if i:
            s += lay.sep()
        s += t
    return s + lay.trail()


def retry_toks(r):
    return ["retry", str(r["attempts"]), "backoff", r["dur"]] if r else []


def retry_json(r):
    if not r:
        return None
    return [r["attempts"], r["ns"] // 10**9, r["ns"] % 10**9]


def canon_types(t, two=False):
    return "".join(c if c in "TIR" else "?" for c in t)


def render(items, lay, name="t.slt", final_newline=None):
    """returns (text, expected records in harness JSON shape)"""
    rng = lay.rng
    out = []          # physical lines (without EOL)
    recs = []
    conds, conn = [], ["default"]
    pending_comment = False

    def line_no():
        return len(out) + 1

    def loc(n):
        return [[name, n]]

    n_items = len(items)
    for idx, it in enumerate(items):
        last = idx == n_items - 1
        k = it["kind"]
        # optional filler before the item: blank lines / whitespace-only lines / nothing
        if not lay.plain:
            for _ in range(rng.choice([0, 0, 0, 1, 2])):
                if rng.random() < 0.7:
                    out.append(""); recs.append(["newline"])
                else:
                    out.append(rng.choice([" ", "\t", "  \t"]))      # whitespace-only: no record
        if k == "comment":
            # a comment block must not directly follow another comment block (they would merge)
            if recs and recs[-1][0] == "comment" and out and out[-1].startswith("#"):
                out.append(""); recs.append(["newline"])
            for c in it["lines"]:
                out.append("#" + c)
            recs.append(["comment", list(it["lines"])])
            continue
        if k == "cond":
            kw = "skipif" if it["neg"] else "onlyif"
            out.append(header_line(lay, [kw, it["label"]]))
            c = [kw, it["label"]]
            conds.append(c); recs.append(["condition", c])
            continue
        if k == "connection":
            out.append(header_line(lay, ["connection", it["name"]]))
            conn = ["default"] if it["name"] == "default" else ["named", it["name"]]
            recs.append(["connection", conn])
            continue
        if k == "control":
            out.append(header_line(lay, ["control", it["what"], it["value"]]))
            v = it["value"]
            if it["what"] == "substitution":
                v = it["value"] == "on"
            recs.append(["control", [it["what"], v]])
            continue
        if k == "threshold":
            n = line_no(); out.append(header_line(lay, ["hash-threshold", str(it["n"])]))
            recs.append(["hash-threshold", loc(n), it["n"]]); continue
        if k == "halt":
            n = line_no(); out.append(header_line(lay, ["halt"])); recs.append(["halt", loc(n)]); continue
        if k == "sleep":
            n = line_no(); out.append(header_line(lay, ["sleep", it["dur"]]))
            recs.append(["sleep", loc(n), [it["ns"] // 10**9, it["ns"] % 10**9]]); continue
        if k == "subtest":
            n = line_no(); out.append(header_line(lay, ["subtest", it["name"]])); recs.append(["subtest", loc(n), it["name"]]); continue
        if k == "include":
            n = line_no(); out.append(header_line(lay, ["include", it["file"]])); recs.append(["include", loc(n), it["file"]]); continue
        # ---- statement / query / system
        n = line_no()
        sql = "\n".join(it["sql"])
        retry = it.get("retry")
        if k == "system":
            out.append(header_line(lay, ["system", "ok"] + retry_toks(retry)))
            out.extend(it["sql"])
            stdout = None
            term = close_block(out, recs, it.get("multi"), lay, last, rng)
            if it.get("multi") is not None:
                stdout = "\n".join(it["multi"])
            recs_insert = ["system", loc(n), conds, sql, stdout, retry_json(retry)]
            conds = []
            insert_before_fill(recs, recs_insert, term)
            continue
        form = it["form"]
        if k == "statement":
            if form == "ok":
                toks, exp = ["statement", "ok"], ["ok"]
            elif form == "count":
                toks, exp = ["statement", "count", str(it["count"])], ["count", it["count"]]
            elif form == "error-inline":
                toks, exp = ["statement", "error"] + it["regex_tokens"], ["error", ["inline", " ".join(it["regex_tokens"])]]
            elif form == "error-multi":
                toks, exp = ["statement", "error"], ["error", ["multi", "\n".join(it["multi"])]]
            else:
                toks, exp = ["statement", "error"], ["error", ["empty"]]
            out.append(header_line(lay, toks + retry_toks(retry)))
            out.extend(it["sql"])
            term = close_block(out, recs, it.get("multi") if form == "error-multi" else None, lay, last, rng)
            rec = ["statement", loc(n), conds, conn, sql, exp, retry_json(retry)]
        else:
            if form == "results":
                toks = ["query", it["types"]] + ([it["sort"]] if it["sort"] else []) + ([it["label"]] if it["label"] else [])
                out.append(header_line(lay, toks + retry_toks(retry)))
                out.extend(it["sql"])
                if it["has_results"]:
                    out.append("----")
                    out.extend(it["results"])
                term = close_simple(out, lay, last, rng)
                exp = ["results", canon_types(it["types"]), it["sort"], it["label"], list(it["results"])]
            else:
                if form == "error-inline":
                    toks, exp = ["query", "error"] + it["regex_tokens"], ["error", ["inline", " ".join(it["regex_tokens"])]]
                elif form == "error-multi":
                    toks, exp = ["query", "error"], ["error", ["multi", "\n".join(it["multi"])]]
                else:
                    toks, exp = ["query", "error"], ["error", ["empty"]]
                out.append(header_line(lay, toks + retry_toks(retry)))
                out.extend(it["sql"])
                term = close_block(out, recs, it.get("multi") if form == "error-multi" else None, lay, last, rng)
            rec = ["query", loc(n), conds, conn, sql, exp, retry_json(retry)]
        conds, conn = [], ["default"]
        insert_before_fill(recs, rec, term)
    # physical text
    text = ""
    for i, l in enumerate(out):
        text += l
        if i < len(out) - 1:
            text += lay.eol()
    if out:
        fn = final_newline if final_newline is not None else (True if lay.plain else rng.random() < 0.7)
        # a final newline after a last empty physical line is still the same line list for str::lines
        if fn:
            text += lay.eol()
        elif out[-1] == "":
            # without a final EOL the last empty line would vanish: keep the EOL
            text += lay.eol()
    return text, recs


def close_simple(out, lay, last, rng):
    """terminate a statement/query(/results) block: a blank line, or EOF when it is the last item"""
    if last and not lay.plain and rng.random() < 0.5:
        return 0
    out.append("")          # consumed by the block reader: no Newline record
    return 0


def close_block(out, recs, multi, lay, last, rng):
    if multi is None:
        return close_simple(out, lay, last, rng)
    out.append("----")
    # the text is returned trimmed: what is WRITTEN may carry blanks in front of its first line and behind its last one
    raw = list(multi)
    if raw and rng.random() < 0.3:
        raw[0] = rng.choice(["  ", "\t", " \t", "\u3000", "    "]) + raw[0]
    if raw and rng.random() < 0.3:
        raw[-1] = raw[-1] + rng.choice(["  ", "\t", " \t", "\u00a0", "   "])
    out.extend(raw)
    if last and not lay.plain:
        c = rng.random()
        if c < 0.3:
            return 0                 # EOF right after the text
        if c < 0.5:
            out.append("")           # one blank line, then EOF
            return 0
    out.append(""); out.append("")   # two consecutive blank lines end the text
    return 0


def insert_before_fill(recs, rec, term):
    recs.append(rec)
