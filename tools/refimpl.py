"""refimpl.py — small independent reference computations used by generators to build
*passing* expectations (so that both verdicts are common): sqllogictest shaping with
Python's own sort and hashlib's MD5."""
import hashlib

ASCII_WS = " \t\n\x0c\r"
UNI_WS = "\t\n\x0b\x0c\r \x85\xa0                　"


def rust_trim(s):
    return s.strip(UNI_WS)


def normalize(s):
    s = rust_trim(s)
    out, cur = [], ""
    for ch in s:
        if ch in ASCII_WS:
            if cur:
                out.append(cur)
            cur = ""
        else:
            cur += ch
    if cur:
        out.append(cur)
    return " ".join(out)


def shape(rows, ntypes, mode, thr):
    vs = False
    if mode == "rowsort":
        rows = sorted(rows)
    elif mode == "valuesort":
        rows = sorted([[v] for r in rows for v in r])
        vs = True
    n = len(rows) if vs else len(rows) * ntypes
    if thr and thr > 0 and n > thr:
        h = hashlib.md5()
        for r in rows:
            for v in r:
                h.update(v.encode("utf-8"))
                h.update(b"\n")
        rows = [["%d values hashing to %s" % (len(rows) * len(rows[0]), h.hexdigest())]]
    return rows


def expected_lines(rows, valuewise):
    if valuewise:
        return [v for r in rows for v in r]
    return [" ".join(r) for r in rows]
