#!/usr/bin/env python3
"""Pin the SHA-256 of every coq/Props/*.v in coq/statements.lock (run by hand when a
statement is deliberately changed; the checks only read the lock)."""
import hashlib, os
d = os.path.join(os.path.dirname(os.path.dirname(os.path.abspath(__file__))), "coq")
with open(os.path.join(d, "statements.lock"), "w") as f:
    for n in sorted(os.listdir(os.path.join(d, "Props"))):
        if n.endswith(".v"):
            f.write("%s %s\n" % (n, hashlib.sha256(open(os.path.join(d, "Props", n), "rb").read()).hexdigest()))
