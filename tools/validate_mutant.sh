#!/bin/bash
# usage: validate_mutant.sh <worktree> <mutdir>  — confirm: demo fails with patch, suite passes with patch, demo passes without
set -u
wt="$1"; m="$2"
export CARGO_TARGET_DIR="$wt/target" CARGO_NET_OFFLINE=true
cd "$wt" || exit 3
git checkout -q -- . ; git clean -fdq -e out -e target
tests=$(cd "$m/demo" && ls *.rs 2>/dev/null | sed 's/\.rs$//')
pkg=sqllogictest
if grep -q "sqllogictest-bin/tests" "$m"/demo/README.md "$m"/meta.json 2>/dev/null; then pkg=sqllogictest-bin; fi
if grep -q "sqllogictest-engines/tests" "$m"/demo/README.md "$m"/meta.json 2>/dev/null; then pkg=sqllogictest-engines; fi
put_demo() { mkdir -p $pkg/tests; cp "$m"/demo/*.rs $pkg/tests/; }
del_demo() { rm -rf $pkg/tests; }
run_demo() { rc=0; for t in $tests; do cargo test -q -p $pkg --offline --test "$t" >/tmp/demo_$$.log 2>&1 || rc=1; done; return $rc; }
put_demo; run_demo; clean_rc=$?
git apply "$m/patch.diff" || { echo "APPLY-FAILED"; exit 3; }
run_demo; mut_rc=$?
del_demo
cargo test -q --workspace --no-fail-fast --offline >/tmp/suite_$$.log 2>&1; suite_rc=$?
git checkout -q -- . ; git clean -fdq -e out -e target
rm -f /tmp/demo_$$.log /tmp/suite_$$.log
echo "demo_clean_rc=$clean_rc demo_mutant_rc=$mut_rc suite_rc=$suite_rc"
[ $clean_rc -eq 0 ] && [ $mut_rc -ne 0 ] && [ $suite_rc -eq 0 ] && echo "VALID" || echo "NOT-VALID"
