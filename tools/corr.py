"""corr.py — generic correspondence execution: implementation vs extracted model on the
same cases, projection to the observables the property talks about, statistics."""
import collections
import json
import vlib
import runfam


def strip(case):
    return {k: v for k, v in case.items() if k != "meta"}


def execute_run_family(mod, cases, tier, vm_sample=None):
    outs = vlib.run_impl("run", [strip(c) for c in cases])
    mcases, where = [], []
    for i, (c, o) in enumerate(zip(cases, outs)):
        mc = runfam.model_case(c, o)
        if mc is not None:
            mcases.append(mc)
            where.append(i)
    mouts = vlib.run_model("run", mcases)
    if vm_sample is None:
        vm_sample = 40 if tier == "quick" else 200
    vm_n = vlib.vm_crosscheck("run", mcases, mouts, vm_sample, mod.PID)
    mout_at = dict(zip(where, mouts))
    disagreements, known_hits = [], []
    cats = collections.Counter()
    keys = set()
    observables = []
    for i, (c, o) in enumerate(zip(cases, outs)):
        io = runfam.observe_impl(c, o)
        if i in mout_at:
            mo = runfam.observe_model(c, mout_at[i])
        else:
            mo = mod.no_model(c, io) if hasattr(mod, "no_model") else {"unparsed": True}
        pi, pm = mod.project(c, io), mod.project(c, mo)
        for lab in mod.categories(c, io):
            cats[lab] += 1
        k = mod.nontrivial_key(c, io)
        if k is not None:
            keys.add(k)
        if len(observables) < 3:
            observables.append({"impl": pi, "model": pm})
        extra = mod.direct_check(c, io) if hasattr(mod, "direct_check") else None
        if pi != pm or extra:
            d = {"case": c, "impl": pi, "model": pm,
                 "spec": extra or mod.spec_verdict(c, pi, pm), "broken": "corr_" + mod.PID}
            kid = mod.classify_known(c, io) if hasattr(mod, "classify_known") else None
            if kid:
                d["known"] = kid
                known_hits.append(kid)
            disagreements.append(d)
    group = mod.group_check(cases, outs) if hasattr(mod, "group_check") else []
    disagreements += group
    stats = {
        "evaluations": len(cases),
        "model_evaluations": len(mcases),
        "distinct_nontrivial": len(keys),
        "rule": mod.RULE,
        "categories": dict(sorted(cats.items())),
        "vm_compute_crosschecked": vm_n,
        "samples": [sample_of(c) for c in cases[:3]],
        "disagreements": len(disagreements),
    }
    return {"stats": stats, "disagreements": disagreements, "known_hits": known_hits, "observables": observables}


def sample_of(c):
    s = {k: c[k] for k in ("text", "answers", "sys", "labels", "hash_threshold", "strict_cols", "mode") if k in c and c[k] not in (None, [], False)}
    return s


def execute_parse_family(mod, cases, tier, vm_sample=None):
    """family 'parse': case = {text, coltype, meta{expected?}}; implementation parse vs parser model
    (and, where the generator knows it, vs the elaboration of the abstract script)."""
    outs = vlib.run_impl("parse", [strip(c) for c in cases])
    mcases = [[c["text"], c.get("coltype") == "two", o.get("re_valid", [])] for c, o in zip(cases, outs)]
    mouts = vlib.run_model("parse", mcases)
    if vm_sample is None:
        vm_sample = 40 if tier == "quick" else 150
    vm_n = vlib.vm_crosscheck("parse", mcases, mouts, vm_sample, mod.PID)
    disagreements, known_hits = [], []
    cats = collections.Counter()
    keys = set()
    observables = []
    for c, o, m in zip(cases, outs, mouts):
        io = {"panic": o["panic"]} if "panic" in o else vlib.norm(o["parse"])
        pi, pm = mod.project(c, io), mod.project(c, m)
        for lab in mod.categories(c, io):
            cats[lab] += 1
        k = mod.nontrivial_key(c, io)
        if k is not None:
            keys.add(k)
        if len(observables) < 3:
            observables.append({"impl": pi, "model": pm})
        extra = mod.direct_check(c, io) if hasattr(mod, "direct_check") else None
        if pi != pm or extra:
            d = {"case": c, "impl": pi, "model": pm, "spec": extra or mod.spec_verdict(c, pi, pm), "broken": "corr_" + mod.PID}
            kid = mod.classify_known(c, io, m) if hasattr(mod, "classify_known") else None
            if kid:
                d["known"] = kid
                known_hits.append(kid)
            disagreements.append(d)
    stats = {
        "evaluations": len(cases),
        "model_evaluations": len(mcases),
        "distinct_nontrivial": len(keys),
        "rule": mod.RULE,
        "categories": dict(sorted(cats.items())),
        "vm_compute_crosschecked": vm_n,
        "samples": [{"text": c["text"][:400]} for c in cases[:3]],
        "disagreements": len(disagreements),
    }
    return {"stats": stats, "disagreements": disagreements, "known_hits": known_hits, "observables": observables}


def file_model_case(case, out, with_run):
    rc = []
    if with_run:
        rc = [
            "multi", [], out.get("oracle", []), bool(case.get("strict_cols")), case.get("labels", []), case.get("vars", []),
            case.get("hash_threshold") or 0, case.get("engine_name", ""), case.get("answers", []),
            case.get("default_answer") or ["complete", 0], case.get("make_fail", []), case.get("sys", []),
            case.get("sys_default") or ["exit", 0, "", ""], True, case.get("env", []),
        ]
    return [case["main"], out["fs"], out["glob"], case.get("coltype") == "two", out.get("re_valid", []), rc]


def execute_file_family(mod, cases, tier, vm_sample=None):
    outs = vlib.run_impl("file", [strip(c) for c in cases], shards=8)
    mcases = [file_model_case(c, o, c.get("mode") == "run") for c, o in zip(cases, outs)]
    mouts = vlib.run_model("file", mcases)
    if vm_sample is None:
        vm_sample = 20 if tier == "quick" else 80
    vm_n = vlib.vm_crosscheck("file", mcases, mouts, vm_sample, mod.PID)
    disagreements = []
    cats = collections.Counter()
    keys = set()
    observables = []
    for c, o, m in zip(cases, outs, mouts):
        io = {"parse": vlib.norm(o["parse"])}
        mo = {"parse": m[0]} if isinstance(m, list) else {"model_error": m}
        if c.get("mode") == "run":
            io["final"] = runfam.drop_detail(vlib.norm(o["final"]))
            io["events"] = runfam.canon_events(o["events"])
            if isinstance(m, list) and len(m) > 1:
                mo["final"] = m[1][0]
                mo["events"] = runfam.canon_events(m[1][1])
        pi, pm = mod.project(c, io), mod.project(c, mo)
        for lab in mod.categories(c, io):
            cats[lab] += 1
        k = mod.nontrivial_key(c, io)
        if k is not None:
            keys.add(k)
        if len(observables) < 2:
            observables.append({"impl": pi, "model": pm})
        extra = mod.direct_check(c, io) if hasattr(mod, "direct_check") else None
        if pi != pm or extra:
            d = {"case": c, "impl": pi, "model": pm, "spec": extra or mod.spec_verdict(c, pi, pm), "broken": "corr_" + mod.PID}
            kid = mod.classify_known(c, io, mo) if hasattr(mod, "classify_known") else None
            if kid:
                d["known"] = kid
            disagreements.append(d)
    stats = {
        "evaluations": len(cases), "model_evaluations": len(mcases), "distinct_nontrivial": len(keys), "rule": mod.RULE,
        "categories": dict(sorted(cats.items())), "vm_compute_crosschecked": vm_n,
        "samples": [{"files": c["files"][:4], "main": c["main"]} for c in cases[:2]], "disagreements": len(disagreements),
    }
    return {"stats": stats, "disagreements": disagreements, "known_hits": [], "observables": observables}
