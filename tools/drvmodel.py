"""drvmodel.py — tie between the CLI's parallel driver and its Coq model (coq/Driver.v).

From one observed run of the real binary (engine-side trace, per-file reports in the order the driver processed
them, exit status) a list of scheduler choices is reconstructed; the EXTRACTED Coq model is then run on exactly
that schedule and must emit the observed trace, report the observed results in the observed order, end in its
final phase and decide the observed exit status.  The Python mirror of the model below is only a search heuristic
for the schedule (which silent steps to insert, and when): the verdict is the Coq model's output.  If no schedule
is found, or the model's output differs, the run is not explained by the model: correspondence `corr_driver_model`.
"""
import re
import clifam

PCANCEL = ["cancel"]


def scripts_for(case):
    """per path: the model script of the file, derived from the generated content and the engine rules"""
    out = {}
    for path, body in case["files"]:
        info = case["info"][path]
        kind = info["kind"]
        tag = info["tag"]
        if kind == "parse":
            out[path] = [["fail"]]
            continue
        def fails(k):
            text = "select %s_%d " % (tag, k)
            return any(("err" in r or r.get("exit_before_reply")) and r.get("match") and r["match"] in text for r in case["rules"])
        script, used, conn = [], [], 0
        names = {}
        k = 0
        lines = body.split("\n")
        i = 0
        stop = False
        while i < len(lines) and not stop:
            l = lines[i]
            if l.startswith("connection "):
                nm = l.split()[1]
                conn = 0 if nm == "default" else names.setdefault(nm, len(names) + 1)
            elif l.startswith("statement ") or l.startswith("query "):
                k += 1
                if conn not in used:
                    used.append(conn)
                    script.append(["connect", conn])
                if kind == "nostart":
                    script.append(["fail"])
                    stop = True
                else:
                    ok = not fails(k)
                    script.append(["sql", conn, 1 if ok else 0])
                    if not ok:
                        stop = True
                conn = 0
                # skip the SQL / expectation block
                i += 1
                while i < len(lines) and lines[i] != "":
                    i += 1
            i += 1
        out[path] = script
    return out


class Unexplained(Exception):
    pass


class PyDriver:
    """mirror of Driver.dstep, used only to decide which silent steps to insert"""

    def __init__(self, jobs, keep, ff, files):
        self.jobs, self.keep, self.ff = jobs, keep, ff
        self.files = files                       # [(db, script)]
        self.phase = ["create", [f[0] for f in files]]
        self.tasks = [["idle"] for _ in files]
        self.token = False
        self.failed_db, self.refused = [], False
        self.next = 0
        self.sched = []
        self.refused_idx = set()

    def active(self, t):
        return t[0] in ("spawned", "wait", "running", "closing", "done")

    def n_active(self):
        return sum(1 for t in self.tasks if self.active(t))

    def no_readers(self):
        return not any(t[0] in ("running", "closing") for t in self.tasks)

    # -- choices (each appends to the schedule and returns the emitted events) --
    def driver(self):
        self.sched.append(["driver"])
        ph = self.phase
        if ph[0] == "create":
            if not ph[1]:
                self.phase = ["stream"]
                return []
            db = ph[1].pop(0)
            return [["create", db]]
        if ph[0] == "stream":
            if self.n_active() < self.jobs:
                for i, t in enumerate(self.tasks):
                    if t[0] == "idle":
                        self.tasks[i] = ["spawned"]
                        return []
            if all(t[0] == "reported" for t in self.tasks):
                self.phase = ["close"] if self.refused else ["drop", [f[0] for f in self.files]]
            return []
        if ph[0] == "drop":
            if not ph[1]:
                self.phase = ["close"]
                return []
            db = ph[1].pop(0)
            if self.keep and db in self.failed_db:
                return []
            return [["drop", db]]
        if ph[0] == "close":
            self.phase = ["end"]
            return [["mgmt-close"]]
        return []

    def task(self, i, k=0):
        self.sched.append(["task", i, k])
        if self.phase[0] != "stream":
            return []
        t = self.tasks[i]
        db, script = self.files[i]
        if t[0] == "spawned":
            self.tasks[i] = ["wait"] if self.token else ["running", list(script), []]
            return []
        if t[0] == "wait":
            if self.no_readers():
                self.tasks[i] = ["done", 3]
            return []
        if t[0] == "running":
            rest, conns = t[1], t[2]
            if self.token:
                self.tasks[i] = ["closing", 2, [s for _, s in conns]]
                return []
            if not rest:
                self.tasks[i] = ["closing", 0, [s for _, s in conns]]
                return []
            a = rest.pop(0)
            if a[0] == "connect":
                conns.insert(0, (a[1], self.next))
                self.next += 1
                return [["connect", db, self.next - 1]]
            if a[0] == "sql":
                s = next((s for c, s in conns if c == a[1]), None)
                if s is None:
                    return []
                if not a[2]:
                    rest.insert(0, ["fail"])      # the failure is a step of its own
                return [["sql", db, s]]
            self.tasks[i] = ["closing", 1, [s for _, s in conns]]
            return []
        if t[0] == "closing":
            if not t[2]:
                self.tasks[i] = ["done", t[1]]
                return []
            s = t[2][k] if k < len(t[2]) else t[2][0]
            t[2].remove(s)
            return [["close", db, s]]
        return []

    def report(self, i):
        self.sched.append(["report", i])
        t = self.tasks[i]
        if self.phase[0] != "stream" or t[0] != "done":
            return []
        self.tasks[i] = ["reported"]
        if t[1] == 1:
            self.failed_db.insert(0, self.files[i][0])
            if i in self.refused_idx:
                self.refused = True
            if self.ff or self.refused:
                self.token = True
                return [PCANCEL]
        return []

    def ctrlc(self):
        self.sched.append(["ctrlc"])
        if self.phase[0] == "end":
            return []
        self.token = True
        return [PCANCEL]


def reconstruct(jobs, keep, ff, files, trace, report_order, refused_idx=(), tags=None, selfdying=()):
    """files: [(db, script)] in creation order; trace: observed events with session ids renumbered in connection
    order; report_order: indices of files in the order the driver processed their results.
    Returns the schedule; raises Unexplained when the greedy search finds none."""
    d = PyDriver(jobs, keep, ff, files)
    d.refused_idx = set(refused_idx)
    idx = {db: i for i, (db, _) in enumerate(files)}
    pending_reports = list(report_order)
    starting = set()

    def expect(evs, e):
        got = [x for x in evs if x != PCANCEL]
        if got != [e]:
            raise Unexplained("the model emits %r where %r was observed" % (got, e))

    def report_next():
        if not pending_reports:
            raise Unexplained("a result is needed but every observed report has been used")
        i = pending_reports[0]
        settle(i)
        if d.tasks[i][0] in ("running", "idle", "spawned") and not d.token and tags and tags.get(i) in ("CANCELLED", "SKIPPED") and cancel_ahead[0] > 0:
            need_token(i)
            settle(i)
        if d.tasks[i][0] == "running" and d.token:
            settle(i)
        if d.tasks[i][0] != "done":
            raise Unexplained("file %d is reported next by the CLI but the model has not finished it (%s)" % (i, d.tasks[i][0]))
        if d.tasks[i][1] == 1 and (d.ff or d.refused or i in d.refused_idx) and not d.token:
            start_all_that_ran()
        pending_reports.pop(0)
        d.report(i)

    def start_all_that_ran():
        # the token is about to be set: every file the CLI did not report as skipped has looked at the token before
        for j, t in enumerate(d.tasks):
            if tags and tags.get(j) not in (None, "SKIPPED") and t[0] in ("idle", "spawned"):
                if t[0] == "idle":
                    starting.add(j)
                    if len(starting) > len(d.tasks):
                        raise Unexplained("cannot start every file that ran before the token was set")
                    spawn(j)
                if d.tasks[j][0] == "spawned":
                    d.task(j)
                if tags.get(j) in ("FAILED", "OK"):
                    settle(j)             # what it did without the engine seeing anything (a parse error ...) it did before

    def need_token(i):
        """file i is being cancelled / skipped: the token is set by Ctrl-C if one is still ahead in the trace (its place among the
        engine-side events is only known approximately), otherwise by the report of an earlier failure"""
        if cancel_ahead[0] > 0:
            cancel_ahead[0] -= 1
            skip_cancel[0] += 1
            start_all_that_ran()
            d.ctrlc()
            canon.append(PCANCEL)
            return
        while not d.token:
            if pending_reports and pending_reports[0] == i:
                raise Unexplained("file %d closes a session before it is finished although no failure has been reported" % i)
            report_next()

    def settle(i, guard=0):
        """silent steps of task i until it would emit an event or is done"""
        while guard < 10000:
            guard += 1
            t = d.tasks[i]
            if t[0] == "idle":
                spawn(i)
            elif t[0] == "spawned":
                d.task(i)
            elif t[0] == "wait":
                if not d.no_readers():
                    return
                d.task(i)
            elif t[0] == "running":
                rest = t[1]
                if tags and tags.get(i) == "CANCELLED" and not d.token and (not rest or rest[0][0] == "fail"):
                    return                # the CLI reports it cancelled: the token is set before it gets that far
                if d.token or not rest or rest[0][0] == "fail" or (rest[0][0] == "sql" and all(c != rest[0][1] for c, _ in t[2])):
                    d.task(i)
                else:
                    return
            elif t[0] == "closing" and not t[2]:
                d.task(i)
            else:
                return

    def spawn(i):
        while d.phase[0] == "create":
            evs = d.driver()
            if [x for x in evs if x != PCANCEL]:
                raise Unexplained("model creates a database the CLI did not create at this point")
        guard = 0
        while d.tasks[i][0] == "idle":
            guard += 1
            if guard > 10000:
                raise Unexplained("cannot start file %d" % i)
            if d.n_active() < d.jobs:
                d.driver()                        # starts the first idle file (files start in order)
            else:
                report_next()

    cancel_ahead = [sum(1 for e in trace if e[0] == "cancel")]
    skip_cancel = [0]
    canon = []            # the observed events in the order they were matched (see `deferred`)
    deferred = []         # closes that the ENGINE caused by dying on its own, of files the CLI cancelled later: the model closes
                          # a session only when the file shuts down, so they are matched once the token is set

    def do_close(e):
        i = idx[e[1]]
        settle(i)
        t = d.tasks[i]
        if t[0] == "running":
            # it is being cancelled: the token must have been set by Ctrl-C or by an earlier failure
            if not d.token:
                need_token(i)
            settle(i)
            t = d.tasks[i]
        if t[0] != "closing" or e[2] not in t[2]:
            raise Unexplained("session %r of %r closes but the model's file is in state %s" % (e[2], e[1], t[0]))
        expect(d.task(i, t[2].index(e[2])), e)
        canon.append(e)
        settle(i)

    def flush(force):
        if deferred and force:
            while not d.token:
                report_next()
        while deferred and d.token:
            do_close(deferred.pop(0))

    for e in trace:
        kind = e[0]
        flush(False)
        if kind == "create":
            if d.phase[0] != "create":
                raise Unexplained("CREATE DATABASE observed after the creation phase")
            expect(d.driver(), e)
            canon.append(e)
        elif kind in ("connect", "sql"):
            i = idx.get(e[1])
            if i is None:
                raise Unexplained("event for an unknown database %r" % (e[1],))
            settle(i)
            expect(d.task(i), e)
            canon.append(e)
            settle(i)
        elif kind == "close":
            i = idx.get(e[1])
            if i is None:
                raise Unexplained("event for an unknown database %r" % (e[1],))
            settle(i)
            if d.tasks[i][0] == "running" and not d.token and tags and tags.get(i) == "CANCELLED" and i in selfdying:
                deferred.append(e)
                continue
            do_close(e)
        elif kind == "cancel":
            if skip_cancel[0] > 0:
                skip_cancel[0] -= 1        # already performed where the first cancelled file needed it
            else:
                cancel_ahead[0] -= 1
                start_all_that_ran()
                d.ctrlc()
                canon.append(e)
        elif kind in ("drop", "mgmt-close"):
            flush(True)
            finish_stream(d, pending_reports, report_next, settle)
            guard = 0
            while True:
                guard += 1
                if guard > 10000:
                    raise Unexplained("no %r in the model" % (e,))
                evs = [x for x in d.driver() if x != PCANCEL]
                if evs:
                    if evs != [e]:
                        raise Unexplained("the model emits %r where %r was observed" % (evs, e))
                    canon.append(e)
                    break
                if d.phase[0] == "end":
                    raise Unexplained("the model ends without emitting %r" % (e,))
    # nothing more observed: let the model finish silently (it must not emit anything else)
    flush(True)
    finish_stream(d, pending_reports, report_next, settle)
    guard = 0
    while d.phase[0] != "end" and guard < 10000:
        guard += 1
        evs = [x for x in d.driver() if x != PCANCEL]
        if evs:
            raise Unexplained("the model still emits %r after the last observed event" % (evs,))
    return d.sched, canon


def finish_stream(d, pending_reports, report_next, settle):
    guard = 0
    while d.phase[0] in ("create", "stream") and guard < 10000:
        guard += 1
        if d.phase[0] == "create":
            d.driver()
            continue
        if pending_reports:
            report_next()
            continue
        if all(t[0] == "reported" for t in d.tasks):
            d.driver()
            continue
        raise Unexplained("the CLI reported %d files, the model still has unreported ones: %r" % (
            len(d.tasks) - sum(1 for t in d.tasks if t[0] != "reported"), [t[0] for t in d.tasks]))


STATUS_CODE = {"OK": 0, "FAILED": 1, "CANCELLED": 2, "SKIPPED": 3}


def settle_cancel_lag(trace, cancelled_dbs):
    """Engine processes stamp what they READ, each with its own scheduling delay; the only link between two files' events
    through the CLI is the cancellation token.  A session start or a statement that the CLI issued just before the token was set
    can therefore be stamped after the first session of a cancelled file was closed.  Such events are moved in front of that
    close (their own order kept).  This replay is about the driver's bookkeeping; "no new work after a cancellation" is C19's
    own criterion (request times against the signal time, with an allowance) and is not judged here."""
    T = next((k for k, e in enumerate(trace) if e[0] == "close" and e[1] in cancelled_dbs), None)
    if T is None:
        return trace
    late = [e for e in trace[T:] if e[0] in ("connect", "sql")]
    rest = [e for e in trace[T:] if e[0] not in ("connect", "sql")]
    return trace[:T] + late + rest


def refused_paths(case):
    out = set()
    for r in case["rules"]:
        if "Connection refused" in r.get("err", ""):
            for p, inf in case["info"].items():
                if r.get("match", "").startswith(inf.get("tag", "\0") + "_"):
                    out.add(p)
    return out


def settle_lag(trace):
    """An engine process stamps a request when it READS it.  A request the CLI wrote just before its file was cancelled can be
    read after the CLI has begun to close the file's other sessions (and a session it had just opened can start up that late);
    such events are moved in front of the first close of their database (the same canonicalisation as in C19; it concerns cancelled files only)."""
    out = []
    first_close = {}
    for e in trace:
        if e[0] == "close" and e[1] not in first_close:
            first_close[e[1]] = len(out)
            out.append(e)
        elif e[0] in ("sql", "connect") and e[1] in first_close:
            k = first_close[e[1]]
            out.insert(k, e)
            for d in first_close:
                if first_close[d] >= k:
                    first_close[d] += 1
        else:
            out.append(e)
    return out


def model_case(case, trace, got_order, jobs, keep, ff):
    """-> (wire value for family `driver`, expected dict) or raises Unexplained"""
    scripts = scripts_for(case)
    created = [e[1] for e in trace if e[0] == "create"]
    db_path = {}
    for db in created:
        for p in case["truth"]:
            if db.startswith(clifam.case_name(p) + "_") and len(db) == len(clifam.case_name(p)) + 9:
                db_path[db] = p
    if len(db_path) != len(created) or len(set(db_path.values())) != len(created):
        raise Unexplained("cannot map the created databases %r to the files" % (created,))
    files = [(db, scripts[db_path[db]]) for db in created]
    path_idx_early = {db_path[db]: i for i, db in enumerate(created)}
    # session ids in connection order
    ren, tr2 = {}, []
    for e in trace:
        if e[0] in ("connect", "sql", "close"):
            if e[0] == "connect" and (e[1], e[2]) not in ren:
                ren[(e[1], e[2])] = len(ren)
            if (e[1], e[2]) not in ren:
                raise Unexplained("event %r on a session that was never opened" % (e,))
            tr2.append([e[0], e[1], ren[(e[1], e[2])]])
        else:
            tr2.append(list(e))
    path_idx = {db_path[db]: i for i, db in enumerate(created)}
    order = []
    for p, tag in got_order:
        if p not in path_idx:
            raise Unexplained("report for %r, which has no database" % (p,))
        order.append(path_idx[p])
    tr2 = settle_lag(tr2)
    tr2 = settle_cancel_lag(tr2, {created[path_idx_early[p]] for p, tag in got_order if tag == "CANCELLED" and p in path_idx_early})
    try:
        sched, tr2 = reconstruct(jobs, keep, ff, files, tr2, order, selfdying={path_idx_early[p] for p, inf in case["info"].items() if inf.get("kind") in ("nostart", "dies") and p in path_idx_early}, refused_idx={i for i, db in enumerate(created) if db_path[db] in refused_paths(case)},
                            tags={path_idx_early[p]: tag for p, tag in got_order if p in path_idx_early})
    except RecursionError:
        raise Unexplained("the order of the reports cannot be produced by the model (a file is reported before it could have started)")
    refused = refused_paths(case)
    wire = [jobs, 1 if keep else 0, 1 if ff else 0, [[db, sc, 1 if db_path[db] in refused else 0] for db, sc in files], sched]
    expected = {"trace": tr2, "reported": [[created[path_idx[p]], STATUS_CODE.get(tag, -1)] for p, tag in got_order]}
    return wire, expected


def compare(mout, expected, rc):
    """model output of family `driver` vs the observation; returns None or a description"""
    phase, tr, rep, ex, acc = mout
    rep = [[d, 1 if c == 4 else c] for d, c in rep]
    tr = [e for e in tr if e != PCANCEL]
    if tr != [e for e in expected["trace"] if e != PCANCEL]:
        k = next((i for i, (a, b) in enumerate(zip(tr, expected["trace"])) if a != b), min(len(tr), len(expected["trace"])))
        return "trace differs at event %d: model %r, CLI %r" % (k, tr[k:k + 1], expected["trace"][k:k + 1])
    if rep != expected["reported"]:
        return "reported results differ: model %r, CLI %r" % (rep, expected["reported"])
    if phase != 4:
        return "the model has not reached its final phase (phase %d)" % phase
    if rc is not None and (ex != 0) != (rc != 0):
        return "exit status: model %d, CLI %r" % (ex, rc)
    if acc != 1:
        return "the model's own trace is refused by the observer automaton (contradicts theorem C17_driver_refines_observer)"
    return None


def recheck(case, run_once, jobs, keep, ff, tries=2):
    """A run that could not be explained is repeated: the observation (engine-side time stamps, the order of lines on stdout)
    has timing artefacts of its own, so only a scenario that is unexplained EVERY time is reported.  run_once() -> (r, trace, status)."""
    import vlib
    why = None
    for _ in range(tries):
        r, tr, st = run_once()
        if r["hung"]:
            return "the CLI did not terminate"
        try:
            wire, exp = model_case(case, tr, [(p, tag) for p, tag, _ in st], jobs, keep, ff)
            why = compare(vlib.run_model("driver", [wire])[0], exp, r["rc"])
        except Unexplained as ex:
            why = str(ex)
        if not why:
            return None
    return why
