"""vlib.py — shared machinery of the checks: builds (Coq, extraction, OCaml, Rust
harness from /repo's current working tree), wire format, running implementation
and model, proof-status checks, evidence, replay files, known findings."""
import fcntl
import hashlib
import json
import os
import re
import subprocess
import sys
import time

VERIF = os.path.dirname(os.path.dirname(os.path.abspath(__file__)))
COQ = os.path.join(VERIF, "coq")
CACHE = os.path.join(VERIF, ".cache")
OCAML_DIR = os.path.join(CACHE, "ocaml")
HARNESS = os.path.join(VERIF, "harness")
TARGET = os.path.join(CACHE, "harness-target")
REPO_TARGET = os.path.join(CACHE, "repo-target")
IMPL = os.path.join(TARGET, "debug", "slt-impl")
FAKE_ENGINE = os.path.join(TARGET, "debug", "fake-engine")
CLI = os.path.join(REPO_TARGET, "debug", "sqllogictest")
MODEL_RUN = os.path.join(OCAML_DIR, "model_run")
REPLAYS = os.path.join(VERIF, "replays")
EVIDENCE = os.path.join(VERIF, "evidence")
REPO = "/repo"

ENV = dict(os.environ, CARGO_NET_OFFLINE="true")
ALLOWED_AXIOMS = set()  # empty by design (DESIGN.md section 6)


class InfraError(Exception):
    pass


def log(*a):
    print(*a, file=sys.stderr, flush=True)


def sh(cmd, timeout=1800, cwd=None, env=None, check=True, input=None):
    p = subprocess.run(cmd, shell=isinstance(cmd, str), cwd=cwd, env=env or ENV, input=input,
                       stdout=subprocess.PIPE, stderr=subprocess.STDOUT, timeout=timeout)
    out = p.stdout.decode("utf-8", "replace")
    if check and p.returncode != 0:
        raise InfraError("command failed (%d): %s\n%s" % (p.returncode, cmd, out[-4000:]))
    return p.returncode, out


class Lock:
    def __init__(self, name):
        os.makedirs(CACHE, exist_ok=True)
        self.path = os.path.join(CACHE, name + ".lock")

    def __enter__(self):
        self.f = open(self.path, "w")
        fcntl.flock(self.f, fcntl.LOCK_EX)

    def __exit__(self, *a):
        fcntl.flock(self.f, fcntl.LOCK_UN)
        self.f.close()


# ----------------------------------------------------------------------------- builds

def coq_sources():
    out = []
    for root, _, files in os.walk(COQ):
        for f in files:
            if f.endswith(".v"):
                out.append(os.path.join(root, f))
    return sorted(out)


def build_coq():
    """Full .vo build through coq_makefile + make (never -vos)."""
    with Lock("coq"):
        mk = os.path.join(COQ, "Makefile")
        cp = os.path.join(COQ, "_CoqProject")
        if not os.path.exists(mk) or os.path.getmtime(mk) < os.path.getmtime(cp):
            sh("coq_makefile -f _CoqProject -o Makefile", cwd=COQ)
        rc, out = sh("timeout 3000 make -j16", cwd=COQ, check=False, timeout=3100)
        return rc, out


def build_model():
    """Extract the model and build the OCaml runner when any .vo is newer."""
    with Lock("ocaml"):
        os.makedirs(OCAML_DIR, exist_ok=True)
        newest = max(os.path.getmtime(p) for p in coq_sources())
        drv = os.path.join(VERIF, "ocaml", "driver.ml")
        newest = max(newest, os.path.getmtime(drv))
        if os.path.exists(MODEL_RUN) and os.path.getmtime(MODEL_RUN) >= newest:
            return
        sh("timeout 600 coqc -Q %s SLT -o %s/Extract.vo %s/Extract.v" % (COQ, OCAML_DIR, COQ), cwd=OCAML_DIR)
        sh("cp %s %s/driver.ml" % (drv, OCAML_DIR))
        sh("timeout 900 ocamlfind ocamlopt -O3 -w -a model.mli model.ml driver.ml -o model_run.new && mv model_run.new model_run",
           cwd=OCAML_DIR)


def build_harness():
    """cargo build of the harness; its path dependencies make it rebuild from /repo's working tree."""
    with Lock("cargo"):
        lock = os.path.join(HARNESS, "Cargo.lock")
        if not os.path.exists(lock):
            sh("cp /repo/Cargo.lock %s" % lock)
        sh("timeout 1700 cargo build --offline 2>&1 | tail -40", cwd=HARNESS, timeout=1800)
        if not os.path.exists(IMPL):
            raise InfraError("harness binary missing")


def build_cli():
    with Lock("cargo-cli"):
        sh("timeout 1700 cargo build --offline -p sqllogictest-bin --target-dir %s 2>&1 | tail -40" % REPO_TARGET,
           cwd=REPO, timeout=1800)
        if not os.path.exists(CLI):
            raise InfraError("CLI binary missing")


# ----------------------------------------------------------------------------- wire format

def to_tokens(v, out):
    if v is None:
        out.append("L 0")
    elif isinstance(v, bool):
        out.append("N 1" if v else "N 0")
    elif isinstance(v, int):
        if v < 0:
            raise InfraError("negative number in wire value")
        out.append("N %d" % v)
    elif isinstance(v, str):
        out.append("S %d" % len(v))
        if v:
            out.append(" ".join(str(ord(c)) for c in v))
    elif isinstance(v, (list, tuple)):
        out.append("L %d" % len(v))
        for x in v:
            to_tokens(x, out)
    else:
        raise InfraError("cannot encode %r" % (v,))


def encode(v):
    out = []
    to_tokens(v, out)
    return " ".join(out)


def decode(line):
    toks = line.split()
    pos = 0

    def value():
        nonlocal pos
        t = toks[pos]
        pos += 1
        if t == "N":
            pos += 1
            return int(toks[pos - 1])
        if t == "S":
            k = int(toks[pos])
            pos += 1
            s = "".join(chr(int(x)) for x in toks[pos:pos + k])
            pos += k
            return s
        if t == "L":
            k = int(toks[pos])
            pos += 1
            return [value() for _ in range(k)]
        raise InfraError("bad token in model output: %r" % t)

    return value()


def norm(v):
    """JSON value -> the shape the wire format round-trips to."""
    if v is None:
        return []
    if isinstance(v, bool):
        return 1 if v else 0
    if isinstance(v, (list, tuple)):
        return [norm(x) for x in v]
    return v


def coq_term(v):
    if v is None:
        return "(VL [])"
    if isinstance(v, bool):
        return "(VN %d)" % (1 if v else 0)
    if isinstance(v, int):
        return "(VN %d)" % v
    if isinstance(v, str):
        return "(VS [%s])" % "; ".join(str(ord(c)) for c in v)
    return "(VL [%s])" % "; ".join(coq_term(x) for x in v)


# ----------------------------------------------------------------------------- running

def run_impl(family, cases, shards=16, timeout=1700, env=None):
    """cases: list of JSON-able dicts -> list of JSON results (same order)."""
    if not cases:
        return []
    shards = max(1, min(shards, len(cases) // 50 + 1))
    chunks = [cases[i::shards] for i in range(shards)]
    procs = []
    for ch in chunks:
        data = "\n".join(json.dumps(c) for c in ch) + "\n"
        p = subprocess.Popen([IMPL, family], stdin=subprocess.PIPE, stdout=subprocess.PIPE,
                             stderr=subprocess.PIPE, env=env or ENV)
        procs.append((p, data))
    outs = []
    import threading
    results = [None] * len(procs)

    def work(i, p, data):
        try:
            results[i] = p.communicate(data.encode(), timeout=min(timeout, 240 + len(data) // 20000))
        except subprocess.TimeoutExpired:
            p.kill()
            p.communicate()
            results[i] = None

    ths = [threading.Thread(target=work, args=(i, p, d)) for i, (p, d) in enumerate(procs)]
    for t in ths:
        t.start()
    for t in ths:
        t.join()
    for i, (p, _) in enumerate(procs):
        if results[i] is None or p.returncode != 0:
            # the implementation died or hung (abort, stack overflow, endless loop): find the case(s) one by one
            outs.append([run_impl_single(family, c, env or ENV) for c in chunks[i]])
            continue
        so, se = results[i]
        lines = [l for l in so.decode("utf-8").split("\n") if l.strip()]
        if len(lines) != len(chunks[i]):
            raise InfraError("slt-impl %s: %d results for %d cases" % (family, len(lines), len(chunks[i])))
        outs.append([json.loads(l) for l in lines])
    res = [None] * len(cases)
    for i, ch in enumerate(outs):
        for j, r in enumerate(ch):
            res[i + j * shards] = r
    return res


def run_impl_single(family, case, env):
    try:
        p = subprocess.run([IMPL, family], input=(json.dumps(case) + "\n").encode(), stdout=subprocess.PIPE,
                           stderr=subprocess.PIPE, env=env, timeout=20)
    except subprocess.TimeoutExpired:
        return {"panic": "the implementation did not terminate within 20 s on this case (endless loop / hang)",
                "parse": ["panic"], "final": ["panic"], "events": [], "fs": [], "glob": [], "update1": ["hang"], "listing1": [], "events1": []}
    if p.returncode != 0:
        return {"panic": "process died with status %s (abort / stack overflow / signal)" % p.returncode,
                "parse": ["panic"], "final": ["panic"], "events": [], "fs": [], "glob": []}
    return json.loads(p.stdout.decode("utf-8").strip().split("\n")[-1])


def run_model(family, mcases, shards=16, timeout=1700):
    """mcases: list of wire values -> list of decoded model results."""
    if not mcases:
        return []
    shards = max(1, min(shards, len(mcases) // 50 + 1))
    chunks = [mcases[i::shards] for i in range(shards)]
    import threading
    results = [None] * shards
    procs = []
    for ch in chunks:
        data = "\n".join(encode(c) for c in ch) + "\n"
        p = subprocess.Popen("ulimit -s unlimited 2>/dev/null; exec %s %s" % (MODEL_RUN, family), shell=True,
                             stdin=subprocess.PIPE, stdout=subprocess.PIPE, stderr=subprocess.PIPE)
        procs.append((p, data))

    def work(i, p, data):
        results[i] = p.communicate(data.encode(), timeout=timeout)

    ths = [threading.Thread(target=work, args=(i, p, d)) for i, (p, d) in enumerate(procs)]
    for t in ths:
        t.start()
    for t in ths:
        t.join()
    res = [None] * len(mcases)
    for i, (p, _) in enumerate(procs):
        so, se = results[i]
        if p.returncode != 0:
            raise InfraError("model_run %s exited %s: %s" % (family, p.returncode, se.decode("utf-8", "replace")[-2000:]))
        lines = [l for l in so.decode().split("\n") if l.strip()]
        if len(lines) != len(chunks[i]):
            raise InfraError("model_run %s: %d results for %d cases" % (family, len(lines), len(chunks[i])))
        for j, l in enumerate(lines):
            res[i + j * shards] = decode(l)
    return res


def vm_crosscheck(family, mcases, mouts, sample, tag):
    """Re-evaluate a sample of the cases with vm_compute inside coqc and compare with
    the extracted runner's answers.  A mismatch is an infrastructure failure."""
    if not mcases:
        return 0
    n = len(mcases)
    idx = sorted(set(int(i * n / sample) for i in range(min(sample, n))))
    d = os.path.join(CACHE, "vm")
    os.makedirs(d, exist_ok=True)
    name = "cases_%s_%d" % (tag, os.getpid())
    path = os.path.join(d, name + ".v")
    with open(path, "w") as f:
        f.write("From SLT Require Import Entry.\nOpen Scope N_scope.\n")
        f.write("Definition fam := %s.\n" % coq_term(family)[4:-1])
        kept = []
        for i in idx:
            # coqc parses the literal recursively: a case of several hundred thousand characters overflows its stack; take a neighbour instead
            for j in [i] + list(range(i + 1, min(n, i + 20))):
                ta, tb = coq_term(mcases[j]), coq_term(mouts[j])
                if len(ta) + len(tb) < 120000:
                    f.write("Eval vm_compute in (val_eqb (model_main fam %s) %s).\n" % (ta, tb))
                    kept.append(j)
                    break
        idx = kept
    rc, out = sh("ulimit -s unlimited 2>/dev/null; timeout 900 coqc -noglob -Q %s SLT %s" % (COQ, path), cwd=d, check=False, timeout=1000)
    for ext in (".v", ".vo", ".vok", ".vos", ".glob"):
        try:
            os.remove(os.path.join(d, name + ext))
        except OSError:
            pass
    try:
        os.remove(os.path.join(d, "." + name + ".aux"))
    except OSError:
        pass
    trues = len(re.findall(r"=\s*true\s*:\s*bool", out))
    if rc != 0 or trues != len(idx):
        raise InfraError("vm_compute cross-check of extracted model failed (%d/%d agree)\n%s" % (trues, len(idx), out[-3000:]))
    return len(idx)


# ----------------------------------------------------------------------------- proof status

HYGIENE_RE = re.compile(r"\b(Admitted|admit|Axiom|Axioms|Parameter|Parameters|Conjecture|Conjectures|Hypothesis|Hypotheses|Variable|Variables|bypass_check|Unset\s+Guard|Unset\s+Positivity|Unset\s+Universe|type-in-type|impredicative-set|Admit\s+Obligations|native_compute)\b")


def strip_comments(src):
    out = []
    depth = 0
    i = 0
    while i < len(src):
        if src.startswith("(*", i):
            depth += 1
            i += 2
        elif src.startswith("*)", i) and depth > 0:
            depth -= 1
            i += 2
        else:
            if depth == 0:
                out.append(src[i])
            i += 1
    return "".join(out)


def hygiene():
    """No Admitted/admit/Axiom/Parameter/...; Variable/Hypothesis only inside a Section."""
    problems = []
    for p in coq_sources():
        src = strip_comments(open(p).read())
        depth = 0
        for ln, line in enumerate(src.split("\n"), 1):
            if re.match(r"\s*Section\b", line):
                depth += 1
            if re.match(r"\s*End\s+\w+\s*\.", line) and depth > 0 and not re.match(r"\s*End\s+(RowOrder|\w*Order)\s*\.", line):
                depth -= 1
            for m in HYGIENE_RE.finditer(line):
                w = m.group(1)
                if w in ("Variable", "Variables", "Hypothesis", "Hypotheses") and depth > 0:
                    continue
                if re.search(r'"[^"]*' + re.escape(w), line):
                    continue
                problems.append("%s:%d: %s" % (os.path.relpath(p, VERIF), ln, w))
    for p in (os.path.join(COQ, "_CoqProject"),):
        s = open(p).read()
        for bad in ("-type-in-type", "-impredicative-set", "-vos", "-vok", "-bypass"):
            if bad in s:
                problems.append("_CoqProject: %s" % bad)
    return problems


def check_props(pid):
    """Compile coq/Props/<pid>.v (statements only: Theorem/exact/Print Assumptions),
    return (obligations, discharged, details, problems)."""
    path = os.path.join(COQ, "Props", pid + ".v")
    problems = []
    if not os.path.exists(path):
        return 0, 0, [], ["no Props/%s.v" % pid]
    src = open(path).read()
    names = re.findall(r"^\s*Theorem\s+(\w+)", strip_comments(src), re.M)
    # statement lock
    lock = os.path.join(COQ, "statements.lock")
    digest = hashlib.sha256(src.encode()).hexdigest()
    locked = {}
    if os.path.exists(lock):
        for l in open(lock):
            if l.strip():
                a, b = l.split()
                locked[a] = b
    if locked.get(pid + ".v") != digest:
        problems.append("Props/%s.v does not match statements.lock" % pid)
    # shape: every proof is `exact <lemma>` and followed by Print Assumptions
    body = strip_comments(src)
    for n in names:
        if not re.search(r"Theorem\s+" + n + r"\b.*?Proof\.\s*exact\s+[^.]+\.\s*Qed\.\s*Print Assumptions\s+" + n + r"\.", body, re.S):
            problems.append("Props/%s.v: theorem %s is not of the form exact/Qed/Print Assumptions" % (pid, n))
    d = os.path.join(CACHE, "props", "%s_%d" % (pid, os.getpid()))
    os.makedirs(d, exist_ok=True)
    rc, out = sh("timeout 900 coqc -noglob -Q %s SLT -o %s/%s.vo %s" % (COQ, d, pid, path),
                 cwd=d, check=False, timeout=1000)
    import shutil
    shutil.rmtree(d, ignore_errors=True)
    details = []
    discharged = 0
    if rc != 0:
        problems.append("coqc Props/%s.v failed: %s" % (pid, out[-1500:]))
        return len(names), 0, details, problems
    blocks = re.split(r"(?=Closed under the global context|Axioms:)", out)
    results = [b for b in blocks if b.startswith("Closed under") or b.startswith("Axioms:")]
    if len(results) != len(names):
        problems.append("Props/%s.v: %d assumption reports for %d theorems" % (pid, len(results), len(names)))
    for n, b in zip(names, results):
        if b.startswith("Closed under"):
            discharged += 1
            details.append({"theorem": n, "assumptions": "Closed under the global context"})
        else:
            axs = re.findall(r"^(\S+)\s*:", b[len("Axioms:"):], re.M)
            if axs and all(a in ALLOWED_AXIOMS for a in axs):
                discharged += 1
            else:
                problems.append("theorem %s depends on axioms %s" % (n, axs))
            details.append({"theorem": n, "assumptions": axs})
    return len(names), discharged, details, problems


def coqchk_props(pid):
    """thorough tier: re-check Props/<pid>.vo and everything it depends on with the independent checker coqchk;
    returns (summary dict, problems)."""
    import shutil, glob
    d = os.path.join(CACHE, "coqchk", "%s_%d" % (pid, os.getpid()))
    shutil.rmtree(d, ignore_errors=True)
    os.makedirs(os.path.join(d, "Props"))
    try:
        for f in glob.glob(os.path.join(COQ, "*.vo")):
            os.symlink(f, os.path.join(d, os.path.basename(f)))
        shutil.copy(os.path.join(COQ, "Props", pid + ".v"), os.path.join(d, "Props", pid + ".v"))
        rc, out = sh("timeout 900 coqc -noglob -Q %s SLT %s/Props/%s.v" % (d, d, pid), cwd=d, check=False, timeout=1000)
        if rc != 0:
            return {}, ["coqchk: compiling Props/%s.v failed: %s" % (pid, out[-800:])]
        rc, out = sh("timeout 3000 coqchk -o -silent -Q %s SLT SLT.Props.%s" % (d, pid), cwd=d, check=False, timeout=3100)
    finally:
        shutil.rmtree(d, ignore_errors=True)
    if rc != 0:
        return {}, ["coqchk failed on SLT.Props.%s: %s" % (pid, out[-1500:])]
    summ = {}
    for key, label in (("axioms", "Axioms"), ("type_in_type", "Constants/Inductives relying on type-in-type"),
                       ("unsafe_fixpoints", "Constants/Inductives relying on unsafe (co)fixpoints"), ("assumed_positivity", "Inductives whose positivity is assumed")):
        m = re.search(r"\* " + re.escape(label) + r":\s*(.*?)(?=\n\s*\n|\Z)", out, re.S)
        summ[key] = m.group(1).strip() if m else "?"
    probs = ["coqchk: %s = %s" % (k, v) for k, v in summ.items() if v != "<none>"]
    return summ, probs


# ----------------------------------------------------------------------------- findings / evidence

def known_findings(pid):
    path = os.path.join(VERIF, "known_findings.jsonl")
    out = []
    if os.path.exists(path):
        for l in open(path):
            l = l.strip()
            if l and not l.startswith("#"):
                e = json.loads(l)
                if (e.get("property") == pid or pid in e.get("also", [])) and e.get("status", "known") == "known":
                    out.append(e)
    return out


def write_replay(pid, seed, n, obj):
    os.makedirs(REPLAYS, exist_ok=True)
    path = os.path.join(REPLAYS, "%s-%s-%d.json" % (pid, seed, n))
    with open(path, "w") as f:
        json.dump(obj, f, indent=1, ensure_ascii=False)
    return path


def write_evidence(pid, tier, seed, coverage, assumptions, wall, violations):
    os.makedirs(EVIDENCE, exist_ok=True)
    ev = {
        "property_id": pid,
        "tier": tier,
        "seed": seed,
        "level": "proof",
        "coverage": coverage,
        "assumptions": assumptions,
        "wall_s": round(wall, 2),
        "violations": violations,
    }
    tmp = os.path.join(EVIDENCE, pid + ".json.tmp")
    with open(tmp, "w") as f:
        json.dump(ev, f, indent=1, ensure_ascii=False)
    os.replace(tmp, os.path.join(EVIDENCE, pid + ".json"))


TRUSTED_BASE = [
    "Coq 8.16.1 kernel (Debian build); vm_compute used in Examples/witnesses and the extraction cross-check; native_compute not used",
    "no axioms: every property theorem must print 'Closed under the global context'",
    "Coq extraction to OCaml 4.13.1 with ExtrOcamlBasic only (Extract Inductive bool/option/unit/list/prod/sumbool/sumor; no Extract Constant); ocaml/driver.ml token reader/printer; sample re-evaluated with vm_compute each run",
    "hand-written Gallina model tied to /repo by this correspondence run (Rust harness with path dependencies on /repo, Python generators/differ)",
    "tools/vlib.py hygiene grep, statements.lock, Print Assumptions capture",
]
