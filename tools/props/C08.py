"""C08 — rewriting test files is atomic per file, never crashes, and leaves no debris."""
import collections
import updfam
import vlib

PID = "C08"
NEEDS_CLI = True
RULE = ("file trees (main file with 0..3 included files, several includes per file; files of 0..20 bytes, empty files, lone `halt`, "
        "trailing blank lines 0..20, large files) rewritten by Runner::update_test_file against a scripted database: (a) uninterrupted: "
        "every original file is read back at EVERY database request and must equal its old or its complete new content; completion without "
        "panic; every rewritten file equals the model's prediction (its own records only), ends with exactly one newline, no *.temp remains; "
        "(b) the mock driver panics at request k for EVERY k up to the number of requests: afterwards every original file equals its old or "
        "its complete new content; (c) the real binary `sqllogictest --override` against the scripted engine over trees with includes: the engine sends "
        "SIGKILL to the CLI at its k-th request for EVERY k; afterwards every original file equals its old or the complete new content of the "
        "uninterrupted run, which itself must complete, leave no *.temp and end every file with one newline; "
        "distinct = distinct tree+answers+k; non-trivial = at least one file changes or a crash is injected")
ASSUMPTIONS = ["partial: durability (fsync ordering after power loss), non-POSIX file systems and concurrent writers are outside the model; "
               "rename(2) is assumed atomic", "the CLI copy of the updater is exercised through `--format` in C05 and through the SIGKILL runs (c)",
               "temp names are fresh (library: name + 10 random digits + .temp); a tree containing such a name is outside the premise"]


def corpus():
    mk = lambda text: {"files": [["main.slt", "file", text]], "main": "main.slt", "answers": [], "default_answer": ["complete", 0], "sys": [],
                       "sys_default": ["exit", 0, "", ""], "sep": "\t", "strict_cols": False, "meta": {"src": "witness D8"}}
    return [mk("halt\n"), mk(""), mk("\n" * 10), mk("halt"), mk("statement ok\nselect 1\n" + "\n" * 12)]


def generate(rng, tier):
    n = 600 if tier == "quick" else 5000
    cases = []
    for i in range(n):
        c = updfam.gen_case(rng, with_includes=(rng.random() < 0.6), tiny=(rng.random() < 0.3))
        if rng.random() < 0.3:
            # trailing blank lines
            for f in c["files"]:
                if f[1] == "file" and rng.random() < 0.6:
                    f[2] = f[2] + "\n" * rng.randint(0, 20)
        cases.append(c)
    for i in range(5 if tier == "quick" else 60):
        cases.append(gen_cli_tree(rng, i))
    return cases


def gen_cli_tree(rng, i):
    """a main file with 0..2 included files; every file holds records some of which the engine's constant answer `1` contradicts"""
    def recs(tag, n):
        out = []
        for j in range(n):
            k = rng.randrange(4)
            if k == 0:
                out.append("query I\nselect %s_%d\n----\n%s\n" % (tag, j, rng.choice(["1", "2", "7\n8"])))
            elif k == 1:
                out.append("statement ok\nselect %s_%d\n" % (tag, j))
            elif k == 2:
                out.append("statement error\nselect %s_%d\n" % (tag, j))
            else:
                out.append("query T rowsort\nselect %s_%d\n----\nzzz\n" % (tag, j))
        return out
    ninc = rng.randint(1, 2) if i % 2 == 0 else rng.randint(0, 2)
    files = []
    main = recs("M", rng.randint(1, 4))
    for a in range(ninc):
        # sometimes a sibling with the same stem and another extension (temp-file names must not collide)
        name = ("main.inc" if a == 0 else "main.part") if (i % 2 == 0 or rng.random() < 0.3) else "inc/f%d.slt" % a
        body = recs("I%d" % a, rng.randint(0, 3))
        text = "\n".join(body) + ("\n" * rng.randint(0, 10) if rng.random() < 0.5 else "")
        if rng.random() < 0.15:
            text = ""
        files.append([name, text])
        main.insert(rng.randint(0, len(main) - 1) if i % 2 == 0 else rng.randint(0, len(main)), "include %s\n" % name)
    files.insert(0, ["main.slt", "\n".join(main) + "\n" * rng.randint(0, 9)])
    return {"kind": "clikill", "files": files, "meta": {"src": "cli-kill", "i": i}}


def read_tree(sb, files):
    import os
    out = {}
    for rel, _ in files:
        p = os.path.join(sb.dir, rel)
        out[rel] = open(p, newline="").read() if os.path.exists(p) else None
    debris = []
    for root, _, names in os.walk(sb.dir):
        debris += [n for n in names if n.endswith(".temp")]
    return out, debris


def execute_cli_kill(cases, tier, disagreements, cats, keys):
    import clirun
    n = 0
    for c in cases:
        old = {rel: t for rel, t in c["files"]}
        sb = clirun.Sandbox("c08")
        try:
            sb.write_files(c["files"])
            r = sb.run(["--override", "main.slt"], scenario={"rules": []}, timeout=60)
            new, debris = read_tree(sb, c["files"])
        finally:
            sb.close()
        n += 1
        # the same run with stale temp files left behind by an earlier interrupted run (longer than anything this run writes):
        # the result must not depend on them
        if not (r["hung"] or r["rc"] != 0):
            sb = clirun.Sandbox("c08")
            try:
                stale = "# stale temp content of an interrupted run\n" + "query T\nselect 'a-rather-long-cell-value'\n----\nsome-other-long-cell-value\n\n" * 40
                sb.write_files(c["files"] + [[rel + ".temp", stale] for rel, _ in c["files"]])
                rs_ = sb.run(["--override", "main.slt"], scenario={"rules": []}, timeout=60)
                new2, debris2 = read_tree(sb, c["files"])
            finally:
                sb.close()
            n += 1
            cats["cli with stale temp files"] += 1
            if new2 != new or debris2:
                disagreements.append({"case": dict(c, stale_temp=True), "impl": {"rc": rs_["rc"], "new": new2, "debris": debris2}, "model": new,
                                      "spec": "contradicts L1 (C08_final): with stale `*.temp` files present the rewritten files differ from those of a run in a clean directory (or temp files remain): %r" % (
                                          {k: (v or "")[-80:] for k, v in new2.items() if v != new.get(k)},), "broken": "corr_C08_cli"})
        nreq = sum(1 for e in r["events"] if e["ev"] == "SQL")
        spec = None
        if r["hung"] or r["rc"] != 0:
            spec = "contradicts L1 (C08_final): `--override` did not complete (rc=%r): %s" % (r["rc"], r["stderr"][-300:])
        elif debris:
            spec = "contradicts L1 (C08_final): temporary files remain after completion: %r" % debris
        else:
            for rel, t in new.items():
                if t is None:
                    spec = "contradicts L1: file %s vanished" % rel
                elif t != "" and (not t.endswith("\n") or t.endswith("\n\n")):
                    spec = "contradicts L1 (C08_final): rewritten file %s does not end with exactly one newline: %r" % (rel, t[-20:])
        cats["cli uninterrupted=%s" % ("ok" if spec is None else "bad")] += 1
        if spec:
            disagreements.append({"case": c, "impl": {"rc": r["rc"], "new": new, "debris": debris}, "model": None, "spec": spec, "broken": "corr_C08_cli"})
            continue
        if any(new[k] != old[k] for k in old):
            keys.add(repr(c["files"]))
        for k in range(1, nreq + 1):
            sb = clirun.Sandbox("c08")
            try:
                sb.write_files(c["files"])
                r2 = sb.run(["--override", "main.slt"], scenario={"rules": [{"at_request": k, "signal": "KILL", "grace_ms": 30}]}, timeout=60)
                cur, _ = read_tree(sb, c["files"])
            finally:
                sb.close()
            n += 1
            cats["cli sigkill"] += 1
            keys.add(repr((c["files"], k)))
            if r2["rc"] != -9:
                cats["cli sigkill: process not killed (rc=%r)" % r2["rc"]] += 1
            for rel in old:
                if cur[rel] != old[rel] and cur[rel] != new[rel]:
                    disagreements.append({"case": dict(c, k=k), "impl": {"rc": r2["rc"], "file": rel, "content": cur[rel]}, "model": {"old": old[rel], "new": new[rel]},
                                          "spec": "contradicts L1 (C08_atomic): after SIGKILL of the CLI at request %d of %d file %s holds neither its old nor its complete new content: %r"
                                                  % (k, nreq, rel, (cur[rel] or "")[:120]), "broken": "corr_C08_cli"})
                    break
    return n


def execute(cases, tier):
    cli_cases = [c for c in cases if c.get("kind") == "clikill"]
    cases = [c for c in cases if c.get("kind") != "clikill"]
    rows, vm_n = updfam.execute(cases, tier, PID) if cases else ([], 0)
    disagreements = []
    cats = collections.Counter()
    keys = set()
    ncli = execute_cli_kill(cli_cases, tier, disagreements, cats, keys)
    crash_cases = []
    for row in rows:
        c, o, m = row["case"], row["out"], row["model"]
        if o.get("update1") == ["hang"]:
            # the harness isolated this case because the implementation did not return (endless loop): a verdict, not an unparseable input
            cats["hung"] += 1
            disagreements.append({"case": c, "impl": o.get("panic"), "model": None,
                                  "spec": "contradicts L1 (C08_final: every parseable file is rewritten without a crash): update_test_file did not terminate within 20 s on this tree",
                                  "broken": "corr_C08_update"})
            continue
        if o["parse"][0] != "ok":
            cats["unparseable"] += 1
            continue
        old = {f[0]: f[2] for f in c["files"] if f[1] == "file"}
        l1 = updfam.listing_dict(o["listing1"])
        spec = None
        note = None
        if o["update1"] != ["ok"]:
            spec = "contradicts L1 (C08_final): the update did not complete: %r" % (o["update1"],)
        else:
            new = {p: l1.get(p) for p in old}
            for k, p, content in o.get("snapshots", []):
                if content != new.get(p):
                    spec = "contradicts L1 (C08_atomic): at request %d file %s held neither its old nor its complete new content: %r" % (k, p, content[:120])
                    break
            mf0 = updfam.model_files(m)
            rewritten = set(mf0[1].keys()) if mf0 and mf0[0] == "ok" else set(new.keys())
            if spec is None:
                for p, t in new.items():
                    if p not in rewritten:
                        if t != old[p]:
                            spec = "contradicts L1: file %s is not part of the include tree but was modified" % p
                            break
                        continue
                    if t is None:
                        spec = "contradicts L1: file %s vanished" % p; break
                    if t != "" and (not t.endswith("\n") or t.endswith("\n\n")):
                        spec = "contradicts L1 (C08_final): rewritten file %s does not end with exactly one newline: %r" % (p, t[-20:]); break
                if spec is None and any(e[0].endswith(".temp") for e in o["listing1"]):
                    spec = "contradicts L1 (C08_final): temporary files remain: %r" % [e[0] for e in o["listing1"] if e[0].endswith(".temp")]
            mf = updfam.model_files(m)
            if mf and mf[0] == "ok":
                for p, t in mf[1].items():
                    if l1.get(p) != t:
                        note = "file %s differs from the model's prediction (per-file record ownership)" % p
            elif mf:
                note = "model predicts %r" % mf[0]
            if any(new[p] != old[p] for p in old):
                keys.add(repr((c["files"], c["answers"])))
            nreq = sum(1 for e in o["events1"] if e[0] == "sql")
            if spec is None and note is None:
                for k in range(nreq):
                    c2 = dict(c)
                    a = list(c["answers"]) + [c["default_answer"]] * max(0, k + 1 - len(c["answers"]))
                    a[k] = ["panic"]
                    c2["answers"] = a
                    c2["panic_at"] = k
                    c2["meta"] = dict(c["meta"], crash=k, new=new, old=old)
                    crash_cases.append(c2)
        cats["uninterrupted=%s" % ("ok" if spec is None and note is None else "bad")] += 1
        if spec or note:
            disagreements.append({"case": c, "impl": {k2: o.get(k2) for k2 in ("update1", "listing1", "snapshots")},
                                  "model": m[1] if isinstance(m, list) and len(m) > 1 else m, "spec": spec, "note": note, "broken": "corr_C08_final"})
    # crash injection at every request
    maxcrash = 3000 if tier == "quick" else 40000
    crash_cases = crash_cases[:maxcrash]
    if crash_cases:
        outs = vlib.run_impl("update", [updfam.corr.strip(c) for c in crash_cases], shards=8)
        for c, o in zip(crash_cases, outs):
            cats["crash"] += 1
            keys.add(repr((c["files"], c["answers"], c["panic_at"])))
            l = updfam.listing_dict(o.get("listing1", []))
            spec = None
            if o.get("update1") != ["panic"]:
                spec = "no-crash: the injected driver panic at request %d did not interrupt the update: %r" % (c["panic_at"], o.get("update1"))
                spec = None   # a record answered by a panic may be skipped by the guard evaluation order; not a violation
            for p, oldc in c["meta"]["old"].items():
                cur = l.get(p)
                if cur != oldc and cur != c["meta"]["new"].get(p):
                    spec = "contradicts L1 (C08_atomic): after a driver panic at request %d file %s holds neither its old nor its complete new content: %r" % (
                        c["panic_at"], p, (cur or "")[:120])
            if spec:
                disagreements.append({"case": c, "impl": {"update1": o.get("update1"), "listing1": o.get("listing1")}, "model": c["meta"]["new"],
                                      "spec": spec, "broken": "corr_C08_crash"})
    stats = {"evaluations": len(cases) + len(crash_cases) + ncli, "cli_runs": ncli, "model_evaluations": len(rows), "distinct_nontrivial": len(keys), "rule": RULE,
             "categories": dict(sorted(cats.items())), "vm_compute_crosschecked": vm_n, "crash_points": len(crash_cases),
             "samples": [{"files": c["files"], "answers": c["answers"][:3]} for c in cases[:2]], "disagreements": len(disagreements)}
    return {"stats": stats, "disagreements": disagreements, "known_hits": [], "observables": []}
