"""C20 — the external-engine driver pairs each request with its reply under any chunking."""
import collections
import json
import vlib
import corr

PID = "C20"
RULE = ("request sequences (SQL with quotes, backslashes, newlines, control characters, non-ASCII, astral code points) x reply texts "
        "(rows / err; \\uXXXX escapes, surrogate pairs, inner and leading/trailing JSON white space) x chunkings of the reply byte stream: "
        "EVERY single cut point and EVERY pair of cut points for streams <= 40 bytes (thorough; quick: every single cut + sampled pairs), "
        "random cuts for long ones, lock-step and eager writing, 0..5 ms gaps; EVERY truncation point of a reply followed by child exit / closed stdout; "
        "ExternalDriver::run under a timeout; frame boundaries predicted by the Coq delimiter scanner, contents decoded by Python's json (third implementation); "
        "request bytes received by the child compared with the model's request_text; child sees EOF after shutdown; distinct = distinct (requests, stream, cuts); "
        "non-trivial = more than one chunk or a truncated stream")
ASSUMPTIONS = ["serde_json's value boundary is an oracle law: on object replies the Coq delimiter scanner frame_end stops where the stream deserializer stops (checked by these runs)",
               "partial: promptness, pipe buffering, child reaping and kill-on-drop are OS/tokio behaviour - enforced by timeouts in the harness, not by a theorem",
               "contents (rows verbatim, err as error) are decoded from a complete frame by serde_json; the expected value is computed by Python's json module"]

SQLS = ["select 1", "select 'a\"b'", "a\\b", "line1\nline2", "tab\there", "é ü €", "🙂 astral", "\x01\x1f ctrl", "{\"sql\":\"nested\"}", "", "}{][\"\\"]
REPLIES = [
    '{"result":[["1","2"]]}', '{"result":[]}', '{"err":"boom"}', '  {"result":[["a b","é"]]}', '{"result":[["\\u00e9","\\ud83d\\ude42"]]}\n',
    '{ "result" : [ [ "x" ] , [ "y" ] ] }', '{"err":"brace } in \\"string\\" { ["}', '\n\n{"result":[["}{"]]}', '{"result":[["\\\\"]]}\t',
    '{"err":"é🙂"}', '{"result":[["' + "v" * 50 + '"]]}', '{"err":""}', '{"err":" "}', '{"result":[[""]]}',
    '{"result":[["' + "é" * 140 + '","' + "🙂" * 40 + '"]]}', '{"err":"' + "a" * 253 + "é" * 30 + '"}', '{"err":"' + "b" * 254 + "🙂" * 20 + '"}',
]


def expected_value(frame_bytes):
    v = json.loads(bytes(frame_bytes).decode("utf-8"))
    if "result" in v:
        return ["rows", v["result"]]
    return ["err", "sql", v["err"]]


def mk_case(reqs, replies_bytes, cuts, mode, tail=None, then=None, delay=0):
    """replies_bytes: list of byte lists (one per reply); cuts: sorted global cut offsets into their concatenation"""
    stream = [b for r in replies_bytes for b in r]
    if tail:
        stream = stream + tail
    bounds = sorted(set([0] + [c for c in cuts if 0 < c < len(stream)] + [len(stream)]))
    chunks = [stream[a:b] for a, b in zip(bounds, bounds[1:])]
    # lock-step: the chunks of reply k are those inside its byte range (cuts are global, so split per reply)
    script_replies = []
    if mode == "eager":
        script_replies = [{"chunks": chunks, "delay_ms": delay, "then": then}]
    else:
        pos = 0
        ranges = []
        for r in replies_bytes:
            ranges.append((pos, pos + len(r)))
            pos += len(r)
        for i, (a, b) in enumerate(ranges):
            bs = sorted(set([a] + [c for c in cuts if a < c < b] + [b]))
            script_replies.append({"chunks": [stream[x:y] for x, y in zip(bs, bs[1:])], "delay_ms": delay,
                                   "then": then if i == len(ranges) - 1 else None})
        chunks = [ch for r in script_replies for ch in r["chunks"]]
    return {"script": {"mode": mode, "replies": script_replies}, "requests": reqs, "timeout_ms": 1500,
            "meta": {"chunks": chunks, "eof": then in ("exit", "close"), "nreplies": len(replies_bytes), "ncuts": len(cuts), "then": then, "truncated": bool(tail) or False}}


def corpus():
    return []


def generate(rng, tier):
    cases = []
    enc = lambda s: list(s.encode("utf-8"))
    # (1) every single cut point / pairs of cut points on short streams
    shorts = [['{"result":[["é"]]}'], ['{"err":"x"}', ' {"result":[]}'], ['{"result":[["\\"}"]]}'], ['\n{"err":"🙂"}']]
    for rs in shorts:
        rb = [enc(r) for r in rs]
        n = sum(len(r) for r in rb)
        reqs = [rng.choice(SQLS) for _ in rs]
        for c in range(1, n):
            cases.append(mk_case(reqs, rb, [c], rng.choice(["lockstep", "eager"])))
        pairs = [(a, b) for a in range(1, n) for b in range(a + 1, n)]
        if tier == "quick":
            pairs = rng.sample(pairs, min(60, len(pairs)))
        for a, b in pairs:
            cases.append(mk_case(reqs, rb, [a, b], rng.choice(["lockstep", "eager"])))
    # (2) random sequences, random cuts
    for _ in range(800 if tier == "quick" else 20000):
        k = rng.randint(1, 5)
        rs = [rng.choice(REPLIES) for _ in range(k)]
        rb = [enc(r) for r in rs]
        n = sum(len(r) for r in rb)
        cuts = sorted(rng.sample(range(1, n), min(n - 1, rng.choice([0, 1, 2, 5, 12])))) if n > 1 else []
        reqs = [rng.choice(SQLS) for _ in range(k)]
        cases.append(mk_case(reqs, rb, cuts, rng.choice(["lockstep", "eager"]), delay=rng.choice([0, 0, 1, 5])))
    # (3) every truncation point of the last reply, then the child exits or closes its output
    for rs in [['{"result":[["1"]]}'], ['{"err":"x"}', '{"result":[["é"]]}']]:
        rb = [enc(r) for r in rs]
        last = rb[-1]
        for t in range(0, len(last)):
            for then in ("exit", "close"):
                reqs = [rng.choice(SQLS[:6]) for _ in rs]
                cases.append(mk_case(reqs, rb[:-1] + [last[:t]], [], "lockstep", then=then))
    # (3b) long replies of multi-byte text truncated far into them (whatever quotes or measures the unfinished reply must not cut it inside a character):
    # every alignment of 2-, 3- and 4-byte characters around byte offsets 250..260
    for unit in ("é", "€", "🙂"):
        for pad in range(238, 246):
            body = enc('{"result":[["' + "a" * pad + unit * 30 + '"]]}')
            for t in (len(body) - 1, len(body) - 7, 300):
                cases.append(mk_case([rng.choice(SQLS[:6])], [body[:t]], [], "lockstep", then=rng.choice(["exit", "close"])))
    # (4) trailing white space then end of stream; more calls than replies with a live child (timeout expected)
    cases.append(mk_case(["a", "b"], [enc('{"result":[]}'), enc("  \n")], [], "lockstep", then="exit"))
    cases.append(mk_case(["a", "b"], [enc('{"result":[]}')], [], "lockstep"))
    # (5) requests larger than a pipe buffer (64 KiB): the whole request must reach the engine, and the next call still pairs up
    for n in ([70000, 200000] if tier == "quick" else [65536, 70000, 200000, 1200000]):
        big = "select '" + ("x" * 997 + "\n\"q\" é") * (n // 1005) + "'"
        cases.append(mk_case([big, "select 1"], [enc('{"result":[["big"]]}'), enc('{"result":[["1"]]}')], [], "lockstep"))
    return cases


def execute(cases, tier):
    outs = vlib.run_impl("driver", [corr.strip(c) for c in cases], shards=16)
    mcases = [[["".join(chr(b) for b in ch) for ch in c["meta"]["chunks"]], len(c["requests"]), c["meta"]["eof"]] for c in cases]
    # the wire format carries byte strings as code points 0..255
    mouts = vlib.run_model("frames", mcases)
    rcases = sorted({s for c in cases for s in c["requests"]})
    rmodel = dict(zip(rcases, vlib.run_model("request", rcases)))
    vm_n = vlib.vm_crosscheck("frames", mcases, mouts, 30 if tier == "quick" else 100, PID)
    disagreements = []
    cats = collections.Counter()
    keys = set()
    for c, o, m in zip(cases, outs, mouts):
        exp = []
        for r in m:
            if r[0] == "frame":
                try:
                    exp.append(expected_value([ord(ch) for ch in r[1]]))
                except Exception as e:
                    exp.append(["err", "json", ""])
            elif r[0] == "eof":
                exp.append(["err", "io", ""])
            elif r[0] == "err-remaining":
                exp.append(["err", "io", ""])
            else:
                exp.append(["timeout"])
        got = o.get("calls", o)
        # calls after the first error/timeout are not constrained by the property
        cut = next((i for i, e in enumerate(exp) if e[0] != "rows" and not (e[0] == "err" and e[1] == "sql")), None)
        if cut is not None:
            exp = exp[:cut + 1]
            got = got[:cut + 1] if isinstance(got, list) else got
        spec = None
        if got != exp:
            spec = "contradicts L1 (C20_chunking / C20_eof): calls returned %r, the scripted replies are %r" % (json.dumps(got)[:300], json.dumps(exp)[:300])
        # the request the engine received: valid JSON carrying the SQL unchanged, byte-identical to the model's text
        nrecv = len(o.get("received", []))
        for i, rcv in enumerate(o.get("received", [])):
            want_sql = c["requests"][i] if i < len(c["requests"]) else None
            if rcv[0] != {"sql": want_sql}:
                spec = spec or "contradicts L1 (C20_request): engine received %r for SQL %r" % (rcv[0], want_sql)
            if bytes(rcv[1]).decode("utf-8", "replace") != rmodel.get(want_sql):
                spec = spec or "contradicts L1 (C20_request): request bytes %r differ from the model's %r" % (bytes(rcv[1]), rmodel.get(want_sql))
        if o.get("shutdown") == "ok" and not o.get("child_saw_eof") and c["meta"]["then"] is None:
            spec = spec or "contradicts L1 (C20_shutdown): after shutdown the engine did not see end-of-file on its input"
        if o.get("shutdown") == "timeout":
            spec = spec or "contradicts L1 (C20_shutdown): shutdown did not return (engine not reaped)"
        cats["chunks=%s" % min(len(c["meta"]["chunks"]), 9)] += 1
        cats["end=%s" % c["meta"]["then"]] += 1
        if len(c["meta"]["chunks"]) > 1 or c["meta"]["then"]:
            keys.add(json.dumps([c["requests"], c["meta"]["chunks"], c["meta"]["then"]]))
        if spec:
            disagreements.append({"case": c, "impl": o, "model": m, "spec": spec, "broken": "corr_C20_frames"})
    stats = {"evaluations": len(cases), "model_evaluations": len(mcases), "distinct_nontrivial": len(keys), "rule": RULE,
             "categories": dict(sorted(cats.items())), "vm_compute_crosschecked": vm_n,
             "samples": [{"requests": c["requests"], "chunks": [bytes(ch).decode("utf-8", "replace") for ch in c["meta"]["chunks"]]} for c in cases[:3]],
             "disagreements": len(disagreements)}
    return {"stats": stats, "disagreements": disagreements, "known_hits": [], "observables": []}
