"""C12 — `connection NAME` routes only the next record; sessions are isolated and closed."""
import corr
import runfam

PID = "C12"
RULE = ("scripts of 1..14 records with random sequences of `connection` lines over {default, Default, DEFAULT, a, A, b, another} "
        "(several in a row, repeated names, before statements, queries, skipped records, failing records and system records), a "
        "per-session counter database (answer = session id and per-session call index), optional failing connects, shutdown at the end; "
        "a Python reference assigns the expected session to every call; distinct = distinct script; non-trivial = a named connection is used")
ASSUMPTIONS = ["Connections::shutdown_all closes sessions concurrently (join_all over a HashMap): the order of the closes is canonicalised to a set",
               "until the parser model is plugged into this family the model receives the records as parsed by the implementation; "
               "the attachment of connection lines to records is checked against the generator's own reference (direct check) and by C03"]

NAMES = ["default", "Default", "DEFAULT", "a", "A", "b", "another"]


def gen_one(rng):
    n = rng.randint(1, 14)
    text = ""
    pending = "default"
    plan = []   # (kind, connection name or None for system, skipped?)
    for i in range(n):
        for _ in range(rng.choice([0, 0, 1, 1, 2, 3])):
            nm = rng.choice(NAMES)
            # blanks around the name (also trailing ones) are not part of it
            text += rng.choice(["connection %s\n", "connection %s\n", "connection %s \n", "connection  %s\t\n", "connection\t%s  \n"]) % nm
            pending = nm
        kind = rng.choice(["statement", "statement", "query", "system", "skipped", "failing", "blank", "control"])
        if kind == "statement":
            text += "statement ok\ns%d\n\n" % i
            plan.append(("sql", pending, "s%d" % i)); pending = "default"
        elif kind == "query":
            text += "query II\nq%d\n----\n\n" % i      # wrong expectation on purpose half of the time: 'each' mode goes on
            plan.append(("sql", pending, "q%d" % i)); pending = "default"
        elif kind == "skipped":
            text += "onlyif nolabel\nstatement ok\nk%d\n\n" % i
            plan.append(("skip", pending, None)); pending = "default"
        elif kind == "failing":
            text += "statement error\nf%d\n\n" % i      # echo rows => "expected to fail but succeeded"
            plan.append(("sql", pending, "f%d" % i)); pending = "default"
        elif kind == "system":
            text += "system ok\necho %d\n\n" % i
            plan.append(("sys", None, None))          # system does not take the connection
        elif kind == "control":
            text += "control sortmode nosort\n\n"
        else:
            text += "\n# comment\n\n"
    make_fail = []
    if rng.random() < 0.15:
        make_fail = [rng.randrange(4)]
    return runfam.impl_case(text, default_answer=["echo"], shutdown=True, make_fail=make_fail,
                            meta={"plan": plan, "make_fail": make_fail})


def reference(plan, make_fail):
    """expected (session id per sql call, connects, per-session order) — a name->session map, created on first use"""
    table, nxt, makes = {}, 0, 0
    calls = []
    for kind, name, sql in plan:
        if kind == "sys":
            continue
        key = "default" if name == "default" else name
        if key not in table:
            k = makes
            makes += 1
            if k in make_fail:
                continue
            table[key] = nxt
            nxt += 1
        if kind == "sql":
            calls.append((table[key], sql))
    return calls, nxt


def corpus():
    return []


def generate(rng, tier):
    n = 6000 if tier == "quick" else 100000
    return [gen_one(rng) for _ in range(n)]


def execute(cases, tier):
    return corr.execute_run_family(__import__("props.C12", fromlist=["x"]), cases, tier)


def project(case, obs):
    if "results" not in obs:
        return obs
    return {"events": obs["events"], "outputs": [r[1] if r[0] == "ok" else r[:2] for r in obs["results"]]}


def spec_verdict(case, pi, pm):
    return "contradicts L1 (C12_refines_map/C12_routing): sessions used/created/closed differ from the reference: %r vs %r" % (str(pi)[:300], str(pm)[:300])


def direct_check(case, obs):
    if "events" not in obs:
        return None
    m = case["meta"]
    calls, nsess = reference(m["plan"], set(m["make_fail"]))
    got = [(e[1], e[2]) for e in obs["events"] if e[0] == "sql"]
    if got != calls:
        return "contradicts L1: (session, sql) sequence %r differs from the name->session reference %r" % (got[:12], calls[:12])
    connects = [e[1] for e in obs["events"] if e[0] == "connect"]
    if connects != list(range(nsess)):
        return "contradicts L1: sessions created %r, expected one per distinct name used: %d" % (connects, nsess)
    closes = sorted(e[1] for e in obs["events"] if e[0] == "shutdown")
    if closes != list(range(nsess)):
        return "contradicts L1: shutdown closed sessions %r but %d were opened" % (closes, nsess)
    return None


def categories(case, obs):
    m = case["meta"]
    names = {p[1] for p in m["plan"] if p[1]}
    return ["named=%s" % bool(names - {"default"}), "sessions=%d" % len({("default" if x == "default" else x) for x in names}),
            "make_fail=%s" % bool(m["make_fail"])]


def nontrivial_key(case, obs):
    m = case["meta"]
    if any(p[1] not in (None, "default") for p in m["plan"]):
        return case["text"]
    return None
