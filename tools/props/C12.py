"""C12 — `connection NAME` routes only the next record; sessions are isolated and closed."""
import corr
import runfam
import vlib

PID = "C12"
RULE = ("scripts of 1..14 records with random sequences of `connection` lines over {default, Default, DEFAULT, a, A, b, another} "
        "(several in a row, repeated names, before statements, queries, skipped records, failing records and system records), a "
        "per-session counter database (answer = session id and per-session call index), optional failing connects, shutdown at the end; "
        "a Python reference assigns the expected session to every call; distinct = distinct script; non-trivial = a named connection is used")
ASSUMPTIONS = ["Connections::shutdown_all closes sessions concurrently (join_all over a HashMap): the order of the closes is canonicalised to a set",
               "until the parser model is plugged into this family the model receives the records as parsed by the implementation; "
               "the attachment of connection lines to records is checked against the generator's own reference (direct check) and by C03"]

NAMES = ["default", "Default", "DEFAULT", "a", "A", "b", "another"]


def gen_one(rng):
    n = rng.randint(1, 14)
    text = ""
    pending = "default"
    plan = []   # (kind, connection name or None for system, skipped?)
    for i in range(n):
        for _ in range(rng.choice([0, 0, 1, 1, 2, 3])):
            nm = rng.choice(NAMES)
            # blanks around the name (also trailing ones) are not part of it
            text += rng.choice(["connection %s\n", "connection %s\n", "connection %s \n", "connection  %s\t\n", "connection\t%s  \n"]) % nm
            pending = nm
        kind = rng.choice(["statement", "statement", "query", "system", "skipped", "failing", "blank", "control"])
        if kind == "statement":
            text += "statement ok\ns%d\n\n" % i
            plan.append(("sql", pending, "s%d" % i)); pending = "default"
        elif kind == "query":
            text += "query II\nq%d\n----\n\n" % i      # wrong expectation on purpose half of the time: 'each' mode goes on
            plan.append(("sql", pending, "q%d" % i)); pending = "default"
        elif kind == "skipped":
            text += "onlyif nolabel\nstatement ok\nk%d\n\n" % i
            plan.append(("skip", pending, None)); pending = "default"
        elif kind == "failing":
            text += "statement error\nf%d\n\n" % i      # echo rows => "expected to fail but succeeded"
            plan.append(("sql", pending, "f%d" % i)); pending = "default"
        elif kind == "system":
            text += "system ok\necho %d\n\n" % i
            plan.append(("sys", None, None))          # system does not take the connection
        elif kind == "control":
            text += "control sortmode nosort\n\n"
        else:
            text += "\n# comment\n\n"
    make_fail = []
    if rng.random() < 0.15:
        make_fail = [rng.randrange(4)]
    return runfam.impl_case(text, default_answer=["echo"], shutdown=True, make_fail=make_fail,
                            meta={"plan": plan, "make_fail": make_fail})


def reference(plan, make_fail):
    """expected (session id per sql call, connects, per-session order) — a name->session map, created on first use"""
    table, nxt, makes = {}, 0, 0
    calls = []
    for kind, name, sql in plan:
        if kind == "sys":
            continue
        key = "default" if name == "default" else name
        if key not in table:
            k = makes
            makes += 1
            if k in make_fail:
                continue
            table[key] = nxt
            nxt += 1
        if kind == "sql":
            calls.append((table[key], sql))
    return calls, nxt


def corpus():
    return []


def generate(rng, tier):
    n = 6000 if tier == "quick" else 100000
    return [gen_one(rng) for _ in range(n)]


def gen_reuse_case(rng):
    """a runner that is shut down and then used again (once or several times, also before its first use): every shutdown closes every
    session opened since the previous one, a name used again afterwards gets a fresh session"""
    names = [None, "a", "b", "A", "default"]
    n = rng.randint(2, 8)
    text, plan = "", []
    for i in range(n):
        nm = rng.choice(names)
        if nm is not None:
            text += "connection %s\n" % nm
        text += "statement ok\ns%d\n\n" % i
        plan.append("default" if nm in (None, "default") else nm)
    k = rng.randint(1, 2)
    shut = sorted(rng.choice(range(0, n + 1)) for _ in range(k))
    shut = [x for x in shut if x < n] or [rng.randrange(n)]
    if rng.random() < 0.3:
        shut = [0] + shut               # shut down before anything was opened
    c = runfam.impl_case(text, shutdown=True, default_answer=["complete", 0], meta={"plan": plan, "shut": shut})
    c["shutdown_before"] = shut
    return c


def check_reuse(case, obs):
    if "events" not in obs:
        return "contradicts L1: the run did not complete: %r" % (obs,)
    plan, shut = case["meta"]["plan"], case["meta"]["shut"]
    evs = obs["events"]
    # reference: one session per distinct name for the life of the runner (shutdown_all closes the sessions, it does not forget them)
    cur, want_sql = {}, []
    for i, nm in enumerate(plan):
        if nm not in cur:
            cur[nm] = len(cur)
        want_sql.append((cur[nm], "s%d" % i))
    got_sql = [(e[1], e[2]) for e in evs if e[0] == "sql"]
    if got_sql != want_sql:
        return "contradicts L1 (C12_once_and_reused): (session, sql) %r, reference %r (shutdowns before records %r)" % (got_sql, want_sql, shut)
    # every session that was opened is closed by a shutdown that comes AFTER it was opened (the last shutdown is the final one)
    for k, e in enumerate(evs):
        if e[0] == "connect" and not any(f[0] == "shutdown" and f[1] == e[1] for f in evs[k + 1:]):
            return "contradicts L1 (C12_shutdown): session %r was opened but no later shutdown of the runner closed it (shutdowns before records %r, and at the end)" % (e[1], shut)
    # every shutdown call closes every session opened so far
    opened = []
    k = 0
    while k < len(evs):
        e = evs[k]
        if e[0] == "connect":
            opened.append(e[1])
        elif e[0] == "shutdown-call":
            j = k + 1
            closed = []
            while j < len(evs) and evs[j][0] == "shutdown":
                closed.append(evs[j][1]); j += 1
            if sorted(closed) != sorted(opened):
                return "contradicts L1 (C12_shutdown): a shutdown of the runner closed sessions %r, opened so far are %r" % (sorted(closed), sorted(opened))
            k = j - 1
        k += 1
    return None


def execute(cases, tier):
    res = corr.execute_run_family(__import__("props.C12", fromlist=["x"]), cases, tier)
    import random
    rng = random.Random(len(cases) * 31 + 7)
    rc = [gen_reuse_case(rng) for _ in range(400 if tier == "quick" else 6000)]
    outs = vlib.run_impl("run", [corr.strip(c) for c in rc])
    nbad = 0
    for c, o in zip(rc, outs):
        why = check_reuse(c, o)
        if why:
            nbad += 1
            res["disagreements"].append({"case": c, "impl": {"events": o.get("events")}, "model": "name -> session reference per shutdown epoch", "spec": why, "broken": "corr_C12_reuse"})
    res["stats"]["evaluations"] += len(rc)
    res["stats"]["categories"]["runner_reused_after_shutdown"] = len(rc)
    res["stats"]["disagreements"] = len(res["disagreements"])
    return res


def project(case, obs):
    if "results" not in obs:
        return obs
    return {"events": obs["events"], "outputs": [r[1] if r[0] == "ok" else r[:2] for r in obs["results"]]}


def spec_verdict(case, pi, pm):
    return "contradicts L1 (C12_refines_map/C12_routing): sessions used/created/closed differ from the reference: %r vs %r" % (str(pi)[:300], str(pm)[:300])


def direct_check(case, obs):
    if "events" not in obs:
        return None
    m = case["meta"]
    calls, nsess = reference(m["plan"], set(m["make_fail"]))
    got = [(e[1], e[2]) for e in obs["events"] if e[0] == "sql"]
    if got != calls:
        return "contradicts L1: (session, sql) sequence %r differs from the name->session reference %r" % (got[:12], calls[:12])
    connects = [e[1] for e in obs["events"] if e[0] == "connect"]
    if connects != list(range(nsess)):
        return "contradicts L1: sessions created %r, expected one per distinct name used: %d" % (connects, nsess)
    closes = sorted(e[1] for e in obs["events"] if e[0] == "shutdown")
    if closes != list(range(nsess)):
        return "contradicts L1: shutdown closed sessions %r but %d were opened" % (closes, nsess)
    return None


def categories(case, obs):
    m = case["meta"]
    names = {p[1] for p in m["plan"] if p[1]}
    return ["named=%s" % bool(names - {"default"}), "sessions=%d" % len({("default" if x == "default" else x) for x in names}),
            "make_fail=%s" % bool(m["make_fail"])]


def nontrivial_key(case, obs):
    m = case["meta"]
    if any(p[1] not in (None, "default") for p in m["plan"]):
        return case["text"]
    return None
