"""C01 — a record passes exactly when the database's answer meets its expectation."""
import corr
import runfam
import refimpl

PID = "C01"
RULE = ("one record per case preceded by control/hash-threshold records: every expectation form (statement ok/count/"
        "error any|regex|multiline, query results|error, system ok with/without stdout) x answer shape (rows, completion, "
        "error, exit status) x query/file sort modes x result mode x thresholds {0,n-1,n,n+1} x strict/default column "
        "check; the expectation is derived from the answer and mutated with probability ~0.45; distinct = distinct "
        "(script, answer, config); non-trivial = failing verdict, or a sort/hash/valuewise/regex/multiline feature is exercised")
ASSUMPTIONS = ["regex::Regex::is_match is an oracle: its value for (pattern, text) is computed by the regex crate in the harness and handed to the model",
               "the shell is scripted through AsyncDB::run_command (exit status, stdout); background commands ('&') are not modelled",
               "substitution off, connection established, record not skipped (C11-C13 cover those)"]

VALS = ["1", "10", "2", "a", "ab", "b", "a b", "é", "z", " x", "y ", "x\ty", " n", "NULL", "0.5", "(empty)", "€", "A", "🙂", "q  r"]
ERRS = ["boom", "syntax error at (1,2)", "a.b*c", "line1\nline2", "  padded  ", "x\n\ny", "table \"t\" does not exist", "ERROR: 1+1=2?", "a  b", ""]
TYPES = "TIR?"
SORTS = [None, "nosort", "rowsort", "valuesort"]


def rx_escape(s):
    out = ""
    for ch in s:
        if ch in "\\.+*?()|[]{}^$#&-~":
            out += "\\"
        out += ch
    return out


def gen_one(rng):
    meta = {}
    pre = ""
    fsort = rng.choice(SORTS + [None, None])
    rmode = rng.choice([None, None, None, "rowwise", "valuewise"])
    if fsort:
        pre += "control sortmode %s\n\n" % fsort
    if rmode:
        pre += "control resultmode %s\n\n" % rmode
    strict = rng.random() < 0.3
    kind = rng.choice(["statement", "statement", "query", "query", "query", "system"])
    answers, sysa = [], []
    thr_api = None
    feature = []
    if kind == "system":
        out = rng.choice(["hi\n", "hi", "a\nb\n", "  x  \n", "", "é\r\n", "\n\nq\n", "a\r\nb\r\n", "first\r\nsecond\r\nthird\n"])
        code = rng.choice([0, 0, 0, 1, 2])
        spawn = rng.random() < 0.05
        sysa = [["spawnerr"]] if spawn else [["exit", code, out, "err"]]
        withstd = rng.random() < 0.7
        exp = out.strip(refimpl.UNI_WS)
        if "\r\n" in exp and rng.random() < 0.7:
            exp = exp.replace("\r\n", "\n")      # expected text with LF only: differs from an output with CR LF inside
        if rng.random() < 0.35:
            exp = exp + "x" if exp else "zz"
        if "\n\n" in exp or exp == "":
            withstd = withstd and exp != "" and "\n\n" not in exp
        rec = "system ok\necho something\n"
        if withstd:
            rec += "----\n%s\n\n" % exp
            feature.append("stdout")
        text = pre + rec
        meta.update(kind="system", code=code)
    else:
        atype = rng.choice(["rows", "rows", "rows", "complete", "err"])
        ncols = rng.randint(1, 4)
        types = "".join(rng.choice(TYPES) for _ in range(ncols))
        nrows = rng.randint(0, 5)
        rows = [[rng.choice(VALS) for _ in range(ncols)] for _ in range(nrows)]
        count = rng.choice([0, 1, 3, nrows])
        err = rng.choice(ERRS)
        if atype == "rows":
            ans = ["rows", types, rows]
        elif atype == "complete":
            ans = ["complete", count]
        else:
            ans = ["err", err]
        answers = [ans]
        wrong = rng.random() < 0.45
        if kind == "statement":
            form = rng.choice(["ok", "count", "error", "error-re", "error-multi"])
            if form == "ok":
                hdr, tail = "statement ok", ""
            elif form == "count":
                n = nrows if atype == "rows" else count
                if wrong:
                    n += 1
                hdr, tail = "statement count %d" % n, ""
            else:
                hdr, tail = errform(rng, "statement", form, err, wrong, feature)
            text = pre + hdr + "\nselect 1\n" + tail
            meta.update(kind="statement", form=form)
        else:
            form = rng.choice(["results", "results", "results", "error", "error-re", "error-multi"])
            if form == "results":
                qsort = rng.choice(SORTS)
                eff = qsort or fsort
                nvals = nrows if eff == "valuesort" else nrows * ncols
                thr = rng.choice([None, None, 0, max(nvals - 1, 0), nvals, nvals + 1])
                if thr is not None:
                    if rng.random() < 0.3:
                        thr_api = thr
                    else:
                        pre += "hash-threshold %d\n\n" % thr
                    feature.append("thr")
                shaped = refimpl.shape(rows, ncols, eff, thr)
                lines = refimpl.expected_lines(shaped, rmode == "valuewise")
                lines = [decorate(rng, l) for l in lines]
                if wrong and atype == "rows":
                    lines = mutate_lines(rng, lines)
                if atype == "complete" and rng.random() < 0.5:
                    lines = []
                lines = [l for l in lines if l != ""]
                etypes = types
                if rng.random() < 0.25:
                    etypes = "".join(rng.choice(TYPES) for _ in range(rng.randint(1, 4)))
                    feature.append("types")
                hdr = "query " + etypes + ((" " + qsort) if qsort else "") + rng.choice(["", "", " lbl"])
                tail = "----\n" + "".join(l + "\n" for l in lines)
                if eff in ("rowsort", "valuesort"):
                    feature.append(eff)
                if rmode == "valuewise":
                    feature.append("valuewise")
            else:
                hdr, tail = errform(rng, "query", form, err, wrong, feature)
            text = pre + hdr + "\nselect 1\n" + tail
            meta.update(kind="query", form=form)
        meta.update(atype=atype)
    meta["feature"] = feature
    return runfam.impl_case(text, answers=answers, sys=sysa, strict_cols=strict, hash_threshold=thr_api, meta=meta)


def decorate(rng, l):
    r = rng.random()
    if r < 0.1:
        return "  " + l.replace(" ", "   ") + " \t"
    if r < 0.15:
        return l.replace(" ", "\t")
    return l


def mutate_lines(rng, lines):
    r = rng.random()
    if not lines:
        return ["extra"]
    if r < 0.3:
        i = rng.randrange(len(lines))
        return lines[:i] + [lines[i] + "x"] + lines[i + 1:]
    if r < 0.5:
        return lines[:-1]
    if r < 0.7:
        return lines + [lines[-1]]
    if r < 0.85 and len(lines) > 1:
        return lines[1:] + lines[:1]
    i = rng.randrange(len(lines))
    return lines[:i] + [lines[i].replace(" ", "", 1) if " " in lines[i] else "?" + lines[i]] + lines[i + 1:]


def errform(rng, kw, form, err, wrong, feature):
    if form == "error":
        return kw + " error", ""
    if form == "error-re":
        feature.append("regex")
        one = " ".join(err.split())
        pat = rng.choice([rx_escape(one), rx_escape(one[:3]), "b.+m", "^" + rx_escape(one) + "$", "(?i)BOOM", "[0-9]+", "\\(1,2\\)",
                          # regex semantics across line breaks of a multi-line error text: `.` does not match LF, ^/$ anchor the whole text only
                          "line1.line2", "line1.*line2", "x.+y", "^line2", "line1$", "(?s)line1.line2", "(?m)^line2$", "line1\\nline2", "x\\s+y"])
        if wrong:
            pat = rx_escape(one) + "zz"
        if not pat.strip():
            pat = "x"
        return kw + " error " + pat, ""
    feature.append("multiline")
    t = err.strip(refimpl.UNI_WS)
    if wrong:
        t = t + "!"
    if "\n\n" in t or t == "":
        t = "line1\nline2" if not wrong else "other"
    return kw + " error", "----\n%s\n\n" % t


def corpus():
    return []


def generate(rng, tier):
    n = 15000 if tier == "quick" else 200000
    return [gen_one(rng) for _ in range(n)]


def execute(cases, tier):
    return corr.execute_run_family(__import__("props.C01", fromlist=["x"]), cases, tier)


def project(case, obs):
    if "results" not in obs:
        return obs
    return obs["results"][-1]


def spec_verdict(case, pi, pm):
    return "contradicts L1 (C01_verdict): implementation says %r, reference_judge says %r" % (short(pi), short(pm))


def short(p):
    return p[:2] if isinstance(p, list) and p and p[0] == "err" else (p[0] if isinstance(p, list) and p else p)


def categories(case, obs):
    m = case["meta"]
    p = project(case, obs)
    v = "ok" if isinstance(p, list) and p and p[0] == "ok" else ("err%d" % p[1] if isinstance(p, list) and len(p) > 1 else "other")
    return ["kind=%s" % m.get("kind"), "form=%s" % m.get("form"), "answer=%s" % m.get("atype"), "verdict=%s" % v] + ["f=%s" % f for f in m["feature"]]


def nontrivial_key(case, obs):
    p = project(case, obs)
    if case["meta"]["feature"] or (isinstance(p, list) and p and p[0] == "err"):
        return (case["text"], repr(case["answers"]), repr(case["sys"]), case["strict_cols"], case["hash_threshold"])
    return None
