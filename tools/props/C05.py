"""C05 — formatting a test file never changes its meaning and is idempotent."""
import glob
import json
import os
import shutil
import subprocess
import tempfile
import collections
import corr
import sltgen
import vlib

PID = "C05"
SHRINK_TEXT = True     # verdicts depend on the text alone (parse -> Display -> parse on the implementation, model on the same text)
NEEDS_CLI = True
RULE = ("parseable scripts from the C03 grammar generator (every record kind, every clause combination, all humantime unit "
        "spellings and compound durations, arbitrary layouts incl. CRLF/tabs/NBSP, several connection/guard lines in a row) plus "
        "all repository fixtures (incl. tests/no_run/*); library level: parse -> Display of every record (one writeln! each) -> parse "
        "-> Display again, compared with the Coq model (parser + display) and checked directly for semantic equality and byte idempotence; "
        "CLI level: `sqllogictest --format` run twice on real files, bytes compared with the model's formatted+trimmed text and with each other; "
        "distinct = distinct text; non-trivial = formatting changes the bytes")
ASSUMPTIONS = ["semantic equality erases Newline records, standalone `connection default` lines, locations and trailing blanks of comment lines, and compares every other record field by field",
               "--format never contacts the engine (checked with an engine command that would fail)"]


def corpus():
    cases = []
    for f in sorted(glob.glob("/repo/tests/**/*.slt", recursive=True) + glob.glob("/repo/tests/**/*.slt.part", recursive=True)):
        cases.append({"text": open(f).read(), "meta": {"src": f}})
    # witnesses of the defects found by this check (kept so that they can never return unnoticed)
    for t in ["system ok retry 3 backoff 5s\necho hi\n", "sleep 90s\n", "statement ok retry 2 backoff 1500ms\nselect 1\n",
              "connection a\nconnection default\nstatement ok\nselect 1\n", "query I retry 1 backoff 1h1s\nselect 1\n----\n1\n",
              "statement ok\nselect 1\r\r\n"]:
        cases.append({"text": t, "meta": {"src": "witness"}})
    # known finding D19: the last non-blank record ends in an empty SQL / command line; and near misses that must keep working
    for t in ["statement ok\n\n", "query I\nselect 1\n----\n1\n\nstatement ok\n\n\n\n", "system ok\n\n", "query error\n\n\n", "statement count 3\n\n",
              "statement ok\n\n\nhalt\n", "statement error\n\n----\nmsg\n\n", "statement ok\n\n# c\n"]:
        cases.append({"text": t, "meta": {"src": "witness D19", "cli": True}})
    return cases


def generate(rng, tier):
    n = 6000 if tier == "quick" else 100000
    cases = []
    for i in range(n):
        items = sltgen.gen_script(rng)
        lay = sltgen.Layout(rng, plain=(rng.random() < 0.3))
        text, recs = sltgen.render(items, lay)
        cases.append({"text": text, "meta": {"kinds": sorted({it["kind"] for it in items})}})
    # files ending in many blank lines (the trimmer needs several passes), tiny files
    for k in list(range(0, 26)) + [40, 100]:
        for body in ["", "halt\n", "statement ok\nselect 1\n", "query I\nselect 1\n----\n1\n", "# c\n", "subtest x\n\n\nhalt\n"]:
            cases.append({"text": body + "\n" * k, "meta": {"kinds": ["tail"], "cli": True}})
    return cases


def strip_loc(r):
    r = list(r)
    if r and r[0] in ("statement", "query", "system", "include", "sleep", "subtest", "halt", "hash-threshold"):
        r[1] = None
    if r and r[0] == "comment":
        r[1] = [l.rstrip(vlib_ws()) for l in r[1]]
    return r


def vlib_ws():
    import refimpl
    return refimpl.UNI_WS


def semantic(records):
    out = []
    for r in records:
        if r[0] == "newline":
            continue
        if r[0] == "connection" and r[1][0] == "default":
            continue
        r2 = strip_loc(r)
        # adjacent comment blocks are one block after formatting (FormatSpec.meaning merges them)
        if r2[0] == "comment" and out and out[-1][0] == "comment":
            out[-1] = ["comment", out[-1][1] + r2[1]]
        else:
            out.append(r2)
    return out


def execute(cases, tier):
    mod = __import__("props.C05", fromlist=["x"])
    outs = vlib.run_impl("format", [corr.strip(c) for c in cases])
    mcases = [[c["text"], c.get("coltype") == "two", o.get("re_valid", [])] for c, o in zip(cases, outs)]
    mouts = vlib.run_model("format", mcases)
    vm_n = vlib.vm_crosscheck("format", mcases, mouts, 30 if tier == "quick" else 120, PID)
    disagreements, known_hits = [], []
    cats = collections.Counter()
    keys = set()
    observables = []
    for c, o, m in zip(cases, outs, mouts):
        if "panic" in o:
            io = [["panic"]]
        else:
            io = [vlib.norm(o[k]) for k in ("parse", "fmt", "reparse", "fmt2") if k in o]
        changed = len(io) > 1 and io[1][0] == "ok" and io[1][1] != c["text"]
        cats["parse=%s" % io[0][0]] += 1
        if changed:
            cats["changed"] += 1
            keys.add(c["text"])
        extra = direct_check(c, io)
        if len(observables) < 2:
            observables.append({"impl": io, "model": m})
        if io != m or extra:
            d = {"case": c, "impl": io[1:] if len(io) > 1 else io, "model": m[1:] if isinstance(m, list) and len(m) > 1 else m,
                 "spec": extra or ("implementation and model (parser+display) disagree on the formatted text / re-parse"), "broken": "corr_C05_display"}
            kid = classify_known(c, io)
            if kid:
                d["known"] = kid
            disagreements.append(d)
    cli = cli_runs(cases, outs, 40 if tier == "quick" else 600)
    import updfam
    for clause, what, detail in updfam.cli_tree_checks("format"):
        cli["bad"].append({"case": {"family": "cli-tree", "invocation": "--format t/main.slt (root includes a same-stem sibling, one file twice, a nested directory)"},
                           "impl": detail, "model": "every file keeps its meaning; a second run changes no byte; no *.temp left",
                           "spec": "contradicts L1 (C05_format_%s through --format on an include tree): %s" % (clause, what), "broken": "corr_C05_cli_tree"})
    cli["runs"] += 2
    disagreements += cli["bad"]
    stats = {
        "evaluations": len(cases), "model_evaluations": len(mcases), "distinct_nontrivial": len(keys), "rule": RULE,
        "categories": dict(sorted(cats.items())), "vm_compute_crosschecked": vm_n, "cli_format_runs": cli["runs"],
        "samples": [{"text": c["text"][:300]} for c in cases[:3]], "disagreements": len(disagreements),
    }
    return {"stats": stats, "disagreements": disagreements, "known_hits": known_hits, "observables": observables}


def direct_check(case, io):
    if io[0][0] != "ok":
        return None
    if len(io) < 2 or io[1][0] != "ok":
        return "contradicts L1: Display panicked on a parsed record"
    if len(io) < 3 or io[2][0] != "ok":
        return "contradicts L1 (C05_format_sound): the formatted text no longer parses: %r; formatted text %r" % (io[2] if len(io) > 2 else None, io[1][1][:200])
    a, b = semantic(io[0][1]), semantic(io[2][1])
    if a != b:
        for i, (x, y) in enumerate(zip(a, b)):
            if x != y:
                return "contradicts L1 (C05_format_sound): record %d changed meaning: %r became %r" % (i, x, y)
        return "contradicts L1 (C05_format_sound): %d executable records before, %d after formatting" % (len(a), len(b))
    if len(io) < 4 or io[3] != io[1]:
        return "contradicts L1 (C05_format_idem): formatting the formatted text changes it"
    return None


def classify_known(case, io):
    ls = case["text"].split("\n")
    if ls and ls[-1] == "":
        ls.pop()
    ls = [l[:-1] if l.endswith("\r") else l for l in ls[:-1]] + ls[-1:] if False else [l[:-1] if (l.endswith("\r") and i < len(ls) - 1 or l.endswith("\r") and case["text"].endswith("\n")) else l for i, l in enumerate(ls)]
    if any(l.endswith("\r") for l in ls):
        return "D16"
    return None


KNOWN_D8 = "D8"


def dangling_end(records):
    """known finding D19: the last record other than blank lines is a statement / query / system record whose SQL or command is empty and
    which has no `----` block after it: its written text ends with the empty SQL line, which the trailing-newline trimmer removes"""
    rs = [r for r in records if r[0] != "newline"]
    if not rs:
        return False
    r = rs[-1]
    if r[0] == "statement":
        e = r[5]
        return r[4] == "" and not (e[0] == "error" and e[1][0] == "multi")
    if r[0] == "query":
        e = r[5]
        return r[4] == "" and e[0] == "error" and e[1][0] != "multi"
    if r[0] == "system":
        return r[3] == "" and r[4] in (None, [])
    return False


def cli_runs(cases, outs, n):
    """real binary, --format twice on real files; bytes vs model prediction (library fmt + trimmer) and vs each other"""
    sel = [(c, o) for c, o in zip(cases, outs) if "panic" not in o and o.get("parse", ["err"])[0] == "ok" and o.get("fmt", ["x"])[0] == "ok"
           and not any(r[0] == "include" for r in o["parse"][1])]
    pri = [x for x in sel if x[0]["meta"].get("cli")]
    rest = [x for x in sel if not x[0]["meta"].get("cli")]
    step = max(1, len(rest) // n)
    pri_step = max(1, len(pri) // (n * 2))
    sel = pri[::pri_step] + rest[::step][:n]
    d = tempfile.mkdtemp(prefix="c05cli_", dir=vlib.CACHE)
    bad = []
    try:
        paths = []
        for i, (c, o) in enumerate(sel):
            p = os.path.join(d, "f%03d.slt" % i)
            open(p, "w", newline="").write(c["text"])
            paths.append(p)
            if i % 3 == 0:
                # a stale temp file of an earlier interrupted run, longer than what this run writes: must not leak into the result
                open(p + ".temp", "w").write("# stale\n" + "statement ok\nselect 'left over from an interrupted run'\n\n" * (40 + len(c["text"]) // 20))
        trims = vlib.run_model("trim", [o["fmt"][1].encode("utf-8").decode("latin-1") for _, o in sel])
        hung = []
        def fmt_all():
            for p in paths:
                try:
                    subprocess.run([vlib.CLI, "--engine", "external", "--external-engine-command-template", "exit 7", "--format", p],
                                   stdout=subprocess.PIPE, stderr=subprocess.PIPE, timeout=20, cwd=d)
                except subprocess.TimeoutExpired:
                    hung.append(p)
        fmt_all()
        first = [open(p, "rb").read() for p in paths]
        fmt_all()
        second = [open(p, "rb").read() for p in paths]
        leftovers = [f for f in os.listdir(d) if f.endswith(".temp")]
        reparsed = vlib.run_impl("parse", [{"text": b.decode("utf-8", "replace")} for b in first])
        for p in sorted(set(hung))[:3]:
            i = paths.index(p)
            bad.append({"case": sel[i][0], "impl": "`sqllogictest --format` did not terminate within 20 s", "model": trims[i],
                        "spec": "contradicts L1 (C08_final / C05): `--format` hangs on this file", "broken": "corr_C05_cli"})
        for i, (c, o) in enumerate(sel):
            want = trims[i]
            if want[0] == "ok":
                wb = want[1].encode("latin-1")
                if first[i] != wb:
                    bad.append({"case": c, "impl": first[i].decode("utf-8", "replace")[:300], "model": wb.decode("utf-8", "replace")[:300],
                                "spec": "contradicts L1: bytes written by `--format` differ from the formatted text with exactly one trailing newline",
                                "broken": "corr_C05_cli"})
                    continue
            else:
                # model predicts the trimmer panics (known D8 class until fixed): original must be intact
                if first[i] != c["text"].encode("utf-8"):
                    bad.append({"case": c, "impl": first[i].decode("utf-8", "replace")[:300], "model": "trimmer panic: file unchanged",
                                "spec": "no-failing-input-found", "broken": "corr_C05_cli"})
                bad.append({"case": c, "impl": "panic in the trailing-newline trimmer", "model": want,
                            "spec": "contradicts L1 (C08_trim): `--format` crashes on this file", "broken": "corr_C05_cli", "known": "D8"})
                continue
            # L1 through the CLI: the file `--format` wrote parses again, to a script with the same meaning
            rp = reparsed[i]
            if "panic" in rp or rp.get("parse", ["err"])[0] != "ok":
                known = dangling_end(vlib.norm(o["parse"][1]))
                bad.append({"case": c, "impl": {"formatted": first[i].decode("utf-8", "replace")[:300], "parse": rp.get("parse", rp)}, "model": "parses",
                            "spec": "contradicts L1 (C05_format_sound through --format): the formatted file no longer parses: %r" % (rp.get("parse", rp),),
                            "broken": "corr_C05_cli", "known": "D19" if known else None})
                continue
            if semantic(vlib.norm(rp["parse"][1])) != semantic(vlib.norm(o["parse"][1])) and vlib.norm(o["parse"][1]) is not None:
                if direct_check(c, [vlib.norm(o[k]) for k in ("parse", "fmt", "reparse", "fmt2") if k in o]) is None:
                    bad.append({"case": c, "impl": semantic(vlib.norm(rp["parse"][1]))[:6], "model": semantic(vlib.norm(o["parse"][1]))[:6],
                                "spec": "contradicts L1 (C05_format_sound through --format): the formatted file parses to a different script", "broken": "corr_C05_cli"})
                    continue
            if second[i] != first[i] and direct_check(c, [vlib.norm(o[k]) for k in ("parse", "fmt", "reparse", "fmt2") if k in o]) is None:
                bad.append({"case": c, "impl": second[i].decode("utf-8", "replace")[:300], "model": first[i].decode("utf-8", "replace")[:300],
                            "spec": "contradicts L1 (C05_format_idem): a second `--format` changes the file", "broken": "corr_C05_cli"})
        if leftovers and not any(b.get("known") for b in bad):
            bad.append({"case": {"files": leftovers}, "impl": leftovers, "model": [], "spec": "contradicts L1: temporary files left behind", "broken": "corr_C05_cli"})
    finally:
        shutil.rmtree(d, ignore_errors=True)
    return {"runs": len(sel) * 2, "bad": bad}
