"""C17 — parallel runs give every file its own database and clean up afterwards."""
import collections
import re
import clirun
import clifam
import vlib
import drvmodel

PID = "C17"
NEEDS_CLI = True
RULE = ("the real binary with -j 1..8 and the scripted fake engine logging, per engine process, the database it was started for and every "
        "statement with a monotonic timestamp: 2..10 files with 1..4 records on 1..2 named connections, `$__DATABASE__` in every statement, "
        "outcome patterns (pass / failing record / engine dying / engine not starting), per-file latency patterns (staggered, reversed, bursty) "
        "to force many interleavings, --keep-db-on-failure on/off; the merged time-ordered log is turned into a trace of "
        "create/connect/sql/close/drop/mgmt-close events that must be ACCEPTED by the extracted observer automaton (Par.v) and satisfy the "
        "safety clauses evaluated directly (create-before-use, exclusive use incl. $__DATABASE__, <= jobs files in flight, close-before-drop, "
        "dropped exactly once unless kept); plus the library's run_parallel (known finding D10); distinct = distinct scenario; non-trivial = jobs >= 2 and >= 2 files")
ASSUMPTIONS = ["partial: the theorems are about all traces of the automaton; that the implementation's scheduler produces only such traces is sampled by these runs",
               "log ordering relies on CLOCK_MONOTONIC timestamps taken by the engine processes; close = the engine process seeing end-of-file on its input"]


def corpus():
    return []


def generate(rng, tier):
    n = 45 if tier == "quick" else 800
    cases = []
    for i in range(n):
        nfiles = rng.randint(2, 10)
        files, rules, truth, info = clifam.make_set(rng, nfiles, kinds=["pass", "pass", "pass", "fail", "dies", "nostart"], parallel=True)
        pattern = rng.choice(["staggered", "reversed", "bursty", "none"])
        rules = [r for r in rules if "delay_ms" not in r]
        for k, (p, inf) in enumerate(sorted(info.items())):
            lat = {"staggered": 15 * k, "reversed": 15 * (nfiles - k), "bursty": rng.choice([0, 0, 80]), "none": 0}[pattern]
            if lat:
                rules.append({"match": inf["tag"] + "_", "delay_ms": lat})
        cases.append({"files": files, "rules": rules, "truth": truth, "info": info, "jobs": rng.randint(1, 8), "keep": rng.random() < 0.4,
                      "meta": {"pattern": pattern}})
    # long paths that agree on a long prefix (database names must still be unique)
    for i in range(2 if tier == "quick" else 30):
        files, rules, truth, info = clifam.make_set(rng, rng.randint(2, 4), kinds=["pass"], parallel=True)
        deep = "t/" + "a_very_long_directory_name_for_regression_cases/" + "another_quite_long_component_name_here/"
        ren = {}
        for k, f in enumerate(files):
            new = deep + "case_number_%d.slt" % k
            ren[f[0]] = new
            f[0] = new
        truth = {ren[p]: v for p, v in truth.items()}
        info = {ren[p]: v for p, v in info.items()}
        cases.append({"files": files, "rules": rules, "truth": truth, "info": info, "jobs": rng.randint(2, 4), "keep": False, "meta": {"pattern": "longpaths"}})
    # an engine that takes longer to wind down than any plausible shutdown timeout: its database is dropped only after it has gone
    if tier == "quick":
        lingers = [6500]
    else:
        lingers = [1500, 6500, 11000]
    for ms in lingers:
        files, rules, truth, info = clifam.make_set(rng, 2, kinds=["pass"], parallel=True)
        slow = sorted(truth)[0]
        rules.append({"start_db_prefix": clifam.case_name(slow) + "_", "linger_ms": ms})
        cases.append({"files": files, "rules": rules, "truth": truth, "info": info, "jobs": 2, "keep": False, "meta": {"pattern": "slow-close"}})
    # sessions of one file whose ends depend on each other (either way round): closing them one after the other would never finish
    for role in ["first", "later"]:
        files = [["t/pair_%s.slt" % role, "control substitution on\n\nstatement ok\nselect F80_1 $__DATABASE__\n\nconnection holder\nstatement ok\nselect F80_2 $__DATABASE__\n\n"
                  "connection another\nstatement ok\nselect F80_3 $__DATABASE__\n\n"],
                 ["t/solo_%s.slt" % role, "control substitution on\n\nstatement ok\nselect F81_1 $__DATABASE__\n\n"]]
        truth = {f[0]: "ok" for f in files}
        info = {files[0][0]: {"tag": "F80", "kind": "pass", "nrec": 3, "latency": 0}, files[1][0]: {"tag": "F81", "kind": "pass", "nrec": 1, "latency": 0}}
        rules = [{"start_db_prefix": clifam.case_name(files[0][0]) + "_", "eof_wait_peer": role}]
        cases.append({"files": files, "rules": rules, "truth": truth, "info": info, "jobs": 2, "keep": False, "meta": {"pattern": "dependent-close"}})
    return cases


def build_trace(events, mgmt_db="postgres"):
    """engine log -> automaton events; returns (trace, mgmt_pid)"""
    tr = []
    mgmt = None
    for e in events:
        if e["ev"] == "START" and e["db"] == mgmt_db and mgmt is None:
            mgmt = e["pid"]
    for e in events:
        if e["pid"] == mgmt:
            if e["ev"] == "SQL":
                m = re.match(r"CREATE DATABASE (\S+);", e["sql"])
                if m:
                    tr.append(["create", m.group(1)]); continue
                m = re.match(r"DROP DATABASE (\S+);", e["sql"])
                if m:
                    tr.append(["drop", m.group(1)]); continue
            elif e["ev"] in ("EOF", "EXIT"):
                tr.append(["mgmt-close"])
            continue
        if e["ev"] == "START":
            tr.append(["connect", e["db"], e["pid"]])
        elif e["ev"] == "SQL":
            tr.append(["sql", e["db"], e["pid"]])
        elif e["ev"] in ("EOF", "EXIT"):
            tr.append(["close", e["db"], e["pid"]])
    return tr, mgmt


def direct_safety(c, events, tr, got):
    """the clauses of the property evaluated on the log itself"""
    created, open_s, dropped = [], {}, collections.Counter()
    db_of_path = {}
    inflight_max = 0
    for p in c["truth"]:
        db_of_path[p] = clifam.case_name(p) + "_"
    for e in events:
        if e["ev"] == "SQL" and "_" in e.get("sql", "") and re.search(r"F\d\d_\d", e["sql"]):
            tag = re.search(r"(F\d\d)_\d", e["sql"]).group(1)
            path = next(p for p, i in c["info"].items() if i["tag"] == tag)
            if not e["db"].startswith(db_of_path[path]):
                return "contradicts L1 (exclusive use): SQL of %s went to database %s" % (path, e["db"])
            if not e["sql"].rstrip().endswith(e["db"]):
                return "contradicts L1: $__DATABASE__ expanded to %r on database %s" % (e["sql"], e["db"])
    for ev in tr:
        if ev[0] == "create":
            if ev[1] in created:
                return "contradicts L1: database %s created twice" % ev[1]
            created.append(ev[1])
        elif ev[0] == "connect":
            if ev[1] not in created:
                return "contradicts L1 (create-before-use): connection to %s before it was created" % ev[1]
            open_s.setdefault(ev[1], set()).add(ev[2])
            inflight_max = max(inflight_max, sum(1 for d, s in open_s.items() if s))
        elif ev[0] == "close":
            open_s.get(ev[1], set()).discard(ev[2])
        elif ev[0] == "drop":
            if open_s.get(ev[1]):
                return "contradicts L1 (close-before-drop): %s dropped while a connection to it is open" % ev[1]
            dropped[ev[1]] += 1
    if inflight_max > c["jobs"]:
        return "contradicts L1 (concurrency): %d files in flight with -j %d" % (inflight_max, c["jobs"])
    failed_dbs = {d for d in created for p, tag in got.items() if tag == "FAILED" and d.startswith(db_of_path[p])}
    for d in created:
        want = 0 if (c["keep"] and d in failed_dbs) else 1
        if dropped[d] != want:
            return "contradicts L1 (dropped exactly once unless kept): %s dropped %d times, expected %d" % (d, dropped[d], want)
    if any(s for s in open_s.values()):
        return "contradicts L1: connections left open at the end: %r" % {d: sorted(s) for d, s in open_s.items() if s}
    return None


def execute(cases, tier):
    disagreements = []
    cats = collections.Counter()
    keys = set()
    mcases, rows = [], []
    dcases, dexp = [], []          # the driver model (coq/Driver.v) replayed on the schedule reconstructed from each run
    for c in cases:
        sb = clirun.Sandbox("c17")
        try:
            sb.write_files(c["files"])
            args = ["-j", str(c["jobs"])] + (["--keep-db-on-failure"] if c["keep"] else [])
            r = sb.run(args + ["t/**/*.slt"], scenario={"rules": c["rules"]}, timeout=120)
        finally:
            sb.close()
        got = {p: tag for p, tag, _ in clirun.status_lines(r["stdout"])}
        tr, mgmt = build_trace(r["events"])
        kept = []
        if c["keep"]:
            for ev in tr:
                if ev[0] == "create":
                    for p, tag in got.items():
                        if tag == "FAILED" and ev[1].startswith(clifam.case_name(p) + "_"):
                            kept.append(ev[1])
        spec = direct_safety(c, r["events"], tr, got)
        missing = sorted(p for p in c["truth"] if p not in got)
        if spec is None and missing:
            spec = "contradicts L1 (own database per file): no report for %r - the files did not run" % (missing,)
        ncreate = sum(1 for ev in tr if ev[0] == "create")
        if spec is None and ncreate != len(c["truth"]):
            spec = "contradicts L1 (own database per file): %d databases created for %d files" % (ncreate, len(c["truth"]))
        if r["hung"]:
            spec = "contradicts L1: the CLI did not terminate"
        cats["pattern=%s" % c["meta"]["pattern"]] += 1
        cats["jobs=%d" % c["jobs"]] += 1
        if c["jobs"] >= 2 and len(c["files"]) >= 2:
            keys.add(repr((c["files"], c["rules"], c["jobs"], c["keep"])))
        mcases.append([c["jobs"], kept, tr])
        rows.append((c, r, tr, spec))
        if not r["hung"]:
            try:
                wire, exp = drvmodel.model_case(c, tr, [(p, tag) for p, tag, _ in clirun.status_lines(r["stdout"])], c["jobs"], c["keep"], False)
                dcases.append(wire)
                dexp.append((c, r, exp, None))
            except drvmodel.Unexplained as ex:
                dexp.append((c, r, None, str(ex)))
    mouts = vlib.run_model("par", mcases)
    vm_n = vlib.vm_crosscheck("par", mcases, mouts, 10, PID)
    for (c, r, tr, spec), m in zip(rows, mouts):
        if m != ["accepted"] or spec:
            where = tr[m[1]] if m[0] == "refused" and m[1] < len(tr) else None
            disagreements.append({"case": c, "impl": {"trace": tr, "stderr": r["stderr"][-500:]}, "model": m,
                                  "spec": spec or None, "note": "the observer automaton refuses event %r" % (where,), "broken": "corr_C17_trace"})
    douts = vlib.run_model("driver", dcases)
    vm_n += vlib.vm_crosscheck("driver", dcases, douts, 5, PID + "d")
    k = 0
    for (c, r, exp, why) in dexp:
        if exp is not None:
            why = drvmodel.compare(douts[k], exp, r["rc"])
            k += 1
            cats["driver_model_replayed"] += 1
        if why:
            def run_once(c=c):
                sb = clirun.Sandbox("c17r")
                try:
                    sb.write_files(c["files"])
                    r2 = sb.run(["-j", str(c["jobs"])] + (["--keep-db-on-failure"] if c["keep"] else []) + ["t/**/*.slt"], scenario={"rules": c["rules"]}, timeout=120)
                finally:
                    sb.close()
                return r2, build_trace(r2["events"])[0], clirun.status_lines(r2["stdout"])
            cats["driver_model_rechecked"] += 1
            why = drvmodel.recheck(c, run_once, c["jobs"], c["keep"], False)
        if why:
            disagreements.append({"case": c, "impl": {"stdout": r["stdout"][-800:], "rc": r["rc"]}, "model": "coq/Driver.v replayed on the schedule reconstructed from the run",
                                  "spec": None, "note": "the run is not a run of the driver model: " + why, "broken": "corr_C17_driver_model"})
    # the library's run_parallel (known finding D10)
    lib = vlib.run_impl("parlib", [{}])[0]
    cats["library_run_parallel_closes=%s" % lib.get("shutdowns")] += 1
    if lib.get("drops", 0) == 0 or lib.get("shutdowns", 0) == 0:
        disagreements.append({"case": {"family": "parlib"}, "impl": lib, "model": "every created database dropped, every session closed",
                              "spec": "contradicts L1: the library's run_parallel created %s databases, dropped %s, closed %s of %s sessions" % (
                                  lib.get("creates"), lib.get("drops"), lib.get("shutdowns"), lib.get("connects")),
                              "broken": "corr_C17_library", "known": "D10"})
    if lib.get("dbvar_mismatches") or lib.get("dbvar_seen", 0) < 3:
        disagreements.append({"case": {"family": "parlib", "part": "database variable"}, "impl": lib, "model": "$__DATABASE__ = the database of the connection the SQL is sent on",
                              "spec": "contradicts L1 (exclusive use): under the library's run_parallel `$__DATABASE__` expanded to another database than the file's own: %r (statements seen: %s)" % (
                                  lib.get("dbvar_mismatches"), lib.get("dbvar_seen")), "broken": "corr_C17_library"})
    stats = {"evaluations": len(cases) + 1, "model_evaluations": len(mcases), "distinct_nontrivial": len(keys), "rule": RULE,
             "categories": dict(sorted(cats.items())), "vm_compute_crosschecked": vm_n,
             "samples": [{"files": [f[0] for f in c["files"]], "jobs": c["jobs"], "keep": c["keep"], "trace_head": rows[i][2][:12]} for i, c in enumerate(cases[:2])],
             "disagreements": len(disagreements)}
    return {"stats": stats, "disagreements": disagreements, "known_hits": [], "observables": []}
