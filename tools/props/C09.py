"""C09 — retry: at most N attempts, stop at the first pass, wait the backoff in between."""
import itertools
import corr
import runfam

PID = "C09"
RULE = ("EXHAUSTIVE: N in 1..6 x all 2^N pass/fail outcome sequences x 6 record forms (statement ok/count/error, query "
        "results/error, system) x 5 backoffs (0s, 1ms, 1500ms, 500us, 1ms1ns), plus records without a retry clause; "
        "failing attempts alternate failure flavours with distinct error texts so that 'the error of the last attempt' is observable; "
        "thorough adds N<=10 sampled; distinct = distinct (form, N, outcomes, backoff); non-trivial = at least one failing attempt")
ASSUMPTIONS = ["waits are observed through the AsyncDB::sleep hook the runner is required to use (no wall-clock measurement)",
               "the statement deliberately does not constrain a wait after the final failed attempt (the code performs one)"]

BACKOFFS = ["0s", "1ms", "1500ms", "500us", "1ms1ns"]
FORMS = ["stmt-ok", "stmt-count", "stmt-error", "query", "query-strict", "query-error", "system"]


def build(form, n, outcomes, backoff, retry=True):
    """outcomes: tuple of bools (True = this attempt passes)"""
    clause = (" retry %d backoff %s" % (n, backoff)) if retry else ""
    answers, sysa = [], []
    for i, ok in enumerate(outcomes):
        flav = i % 2
        if form == "stmt-ok":
            text = "statement ok%s\nselect 1\n" % clause
            answers.append(["complete", 0] if ok else ["err", "boom %d" % i])
        elif form == "stmt-count":
            text = "statement count 1%s\nupdate\n" % clause
            answers.append(["complete", 1] if ok else (["complete", 2 + i] if flav else ["err", "boom %d" % i]))
        elif form == "stmt-error":
            text = "statement error ^want$%s\nselect 1\n" % "" if False else "statement error%s\nselect 1\n----\nwant\n\n" % clause
            bad = [["err", "other %d" % i], ["complete", i], ["rows", "I", [["1"]]]]
            answers.append(["err", "want"] if ok else bad[(i + len(outcomes)) % 3])
        elif form == "query":
            text = "query I%s\nselect 1\n----\n1\n" % clause
            answers.append(["rows", "I", [["1"]]] if ok else (["rows", "I", [[str(2 + i)]]] if flav else ["err", "boom %d" % i]))
        elif form == "query-strict":
            text = "query IT%s\nselect 1\n----\n1 a\n" % clause
            bad = [["rows", "TI", [["1", "a"]]], ["rows", "IT", [["2", "a"]]], ["err", "boom %d" % i], ["rows", "I", [["1", "a"]]], ["complete", 3]]
            answers.append(["rows", "IT", [["1", "a"]]] if ok else bad[(i + len(outcomes)) % len(bad)])
        elif form == "query-error":
            text = "query error%s\nselect 1\n" % clause
            answers.append(["err", "x"] if ok else ["rows", "I", [["%d" % i]]])
        else:
            text = "system ok%s\necho hi\n----\nhi\n\n" % clause
            bad = [["exit", 0, "no %d\n" % i, ""], ["exit", 1 + i, "", "bad"], ["spawnerr"]]
            sysa.append(["exit", 0, "hi\n", ""] if ok else bad[(i + len(outcomes)) % 3])
    first = next((i for i, ok in enumerate(outcomes) if ok), None)
    expect_runs = (first + 1) if first is not None else len(outcomes)
    return runfam.impl_case(text, answers=answers, sys=sysa, strict_cols=(form == "query-strict"),
                            default_answer=["err", "exhausted"], sys_default=["exit", 99, "exhausted", ""],
                            meta={"form": form, "n": n, "outcomes": list(outcomes), "backoff": backoff,
                                  "expect_runs": expect_runs if retry else 1, "retry": retry,
                                  "expect_ok": (first is not None) if retry else outcomes[0]})


def build_seq(rng):
    """2..3 retry records run one after the other on ONE runner (Runner::run per record, going on after a failure): the attempts of
    a record must not depend on how an earlier record ended"""
    k = rng.randint(2, 3)
    text, answers, sysa, per = "", [], [], []
    for j in range(k):
        form = rng.choice(FORMS)
        n = rng.randint(1, 4)
        if j == 0 or rng.random() < 0.5:
            outs = tuple([False] * n)                      # exhausts its budget
        else:
            first = rng.randrange(n)
            outs = tuple([False] * first + [True] + [rng.random() < 0.5 for _ in range(n - first - 1)])
        c = build(form, n, outs, rng.choice(BACKOFFS))
        text += c["text"] + "\n"
        answers += c["answers"]
        sysa += c["sys"]
        per.append({"form": form, "n": n, "outcomes": list(outs), "expect_runs": c["meta"]["expect_runs"], "expect_ok": c["meta"]["expect_ok"]})
        # answers are indexed by call number: drop the ones this record will not consume
        used = c["meta"]["expect_runs"]
        if form == "system":
            if len(c["sys"]) > used:
                del sysa[len(sysa) - (len(c["sys"]) - used):]
        elif len(c["answers"]) > used:
            del answers[len(answers) - (len(c["answers"]) - used):]
    return runfam.impl_case(text, answers=answers, sys=sysa, strict_cols=any(p["form"] == "query-strict" for p in per),
                            default_answer=["err", "exhausted"], sys_default=["exit", 99, "exhausted", ""],
                            meta={"seq": per, "form": "seq", "n": sum(p["n"] for p in per), "outcomes": [o for p in per for o in p["outcomes"]],
                                  "backoff": "mixed", "retry": True, "expect_runs": sum(p["expect_runs"] for p in per),
                                  "expect_ok": per[-1]["expect_ok"]})


def corpus():
    return []


def generate(rng, tier):
    cases = []
    for form in FORMS:
        for n in range(1, 7):
            for outs in itertools.product([False, True], repeat=n):
                for b in BACKOFFS:
                    cases.append(build(form, n, outs, b))
        for ok in (False, True):
            cases.append(build(form, 1, (ok,), "0s", retry=False))
    for _ in range(1500 if tier == "quick" else 20000):
        cases.append(build_seq(rng))
    if tier == "thorough":
        for _ in range(20000):
            n = rng.randint(7, 10)
            outs = tuple(rng.random() < 0.25 for _ in range(n))
            cases.append(build(rng.choice(FORMS), n, outs, rng.choice(BACKOFFS)))
    return cases


def execute(cases, tier):
    return corr.execute_run_family(__import__("props.C09", fromlist=["x"]), cases, tier)


def project(case, obs):
    if "results" not in obs:
        return obs
    if case["meta"].get("seq"):
        return {"verdict": [r[:2] for r in obs["results"]], "events": obs["events"]}
    return {"verdict": obs["results"][-1][:2], "events": obs["events"]}


def spec_verdict(case, pi, pm):
    return "contradicts L1 (C09_retry): executions/waits/verdict %r differ from the reference %r" % (str(pi)[:300], str(pm)[:300])


def direct_check(case, obs):
    """the property evaluated on the implementation alone"""
    if "results" not in obs:
        return None
    m = case["meta"]
    evs = obs["events"]
    runs = [e for e in evs if e[0] in ("sql", "cmd")]
    if m.get("seq"):
        oks = [r[0] == "ok" for r in obs["results"] if r[0] in ("ok", "err")]
        want = [p["expect_ok"] for p in m["seq"]]
        if len(runs) != m["expect_runs"] or oks[-len(want):] != want:
            return "contradicts L1: records %r executed %d times in total with verdicts %r; expected %d executions (min(first pass, N) each) and verdicts %r" % (
                [(p["form"], p["n"], p["outcomes"]) for p in m["seq"]], len(runs), oks, m["expect_runs"], want)
        return None
    if len(runs) != m["expect_runs"]:
        return "contradicts L1: record executed %d times, expected min(first pass, N) = %d" % (len(runs), m["expect_runs"])
    ok = obs["results"][-1][0] == "ok"
    if ok != m["expect_ok"]:
        return "contradicts L1: verdict ok=%s but %s of the first N attempts passes" % (ok, "one" if m["expect_ok"] else "none")
    # exactly one wait of D between consecutive attempts
    idx = [i for i, e in enumerate(evs) if e[0] in ("sql", "cmd")]
    for a, b in zip(idx, idx[1:]):
        between = evs[a + 1:b]
        if len(between) != 1 or between[0][0] != "sleep":
            return "contradicts L1: between two attempts the runner did not wait exactly once: %r" % (between,)
    return None


def categories(case, obs):
    m = case["meta"]
    return ["form=%s" % m["form"], "N=%d" % m["n"], "passes=%s" % m["expect_ok"], "retry=%s" % m["retry"]]


def nontrivial_key(case, obs):
    m = case["meta"]
    if not all(m["outcomes"][:1]):
        return (m["form"], m["n"], tuple(m["outcomes"]), m["backoff"], m["retry"])
    return None
