"""C13 — substitution: off by default, documented forms only, per-runner test directory."""
import collections
import corr
import runfam
import vlib

PID = "C13"
RULE = ("SQL and command texts generated from abstract templates (literal runs, the five escapes, $VAR, ${VAR}, ${VAR:default} with "
        "defaults nested <=3 deep; variables unset / runner-local / environment / both; values containing $ \\ { } :; the specials "
        "__TEST_DIR__, __NOW__, __DATABASE__) plus malformed texts (bad escapes, unclosed braces, empty names, unexpected characters, a trailing $), "
        "substitution switched on/off at random script positions, statements, queries and system commands; the text received by the "
        "mock database / run_command hook is compared with the Coq model of subst 0.3.7 + substitution.rs and, for well-formed templates, with "
        "the generator's own reference expansion; a separate run checks test-directory identity/uniqueness/removal on two live runners; "
        "distinct = distinct script+variables; non-trivial = substitution is on for at least one record containing $ or \\")
ASSUMPTIONS = ["the process environment is an oracle table handed to the model (set inside the harness process for the case)",
               "partial: uniqueness/removal of the test directory is tempfile/OS behaviour - observed (family testdir), not proved",
               "$__NOW__ and the test directory path are canonicalised to placeholders"]

NAMES = ["A", "B_1", "x", "SLTV_E", "SLTV_BOTH", "UNSET_q", "__DATABASE__", "__TEST_DIR__", "__NOW__", "long_name9"]
VALUES = ["v", "a b", "$A", "\\\\", "{}", "x:y", "${B_1}", "é", "", "\\$", "1"]
LITS = ["select ", "1", " from t", "é", "a{b", "x}y", ":", "c:d", "'q'", "-", "  ", "#", "%"]


def gen_tmpl(rng, depth=0):
    parts = []
    for _ in range(rng.randint(1, 4)):
        r = rng.random()
        if r < 0.4:
            parts.append(("lit", rng.choice(LITS)))
        elif r < 0.55:
            parts.append(("esc", rng.choice("\\${}:")))
        else:
            name = rng.choice(NAMES)
            form = rng.choice(["bare", "brace", "default"]) if depth < 3 else rng.choice(["bare", "brace"])
            d = gen_tmpl(rng, depth + 1) if form == "default" else None
            parts.append(("var", name, form, d))
    return parts


def render_t(parts, nxt_ok=True):
    out = ""
    for i, p in enumerate(parts):
        if p[0] == "lit":
            out += p[1]
        elif p[0] == "esc":
            out += "\\" + p[1]
        else:
            _, name, form, d = p
            if form == "bare":
                out += "$" + name
                # a bare name must not run into a following name character
                nxt = render_t(parts[i + 1:i + 2]) if i + 1 < len(parts) else ""
                if nxt[:1].isalnum() or nxt[:1] == "_":
                    out += " "
            elif form == "brace":
                out += "${" + name + "}"
            else:
                out += "${" + name + ":" + render_t(d) + "}"
    return out


def lit_ok(s):
    """literal runs containing braces are only safe outside defaults; keep the reference simple"""
    return True


def expand_spec(parts, lookup, in_default=False):
    out = ""
    for i, p in enumerate(parts):
        if p[0] == "lit":
            out += p[1]
        elif p[0] == "esc":
            out += p[1]
        else:
            _, name, form, d = p
            v = lookup(name)
            if v is not None:
                out += v
            elif d is not None:
                e = expand_spec(d, lookup, True)
                if e is None:
                    return None
                out += e
            else:
                return None
            if form == "bare":
                nxt = render_t(parts[i + 1:i + 2]) if i + 1 < len(parts) else ""
                if nxt[:1].isalnum() or nxt[:1] == "_":
                    out += " "
    return out


def has_unbalanced_in_default(parts, depth=0):
    for p in parts:
        if p[0] == "lit" and depth > 0 and ("{" in p[1] or "}" in p[1]):
            return True
        if p[0] == "var" and p[3] is not None and has_unbalanced_in_default(p[3], depth + 1):
            return True
    return False


MALFORMED = ["select $", "a \\q b", "x ${", "${}", "${A", "${A-}", "$ x", "${A:${B_1}", "end\\", "${A:$}", "$-", "${9:\\}", "${A:{}", "a$", "${A: }$"]


def gen_case(rng):
    locals_ = [[n, rng.choice(VALUES)] for n in rng.sample(["A", "B_1", "SLTV_BOTH", "__DATABASE__", "x"], rng.randint(0, 4))]
    env = [[n, rng.choice(VALUES[:9] + ["envval"])] for n in rng.sample(["SLTV_E", "SLTV_BOTH", "A"], rng.randint(0, 2))]
    def lookup(name):
        if name == "__TEST_DIR__": return "<TESTDIR>"
        if name == "__NOW__": return "<NOW>"
        for k, v in locals_:
            if k == name: return v
        for k, v in env:
            if k == name: return v
        return None
    text = ""
    on = False
    expected = []     # per record: ("sql"|"cmd", expected text) | ("err",) | None (unknown: malformed)
    nontriv = False
    for i in range(rng.randint(1, 7)):
        if rng.random() < 0.35:
            on = not on if rng.random() < 0.8 else on
            text += "control substitution %s\n\n" % ("on" if on else "off")
        kind = rng.choice(["statement", "statement", "query", "system"])
        if rng.random() < 0.2:
            src = rng.choice(MALFORMED)
            t = None
        else:
            t = gen_tmpl(rng)
            src = render_t(t)
            if has_unbalanced_in_default(t):
                t = None
        src = src.replace("\n", " ")
        if src.strip(" ") == "" or src == "----" or src.startswith("#") and False:
            src = "select " + src
            if t is not None:
                t = [("lit", "select ")] + t
        if on and ("$" in src or "\\" in src):
            nontriv = True
        # a retry clause changes nothing about what is delivered (the text is substituted once per attempt, from the text as written)
        clause = rng.choice(["", "", " retry 2 backoff 1ms", " retry 3 backoff 0s"])
        if kind == "system":
            text += "system ok%s\n%s\n\n" % (clause, src)
            if not on:
                expected.append(("cmd", src))
            else:
                e = src.replace("$__TEST_DIR__", "<TESTDIR>").replace("$__NOW__", "<NOW>")
                for k, v in sorted(locals_):
                    e = e.replace("$" + k, v)
                expected.append(("cmd", e))
        else:
            hdr = "statement ok" if kind == "statement" else "query I"
            text += "%s%s\n%s\n%s\n" % (hdr, clause, src, "----\n1\n" if kind == "query" else "")
            if not on:
                expected.append(("sql", src))
            elif t is None:
                expected.append(None)
            else:
                e = expand_spec(t, lookup)
                expected.append(("sql", e) if e is not None else ("err",))
    return runfam.impl_case(text, vars=locals_, env=env, default_answer=["rows", "I", [["1"]]],
                            meta={"expected": expected, "nontrivial": nontriv, "locals": locals_, "env": env})


def corpus():
    return [runfam.impl_case("control substitution on\n\nstatement ok\nselect 1 $\n", default_answer=["complete", 0],
                             meta={"expected": [None], "nontrivial": True, "src": "witness D9"})]


def generate(rng, tier):
    n = 10000 if tier == "quick" else 200000
    return [gen_case(rng) for _ in range(n)]


def execute(cases, tier):
    res = corr.execute_run_family(__import__("props.C13", fromlist=["x"]), cases, tier)
    td = vlib.run_impl("testdir", [{}])[0]
    bad = [k for k, v in td.items() if v is not True]
    res["stats"]["testdir_observation"] = td
    if bad:
        res["disagreements"].append({"case": {"family": "testdir"}, "impl": td, "model": "all true",
                                     "spec": "contradicts L1 (test directory): %s" % ", ".join(bad), "broken": "corr_C13_testdir"})
    return res


def project(case, obs):
    if "panic" in obs:
        return "panic"
    if "results" not in obs:
        return obs
    return {"events": [e for e in obs["events"] if e[0] in ("sql", "cmd")], "results": [r[:2] if r[0] == "err" else r[0] for r in obs["results"]],
            "errors": [r[1][-1] if r[0] == "ok" and r[1][0] in ("statement", "query") else None for r in obs["results"]]}


def spec_verdict(case, pi, pm):
    return "contradicts L1 (C13_sql / C13_cmd): text delivered / error differs from reference_substitute: %r vs %r" % (str(pi)[:300], str(pm)[:300])


def direct_check(case, obs):
    if "panic" in obs:
        return "contradicts L1: substitution panicked instead of failing the record: %s" % obs["panic"]
    if "results" not in obs:
        return None
    exp = case["meta"]["expected"]
    got = [e for e in obs["events"] if e[0] in ("sql", "cmd")]
    gi = 0
    for e in exp:
        if e is None:
            return None          # malformed text: the model comparison decides
        if e[0] == "err":
            continue             # nothing delivered for this record
        if gi >= len(got):
            return "contradicts L1: record expected to deliver %r delivered nothing" % (e[1],)
        g = got[gi]
        gtext = g[2] if g[0] == "sql" else g[-1]
        if gtext != e[1]:
            return "contradicts L1: delivered %r, reference_substitute gives %r" % (gtext, e[1])
        gi += 1
    if gi != len(got):
        return "contradicts L1: a record with an undefined variable reached the database: %r" % (got[gi:],)
    return None


def classify_known(case, obs):
    if "panic" in obs and "control substitution on" in case["text"]:
        import re
        if re.search(r"\$(\n|$|})", case["text"]):
            return "D9"
    return None


def categories(case, obs):
    m = case["meta"]
    out = ["nontrivial=%s" % m.get("nontrivial")]
    for e in m["expected"]:
        out.append("exp=%s" % ("malformed" if e is None else e[0]))
    if "panic" in obs:
        out.append("panic")
    return out


def nontrivial_key(case, obs):
    if case["meta"].get("nontrivial"):
        return (case["text"], repr(case["vars"]), repr(case["env"]))
    return None
