"""C07 — override changes only the expectations of records that did not pass."""
import collections
import updfam
import vlib

PID = "C07"
NEEDS_CLI = True
RULE = ("the update family of C06 (generated files incl. included files, scripted databases by call index, both separators, default/strict "
        "column check) with roughly half of the expectations already correct, failing and succeeding system commands, skipped records and `halt`; "
        "records of the file before and after Runner::update_test_file are compared field by field (kind, SQL/command, conditions, connection, "
        "retry clause, sort mode, label, comments, controls, includes, order); a record that passes against the same answers (Runner::run on the "
        "original record), is skipped or lies after halt must keep its expectation verbatim; bytes compared with the Coq model; "
        "distinct = distinct tree+answers; non-trivial = at least one record keeps and one record changes its expectation")
ASSUMPTIONS = ["files used for the pass-keeps clause carry no retry clause (the per-record verdicts are taken with Runner::run in file order, "
               "which then issues the same requests as the update)", "regex oracle, scripted shell as in C06"]


def make_case(rng):
    c = updfam.gen_case(rng, with_includes=(rng.random() < 0.2))
    # drop retry clauses so that the verdict run issues the same requests as the update - except in a third of the cases, which keep
    # them and are checked for the frame clauses only (a retry clause must survive every rewrite, also query -> statement count)
    import re
    keep_retry = rng.random() < 0.35
    for f in ([] if keep_retry else c["files"]):
        if f[1] == "file":
            f[2] = re.sub(r"[ \t 　 ]+retry[ \t 　 ]+\d+[ \t 　 ]+backoff[ \t 　 ]+\S+", "", f[2])
    c["judge_before"] = not keep_retry
    # halts across include boundaries (D18): a halt inside an included file, or in the main file before the include line
    if len(c["files"]) > 1 and rng.random() < 0.5:
        if rng.random() < 0.5:
            f = rng.choice(c["files"][1:])
            f[2] = rng.choice(["halt\n\n" + f[2], f[2] + ("" if f[2].endswith("\n") or not f[2] else "\n") + "\nhalt\n"])
        else:
            c["files"][0][2] = "halt\n\n" + c["files"][0][2]
    # some failing commands
    c["sys"] = [a if rng.random() < 0.7 else ["exit", 3, "partial", "bad"] for a in c["sys"]]
    return c


def corpus():
    # witnesses of D18 (fixed): records a run never reaches because of a halt in another file must keep their expectation
    base = {"main": "main.slt", "answers": [["rows", "I", [["2"]]]] * 4, "default_answer": ["rows", "I", [["2"]]], "sys": [], "sys_default": ["exit", 0, "", ""],
            "sep": " ", "strict_cols": False, "judge_before": True}
    stale = "query I\nselect 2\n----\nstale\n"
    eng = dict(base, engine_name="mockdb")
    return [dict(eng, files=[["main.slt", "file", "skipif mockdb\n" + stale + "\nonlyif mockdb\n" + stale]], meta={"src": "engine name guards on the first records"}),
            dict(eng, files=[["main.slt", "file", "onlyif other\n" + stale + "\nconnection c2\nskipif mockdb\nstatement error stale\nselect 1\n"]], meta={"src": "engine name guards, named connection"}),
            dict(base, files=[["main.slt", "file", "query I retry 3 backoff 1ms\nupdate t\n----\nstale\n"]], answers=[["complete", 2]], meta={"src": "retry clause on a query answered with a completion"}),
            dict(base, files=[["main.slt", "file", "include inc/a.slt\n\n" + stale], ["inc/a.slt", "file", "halt\n"]], meta={"src": "witness D18 halt inside include"}),
            dict(base, files=[["main.slt", "file", "halt\n\ninclude inc/a.slt\n"], ["inc/a.slt", "file", stale]], meta={"src": "witness D18 halt before include"})]


def generate(rng, tier):
    n = 2500 if tier == "quick" else 30000
    cases = []
    for _ in range(n):
        c = make_case(rng)
        cases.append(c)
    # second pass: make about half of the expectations correct by updating the text with the model-free trick:
    # run the generator's case through the implementation is not possible here, so correctness comes from fixed points:
    return cases


def expectation(r):
    if r[0] == "statement":
        return r[5]
    if r[0] == "query":
        e = r[5]
        return e
    if r[0] == "system":
        return r[4]
    return None


def frame(r):
    """everything but location-independent expectation"""
    if r[0] == "statement":
        return ["sq", r[1], r[2], r[3], r[4], r[6]]
    if r[0] == "query":
        e = r[5]
        extra = [e[2], e[3]] if e[0] == "results" else []
        return ["sq", r[1], r[2], r[3], r[4], r[6]] , extra
    if r[0] == "system":
        return ["system", r[1], r[2], r[3], r[5]]
    return r


def execute(cases, tier):
    # fixed points: update once, feed the updated tree back as a new case (its expectations are then mostly correct)
    rows0, _ = updfam.execute(cases, tier, PID + "a")
    cases2 = []
    for row in rows0:
        c, o = row["case"], row["out"]
        if o.get("update1") == ["ok"] and o["parse"][0] == "ok":
            l1 = updfam.listing_dict(o["listing1"])
            c2 = dict(c)
            c2["files"] = [[f[0], "file", l1.get(f[0], f[2])] if f[1] == "file" else f for f in c["files"]]
            c2["meta"] = dict(c["meta"], second=True)
            cases2.append(c2)
    allc = cases + cases2[: len(cases) // 2]
    rows, vm_n = updfam.execute(allc, tier, PID)
    disagreements = []
    cats = collections.Counter()
    keys = set()
    for row in rows:
        c, o, m = row["case"], row["out"], row["model"]
        if o["parse"][0] != "ok" or o.get("update1") != ["ok"] or o.get("parse_after", ["x"])[0] != "ok":
            cats["skipped-unparseable-or-failed"] += 1
            continue
        before, after = vlib.norm(o["parse"][1]), vlib.norm(o["parse_after"][1])
        verd = o.get("verdicts_before", [])
        mf = updfam.model_files(m)
        flags = mf[2] if mf else []
        spec = None
        kept = changed = 0
        # the rewritten file re-parses to the same number of records apart from blank-line records (C05 covers formatting)
        # comment blocks separated only by blank-looking lines are one block once written (FormatSpec.meaning merges them, see C05):
        # merge adjacent comment records on both sides before comparing the record sequences
        def merge(recs, vs):
            out, vo = [], []
            for i, r in enumerate(recs):
                if r[0] == "newline":
                    continue
                if r[0] == "comment" and out and out[-1][0] == "comment":
                    out[-1] = ["comment", out[-1][1] + r[1]]
                    continue
                out.append(r)
                if vs is not None:
                    vo.append(vs[i])
            return out, (vo if vs is not None else None)
        b2, v2 = merge(before, verd if len(verd) == len(before) else None)
        a2, _ = merge(after, None)
        if len(b2) != len(a2):
            spec = "contradicts L1 (C07_file_frame): %d records before, %d after the update" % (len(b2), len(a2))
        else:
            for i, (rb, ra) in enumerate(zip(b2, a2)):
                if rb[0] in ("statement", "query", "system"):
                    kind_change = rb[0] == "query" and ra[0] == "statement" and ra[5][0] == "count"
                    if rb[0] != ra[0] and not kind_change:
                        spec = "contradicts L1 (C07_frame): record %d changed kind %s -> %s" % (i, rb[0], ra[0]); break
                    fb = [rb[2], rb[3] if rb[0] != "system" else None, rb[4] if rb[0] != "system" else rb[3], rb[6] if rb[0] != "system" else rb[5]]
                    fa = [ra[2], ra[3] if ra[0] != "system" else None, ra[4] if ra[0] != "system" else ra[3], ra[6] if ra[0] != "system" else ra[5]]
                    if fb != fa:
                        spec = "contradicts L1 (C07_frame): record %d changed outside its expectation: %r -> %r" % (i, fb, fa); break
                    if rb[0] == "query" and ra[0] == "query" and rb[5][0] == "results" and ra[5][0] == "results" and (rb[5][2], rb[5][3]) != (ra[5][2], ra[5][3]):
                        spec = "contradicts L1 (C07_frame): record %d changed sort mode / label" % i; break
                    same_exp = expectation(rb) == expectation(ra) or (rb[0] == "system" and (rb[4] or "") == (ra[4] or "").strip())
                    if v2 is not None:
                        v = v2[i]
                        must_keep = (v == "after-halt") or (isinstance(v, list) and v[0] == "ok")
                        if isinstance(v, list) and v[0] == "err" and v[1] == 7 and rb[0] == "system":
                            must_keep = True      # a failing system command is left unchanged
                        if must_keep and not same_exp and not kind_change:
                            spec = "contradicts L1 (C07_pass_keeps): record %d (%s) passed / was skipped / lies after halt / is a failing command, yet its expectation changed: %r -> %r" % (
                                i, v if isinstance(v, str) else v[0], expectation(rb), expectation(ra)); break
                    kept += same_exp
                    changed += (not same_exp)
                else:
                    cmpb = rb if rb[0] != "comment" else ["comment", [l.rstrip() for l in rb[1]]]
                    cmpa = ra if ra[0] != "comment" else ["comment", [l.rstrip() for l in ra[1]]]
                    # locations may move when blocks change size
                    strip = lambda r: [x for j, x in enumerate(r) if not (j == 1 and r[0] in ("include", "sleep", "subtest", "halt", "hash-threshold"))]
                    if strip(cmpb) != strip(cmpa):
                        spec = "contradicts L1 (C07_file_frame): non-executable record %d changed: %r -> %r" % (i, rb, ra); break
        cats["frame=%s" % ("ok" if spec is None else "violated")] += 1
        if kept and changed:
            keys.add(repr((c["files"], c["answers"])))
        problem = None
        if mf and mf[0] == "ok":
            l1 = updfam.listing_dict(o["listing1"])
            for p, t in mf[1].items():
                if l1.get(p) != t:
                    problem = "file %s differs from the model's prediction" % p
        if spec or problem:
            d = {"case": c, "impl": {"before": before, "after": after, "verdicts": verd}, "model": m[1] if isinstance(m, list) and len(m) > 1 else m,
                 "spec": spec, "note": problem, "broken": "corr_C07_frame"}
            if spec and 5 in flags and "pass_keeps" in spec:
                d["known"] = "D5"
            disagreements.append(d)
    stats = {"evaluations": len(allc), "model_evaluations": len(rows), "distinct_nontrivial": len(keys), "rule": RULE,
             "categories": dict(sorted(cats.items())), "vm_compute_crosschecked": vm_n,
             "samples": [{"files": c["files"], "answers": c["answers"][:3]} for c in allc[:2]], "disagreements": len(disagreements)}
    # one invocation of the real binary over SEVERAL files: each file is updated under its own modes, with its own runner
    for clause, what, detail in updfam.cli_tree_checks("override"):
        if clause in ('frame', 'debris'):
            disagreements.append({"case": {"family": "cli-tree", "invocation": "--override t/a_modes.slt t/b_plain.slt"}, "impl": detail,
                                  "model": "the second file is untouched and passes on its own; the included same-stem file is intact",
                                  "spec": "contradicts L1 (C07_frame, several files in one --override): " + what, "broken": "corr_C07_cli_tree"})
    return {"stats": stats, "disagreements": disagreements, "known_hits": [], "observables": []}
