"""C14 — `include` splices matching files in path order, recursively, with provenance."""
import corr

PID = "C14"
RULE = ("random directory trees (nesting depth <=4, 0..5 files per directory, `.slt` files with several includes each, leaf `.part` files), "
        "patterns with `*`, `?`, literal names, sub-directory and `..` components, patterns matching nothing, missing files, patterns that "
        "also match a directory, `halt` inside included files, parse errors inside included files; parse_file is compared with the Coq model "
        "(Include.expand over the same file-system/glob view) and checked directly: marker nesting, every record between begin/end carries "
        "that file, location chain = stack of include sites, ascending path order directly after the include record; run_file's call order "
        "equals the spliced order up to the first halt; distinct = distinct tree; non-trivial = at least one include is expanded or fails")
ASSUMPTIONS = ["glob::glob and the file system are oracles: the harness records what they answer for every pattern/path the expansion can reach",
               "cyclic includes are out of scope (the Rust code recurses without bound on them)"]


def gen_tree(rng):
    files = []
    counter = [0]

    def leaf(path):
        counter[0] += 1
        body = "statement ok\nleaf %d\n" % counter[0]
        if rng.random() < 0.15:
            body = "halt\n\n" + body
        files.append([path, "file", body])

    def slt(path, depth, subdirs):
        counter[0] += 1
        me = counter[0]
        parts = []
        n = rng.randint(1, 4)
        for k in range(n):
            r = rng.random()
            if r < 0.45 and subdirs:
                d = rng.choice(subdirs)
                pat = rng.choice(["%s/*.slt" % d, "%s/f?.slt" % d, "%s/f1.slt" % d, "%s/*" % d, "%s/*.part" % d,
                                  "%s/nomatch*.slt" % d, "%s/missing.slt" % d, "d*/f1.slt", "%s/../%s/f2.slt" % (d, d),
                                  "*/f1.slt", "*/*.slt", "%s*/f?.slt" % d[0]])
                parts.append("include %s\n" % pat)
            elif r < 0.5:
                parts.append("include nowhere/*.slt\n")
            elif r < 0.58:
                parts.append("halt\n")
            elif r < 0.62:
                parts.append("statement oops\n")         # parse error inside this file
            elif r < 0.8:
                parts.append("query I\nselect %d.%d\n----\n1\n\n" % (me, k))
            else:
                parts.append("statement ok\nstmt %d.%d\n\n" % (me, k))
        files.append([path, "file", "".join(parts)])

    def build(prefix, depth):
        subdirs = []
        if depth < 4:
            if rng.random() < 0.25:
                # sibling directories one of whose names is a prefix of the other, followed by a character below '/':
                # path order (component by component) differs from the order of the path strings
                subdirs += rng.choice([["v1", "v1.1"], ["a", "a-b"], ["x", "x y"], ["d1", "d1.5", "d1-0"], ["q", "q+"]])
            else:
                for i in range(rng.choice([0, 1, 1, 2])):
                    subdirs.append("d%d" % (i + 1))
        for d in subdirs:
            build(prefix + d + "/", depth + 1)
        nf = rng.randint(0, 5) if depth > 0 else 1
        for i in range(nf):
            name = "main.slt" if depth == 0 else "f%d.slt" % (i + 1)
            slt(prefix + name, depth, subdirs)
        if depth > 0:
            for i in range(rng.choice([0, 0, 1, 2])):
                leaf(prefix + "p%d.part" % i)
            if rng.random() < 0.1:
                files.append([prefix + "bin.slt", "binary"])
    build("", 0)
    return files


def corpus():
    return [{"files": [["main.slt", "file", "include inc/*\n"], ["inc/a.slt", "file", "statement ok\nx\n"], ["inc/sub", "dir"]],
             "main": "main.slt", "mode": "parse", "meta": {"src": "dir-match"}}]


def generate(rng, tier):
    n = 2500 if tier == "quick" else 30000
    cases = []
    for _ in range(n):
        files = gen_tree(rng)
        mode = rng.choice(["parse", "run", "run"])
        c = {"files": files, "main": "main.slt", "mode": mode, "default_answer": ["rows", "I", [["1"]]], "meta": {}}
        if rng.random() < 0.2:
            c["bare"] = True          # the script named by a bare file name, the tree's root being the working directory
        cases.append(c)
    return cases


def execute(cases, tier):
    return corr.execute_file_family(__import__("props.C14", fromlist=["x"]), cases, tier)


def project(case, obs):
    return obs


def spec_verdict(case, pi, pm):
    return "contradicts L1 (C14_expand): parse_file/run_file differ from the reference expansion: %r vs %r" % (str(pi)[:300], str(pm)[:300])


def loc_of(r):
    if r[0] in ("statement", "query", "system", "include", "sleep", "subtest", "halt", "hash-threshold"):
        return r[1]
    return None


def direct_check(case, obs):
    p = obs["parse"]
    if p[0] == "panic":
        return "contradicts L1: parse_file panicked instead of returning records or a located parse error"
    if p[0] != "ok":
        return None
    stack = []          # (file, chain of the parent, governing include of the parent)
    cur_chain = []      # location chain suffix (include sites, innermost first)
    last_include_loc = None
    for i, r in enumerate(p[1]):
        if r[0] == "begin-include":
            if last_include_loc is None:
                return "contradicts L1: begin marker for %r not governed by an include record" % r[1]
            stack.append((r[1], cur_chain, last_include_loc))
            cur_chain = list(last_include_loc)
            last_include_loc = None
            continue
        if r[0] == "end-include":
            if not stack or stack[-1][0] != r[1]:
                return "contradicts L1 (C14_markers_nested): end marker %r does not close the innermost open include" % r[1]
            _, cur_chain, last_include_loc = stack.pop()
            continue
        l = loc_of(r)
        if l is not None:
            cur_file = stack[-1][0] if stack else case["main"]
            if l[0][0] != cur_file:
                return "contradicts L1: record %d reports file %r inside the markers of %r" % (i, l[0][0], cur_file)
            if l[1:] != cur_chain:
                return "contradicts L1 (C14_chain): record %d has include chain %r, enclosing include sites are %r" % (i, l[1:], cur_chain)
        if r[0] == "include":
            last_include_loc = l
            # the files spliced for this include: following begin markers at this nesting level, ascending
            j, depth, fl = i + 1, 0, []
            while j < len(p[1]):
                q = p[1][j]
                if q[0] == "begin-include":
                    if depth == 0:
                        fl.append(q[1])
                    depth += 1
                elif q[0] == "end-include":
                    depth -= 1
                elif depth == 0:
                    break
                j += 1
            if fl != sorted(fl, key=lambda f: f.split("/")):   # path order: component by component, not the order of the strings
                return "contradicts L1 (C14_order): files of include %r spliced in order %r" % (r[2], fl)
            if not fl:
                return "contradicts L1: include %r expanded to nothing without an error" % r[2]
    if stack:
        return "contradicts L1 (C14_markers_nested): unclosed include markers %r" % [s[0] for s in stack]
    if case.get("mode") == "run" and "events" in obs:
        want = []
        for r in p[1]:
            if r[0] == "halt":
                break
            if r[0] in ("statement", "query"):
                want.append(r[4])
        got = [e[2] for e in obs["events"] if e[0] == "sql"]
        if obs["final"][0] == "ok" and got != want:
            return "contradicts L1: run_file executed %r, spliced order is %r" % (got[:8], want[:8])
        if got != want[:len(got)]:
            return "contradicts L1: run_file executed %r, not a prefix of the spliced order %r" % (got[:8], want[:8])
    return None


def categories(case, obs):
    p = obs["parse"]
    out = ["parse=%s" % (p[0] if p[0] != "err" else "err%d" % p[1]), "mode=%s" % case.get("mode")]
    if p[0] == "ok":
        depth, maxd = 0, 0
        for r in p[1]:
            if r[0] == "begin-include":
                depth += 1; maxd = max(maxd, depth)
            elif r[0] == "end-include":
                depth -= 1
        out.append("depth=%d" % maxd)
    return out


def nontrivial_key(case, obs):
    p = obs["parse"]
    if p[0] != "ok" or any(r[0] == "begin-include" for r in p[1]):
        return repr(case["files"])
    return None
