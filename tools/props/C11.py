"""C11 — skipif / onlyif decide execution exactly by label membership."""
import itertools
import corr
import runfam

PID = "C11"
NEEDS_CLI = True
RULE = ("guard lists of length <=3 over the 4-label alphabet {a,b,c,eng} x both polarities (585 lists) x all 16 label sets x "
        "{statement, query, system} x position of the guarded record in a 3-record script (first/middle/last, always followed or "
        "preceded by unguarded statements to expose leaking), engine name 'eng' (or empty); quick: all lists of <=2 guards "
        "exhaustively + a seeded sample of the 3-guard ones, thorough: everything; distinct = distinct (guards, labels, kind, position, engine); "
        "non-trivial = at least one guard")
ASSUMPTIONS = ["the connection can be established (the code connects before evaluating guards; connection failure is C12/C16 territory)"]

LABELS = ["a", "b", "c", "eng"]


def guard_lists(maxlen):
    atoms = [(p, l) for p in ("onlyif", "skipif") for l in LABELS]
    out = [()]
    for k in range(1, maxlen + 1):
        out += list(itertools.product(atoms, repeat=k))
    return out


BG_COUNTER = [0]


def build(guards, labelset, kind, pos, engine):
    bgdir = None
    if kind == "system-bg":
        import os, vlib
        BG_COUNTER[0] += 1
        bgdir = os.path.join(vlib.CACHE, "tmp", "bg", "c11_%d_%d" % (os.getpid(), BG_COUNTER[0]))
    g = "".join("%s %s\n" % (p, l) for p, l in guards)
    if kind == "statement":
        rec = g + "statement ok\nguarded\n\n"
    elif kind == "query":
        rec = g + "query I\nguarded\n----\n1\n\n"
    elif kind == "system-bg":
        # a background command (`cmd &`) is spawned for real, outside the run_command hook: observed through the marker it creates
        rec = g + "system ok\ntouch %s/guarded &\n\n" % bgdir
    else:
        rec = g + "system ok\nguarded\n\n"
    plain = ["statement ok\nplain%d\n\n" % i for i in range(2)]
    parts = plain[:]
    parts.insert(pos, rec)
    L = set(labelset)
    admit_set = L | ({engine} if (engine and not kind.startswith("system")) else set())
    run = all((l in admit_set) if p == "onlyif" else (l not in admit_set) for p, l in guards)
    c = runfam.impl_case("".join(parts), labels=sorted(labelset), engine_name=engine,
                            default_answer=["rows", "I", [["1"]]],
                            meta={"guards": [list(x) for x in guards], "labels": sorted(labelset), "kind": kind,
                                  "pos": pos, "engine": engine, "expect_run": run})
    if bgdir:
        c["bgdir"] = bgdir
        c["bg_expect"] = 1 if run else 0
    return c


def corpus():
    return []


def generate(rng, tier):
    cases = []
    subsets = [tuple(l for i, l in enumerate(LABELS) if m >> i & 1) for m in range(16)]
    small = guard_lists(2)
    big = [g for g in guard_lists(3) if len(g) == 3]
    for g in small:
        for ls in subsets:
            for kind in ("statement", "query", "system"):
                for pos in (0, 1, 2):
                    cases.append(build(g, ls, kind, pos, "eng"))
    # background system commands under every guard list of <= 2 guards (quick: a sample) - each costs a real process and a settle time
    bgs = [(g, ls, pos) for g in small for ls in subsets for pos in (0, 2)]
    for g, ls, pos in (rng.sample(bgs, 160) if tier == "quick" else rng.sample(bgs, 1200)):
        cases.append(build(g, ls, "system-bg", pos, "eng"))
    if tier == "quick":
        for _ in range(5000):
            cases.append(build(rng.choice(big), rng.choice(subsets), rng.choice(["statement", "query", "system"]),
                               rng.randrange(3), rng.choice(["eng", "eng", ""])))
    else:
        for g in big:
            for ls in subsets:
                for kind in ("statement", "query", "system"):
                    for pos in (0, 1, 2):
                        cases.append(build(g, ls, kind, pos, "eng"))
        for _ in range(5000):
            cases.append(build(rng.choice(small + big), rng.choice(subsets), rng.choice(["statement", "query", "system"]),
                               rng.randrange(3), ""))
    return cases


CLI_LABELS = ["external", "foo", "nolabel"]


def cli_runs(tier):
    """The same rule through the real binary: `--label` flags reach the per-file runners as given (also one that equals the engine's
    name, also duplicates); the engine's name ("external") counts as a label for statements and queries only.  Statements are observed
    in the engine's log, system commands through the lines they append to a marker file."""
    import os
    import clirun
    out = []
    label_sets = [[], ["external"], ["foo"], ["foo", "external"], ["external", "external"], ["external", "foo", "foo"]]
    if tier != "quick":
        label_sets += [["nolabel"], ["nolabel", "external"], ["foo", "nolabel"]]
    guards = [(p, l) for p in ("onlyif", "skipif") for l in CLI_LABELS]
    for ls in label_sets:
        for jobs in ([None] if tier == "quick" else [None, 2]):
            sb = clirun.Sandbox("c11")
            try:
                marks = os.path.join(sb.dir, "marks.txt")
                body, want_sql, want_sys = "", [], []
                k = 0
                for (p, l) in guards:
                    for kind in ("statement", "system", "query"):
                        k += 1
                        admit = set(ls) | ({"external"} if kind != "system" else set())
                        run = (l in admit) if p == "onlyif" else (l not in admit)
                        if kind == "statement":
                            body += "%s %s\nstatement ok\nselect G%02d\n\n" % (p, l, k)
                        elif kind == "query":
                            body += "%s %s\nquery I\nselect G%02d\n----\n1\n\n" % (p, l, k)
                        else:
                            body += "%s %s\nsystem ok\necho G%02d >> %s\n\n" % (p, l, k, marks)
                        if run:
                            (want_sys if kind == "system" else want_sql).append("G%02d" % k)
                        # an unguarded record after every guarded one: guards do not leak
                        k += 1
                        body += "statement ok\nselect P%02d\n\n" % k
                        want_sql.append("P%02d" % k)
                sb.write_files([["t/guards.slt", body]])
                args = []
                for l in ls:
                    args += ["--label", l]
                if jobs:
                    args += ["-j", str(jobs)]
                r = sb.run(args + ["t/guards.slt"], scenario={"rules": []}, timeout=120)
                got_sql = [e["sql"].split()[1] for e in r["events"] if e["ev"] == "SQL" and e.get("sql", "").startswith("select ")]
                got_sys = [l.strip() for l in open(marks)] if os.path.exists(marks) else []
            finally:
                sb.close()
            out.append({"labels": ls, "jobs": jobs, "rc": r["rc"], "got_sql": got_sql, "want_sql": want_sql, "got_sys": got_sys, "want_sys": want_sys,
                        "stdout": r["stdout"][-400:]})
    return out


def execute(cases, tier):
    res = corr.execute_run_family(__import__("props.C11", fromlist=["x"]), cases, tier)
    runs = cli_runs(tier)
    res["stats"]["evaluations"] += len(runs)
    res["stats"]["categories"]["cli_label_runs"] = len(runs)
    for o in runs:
        if o["got_sql"] != o["want_sql"] or o["got_sys"] != o["want_sys"] or o["rc"] != 0:
            res["disagreements"].append({"case": {"family": "cli-labels", "labels": o["labels"], "jobs": o["jobs"]}, "impl": o, "model": {"sql": o["want_sql"], "system": o["want_sys"]},
                                         "spec": "contradicts L1 (C11_guard) through the CLI with --label %r: statements/queries executed %r, expected %r; system commands executed %r, expected %r; exit %r" % (
                                             o["labels"], o["got_sql"], o["want_sql"], o["got_sys"], o["want_sys"], o["rc"]), "broken": "corr_C11_cli"})
    res["stats"]["disagreements"] = len(res["disagreements"])
    return res


def project(case, obs):
    if "results" not in obs:
        return obs
    return {"results": obs["results"], "events": obs["events"], "bg": obs.get("bg", [])}


def spec_verdict(case, pi, pm):
    return "contradicts L1 (C11_guard): executed/skipped or outputs differ from the reference: %r vs %r" % (str(pi)[:300], str(pm)[:300])


def direct_check(case, obs):
    if "results" not in obs:
        return None
    m = case["meta"]
    ran = any((e[0] == "sql" and e[2] == "guarded") or (e[0] == "cmd" and e[-1] == "guarded") for e in obs["events"]) or bool(obs.get("bg"))
    if ran != m["expect_run"]:
        return "contradicts L1: guarded record %s but the guards %s the label set" % (
            "ran" if ran else "was skipped", "reject" if not m["expect_run"] else "admit")
    plains = [e[2] for e in obs["events"] if e[0] == "sql" and e[2].startswith("plain")]
    if plains != ["plain0", "plain1"]:
        return "contradicts L1: guards leaked to an unguarded record (executed unguarded statements: %r)" % plains
    if not m["expect_run"]:
        r = obs["results"]
        # locate the guarded record's result: the one whose output is 'nothing' among the located records
        if not any(x[0] == "ok" and x[1][0] == "nothing" for x in r):
            return "contradicts L1: a skipped record produced an output or failed"
    return None


def categories(case, obs):
    m = case["meta"]
    return ["kind=%s" % m["kind"], "nguards=%d" % len(m["guards"]), "run=%s" % m["expect_run"], "pos=%d" % m["pos"], "engine=%s" % (m["engine"] or "none")]


def nontrivial_key(case, obs):
    m = case["meta"]
    if m["guards"]:
        return (repr(m["guards"]), tuple(m["labels"]), m["kind"], m["pos"], m["engine"])
    return None
