"""C06 — after --override the file passes against the same database and is a fixed point."""
import collections
import updfam
import vlib

PID = "C06"
NEEDS_CLI = True
RULE = ("parseable files from the C03 grammar generator with arbitrary (mostly wrong) expectations, optionally with included files, x "
        "deterministic scripted databases answering by call index with representable answers (non-empty single-line values, error "
        "texts without two consecutive blank lines, succeeding commands) x column separator {blank, TAB} x default/strict column check; "
        "Runner::update_test_file, then run_file against the same database from the same initial state, then a second update; "
        "file bytes after the update compared with the Coq model (parser + apply_record + update_record + display + trimmer); "
        "L1 evaluated directly on the implementation: updated file parses, passes, and is byte-identical after the second update; "
        "distinct = distinct tree+answers; non-trivial = the update changes at least one file")
ASSUMPTIONS = ["regex is_match is an oracle (regex crate)", "the shell is scripted through AsyncDB::run_command",
               "representability premise as in DESIGN.md section 4/C06"]

KNOWN_IDS = {5: "D5", 12: "D12"}


def corpus():
    mk = lambda text, answers, **kw: dict({"files": [["main.slt", "file", text]], "main": "main.slt", "answers": answers,
                                           "default_answer": ["complete", 0], "sys": [], "sys_default": ["exit", 0, "", ""], "sep": "\t",
                                           "strict_cols": False, "meta": {"src": "witness"}}, **kw)
    return [
        mk("statement ok\nselect 1\n", [["err", "a  b"]]),                                   # D3
        mk("statement ok retry 3 backoff 1s\nselect 1\n", [["err", "boom"]]),                 # D4
        mk("control resultmode valuewise\n\nquery II\nselect 1\n----\n", [["rows", "II", [["1", "2"]]]]),   # D5
        mk("statement error\nselect 1\n", [["rows", "I", [["1"]]]]),                          # D6
        mk("query TT\nselect 1\n----\n", [["rows", "TT", [["x", "\u00a0y"]]]]),          # D12 (the second value begins with U+00A0)
        mk("statement ok\n\n", [["complete", 0]]),                                           # D19: empty SQL line at the end of the file
        mk("statement ok\nselect 1\n\nstatement count 5\n\n\n\n", [["complete", 0], ["complete", 2]]),   # D19
    ]


def generate(rng, tier):
    n = 3000 if tier == "quick" else 40000
    cases = []
    for i in range(n):
        cases.append(updfam.gen_case(rng, with_includes=(rng.random() < 0.25)))
    return cases


def execute(cases, tier):
    rows, vm_n = updfam.execute(cases, tier, PID)
    disagreements = []
    cats = collections.Counter()
    keys = set()
    for row in rows:
        c, o, m = row["case"], row["out"], row["model"]
        if "panic" in o and "update1" not in o:
            disagreements.append({"case": c, "impl": o, "model": None, "spec": "contradicts L1: harness-level panic %r" % o.get("panic")})
            continue
        if o["parse"][0] != "ok":
            cats["unparseable"] += 1
            continue
        mf = updfam.model_files(m)
        l1 = updfam.listing_dict(o["listing1"])
        changed = any(l1.get(f[0]) != f[2] for f in c["files"] if f[1] == "file")
        cats["update1=%s" % o["update1"][0]] += 1
        if changed:
            keys.add(repr((c["files"], c["answers"], c["sep"], c["strict_cols"])))
            cats["changed"] += 1
        flags = []
        problem = None
        # ---- model vs implementation: bytes of every rewritten file
        if mf is None:
            problem = "model produced no prediction: %r" % (m,)
        else:
            status, files, flags = mf
            if status == "ok" and o["update1"] == ["ok"]:
                for p, t in files.items():
                    if l1.get(p) != t:
                        problem = "file %s after update differs from the model's prediction" % p
                        break
            elif (status == "ok") != (o["update1"] == ["ok"]):
                problem = "update outcome %r, model %r" % (o["update1"], status)
        # ---- L1 on the implementation
        spec = None
        if o["update1"] != ["ok"]:
            spec = "contradicts L1: update did not complete: %r" % (o["update1"],)
        elif o.get("parse_after", ["x"])[0] != "ok":
            spec = "contradicts L1 (C06): the updated file no longer parses: %r" % (o.get("parse_after"),)
        elif o["run"][0] != "ok":
            spec = "contradicts L1 (C06): the updated file does not pass against the same database: %r" % (o["run"][:4],)
        elif o["listing2"] != o["listing1"]:
            spec = "contradicts L1 (C06): a second update changes the file"
        elif any(e[0].endswith(".temp") for e in o["listing1"]):
            spec = "contradicts L1: temporary files left behind"
        d19 = False
        if spec and "no longer parses" in spec:
            # known finding D19: some file of the tree ends (blank lines aside) in a record with an empty SQL / command line
            from props import C05
            stack, done = [[]], []
            for r in vlib.norm(o["parse"][1]):
                if r[0] == "begin-include":
                    stack.append([])
                elif r[0] == "end-include":
                    done.append(stack.pop())
                else:
                    stack[-1].append(r)
            d19 = any(C05.dangling_end(f) for f in done + stack)
        cats["L1=%s" % ("ok" if spec is None else "violated")] += 1
        if problem or spec:
            d = {"case": c, "impl": {k: o.get(k) for k in ("update1", "run", "listing1", "listing2", "parse_after")},
                 "model": m[1] if isinstance(m, list) and len(m) > 1 else m,
                 "spec": spec or None, "broken": "corr_C06_update"}
            if spec and not problem and flags:
                d["known"] = KNOWN_IDS.get(flags[0])
                cats["known=%s" % d["known"]] += 1
            elif spec and not problem and d19:
                d["known"] = "D19"
                cats["known=D19"] += 1
            if problem and not spec:
                d["spec"] = None
                d["note"] = problem
            disagreements.append(d)
    stats = {"evaluations": len(cases), "model_evaluations": len(rows), "distinct_nontrivial": len(keys), "rule": RULE,
             "categories": dict(sorted(cats.items())), "vm_compute_crosschecked": vm_n,
             "samples": [{"files": c["files"], "answers": c["answers"][:3], "sep": c["sep"]} for c in cases[:2]],
             "disagreements": len(disagreements)}
    # one invocation of the real binary over SEVERAL files: each file is updated under its own modes, with its own runner
    for clause, what, detail in updfam.cli_tree_checks("override"):
        if clause in ('fixpoint',):
            disagreements.append({"case": {"family": "cli-tree", "invocation": "--override t/a_modes.slt t/b_plain.slt"}, "impl": detail,
                                  "model": "the second file is untouched and passes on its own; the included same-stem file is intact",
                                  "spec": "contradicts L1 (C06_file_converges, several files in one --override): " + what, "broken": "corr_C06_cli_tree"})
    return {"stats": stats, "disagreements": disagreements, "known_hits": [], "observables": []}
