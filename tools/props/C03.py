"""C03 — what is written in a test file is what gets parsed, with true line numbers."""
import random
import glob
import corr
import sltgen

PID = "C03"
RULE = ("abstract scripts A of 0..12 items over the full grammar (every record kind; every expectation form; optional sort mode, "
        "label, retry clause with all humantime unit spellings and compound values; guards; connections; comments; multi-line "
        "error texts and system outputs) x concrete layouts L (blank strings between header words incl. tabs/NBSP/ideographic space, "
        "leading/trailing blanks, LF/CRLF/mixed line ends, extra blank and whitespace-only lines, block ended by blank line or EOF, "
        "final newline or not); parse(render(A,L)) is compared with the generator's own elaboration elab(A) (records, every field, "
        "line numbers) and with the Coq parser model on the same text; plus the repository's fixtures; distinct = distinct text; "
        "non-trivial = non-canonical layout feature or a multi-line/retry/guard/connection clause present")
ASSUMPTIONS = ["Regex::new validity is an oracle computed by the regex crate for every inline pattern and handed to the model",
               "the generator's renderer/elaborator (tools/sltgen.py) is independent of the Coq model; all three must agree"]


def corpus():
    cases = []
    for f in sorted(glob.glob("/repo/tests/**/*.slt", recursive=True) + glob.glob("/repo/tests/**/*.slt.part", recursive=True)):
        cases.append({"text": open(f).read(), "meta": {"src": f}})
    return cases


def generate(rng, tier):
    n = 8000 if tier == "quick" else 150000
    cases = []
    for i in range(n):
        items = sltgen.gen_script(rng)
        lay = sltgen.Layout(rng, plain=(rng.random() < 0.15))
        text, recs = sltgen.render(items, lay)
        feats = set()
        if lay.crlf: feats.add("crlf")
        if not lay.plain: feats.add("layout")
        for it in items:
            if it.get("retry"): feats.add("retry")
            if it.get("multi"): feats.add("multiline")
            if it["kind"] in ("cond", "connection"): feats.add(it["kind"])
        cases.append({"text": text, "meta": {"expected": recs, "feats": sorted(feats), "kinds": sorted({it["kind"] for it in items})}})
    return cases


def execute(cases, tier):
    return corr.execute_parse_family(__import__("props.C03", fromlist=["x"]), cases, tier)


def project(case, obs):
    return obs


def spec_verdict(case, pi, pm):
    return "implementation and parser model disagree on this text: %r vs %r" % (str(pi)[:300], str(pm)[:300])


def direct_check(case, obs):
    exp = case["meta"].get("expected")
    if exp is None:
        return None
    import vlib
    want = ["ok", vlib.norm(exp)]
    if obs != want:
        # locate first differing record
        if isinstance(obs, list) and obs and obs[0] == "ok":
            for i, (a, b) in enumerate(zip(obs[1], want[1])):
                if a != b:
                    return "contradicts L1 (C03_roundtrip): record %d parsed as %r but %r was written" % (i, a, b)
            return "contradicts L1 (C03_roundtrip): %d records parsed, %d written" % (len(obs[1]), len(want[1]))
        return "contradicts L1 (C03_roundtrip): well-formed script rejected: %r" % (obs,)
    return None


def categories(case, obs):
    m = case["meta"]
    out = ["result=%s" % (obs[0] if isinstance(obs, list) else "panic")]
    out += ["f=%s" % f for f in m.get("feats", [])]
    out += ["k=%s" % k for k in m.get("kinds", [])]
    if "src" in m:
        out.append("fixture")
    return out


def nontrivial_key(case, obs):
    if case["meta"].get("feats"):
        return case["text"]
    return None
