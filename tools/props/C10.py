"""C10 — rowsort / valuesort make the verdict order-independent; nosort keeps order."""
import itertools
import corr
import runfam

PID = "C10"
RULE = ("result sets (<=4 rows quick / <=5 rows thorough: ALL permutations; larger: random permutations) x query-level "
        "sort {none,nosort,rowsort,valuesort} x file-level control sortmode x result mode; expectation = reference "
        "order or a one-step mutation; distinct = distinct (rows, modes, expectation); non-trivial = a sort mode is "
        "active or the verdict is a failure")
ASSUMPTIONS = ["Rust compares Strings by UTF-8 bytes, the model by code points (order-isomorphic)",
               "the scripted mock database returns exactly the scripted rows"]

VALUES = ["1", "10", "9", "2", "a", "ab", "b", "B", "a b", "é", "z", "ü", "10 ", "00", "€", "\U0001F600", "A", "NULL", "(empty)", "x  y"]
SORTS = [None, "nosort", "rowsort", "valuesort"]


def norm_v(v):
    return " ".join(v.strip().split())


def ref_lines(rows, mode, valuewise):
    if mode == "rowsort":
        rows = sorted(rows)
    elif mode == "valuesort":
        rows = sorted([[v] for r in rows for v in r])
    if valuewise:
        return [v for r in rows for v in r]
    return [" ".join(r) for r in rows]


def script(qsort, fsort, rmode, ncols, expected):
    t = ""
    if fsort:
        t += "control sortmode %s\n\n" % fsort
    if rmode:
        t += "control resultmode %s\n\n" % rmode
    t += "query %s%s\nselect\n----\n" % ("T" * ncols, (" " + qsort) if qsort else "")
    t += "".join(l + "\n" for l in expected)
    return t


def corpus():
    return []


def generate(rng, tier):
    cases = []
    nbases = 400 if tier == "quick" else 1500
    maxperm = 4 if tier == "quick" else 5
    for b in range(nbases):
        big = rng.random() < 0.15
        nrows = rng.randint(6, 30) if big else rng.randint(0, maxperm)
        ncols = rng.randint(1, 4)
        pool = rng.sample(VALUES, rng.randint(2, 6))
        collide = rng.random() < 0.3
        if collide:
            # different rows that render to the same / differently ordered joined line
            pool = ["a", "b", "c", "a b", "b c", "a b c", "a  b"]
            ncols = rng.randint(2, 3)
        rows = [[rng.choice(pool) for _ in range(ncols)] for _ in range(nrows)]
        qsort, fsort = rng.choice(SORTS), rng.choice(SORTS)
        if collide and rng.random() < 0.7:
            qsort, fsort = rng.choice([("rowsort", rng.choice(SORTS)), (None, "rowsort")])
        rmode = rng.choice([None, None, "rowwise", "valuewise"])
        eff = qsort if qsort else fsort
        thr = rng.choice([None, None, None, 1, 2]) if rows else None
        # a driver that reports fewer column types than it returns columns (the external engine reports none at all):
        # sorting and flattening go by the rows, not by the reported types
        rep_types = "T" * ncols
        if rng.random() < 0.2:
            rep_types = "T" * rng.randint(0, max(0, ncols - 1))
            thr = None
        import refimpl
        expected = refimpl.expected_lines(refimpl.shape(rows, ncols, eff, thr), rmode == "valuewise")
        mut = rng.random()
        if mut < 0.25 and expected:
            i = rng.randrange(len(expected))
            expected = expected[:i] + [expected[i] + "x"] + expected[i + 1:]
        elif mut < 0.35 and len(expected) > 1:
            expected = expected[1:] + expected[:1]
        if big:
            perms = [rows] + [rng.sample(rows, len(rows)) for _ in range(20)]
        else:
            perms = [list(p) for p in itertools.permutations(rows)]
        if eff == "valuesort" and rows:
            # value-level reorderings across row boundaries
            flat = [v for r in rows for v in r]
            for _ in range(6):
                f2 = rng.sample(flat, len(flat))
                perms.append([f2[i * ncols:(i + 1) * ncols] for i in range(nrows)])
        text = script(qsort, fsort, rmode, ncols, expected)
        if thr:
            text = "hash-threshold %d\n\n" % thr + text
        for pi, p in enumerate(perms):
            cases.append(runfam.impl_case(text, answers=[["rows", rep_types, p]],
                                          meta={"base": b, "perm": pi, "eff": eff, "rmode": rmode, "thr": thr,
                                                "rows": p, "expected": expected}))
    return cases


def gen_include_case(rng):
    """a file-level sort mode set BEFORE an include still governs the queries AFTER it (run_file on a real tree)"""
    import refimpl
    fsort = rng.choice(["rowsort", "valuesort", "rowsort", "nosort"])
    ncols = rng.randint(1, 2)
    rows = [[rng.choice(["a", "b", "c", "10", "9", "B"]) for _ in range(ncols)] for _ in range(rng.randint(2, 4))]
    ninc = rng.randint(1, 2)
    files, answers = [], []
    main = "control sortmode %s\n\n" % fsort
    if rng.random() < 0.5:
        main += "statement ok\nbefore\n\n"; answers.append(["complete", 0])
    main += "include inc/*.slt\n\n"
    eff = fsort
    for k in range(ninc):
        body = "statement ok\nprelude %d\n\n" % k
        answers.append(["complete", 0])
        if rng.random() < 0.2:
            inner = rng.choice(["rowsort", "nosort", "valuesort"])
            body += "control sortmode %s\n\n" % inner      # a control inside an included file stays in force afterwards
            eff = inner
        files.append(["inc/p%d.slt" % k, "file", body])
    exp = refimpl.expected_lines(refimpl.shape(rows, ncols, None if eff == "nosort" else eff, None), False)
    if rng.random() < 0.2 and len(exp) > 1:
        exp = exp[1:] + exp[:1]
    main += "query %s\nselect after\n----\n%s" % ("T" * ncols, "".join(l + "\n" for l in exp))
    answers.append(["rows", "T" * ncols, rng.sample(rows, len(rows))])
    files.append(["main.slt", "file", main])
    return {"files": files, "main": "main.slt", "mode": "run", "answers": answers, "default_answer": ["err", "unexpected call"], "meta": {}}


def execute(cases, tier):
    res = corr.execute_run_family(__import__("props.C10", fromlist=["x"]), cases, tier)
    import random
    from props import C14
    rng = random.Random(len(cases) * 104729 + 11)
    fcases = [gen_include_case(rng) for _ in range(300 if tier == "quick" else 6000)]
    fres = corr.execute_file_family(C14, fcases, tier, vm_sample=6)
    for d in fres["disagreements"]:
        d["broken"] = "corr_C10_file"
        d["spec"] = "contradicts L1 (C10: the sort mode in force decides the verdict): run_file on a tree with an include between `control sortmode` and the query: " + str(d.get("spec"))[:300]
    res["disagreements"] += fres["disagreements"]
    res["stats"]["run_file_evaluations"] = len(fcases)
    res["stats"]["evaluations"] += len(fcases)
    res["stats"]["disagreements"] = len(res["disagreements"])
    return res


def verdict_of(obs):
    if "results" not in obs:
        return obs
    r = obs["results"][-1]
    return [r[0]] + (r[1:2] if r[0] == "err" else [])


def project(case, obs):
    return verdict_of(obs)


def spec_verdict(case, pi, pm):
    return "contradicts L1: verdict %r differs from the reference verdict %r (C10_sort_spec / C01 judge)" % (pi, pm)


def categories(case, obs):
    m = case["meta"]
    v = verdict_of(obs)
    return ["eff=%s" % m["eff"], "rmode=%s" % m["rmode"], "verdict=%s" % (v[0] if isinstance(v, list) else "other")]


def nontrivial_key(case, obs):
    m = case["meta"]
    v = verdict_of(obs)
    if m["eff"] in ("rowsort", "valuesort") or (isinstance(v, list) and v[0] == "err"):
        return (case["text"], repr(m["rows"]))
    return None


def group_check(cases, outs):
    """The property itself, evaluated on the implementation alone (independent of the model):
    under rowsort/valuesort all permutations of a base get the same verdict; under nosort the
    verdict is ok iff the normalised sequence equals the expected one."""
    bad = []
    byb = {}
    for c, o in zip(cases, outs):
        obs = runfam.observe_impl(c, o)
        v = verdict_of(obs)
        m = c["meta"]
        if m["eff"] in ("rowsort", "valuesort"):
            first = byb.setdefault(m["base"], (v, c))
            if first[0] != v:
                bad.append({"case": c, "impl": v, "model": first[0], "broken": "C10_rowsort_perm/C10_valuesort_perm",
                            "spec": "contradicts L1: verdict %r for this permutation but %r for permutation %d of the same result set under %s"
                                    % (v, first[0], first[1]["meta"]["perm"], m["eff"])})
        elif not m.get("thr"):
            if m["rmode"] == "valuewise":
                actual = [norm_v(x) for r in m["rows"] for x in r]
            else:
                actual = [" ".join(norm_v(x) for x in r) for r in m["rows"]]
            want_ok = actual == [norm_v(e) for e in m["expected"]]
            got_ok = isinstance(v, list) and v[0] == "ok"
            if want_ok != got_ok:
                bad.append({"case": c, "impl": v, "model": "ok" if want_ok else "err", "broken": "C10_nosort_strict",
                            "spec": "contradicts L1: without a sort mode the normalised row sequence %s the expected one but the verdict is %r"
                                    % ("equals" if want_ok else "differs from", v)})
    return bad[:5]
