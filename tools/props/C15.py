"""C15 — large results are compared through the standard sqllogictest MD5 digest line."""
import corr
import runfam
import refimpl

PID = "C15"
RULE = ("result sets of 0..200 values in 1..6 columns of arbitrary UTF-8 (blanks, tabs, NBSP, astral code points) x "
        "threshold in {0, n-1, n, n+1, 1} around the value count x query/file sort mode x result mode; threshold set by "
        "hash-threshold record, by the API, or changed twice; the expectation is the digest line computed by Python's hashlib "
        "over the reference value order (independent third implementation) or a near miss; distinct = distinct (script, answer, threshold); "
        "non-trivial = hashing is active or the count is within 1 of the threshold")
ASSUMPTIONS = ["MD5 is modelled in Coq (RFC 1321 on N) and validated against hashlib and the md-5 crate, not proved against a second formalisation",
               "answers are rectangular (the mock returns exactly len(types) values per row) except for the dedicated ragged/typeless cases"]

ALPH = ["a", "b", "1", "2", "10", "é", "ü", "€", "🙂", " ", "\t", " ", "Z", "-", "'", "x y", "NULL"]
SORTS = [None, "nosort", "rowsort", "valuesort"]


def value(rng):
    k = rng.choice([1, 1, 2, 3, 5, 12])
    v = "".join(rng.choice(ALPH) for _ in range(k))
    return v if v.strip(refimpl.UNI_WS) else "v" + v


def gen_one(rng):
    ncols = rng.randint(1, 6)
    nrows = rng.choice([0, 1, 2, 3, 5, 8, 13, 20, 33]) if rng.random() < 0.9 else rng.randint(0, 200 // ncols)
    rows = [[value(rng) for _ in range(ncols)] for _ in range(nrows)]
    qsort, fsort = rng.choice(SORTS), rng.choice(SORTS + [None, None])
    rmode = rng.choice([None, None, "rowwise", "valuewise"])
    eff = qsort or fsort
    ntypes = ncols
    types = "T" * ncols
    if rng.random() < 0.06:
        types = "T" * rng.choice([0, ncols + 1, max(ncols - 1, 0)])   # engines that report no / other types
        ntypes = len(types)
    nvals = nrows * ncols if eff == "valuesort" else nrows * ntypes
    thr = rng.choice([0, max(nvals - 1, 0), nvals, nvals + 1, 1])
    pre = ""
    api = None
    how = rng.choice(["record", "record", "api", "twice"])
    if fsort:
        pre += "control sortmode %s\n\n" % fsort
    if rmode:
        pre += "control resultmode %s\n\n" % rmode
    if how == "api":
        api = thr
    elif how == "twice":
        api = 3
        pre += "hash-threshold %d\n\nhash-threshold %d\n\n" % (thr + 7, thr)
    else:
        pre += "hash-threshold %d\n\n" % thr
    shaped = refimpl.shape(rows, ntypes, eff, thr)
    hashed = shaped != rows and len(shaped) == 1 and " values hashing to " in shaped[0][0] and (thr > 0 and nvals > thr)
    lines = refimpl.expected_lines(shaped, rmode == "valuewise")
    mut = rng.random()
    if mut < 0.15 and lines:
        l = lines[0]
        lines = [l[:-1] + ("0" if l[-1] != "0" else "1")] + lines[1:]
    elif mut < 0.22:
        # the digest of the un-normalised/other order, or full results where a digest is due
        lines = refimpl.expected_lines(refimpl.shape(rows, ntypes, eff, 0 if hashed else 1), rmode == "valuewise")
    lines = [l for l in lines if l.strip(refimpl.UNI_WS) != ""]
    text = pre + "query %s%s\nselect\n----\n%s" % (types if types else "T", (" " + qsort) if qsort else "", "".join(l + "\n" for l in lines))
    return runfam.impl_case(text, answers=[["rows", types, rows]], hash_threshold=api,
                            meta={"hashed": hashed, "near": abs(nvals - thr) <= 1, "eff": eff, "rmode": rmode, "nvals": nvals, "thr": thr})


def corpus():
    return []


def generate(rng, tier):
    n = 5000 if tier == "quick" else 60000
    return [gen_one(rng) for _ in range(n)]


def execute(cases, tier):
    res = corr.execute_run_family(__import__("props.C15", fromlist=["x"]), cases, tier)
    # the threshold set through the API also governs the files run by the library's run_parallel (one runner per file):
    # a result of 4 values against a threshold of 3 is compared through its digest line, never in full - and without a threshold in full
    import hashlib
    import vlib
    line = "4 values hashing to " + hashlib.md5(b"1\n2\n3\n4\n").hexdigest()
    obs = vlib.run_impl("parlib", [{"threshold": 3, "hash_line": line}])[0]
    want = {"hashed_with_threshold": "pass", "full_with_threshold": "fail", "full_without_threshold": "pass", "hashed_without_threshold": "fail"}
    got = {k: str(obs.get(k, "missing")).split(":")[0] for k in want}
    res["stats"]["categories"]["run_parallel_api_threshold=%s" % ("ok" if got == want else "differs")] = 1
    res["stats"]["evaluations"] += 4
    if got != want:
        res["disagreements"].append({"case": {"family": "parlib", "threshold": 3, "hash_line": line}, "impl": obs, "model": want,
                                     "spec": "contradicts L1 (C15_threshold_scope): under Runner::run_parallel with with_hash_threshold(3) a result of 4 values "
                                             "is judged %r, expected %r (digest line / full rows, with / without the threshold)" % (got, want),
                                     "broken": "corr_C15_run_parallel"})
        res["stats"]["disagreements"] = len(res["disagreements"])
    return res


def project(case, obs):
    if "results" not in obs:
        return obs
    return obs["results"][-1]


def spec_verdict(case, pi, pm):
    return ("contradicts L1 (C15_hash_line / C15_no_hash): the implementation's verdict/compared rows %r differ from the "
            "reference %r" % (str(pi)[:200], str(pm)[:200]))


def categories(case, obs):
    m = case["meta"]
    p = project(case, obs)
    v = p[0] if isinstance(p, list) and p else "other"
    return ["hashed=%s" % m["hashed"], "eff=%s" % m["eff"], "rmode=%s" % m["rmode"], "verdict=%s" % v, "near=%s" % m["near"]]


def nontrivial_key(case, obs):
    m = case["meta"]
    if m["hashed"] or m["near"]:
        return (case["text"], repr(case["answers"]), case["hash_threshold"])
    return None
