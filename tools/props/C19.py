"""C19 — fail-fast and Ctrl-C stop new work, release everything, and exit non-zero."""
import collections
import os
import sys
import clirun
import clifam
import vlib
import drvmodel
from props import C17

PID = "C19"
NEEDS_CLI = True
RULE = ("the real binary (serial and -j 2..4) with the scripted fake engine: for each file set an uninterrupted run counts the engine requests "
        "(CREATE/DROP statements of the management connection included); then the engine sends SIGINT to the CLI when it receives its k-th request - "
        "for EVERY k (thorough) / a spread of k incl. the first and last three (quick) - and delays its own reply by a grace interval; checks: exit status != 0, "
        "no test-file session started later than signal + grace, every engine session reaches end-of-file, every CREATE has its DROP, JUnit report present "
        "with exactly one case per selected file, termination within the timeout, and the time-ordered engine log with the Cancel event inserted is accepted "
        "by the observer automaton; SIGINT delivered 300 ms after a reply, while the file is inside a `sleep 1500ms` record or a `sleep 1.5` system command: exit within 1.1 s of the signal, nothing sent afterwards; "
        "plus --fail-fast with the first failing file at every position; distinct = distinct (scenario, mode, k); non-trivial = every interrupted run")
ASSUMPTIONS = ["partial: signal delivery latency, the window between signal arrival and the token being set, the bounded-time clause and kill_on_drop are runtime "
               "behaviour - observed under generous timeouts (grace 600 ms, allowance 400 ms, 60 s limit), not proved"]

GRACE = 600
MARGIN = 400   # ms allowed between kill(2) and the token being set (scheduling latency), well inside the grace interval


def corpus():
    return []


def generate(rng, tier):
    sets = []
    for i in range(4 if tier == "quick" else 40):
        parallel = i % 4 != 3
        files, rules, truth, info = clifam.make_set(rng, rng.randint(2, 6), kinds=["pass"] if i % 2 == 0 else ["pass", "pass", "pass", "fail"], parallel=parallel)
        rules = [r for r in rules if "delay_ms" not in r] + [{"match": "F0", "delay_ms": 10}]
        if parallel:
            # sessions of one file whose ends depend on each other (either way round): releasing everything must not hinge on an order
            rules += [{"start_db_prefix": clifam.case_name(p) + "_", "eof_wait_peer": ["first", "later"][(i + k) % 2]} for k, p in enumerate(sorted(truth))]
        sets.append({"files": files, "rules": rules, "truth": truth, "info": info, "jobs": rng.randint(2, 4) if parallel else None, "meta": {"kind": "sigint"}})
    # Ctrl-C while a file is inside a pause that is not a database request: a `sleep` record or a system command
    for i in range(4 if tier == "quick" else 40):
        parallel = i % 2 == 1
        pause = ["sleep 1500ms\n\n", "system ok\nsleep 1.5\n\n"][(i // 2) % 2]
        files, truth, info = [], {}, {}
        for j in range(rng.randint(1, 3)):
            tag = "F%02d" % j
            path = "t/p%02d.slt" % j
            body = "control substitution on\n\nstatement ok\nselect %s_1 $__DATABASE__\n\n" % tag
            body += pause if j == 0 else ""
            body += "statement ok\nselect %s_2 $__DATABASE__\n\n" % tag
            files.append([path, body]); truth[path] = "ok"; info[path] = {"tag": tag, "kind": "pass"}
        rules = [{"match": "F00_1", "signal": "INT", "after_reply_ms": 300}]
        sets.append({"files": files, "rules": rules, "truth": truth, "info": info, "jobs": 2 if parallel else None, "meta": {"kind": "sigpause", "pause": pause.split("\n")[0]}})
    for i in range(4 if tier == "quick" else 60):
        parallel = i % 2 == 0
        n = rng.randint(2, 6)
        files, rules, truth, info = clifam.make_set(rng, n, kinds=["pass"], parallel=parallel)
        pos = rng.randrange(n)
        p = sorted(truth)[pos]
        rules.append({"match": info[p]["tag"] + "_1", "err": "boom"})
        truth[p] = "fail"
        sets.append({"files": files, "rules": rules, "truth": truth, "info": info, "jobs": rng.randint(1, 3) if parallel else None,
                     "meta": {"kind": "failfast", "pos": pos}})
        if parallel and i % 4 == 0:
            # both at once: --fail-fast has already cancelled the run when Ctrl-C arrives during the wind-down (the first DROP DATABASE):
            # everything is still released, the report written, the exit status non-zero
            first = sorted(truth)[0]
            sets.append({"files": files, "rules": rules, "truth": truth, "info": info, "jobs": rng.randint(2, 3),
                         "meta": {"kind": "failfast+sigint", "pos": pos, "drop_of": clifam.case_name(first) + "_"}})
    return sets


def run(c, extra_rules, args_extra, junit=True):
    sb = clirun.Sandbox("c19")
    try:
        sb.write_files(c["files"])
        args = (["-j", str(c["jobs"])] if c["jobs"] else []) + (["--junit", "rep"] if junit else []) + args_extra
        r = sb.run(args + ["t/**/*.slt"], scenario={"rules": c["rules"] + extra_rules}, timeout=60)
        ju = sb.junit("rep") if junit else None
    finally:
        sb.close()
    return r, ju


def check_release(c, r, ju, t_cancel, kind):
    ev = r["events"]
    if r["hung"]:
        return "contradicts L1: the CLI did not exit within 60 s"
    if r["rc"] == 0:
        return "contradicts L1 (C19_exit): exit status 0 after %s" % kind
    starts = {}
    for e in ev:
        if e["ev"] == "START":
            starts[e["pid"]] = e
    ended = {e["pid"] for e in ev if e["ev"] in ("EOF", "EXIT")}
    left = [p for p in starts if p not in ended]
    if left:
        return "contradicts L1 (C19_release): %d engine session(s) never saw end-of-file: %r" % (len(left), [starts[p]["db"] for p in left])
    tr, mgmt = C17.build_trace(ev) if c["jobs"] else ([], None)
    if c["jobs"]:
        created = [x[1] for x in tr if x[0] == "create"]
        dropped = [x[1] for x in tr if x[0] == "drop"]
        if sorted(created) != sorted(dropped):
            return "contradicts L1 (C19_release): created %r, dropped %r" % (created, dropped)
    if t_cancel is not None:
        lim = t_cancel + MARGIN * 1000000
        late = [e for e in ev if e["ev"] == "START" and e["pid"] != mgmt and e["t"] > lim] if c["jobs"] else []
        if late:
            return "contradicts L1 (C19_no_new_work): session(s) on %r started after the interrupt" % ([e["db"] for e in late],)
        latesql = [e for e in ev if e["ev"] == "SQL" and e["t"] > lim and (c["jobs"] is None or e["pid"] != mgmt)]
        if latesql:
            return "contradicts L1 (C19_no_new_work): SQL %r sent for a test file after the interrupt" % ([e["sql"] for e in latesql][:3],)
        if c["jobs"] is None:
            # serial: one default session per file; a session that starts after the interrupt is a new file
            late = [e for e in ev if e["ev"] == "START" and e["t"] > lim]
            if late:
                return "contradicts L1 (C19_no_new_work): %d session(s) started after the interrupt" % len(late)
    if ju is None:
        return "contradicts L1 (C19_junit_written): no JUnit report after %s" % kind
    names = sorted(n for n, _ in ju["cases"])
    want = sorted(clifam.case_name(p) for p in c["truth"])
    if names != want:
        return "contradicts L1 (C19_junit_written): JUnit has cases %r, selected files are %r" % (names, want)
    return None


def serial_replay(c, r, ff):
    """a serial run as a run of the serial driver model (coq/Serial.v): the schedule is read off the reports (the first file reported
    cancelled was running when Ctrl-C arrived; if none was, Ctrl-C arrived in front of the first file reported skipped without a
    failure that explains it) and the extracted model must then give exactly the observed reports, in order, and a matching exit status"""
    st = [(p, tag) for p, tag, _ in clirun.status_lines(r["stdout"]) if p in c["truth"]]
    order = sorted(c["truth"])
    if [p for p, _ in st] != order:
        return "reports %r are not the selected files in order %r" % (st, order)
    tags = [t for _, t in st]
    files = [0 if c["truth"][p] == "ok" else 1 for p in order]
    sched, tok = [], False
    for i, t in enumerate(tags):
        if t == "CANCELLED":
            sched.append(["run", 1]); tok = True
        else:
            if t == "SKIPPED" and not tok:
                sched.append(["ctrlc"]); tok = True
            sched.append(["run", 0])
            if t == "FAILED" and ff:
                tok = True
    m = vlib.run_model("serial", [[files, 1 if ff else 0, sched]])[0]
    code_tag = {0: "OK", 1: "FAILED", 4: "FAILED", 2: "CANCELLED", 3: "SKIPPED"}
    want = [code_tag[x] for x in m[0]]
    if want != tags or (m[1] != 0) != (r["rc"] != 0):
        return "reports %r exit %r; the model of run_serial on the schedule read off them gives %r exit %r" % (st, r["rc"], want, m[1])
    return None


def cancel_trace(r, sig):
    """engine-side events of a run interrupted by the signal [sig] -> automaton / model trace with the Cancel event placed"""
    _, mgmt = C17.build_trace(r["events"])
    evs = r["events"]
    lim = sig["t"] + MARGIN * 1000000
    # a session spawned just before the token was set logs its START (and the request already written to its pipe) late,
    # possibly after its siblings were shut down: such sessions are checked directly (EOF reached, none after the margin), not by the automaton
    aborted = {e["pid"] for e in evs if e["ev"] == "START" and e["t"] > sig["t"] and e["pid"] != mgmt}
    # requests already written when the token was set are abandoned by the CLI, so an engine process may log them (and its START)
    # after the CLI has begun to shut the file's other sessions down: after the signal, events of a database are moved in front of the
    # first close logged for that database (pipes are FIFO per session, so a session's own close is always logged after its requests)
    seq = [e for e in evs if e["ev"] != "SIGNAL" and e["pid"] not in aborted]
    norm = []
    first_close = {}
    for e in seq:
        if e["t"] > sig["t"] and e["pid"] != mgmt:
            if e["ev"] in ("EOF", "EXIT"):
                first_close.setdefault(e["db"], len(norm))
            elif e["db"] in first_close:
                i = first_close[e["db"]]
                norm.insert(i, e)
                first_close = {k: (v + 1 if v >= i else v) for k, v in first_close.items()}
                continue
        norm.append(e)
    tr_c, placed = [], False
    for e in norm:
        if not placed and e["t"] > lim and not (e["pid"] != mgmt and e["ev"] == "SQL"):
            tr_c.append(["cancel"]); placed = True
        part, _ = build_one(e, mgmt)
        tr_c += part
    if not placed:
        tr_c.append(["cancel"])
    return tr_c


def execute(cases, tier):
    disagreements = []
    cats = collections.Counter()
    keys = set()
    mcases, rows = [], []
    nruns = 0
    for c in cases:
        if c["meta"]["kind"] == "failfast":
            r, ju = run(c, [], ["--fail-fast"])
            nruns += 1
            cats["failfast"] += 1
            keys.add(repr((c["files"], c["rules"], c["jobs"], "ff")))
            spec = check_release(c, r, ju, None, "a failure under --fail-fast")
            got = {p: tag for p, tag, _ in clirun.status_lines(r["stdout"])}
            if spec is None:
                order = [p for p, _, _ in clirun.status_lines(r["stdout"])]
                if not c["jobs"]:
                    first_fail = next((i for i, p in enumerate(order) if got[p] == "FAILED"), None)
                    if first_fail is None:
                        spec = "contradicts L1: the failing file was not reported FAILED: %r" % got
                    elif any(got[p] != "SKIPPED" for p in order[first_fail + 1:]):
                        spec = "contradicts L1 (C19 fail-fast): files after the first failure were started: %r" % [(p, got[p]) for p in order]
                if any(tag is None for tag in got.values()):
                    spec = spec or "contradicts L1: file without a status: %r" % got
            if spec:
                disagreements.append({"case": c, "impl": {"rc": r["rc"], "status": got, "stderr": r["stderr"][-400:]}, "model": None, "spec": spec, "broken": "corr_C19_cancel"})
            elif not c["jobs"] and not r["hung"]:
                why = serial_replay(c, r, True)
                cats["serial_model_replayed"] += 1
                if why:
                    disagreements.append({"case": c, "impl": {"stdout": r["stdout"][-600:], "rc": r["rc"]}, "model": "coq/Serial.v", "spec": None,
                                          "note": "the serial run is not a run of the serial driver model: " + why, "broken": "corr_C19_serial_model"})
            elif c["jobs"] and not r["hung"]:
                # the run as a run of the driver model (coq/Driver.v) under fail-fast
                def run_once(c=c):
                    r2, _ = run(c, [], ["--fail-fast"], junit=False)
                    return r2, C17.build_trace(r2["events"])[0], clirun.status_lines(r2["stdout"])
                try:
                    wire, exp = drvmodel.model_case(c, C17.build_trace(r["events"])[0], [(p, tag) for p, tag, _ in clirun.status_lines(r["stdout"])], c["jobs"], False, True)
                    why = drvmodel.compare(vlib.run_model("driver", [wire])[0], exp, r["rc"])
                except drvmodel.Unexplained as ex:
                    why = str(ex)
                cats["driver_model_replayed_fail_fast"] += 1
                if why:
                    cats["driver_model_rechecked"] += 1
                    why = drvmodel.recheck(c, run_once, c["jobs"], False, True)
                if why:
                    disagreements.append({"case": c, "impl": {"stdout": r["stdout"][-800:], "rc": r["rc"]}, "model": "coq/Driver.v replayed on the schedule reconstructed from the run",
                                          "spec": None, "note": "the run is not a run of the driver model: " + why, "broken": "corr_C19_driver_model"})
            continue
        if c["meta"]["kind"] == "failfast+sigint":
            r, ju = run(c, [{"match": "DROP DATABASE " + c["meta"]["drop_of"], "signal": "INT", "grace_ms": GRACE}], ["--fail-fast"])
            nruns += 1
            cats["failfast+sigint"] += 1
            keys.add(repr((c["files"], c["rules"], c["jobs"], "ff+int")))
            sig = next((e for e in r["events"] if e["ev"] == "SIGNAL"), None)
            spec = "harness: the signal was not sent (no DROP DATABASE for %r reached the engine)" % c["meta"]["drop_of"] if sig is None else             check_release(c, r, ju, sig["t"], "Ctrl-C during the wind-down after a fail-fast failure")
            if spec:
                disagreements.append({"case": c, "impl": {"rc": r["rc"], "stderr": r["stderr"][-400:], "events": r["events"][-12:]}, "model": None,
                                      "spec": spec, "broken": "corr_C19_cancel"})
            continue
        if c["meta"]["kind"] == "sigpause":
            r, ju = run(c, [], [])
            nruns += 1
            cats["sigint during %s mode=%s" % (c["meta"]["pause"].split()[0], "par" if c["jobs"] else "serial")] += 1
            keys.add(repr((c["files"], c["jobs"], "pause")))
            sig = next((e for e in r["events"] if e["ev"] == "SIGNAL"), None)
            spec = None
            if sig is None:
                spec = "harness: the delayed signal was not sent"
            else:
                spec = check_release(c, r, ju, sig["t"], "Ctrl-C during `%s`" % c["meta"]["pause"])
                took = (r["t_end"] - sig["t"]) / 1e6
                if spec is None and took > 1100:
                    spec = "contradicts L1 (bounded time): the CLI exited %.0f ms after Ctrl-C arrived during `%s` (the pause alone lasts 1500 ms)" % (took, c["meta"]["pause"])
                if spec is None and any(e["ev"] == "SQL" and "F00_2" in e.get("sql", "") for e in r["events"]):
                    spec = "contradicts L1 (C19_no_new_work): the record after the pause was sent to the database after Ctrl-C"
            if spec:
                disagreements.append({"case": c, "impl": {"rc": r["rc"], "stderr": r["stderr"][-400:], "events": r["events"][-12:]}, "model": None,
                                      "spec": spec, "broken": "corr_C19_cancel"})
            continue
        base, _ = run(c, [], [])
        nruns += 1
        nreq = sum(1 for e in base["events"] if e["ev"] == "SQL")
        ks = list(range(1, nreq + 1))
        if tier == "quick" and nreq > 10:
            ks = sorted(set(ks[:3] + ks[-3:] + ks[3:-3:max(1, (nreq - 6) // 4)]))
        for k in ks:
            r, ju = run(c, [{"at_request": k, "signal": "INT", "grace_ms": GRACE}], [])
            nruns += 1
            cats["sigint mode=%s" % ("par" if c["jobs"] else "serial")] += 1
            keys.add(repr((c["files"], c["rules"], c["jobs"], k)))
            sig = next((e for e in r["events"] if e["ev"] == "SIGNAL"), None)
            if sig is None:
                # the k-th request never happened in this run (timing changed the count): nothing to check
                cats["signal-not-reached"] += 1
                continue
            spec = check_release(c, r, ju, sig["t"], "Ctrl-C at request %d of %d" % (k, nreq))
            if not c["jobs"] and not r["hung"] and spec is None:
                why = serial_replay(c, r, False)
                cats["serial_model_replayed"] += 1
                if why:
                    disagreements.append({"case": dict(c, k=k), "impl": {"stdout": r["stdout"][-600:], "rc": r["rc"]}, "model": "coq/Serial.v", "spec": None,
                                          "note": "the interrupted serial run is not a run of the serial driver model: " + why, "broken": "corr_C19_serial_model"})
            if c["jobs"]:
                tr_c = cancel_trace(r, sig)
                mcases.append([c["jobs"], [], tr_c])
                rows.append((c, k, r, tr_c))
                # the interrupted run as a run of the driver model (coq/Driver.v): the signal's place among the engine-side events is known to
                # +-MARGIN only, so the reconstruction puts the Ctrl-C choice where the first cancelled file needs it; a run that is not
                # reproduced is repeated (same scenario, same request) and reported only if it is not reproduced any of three times
                def replay(r_, sig_):
                    try:
                        wire, exp = drvmodel.model_case(c, cancel_trace(r_, sig_), [(p, tag) for p, tag, _ in clirun.status_lines(r_["stdout"])], c["jobs"], False, False)
                        return drvmodel.compare(vlib.run_model("driver", [wire])[0], exp, r_["rc"])
                    except drvmodel.Unexplained as ex:
                        return str(ex)
                why = replay(r, sig)
                tries = 0
                while why and tries < 2:
                    tries += 1
                    cats["driver_model_rechecked"] += 1
                    r2, _ = run(c, [{"at_request": k, "signal": "INT", "grace_ms": GRACE}], [], junit=False)
                    sig2 = next((e for e in r2["events"] if e["ev"] == "SIGNAL"), None)
                    if sig2 is None or r2["hung"]:
                        why = None if sig2 is None else "the CLI did not terminate"
                        break
                    why = replay(r2, sig2)
                cats["ctrlc_runs_reproduced_by_driver_model=%s" % ("yes" if not why else "no")] += 1
                if why:
                    disagreements.append({"case": dict(c, k=k), "impl": {"stdout": r["stdout"][-800:], "rc": r["rc"]}, "model": "coq/Driver.v replayed on the schedule reconstructed from the run",
                                          "spec": None, "note": "the interrupted run is not a run of the driver model: " + why, "broken": "corr_C19_driver_model"})
            if spec:
                disagreements.append({"case": dict(c, k=k), "impl": {"rc": r["rc"], "stderr": r["stderr"][-400:], "events": r["events"][-12:]}, "model": None,
                                      "spec": spec, "broken": "corr_C19_cancel"})
    if mcases:
        mouts = vlib.run_model("par", mcases)
        vm_n = vlib.vm_crosscheck("par", mcases, mouts, 8, PID)
        for (c, k, r, tr), m in zip(rows, mouts):
            if m != ["accepted"]:
                where = tr[m[1]] if m[0] == "refused" and m[1] < len(tr) else None
                disagreements.append({"case": dict(c, k=k), "impl": {"trace": tr}, "model": m, "spec": None,
                                      "note": "the observer automaton refuses event %r (index %s)" % (where, m[1:]), "broken": "corr_C19_trace"})
    else:
        vm_n = 0
    stats = {"evaluations": nruns, "model_evaluations": len(mcases), "distinct_nontrivial": len(keys), "rule": RULE,
             "categories": dict(sorted(cats.items())), "vm_compute_crosschecked": vm_n,
             "samples": [{"files": [f[0] for f in c["files"]], "jobs": c["jobs"], "kind": c["meta"]["kind"]} for c in cases[:3]],
             "disagreements": len(disagreements)}
    return {"stats": stats, "disagreements": disagreements, "known_hits": [], "observables": []}


def build_one(e, mgmt):
    import re
    if e["pid"] == mgmt:
        if e["ev"] == "SQL":
            m = re.match(r"CREATE DATABASE (\S+);", e["sql"])
            if m:
                return [["create", m.group(1)]], None
            m = re.match(r"DROP DATABASE (\S+);", e["sql"])
            if m:
                return [["drop", m.group(1)]], None
            return [], None
        if e["ev"] in ("EOF", "EXIT"):
            return [["mgmt-close"]], None
        return [], None
    if e["ev"] == "START":
        return [["connect", e["db"], e["pid"]]], None
    if e["ev"] == "SQL":
        return [["sql", e["db"], e["pid"]]], None
    if e["ev"] in ("EOF", "EXIT"):
        return [["close", e["db"], e["pid"]]], None
    return [], None
