"""C02 — a script runs top to bottom, once per record, and stops at the first failure."""
import corr
import runfam

PID = "C02"
RULE = ("scripts of 0..25 records of every kind (statement/query/system with and without retry clauses, guards and named "
        "connections; control sortmode/resultmode/substitution; hash-threshold; halt; sleep; subtest; comments; blank lines), "
        "first failing record and halt position uniform incl. none/first/last; the scripted database answers by global call "
        "index (history dependent) and would answer differently to any call that should not happen; run through run_multi "
        "and run_script_with_name; a Python reference interpreter predicts the call trace, the result and the failure line; "
        "distinct = distinct script+answers; non-trivial = a failure, a halt, a retry or a skipped record occurs")
ASSUMPTIONS = ["run_script* expects the parse to succeed (generated scripts are well-formed; malformed text is C04)",
               "until the parser model is plugged into this family the model receives the records as parsed by the implementation (C03 ties the parser)"]


def gen_one(rng):
    n = rng.randint(0, 25)
    fail_at = rng.choice([None, None, 0, n - 1] + list(range(n))) if n else None
    halt_at = rng.choice([None, None, None, 0, n - 1] + list(range(n))) if n else None
    text = ""
    answers, sysa = [], []
    exp_calls = []          # expected ("sql", text) / ("cmd", text) in order
    exp_final = ["ok"]
    line = 1
    stopped = False
    feats = set()
    sort_on = False
    for i in range(n):
        if halt_at == i:
            if rng.random() < 0.4:
                # a guard in front of `halt` does not belong to it (guards wait for the next statement / query / system record):
                # the run ends here whatever the labels are (labels of the run: beta, gamma)
                g = rng.choice(["onlyif nosuchlabel\n", "skipif beta\n", "onlyif alpha\nskipif gamma\n"])
                text += g; line += g.count("\n")
                feats.add("guarded-halt")
            text += "halt\n\n"; line += 2
            if not stopped:
                stopped = True
                feats.add("halt")
            continue
        kind = rng.choice(["statement", "statement", "query", "query", "system", "control", "threshold", "sleep", "subtest",
                           "comment", "blank", "skipped", "named"])
        fails = (fail_at == i)
        retry = rng.choice([None, None, None, 1, 2, 3]) if kind in ("statement", "query", "system", "named") else None
        clause = " retry %d backoff 1ms" % retry if retry else ""
        if kind in ("statement", "named", "skipped"):
            if kind == "named":
                text += "connection c%d\n" % rng.randint(0, 2); line += 1
            if kind == "skipped":
                # one guard, or several stacked guards of which only a LATER one decides (labels of the run: beta, gamma)
                g = rng.choice(["onlyif nosuchlabel\n", "skipif alpha\nskipif beta\n", "onlyif beta\nonlyif gamma\nskipif gamma\n",
                                "skipif alpha\nonlyif beta\nonlyif alpha\n", "onlyif gamma\nskipif nosuch\nskipif beta\n"])
                text += g; line += g.count("\n")
                feats.add("skip")
            elif kind == "statement" and rng.random() < 0.3:
                # stacked guards none of which skips: the record must run
                g = rng.choice(["skipif alpha\nonlyif beta\n", "onlyif gamma\nonlyif beta\nskipif delta\n", "skipif alpha\nskipif delta\n"])
                text += g; line += g.count("\n")
                feats.add("guards-admit")
            here = line
            r = rng.random()
            sql = ("stmt %d\n  second line %d" % (i, i) if r < 0.2 else
                   "stmt %d  \n  'second \t\n third' %d" % (i, i) if r < 0.35 else     # blanks at the end of SQL lines are part of the text
                   "stmt %d" % i)
            text += "statement ok%s\n%s\n\n" % (clause, sql); line += 3 + sql.count("\n")
            if not stopped and kind != "skipped":
                if fails:
                    for _ in range(retry or 1):
                        answers.append(["err", "boom %d" % i]); exp_calls.append(("sql", sql))
                    exp_final = ["err", 2, here]; stopped = True; feats.add("fail")
                else:
                    pre = rng.randint(0, retry - 1) if retry else 0
                    for _ in range(pre):
                        answers.append(["err", "flaky"]); exp_calls.append(("sql", sql)); feats.add("retry")
                    answers.append(["complete", 0]); exp_calls.append(("sql", sql))
        elif kind == "query":
            here = line
            sql = "select %d" % i
            rows = [[str(i), "x"], ["0", "y"]]
            qs = rng.choice(["", "", " nosort", " rowsort"])       # the record's own sort mode wins over the file-level one, `nosort` included
            want = sorted(rows) if (qs == " rowsort" or (qs == "" and sort_on)) else rows
            text += "query IT%s%s\n%s\n----\n%s\n\n" % (qs, clause, sql, "\n".join(" ".join(r) for r in want)); line += 5 + len(want) - 1
            if not stopped:
                if fails:
                    for _ in range(retry or 1):
                        answers.append(["rows", "IT", [["nope", "z"]]]); exp_calls.append(("sql", sql))
                    exp_final = ["err", 5, here]; stopped = True; feats.add("fail")
                else:
                    answers.append(["rows", "IT", rows]); exp_calls.append(("sql", sql))
        elif kind == "system":
            here = line
            cmd = "echo %d" % i
            text += "system ok%s\n%s\n\n" % (clause, cmd); line += 3
            if not stopped:
                if fails:
                    for _ in range(retry or 1):
                        sysa.append(["exit", 3, "", "bad"]); exp_calls.append(("cmd", cmd))
                    exp_final = ["err", 7, here]; stopped = True; feats.add("fail")
                else:
                    sysa.append(["exit", 0, "out\n", ""]); exp_calls.append(("cmd", cmd))
        elif kind == "control":
            c = rng.choice(["sortmode rowsort", "sortmode nosort", "resultmode rowwise", "substitution off"])
            text += "control %s\n\n" % c; line += 2
            if not stopped:
                if c == "sortmode rowsort":
                    sort_on = True
                elif c == "sortmode nosort":
                    sort_on = False
        elif kind == "threshold":
            text += "hash-threshold %d\n\n" % rng.choice([0, 100]); line += 2
        elif kind == "sleep":
            text += "sleep 1ms\n\n"; line += 2
        elif kind == "subtest":
            text += "subtest t%d\n\n" % i; line += 2
        elif kind == "comment":
            text += "# comment %d\n# more\n\n" % i; line += 3
        else:
            text += "\n"; line += 1
    mode = rng.choice(["multi", "script"])
    return runfam.impl_case(text, answers=answers, sys=sysa, default_answer=["err", "unexpected call"],
                            sys_default=["exit", 9, "unexpected", ""], mode=mode, name="case.slt", labels=["beta", "gamma"],
                            meta={"exp_calls": exp_calls, "exp_final": exp_final, "feats": sorted(feats), "n": n})


def corpus():
    return []


def generate(rng, tier):
    n = 4000 if tier == "quick" else 60000
    return [gen_one(rng) for _ in range(n)]


def execute(cases, tier):
    res = corr.execute_run_family(__import__("props.C02", fromlist=["x"]), cases, tier)
    # "running a script or FILE": run_file on trees with includes and halts (generator and direct checks of C14)
    import random
    from props import C14
    rng = random.Random(len(cases) * 7919 + 5)
    fcases = []
    for _ in range(600 if tier == "quick" else 8000):
        fcases.append({"files": C14.gen_tree(rng), "main": "main.slt", "mode": "run", "default_answer": ["rows", "I", [["1"]]], "meta": {}})
    fres = corr.execute_file_family(C14, fcases, tier, vm_sample=8)
    for d in fres["disagreements"]:
        d["broken"] = "corr_C02_file"
    res["disagreements"] += fres["disagreements"]
    res["stats"]["run_file_evaluations"] = len(fcases)
    res["stats"]["evaluations"] += len(fcases)
    return res


def project(case, obs):
    if "final" not in obs:
        return obs
    f = obs["final"]
    return {"final": f, "events": obs["events"]}


def spec_verdict(case, pi, pm):
    return "contradicts L1 (C02_trace): trace/result/failure location differ from the reference interpreter: %r vs %r" % (str(pi)[:400], str(pm)[:400])


def direct_check(case, obs):
    if "final" not in obs:
        return "contradicts L1: run did not complete: %r" % (obs,)
    m = case["meta"]
    got = [("sql", e[2]) if e[0] == "sql" else ("cmd", e[-1]) for e in obs["events"] if e[0] in ("sql", "cmd")]
    want = [tuple(x) for x in m["exp_calls"]]
    if got != want:
        return "contradicts L1: calls delivered %r, reference interpreter expects %r" % (got[-6:], want[-6:])
    f = obs["final"]
    if m["exp_final"][0] == "ok":
        if f[0] != "ok":
            return "contradicts L1: run failed (%r) although every executed record passes" % (f,)
    else:
        if f[0] != "err" or f[1] != m["exp_final"][1] or f[3][0][1] != m["exp_final"][2] or f[3][0][0] != "case.slt":
            return "contradicts L1: result %r, expected failure kind %d at case.slt:%d" % (f, m["exp_final"][1], m["exp_final"][2])
    return None


def categories(case, obs):
    m = case["meta"]
    return ["mode=%s" % case["mode"], "final=%s" % m["exp_final"][0]] + ["f=%s" % f for f in m["feats"]]


def nontrivial_key(case, obs):
    if case["meta"]["feats"]:
        return (case["text"], repr(case["answers"]), repr(case["sys"]))
    return None
