"""C16 — the CLI's exit status and JUnit report tell the truth about every file."""
import collections
import clirun
import clifam
import vlib
import drvmodel
from props import C17 as c17mod

PID = "C16"
NEEDS_CLI = True
RULE = ("the real binary with `--engine external` and the scripted fake engine: 1..12 test files with independently chosen outcomes (pass / "
        "failing record at a random position / parse error at top or end / engine exits before replying / engine never starts) x mode (serial, "
        "-j 1..8) x per-file latencies 0..150 ms (varying completion order) x with/without --junit x with/without --fail-fast; observables: exit "
        "status, per-file status tags on stdout, parsed JUnit XML, block structure of stdout; compared with the ground truth of the scenario "
        "and with the Coq model of the drivers' bookkeeping (Cli.v) fed with the observed per-file results; distinct = distinct scenario+mode; "
        "non-trivial = at least one file does not pass")
ASSUMPTIONS = ["partial: the theorem covers the drivers' bookkeeping for every completion order and cancel timing; that tokio delivers every completion to it is observed, not proved",
               "known finding D11: a file whose executed records all expect an error passes against an unreachable engine (listed in known_findings.jsonl)"]


def corpus():
    # witness of known finding D11: every executed record expects "any error", the engine cannot be reached
    return [{"files": [["t/only_errors.slt", "statement error\nselect 1\n\nquery error\nselect 2\n"]], "rules": [], "truth": {"t/only_errors.slt": "fail"},
             "info": {"t/only_errors.slt": {"kind": "unreachable"}}, "jobs": None, "junit": False, "fail_fast": False, "engine_ok": False, "meta": {"src": "witness D11"}}]


def generate(rng, tier):
    n = 60 if tier == "quick" else 1200
    cases = []
    for i in range(n):
        parallel = rng.random() < 0.6
        nfiles = rng.randint(1, 12)
        kinds = ["pass", "pass", "pass", "fail", "fail", "parse", "dies", "nostart"] + (["panic"] if rng.random() < 0.15 else [])
        files, rules, truth, info = clifam.make_set(rng, nfiles, kinds=kinds, parallel=parallel)
        cases.append({"files": files, "rules": rules, "truth": truth, "info": info, "jobs": rng.randint(1, 8) if parallel else None,
                      "junit": rng.random() < 0.6, "fail_fast": rng.random() < 0.25, "meta": {}})
    # a crashing task among otherwise passing files, serial and parallel
    for i in range(4 if tier == "quick" else 60):
        parallel = i % 2 == 0
        files, rules, truth, info = clifam.make_set(rng, rng.randint(1, 4), kinds=["pass"], parallel=parallel)
        f2, r2, t2, i2 = clifam.make_set(rng, 1, kinds=["panic"], parallel=parallel)
        f2[0][0] = "t/zz_panic.slt"
        files += f2; truth["t/zz_panic.slt"] = "fail"; info["t/zz_panic.slt"] = {"kind": "panic"}
        cases.append({"files": files, "rules": rules, "truth": truth, "info": info, "jobs": rng.randint(1, 4) if parallel else None,
                      "junit": False, "fail_fast": False, "meta": {}})
    # exactly ONE failing file of each kind among passing files, in every mode: a failure kind whose only effect on the exit status
    # goes through a path of its own must not be masked by some other failure in the same run
    for kind in ["fail", "parse", "dies", "nostart"]:
        for jobs in ([None, 2] if tier == "quick" else [None, 1, 2, 3, 4, 8]):
            if kind == "nostart" and jobs is None:
                continue
            for rep in range(1 if tier == "quick" else 4):
                files, rules, truth, info = clifam.make_set(rng, rng.randint(1, 4), kinds=["pass"], parallel=bool(jobs))
                f2, r2, t2, i2 = clifam.make_set(rng, 1, kinds=[kind], parallel=bool(jobs), start=50)
                old = f2[0][0]
                new = "t/zz_only_%s.slt" % kind
                f2[0][0] = new
                for r in r2:
                    if "start_db_prefix" in r:
                        r["start_db_prefix"] = clifam.case_name(new) + "_"
                files += f2; rules += r2; truth[new] = t2[old]; info[new] = i2[old]
                cases.append({"files": files, "rules": rules, "truth": truth, "info": info, "jobs": jobs,
                              "junit": rng.random() < 0.5, "fail_fast": False, "meta": {"single": kind}})
    # CREATE DATABASE fails for one file of a parallel run (the error is only printed): the file still counts - here it has a failing record
    for jobs in ([2] if tier == "quick" else [1, 2, 4]):
        files, rules, truth, info = clifam.make_set(rng, rng.randint(1, 3), kinds=["pass"], parallel=True)
        f2, r2, t2, i2 = clifam.make_set(rng, 1, kinds=["fail"], parallel=True, start=60)
        old_, new_ = f2[0][0], "t/zz_nodb.slt"
        f2[0][0] = new_
        files += f2; rules += r2 + [{"match": "CREATE DATABASE " + clifam.case_name(new_), "err": "permission denied to create database"}]
        truth[new_] = t2[old_]; info[new_] = i2[old_]
        cases.append({"files": files, "rules": rules, "truth": truth, "info": info, "jobs": jobs, "junit": True, "fail_fast": False, "meta": {"single": "create-db-fails"}})
    # a failure whose text says "Connection refused" stops the run (the remaining files are reported skipped / cancelled, never dropped)
    for jobs in ([None, 2] if tier == "quick" else [None, 1, 2, 3]):
        files, rules, truth, info = clifam.make_set(rng, rng.randint(2, 4), kinds=["pass"], parallel=bool(jobs), start=10)
        f2, r2, t2, i2 = clifam.make_set(rng, 1, kinds=["fail"], parallel=bool(jobs), start=70)
        old_, new_ = f2[0][0], "t/a00_refused.slt"
        f2[0][0] = new_
        for r in r2:
            r["err"] = "could not connect to server: Connection refused"
        files = f2 + files; rules += r2; truth[new_] = t2[old_]; info[new_] = i2[old_]
        cases.append({"files": files, "rules": rules, "truth": truth, "info": info, "jobs": jobs, "junit": True, "fail_fast": False, "refused": True,
                      "meta": {"single": "connection-refused-text"}})
    # two selected files whose test-case names coincide (' ', '.', '-', '/' all become '_'): under -j the run must not exit 0 while one of them,
    # which fails, was never run (refusing the run outright is fine; ignoring the second file is not)
    for jobs in ([2] if tier == "quick" else [1, 2, 4]):
        for order in (0, 1):
            files = [["t/q-1.slt", "control substitution on\n\nstatement ok\nselect F90_1 $__DATABASE__\n\n"],
                     ["t/q_1.slt", "control substitution on\n\nstatement ok\nselect F91_1 $__DATABASE__\n\n"]]
            bad_tag = "F9%d_1" % order
            cases.append({"files": files, "rules": [{"match": bad_tag, "err": "boom"}], "truth": {"t/q-1.slt": "fail" if order == 0 else "ok", "t/q_1.slt": "fail" if order == 1 else "ok"},
                          "info": {"t/q-1.slt": {"tag": "F90", "kind": "fail" if order == 0 else "pass", "nrec": 1}, "t/q_1.slt": {"tag": "F91", "kind": "fail" if order == 1 else "pass", "nrec": 1}},
                          "jobs": jobs, "junit": False, "fail_fast": False, "meta": {"single": "colliding-names"}})
    return cases


def execute(cases, tier):
    disagreements = []
    cats = collections.Counter()
    keys = set()
    mcases, rows = [], []
    scases, srows = [], []     # serial runs predicted by the serial driver model (coq/Serial.v)
    dcases, dexp = [], []      # parallel runs replayed by the driver model (coq/Driver.v), fail-fast and refusals included
    for ci, c in enumerate(cases):
        sb = clirun.Sandbox("c16")
        try:
            sb.write_files(c["files"])
            args = []
            if c["jobs"]:
                args += ["-j", str(c["jobs"])]
            if c["junit"]:
                args += ["--junit", "rep"]
            if c["fail_fast"]:
                args += ["--fail-fast"]
            r = sb.run(args + ["t/**/*.slt"], scenario={"rules": c["rules"]}, timeout=90, engine_ok=c.get("engine_ok", True))
            ju = sb.junit("rep") if c["junit"] else None
        finally:
            sb.close()
        st = clirun.status_lines(r["stdout"])
        spec = None
        truth = c["truth"]
        paths = sorted(truth)
        cats["mode=%s" % ("par" if c["jobs"] else "serial")] += 1
        cats["fail_fast=%s" % c["fail_fast"]] += 1
        has_panic = any(i.get("kind") == "panic" for i in c["info"].values())
        if r["hung"]:
            spec = "contradicts L1: the CLI did not terminate within the timeout"
        elif c["meta"].get("single") == "colliding-names":
            cats["colliding-names"] += 1
            if r["rc"] == 0:
                spec = "contradicts L1 (C16_exit): exit status 0 although %r fails (two files with the same test-case name; reports: %r)" % (
                    [p for p, v in truth.items() if v == "fail"], [x[:2] for x in st])
        elif has_panic:
            # the process dies of the panic (known finding D9); what must still hold: a non-zero exit status
            cats["panic-file"] += 1
            if r["rc"] == 0:
                spec = "contradicts L1 (C16_exit): exit status 0 although a test file crashed its task (%r)" % [p for p, i in c["info"].items() if i["kind"] == "panic"]
        else:
            got = {}
            if any(p == "" for p, _, _ in st):
                spec = "contradicts L1 (C16: status lines name their file): a `[CANCELLED] ...` line names no file; reports in order: %r" % ([x[:2] for x in st],)
            for p, tag, line in st:
                if p in got:
                    spec = spec or "contradicts L1 (C16_no_interleave): two status lines for %s" % p
                got[p] = tag
            if sorted(got) != paths:
                spec = spec or "contradicts L1: status lines for %r, selected files are %r" % (sorted(got), paths)
            any_fail = any(v == "fail" for v in truth.values())
            for p in paths:
                tag = got.get(p)
                if tag == "OK" and truth[p] != "ok":
                    spec = spec or "contradicts L1: %s reported [OK] but its scenario makes it fail (%s)" % (p, c["info"][p]["kind"])
                if tag == "FAILED" and truth[p] == "ok":
                    spec = spec or "contradicts L1: %s reported [FAILED] but every record passes" % p
                if tag in ("SKIPPED", "CANCELLED") and not ((c["fail_fast"] or c.get("refused")) and any_fail):
                    spec = spec or "contradicts L1: %s reported %s without fail-fast failure or interrupt" % (p, tag)
                if tag is None:
                    spec = spec or "contradicts L1: no status tag for %s in %r" % (p, [l for _, _, l in st if _ == p])
            all_ok = all(got.get(p) == "OK" for p in paths)
            if (r["rc"] == 0) != all_ok:
                spec = spec or "contradicts L1 (C16_exit): exit status %r but per-file results %r" % (r["rc"], got)
            if c["junit"]:
                if ju is None:
                    spec = spec or "contradicts L1 (C16_junit): no JUnit report written"
                else:
                    want = sorted((clifam.case_name(p), {"OK": "success", "FAILED": "failure", "SKIPPED": "skipped", "CANCELLED": "skipped"}.get(got.get(p))) for p in paths)
                    if sorted(ju["cases"]) != want:
                        spec = spec or "contradicts L1 (C16_junit): JUnit cases %r, per-file results give %r" % (sorted(ju["cases"]), want)
                    nf = sum(1 for _, s in want if s == "failure")
                    nd = sum(1 for _, s in want if s == "skipped")
                    t = ju["suite_totals"]
                    if (int(t.get("tests") or 0), int(t.get("failures") or 0), int(t.get("disabled") or 0)) != (len(paths), nf, nd):
                        spec = spec or "contradicts L1 (C16_junit): totals %r do not add up to %d tests / %d failures / %d skipped" % (t, len(paths), nf, nd)
            code = {"OK": 0, "FAILED": 1, "CANCELLED": 2, "SKIPPED": 3}
            mcases.append([[code.get(got.get(p), 1) for p in [x[0] for x in st if x[0] in truth]], bool(c["fail_fast"]), False])
            rows.append((c, r, got))
        if not c["jobs"] and not has_panic and not r["hung"] and c.get("engine_ok", True):
            # serial mode: the Coq model of run_serial (Serial.v) predicts every report, in file order, and the exit status
            order = sorted(truth)
            refused = drvmodel.refused_paths(c)
            scases.append([[0 if truth[p] == "ok" else (4 if p in refused else 1) for p in order], 1 if c["fail_fast"] else 0, []])
            srows.append((c, r, order, [tag for p, tag, _ in st if p in truth], [p for p, tag, _ in st if p in truth]))
        if c["jobs"] and not has_panic and not r["hung"] and c.get("engine_ok", True) and c["meta"].get("single") != "colliding-names":
            try:
                tr, _ = c17mod.build_trace(r["events"])
                wire, exp = drvmodel.model_case(c, tr, [(p, tag) for p, tag, _ in st], c["jobs"], False, bool(c["fail_fast"]))
                dcases.append(wire)
                dexp.append((c, r, exp, None))
            except drvmodel.Unexplained as ex:
                dexp.append((c, r, None, str(ex)))
        if any(v != "ok" for v in truth.values()):
            keys.add(repr((c["files"], c["rules"], c["jobs"], c["fail_fast"])))
        if spec:
            d = {"case": c, "impl": {"rc": r["rc"], "status": [x[:2] for x in st], "junit": ju, "stderr": r["stderr"][-600:]}, "model": c["truth"],
                 "spec": spec, "broken": "corr_C16_cli"}
            if not c.get("engine_ok", True) and all(("statement error\n" in f[1] or "query error\n" in f[1]) and " ok" not in f[1] and "query I" not in f[1] for f in c["files"]):
                d["known"] = "D11"
            disagreements.append(d)
    # model of the bookkeeping on the observed result sequences
    mouts = vlib.run_model("cli", mcases)
    vm_n = vlib.vm_crosscheck("cli", mcases, mouts, 15, PID)
    for (c, r, got), m in zip(rows, mouts):
        want_rc0 = (m[0] == 0)
        if (r["rc"] == 0) != want_rc0:
            disagreements.append({"case": c, "impl": {"rc": r["rc"], "results": got}, "model": m,
                                  "spec": "contradicts L1 (C16_exit): exit status %r, the drivers' bookkeeping on the observed results gives %r" % (r["rc"], m), "broken": "corr_C16_cli"})
    souts = vlib.run_model("serial", scases)
    vm_n += vlib.vm_crosscheck("serial", scases, souts, 5, PID + "s")
    code_tag = {0: "OK", 1: "FAILED", 4: "FAILED", 2: "CANCELLED", 3: "SKIPPED"}
    for (c, r, order, tags, paths), m in zip(srows, souts):
        want = [code_tag[x] for x in m[0]]
        cats["serial_model_predicted"] += 1
        if paths != order or tags != want or (r["rc"] != 0) != (m[1] != 0):
            disagreements.append({"case": c, "impl": {"reports": list(zip(paths, tags)), "rc": r["rc"]}, "model": {"reports": list(zip(order, want)), "exit": m[1]},
                                  "spec": "contradicts L1 (C16_serial_plain_results / C16_serial_exit): serial run reports %r exit %r, the model of run_serial gives %r exit %r" % (
                                      list(zip(paths, tags)), r["rc"], list(zip(order, want)), m[1]), "broken": "corr_C16_serial_model"})
    douts = vlib.run_model("driver", dcases)
    vm_n += vlib.vm_crosscheck("driver", dcases, douts, 5, PID + "d")
    k = 0
    for (c, r, exp, why) in dexp:
        if exp is not None:
            why = drvmodel.compare(douts[k], exp, r["rc"])
            k += 1
            cats["driver_model_replayed"] += 1
            if c["fail_fast"]:
                cats["driver_model_replayed_fail_fast"] += 1
        if why:
            def run_once(c=c):
                sb = clirun.Sandbox("c16r")
                try:
                    sb.write_files(c["files"])
                    r2 = sb.run(["-j", str(c["jobs"])] + (["--fail-fast"] if c["fail_fast"] else []) + ["t/**/*.slt"], scenario={"rules": c["rules"]}, timeout=90)
                finally:
                    sb.close()
                return r2, c17mod.build_trace(r2["events"])[0], clirun.status_lines(r2["stdout"])
            cats["driver_model_rechecked"] += 1
            why = drvmodel.recheck(c, run_once, c["jobs"], False, bool(c["fail_fast"]))
        if why:
            disagreements.append({"case": c, "impl": {"stdout": r["stdout"][-800:], "rc": r["rc"]}, "model": "coq/Driver.v replayed on the schedule reconstructed from the run",
                                  "spec": None, "note": "the run is not a run of the driver model: " + why, "broken": "corr_C16_driver_model"})
    stats = {"evaluations": len(cases), "model_evaluations": len(mcases) + len(dcases) + len(scases), "distinct_nontrivial": len(keys), "rule": RULE,
             "categories": dict(sorted(cats.items())), "vm_compute_crosschecked": vm_n,
             "samples": [{"files": [f[0] for f in c["files"]], "truth": c["truth"], "jobs": c["jobs"], "fail_fast": c["fail_fast"]} for c in cases[:3]],
             "disagreements": len(disagreements)}
    return {"stats": stats, "disagreements": disagreements, "known_hits": [], "observables": []}
