"""C18 — partitions are disjoint, exhaustive and stable across processes."""
import collections
import clirun
import vlib

PID = "C18"
NEEDS_CLI = True
RULE = ("the real binary over file sets of 2..40 random path names (blanks, dots, dashes, non-ASCII, nested directories, one or two globs, a glob "
        "matching a single file) x N in 1..8 x EVERY partition id, configured by flags, by SLT_PARTITION_* or by the Buildkite variables, the whole "
        "sweep run in separate processes (and some configurations twice); the set of files each process runs (engine-side log) is compared with the "
        "Coq model (SipHash-1-3 of the path bytes ++ 0xFF, mod N) and checked directly: union = glob, pairwise disjoint, identical on re-run; "
        "invalid configurations (N = 0, id >= N, count without id) must exit non-zero without contacting the engine; distinct = distinct (file set, N, id, style); "
        "non-trivial = N >= 2")
ASSUMPTIONS = ["SipHash-1-3 with zero keys is modelled in Coq and validated against the binary's choices here (not proved against a second formalisation)",
               "glob results are taken from the binary's own run with N = 1 (oracle)"]

NAMES = ["a", "b", "c d", "x.y", "dash-1", "é", "deep/one", "deep/two", "deep/er/x", "UPPER", "under_score", "z9", "long" * 8, "a b-c.d", "q", "w", "e", "r", "t", "y", "u", "i", "o", "p", "s", "f", "g", "h", "j", "k", "l", "m", "n", "v", "aa", "bb", "cc", "dd", "ee", "ff"]


def corpus():
    return []


def generate(rng, tier):
    nsets = 8 if tier == "quick" else 60
    cases = []
    for s in range(nsets):
        k = rng.randint(2, 12 if tier == "quick" else 40)
        names = rng.sample(NAMES, k)
        files = [["t/%s.slt" % n, "statement ok\nselect TAG%03d\n" % i] for i, n in enumerate(names)]
        files.append(["single/only.slt", "statement ok\nselect TAG900\n"])
        globs = [["t/**/*.slt"], ["t/*.slt", "t/deep/**/*.slt"], ["t/**/*.slt", "single/*.slt"], ["t/*.slt", "t/**/*.slt"],
                 ["t/deep/*.slt", "t/**/*.slt"]][s % 5] if s < 5 else rng.choice([["t/**/*.slt"], ["t/*.slt", "t/**/*.slt"], ["t/**/*.slt", "single/*.slt"]])
        if "deep" in " ".join(globs) and not any(n.startswith("deep/") for n in names):
            names = names[:-2] + ["deep/one", "deep/er/x"]
            files = [["t/%s.slt" % n, "statement ok\nselect TAG%03d\n" % i] for i, n in enumerate(names)]
            files.append(["single/only.slt", "statement ok\nselect TAG900\n"])
        for n in (range(1, 9) if tier != "quick" else [1, 2, 3, rng.randint(4, 8)]):
            for i in range(n):
                style = rng.choice(["flag", "env", "buildkite", "env-count+flag-id", "flag-count+env-id"])
                # an explicit configuration (flags, SLT_PARTITION_*, or a mix) wins over the CI's variables, which may be present with other values
                noise = style != "buildkite" and rng.random() < 0.5
                cases.append({"files": files, "globs": globs, "count": n, "id": i, "style": style, "bk_noise": noise, "set": s, "meta": {}})
        for bad in ([0, 0], [3, 3], [2, 5], [4, None]):
            cases.append({"files": files, "globs": globs, "count": bad[0], "id": bad[1], "style": "flag", "set": s, "meta": {"invalid": True}})
        cases.append({"files": files, "globs": globs, "count": 2, "id": 1, "style": "flag", "set": s, "meta": {"repeat": True}})
    return cases


def run_one(sb, c):
    args, env = [], {}
    if c["style"] == "flag":
        if c["count"] is not None: args += ["--partition-count", str(c["count"])]
        if c["id"] is not None: args += ["--partition-id", str(c["id"])]
    elif c["style"] == "env":
        env = {"SLT_PARTITION_COUNT": str(c["count"]), "SLT_PARTITION_ID": str(c["id"])}
    elif c["style"] == "env-count+flag-id":
        env = {"SLT_PARTITION_COUNT": str(c["count"])}
        args += ["--partition-id", str(c["id"])]
    elif c["style"] == "flag-count+env-id":
        env = {"SLT_PARTITION_ID": str(c["id"])}
        args += ["--partition-count", str(c["count"])]
    else:
        env = {"BUILDKITE_PARALLEL_JOB_COUNT": str(c["count"]), "BUILDKITE_PARALLEL_JOB": str(c["id"])}
    if c.get("bk_noise"):
        env.update({"BUILDKITE_PARALLEL_JOB_COUNT": "8", "BUILDKITE_PARALLEL_JOB": "7"})
    r = sb.run(args + c["globs"], env=env)
    tags = sorted(e["sql"].split()[-1] for e in r["events"] if e["ev"] == "SQL" and "TAG" in e.get("sql", ""))
    return r, tags


def execute(cases, tier):
    disagreements = []
    cats = collections.Counter()
    keys = set()
    by_set = {}
    sb = clirun.Sandbox("c18")
    written = None
    results = []
    try:
        for c in cases:
            if written != c["set"]:
                sb.close(); sb = clirun.Sandbox("c18"); sb.write_files(c["files"]); written = c["set"]
            r, tags = run_one(sb, c)
            results.append((c, r, tags))
    finally:
        sb.close()
    # glob oracle per set: the N=1 run; per-glob matches need the files per glob: use tag->path and fnmatch-free reasoning:
    tag_of = {}
    for c, r, tags in results:
        for f in c["files"]:
            tag_of[(c["set"], f[1].split()[-1])] = f[0]
    mcases, midx = [], []
    for k, (c, r, tags) in enumerate(results):
        # per-glob matches as the binary sees them: from its "Running x out of y" messages we only get counts, so derive from paths
        import fnmatch, glob as _g
        per_glob = []
        for g in c["globs"]:
            import re
            paths = sorted(p for p, _ in c["files"] if glob_match(g, p))
            per_glob.append(paths)
        mcases.append([c["count"] if c["count"] is not None else None, c["id"], per_glob])
        midx.append(k)
    mouts = vlib.run_model("partition", mcases)
    vm_n = vlib.vm_crosscheck("partition", mcases, mouts, 20, PID)
    full = {}
    for (c, r, tags), m in zip(results, mouts):
        cats["style=%s" % c["style"]] += 1
        invalid = c["meta"].get("invalid")
        spec = None
        if invalid:
            cats["invalid"] += 1
            if r["rc"] == 0 or r["events"]:
                spec = "contradicts L1 (C18_reject): invalid partition configuration count=%r id=%r was not rejected (exit %r, %d engine events)" % (c["count"], c["id"], r["rc"], len(r["events"]))
            if m != ["reject"]:
                spec = spec or "model does not reject"
        else:
            want = sorted(tag for tag in (f[1].split()[-1] for f in c["files"]) if tag_of[(c["set"], tag)] in set(m[1])) if m[0] == "sel" else None
            # files matched by two globs run twice: compare multisets
            want_multi = sorted(next(f[1].split()[-1] for f in c["files"] if f[0] == p) for p in m[1]) if m[0] == "sel" else None
            if tags != want_multi:
                spec = "contradicts L1 (C18_pure / model): partition %d/%d ran %r, SipHash-1-3(path) mod N selects %r" % (c["id"], c["count"], tags, want_multi)
            if r["rc"] != 0:
                spec = spec or "run failed: exit %r %s" % (r["rc"], r["stderr"][-300:])
            key = (c["set"], tuple(c["globs"]), c["count"])
            by_set.setdefault(key, {}).setdefault(c["id"], []).append(tags)
            if c["count"] >= 2:
                keys.add((c["set"], tuple(c["globs"]), c["count"], c["id"], c["style"]))
        if spec:
            disagreements.append({"case": c, "impl": {"rc": r["rc"], "ran": tags, "stderr": r["stderr"][-400:]}, "model": m, "spec": spec, "broken": "corr_C18_partition"})
    # the property itself on the implementation: disjoint, exhaustive, stable
    files_of_set = {}
    for c, r, tags in results:
        files_of_set[c["set"]] = c["files"]
    for (s, globs, n), ids in by_set.items():
        if len(ids) != n:
            continue
        fl = files_of_set[s]
        expected = collections.Counter()
        for g in globs:
            matches = [f[1].split()[-1] for f in fl if glob_match(g, f[0])]
            if len(matches) > 1:
                expected.update(matches)                 # exactly once over all partitions
            else:
                for t in matches:
                    expected[t] += n                      # a single-file glob is not partitioned
        union = collections.Counter(t for i in ids for t in ids[i][0])
        if union != expected:
            disagreements.append({"case": {"set": s, "globs": globs, "count": n}, "impl": {str(k): v for k, v in ids.items()}, "model": dict(expected),
                                  "spec": "contradicts L1 (C18_cover): over the %d partitions the files ran %r times, expected %r (disjoint and exhaustive)" % (
                                      n, dict(union - expected), dict(expected - union)), "broken": "corr_C18_partition"})
        for i in ids:
            if len(ids[i]) > 1 and any(x != ids[i][0] for x in ids[i]):
                disagreements.append({"case": {"set": s, "globs": globs, "count": n, "id": i}, "impl": ids[i], "model": None,
                                      "spec": "contradicts L1 (C18_pure): the same configuration selected different files in two processes", "broken": "corr_C18_partition"})
    stats = {"evaluations": len(cases), "model_evaluations": len(mcases), "distinct_nontrivial": len(keys), "rule": RULE,
             "categories": dict(sorted(cats.items())), "vm_compute_crosschecked": vm_n,
             "samples": [{"globs": c["globs"], "count": c["count"], "id": c["id"], "style": c["style"], "files": [f[0] for f in c["files"]][:6]} for c in cases[:3]],
             "disagreements": len(disagreements)}
    return {"stats": stats, "disagreements": disagreements, "known_hits": [], "observables": []}


def glob_match(pattern, path):
    """glob crate semantics for the patterns used here: `*` within a component, `**` any number of directories"""
    import re
    rx = ""
    i = 0
    while i < len(pattern):
        if pattern.startswith("**/", i):
            rx += "(?:.*/)?"; i += 3
        elif pattern[i] == "*":
            rx += "[^/]*"; i += 1
        elif pattern[i] == "?":
            rx += "[^/]"; i += 1
        else:
            rx += re.escape(pattern[i]); i += 1
    return re.fullmatch(rx, path) is not None
