"""C04 — malformed input is rejected with a located error; the parser never panics."""
import glob
import itertools
import corr
import sltgen

PID = "C04"
RULE = ("(a) EXHAUSTIVE header lines of <=3 tokens (quick) / <=4 tokens (thorough) over a 16-word directive vocabulary, each followed by "
        "a body, with DefaultColumnType and with a strict two-letter column type; sampled 5..8-token lines; valid headers with one "
        "token-level mutation (delete/duplicate/replace/append); (b) valid scripts with one malformed line from a catalogue of every "
        "malformed-argument class of the property injected at every record boundary: error must be located at that very line; "
        "(c) arbitrary Unicode text, line/token/character mutations and truncations of the fixtures, lone CR, NUL, U+0085/U+2028, long lines. "
        "Observable: Ok | Err(kind, line) | panic, compared with the Coq parser model; distinct = distinct text; non-trivial = the text is not accepted")
ASSUMPTIONS = ["Regex::new validity is an oracle (regex crate)",
               "inputs of 2^32-1 lines or more (where u32 line arithmetic could wrap) are out of scope: they exceed 4 GiB"]

VOCAB = ["statement", "query", "system", "control", "sleep", "hash-threshold", "ok", "error", "count", "retry", "backoff", "0", "3", "x", "1s", "rowsort"]
MORE = ["include", "halt", "subtest", "skipif", "onlyif", "connection", "sortmode", "resultmode", "substitution", "on", "valuewise", "I", "1q", "lbl", "nosort", "18446744073709551616", "+3", "-1", "(", "1s1ns"]

# (line(s), error located at offset 0 of the injected block)
CATALOGUE = [
    "selec 1", "statement", "statement maybe", "statement ok extra", "statement count", "statement count x", "statement count 1.5",
    "statement count 18446744073709551616", "statement count -1", "halt now", "include", "include a b", "subtest", "subtest a b", "sleep",
    "sleep 1s 2s", "sleep 1q", "sleep s", "sleep 1", "sleep 1 s", "skipif", "onlyif a b", "connection", "connection a b", "control",
    "control sortmode", "control x y", "control sortmode up", "control resultmode x", "control substitution maybe", "control sortmode rowsort x",
    "hash-threshold", "hash-threshold 1 2", "hash-threshold x", "hash-threshold -1", "hash-threshold 1.5", "system", "system fail", "system ok extra",
    "statement ok retry 0 backoff 1s", "statement ok retry x backoff 1s", "statement ok retry 3", "statement ok retry 3 backof 1s",
    "statement ok retry 3 backoff", "statement ok retry 3 backoff 1x", "statement ok retry 3 backoff 1s 5s", "statement ok retry",
    "statement count 2 retry 3 backoff 1s extra", "query I rowsort lbl retry 2 backoff 1s extra", "query I retry 0 backoff 1s", "query I lbl extra",
    "system ok retry 3 backoff", "system ok retry 1 backoff 1s 2s", "statement error (", "query error [a", "statement error retry 0 backoff 1s",
    "query error retry 2 backoff 1z", "Statement ok", "STATEMENT ok", "halt\thalt", "statement ok\tretry",
    "statement ok\nselect\n----\n1\n", "statement count 3\nselect\n----\n1\n", "statement error boom\nselect\n----\nmsg\n\n", "query error boom\nselect\n----\nmsg\n\n",
]
CATALOGUE_TWO = ["query X\nselect\n", "query IX\nselect\n", "query rowsort\nselect\n"]


def rust_nlines(text):
    ls = text.split("\n")
    if ls and ls[-1] == "":
        ls.pop()
    return len(ls)


def corpus():
    return [{"text": "sleep 18446744073709551615s1000000000ns\n", "meta": {"stream": "corpus"}},
            {"text": "statement ok retry 1 backoff 18446744073709551615s1000000000ns\nselect 1\n", "meta": {"stream": "corpus"}}]


def generate(rng, tier):
    cases = []
    body = "select 1\n----\n1\n\n"
    maxk = 3 if tier == "quick" else 4
    for k in range(1, maxk + 1):
        for toks in itertools.product(VOCAB, repeat=k):
            line = " ".join(toks)
            cases.append({"text": "statement ok\nselect 0\n\n" + line + "\n" + body, "meta": {"stream": "header%d" % k}})
            if k <= 2:
                cases.append({"text": line + "\n" + body, "coltype": "two", "meta": {"stream": "header%d-two" % k}})
    nsample = 4000 if tier == "quick" else 200000
    for _ in range(nsample):
        k = rng.randint(4, 8)
        toks = [rng.choice(VOCAB + MORE) for _ in range(k)]
        cases.append({"text": " ".join(toks) + "\n" + body, "coltype": rng.choice(["default", "two"]), "meta": {"stream": "header-sampled"}})
    # valid headers with one token mutation
    for _ in range(2000 if tier == "quick" else 60000):
        items = sltgen.gen_script(rng, n=1)
        lay = sltgen.Layout(rng, plain=True)
        text, _ = sltgen.render(items, lay)
        ls = text.split("\n")
        toks = ls[0].split(" ")
        op = rng.choice(["del", "dup", "rep", "app", "ins"])
        i = rng.randrange(len(toks)) if toks else 0
        if op == "del" and toks: toks.pop(i)
        elif op == "dup" and toks: toks.insert(i, toks[i])
        elif op == "rep" and toks: toks[i] = rng.choice(VOCAB + MORE)
        elif op == "app": toks.append(rng.choice(VOCAB + MORE))
        else: toks.insert(i, rng.choice(VOCAB + MORE))
        ls[0] = " ".join(toks)
        cases.append({"text": "\n".join(ls), "meta": {"stream": "mutated-header"}})
    # injection at every record boundary
    for _ in range(150 if tier == "quick" else 4000):
        items = sltgen.gen_script(rng, n=rng.randint(0, 6), allow_include=True)
        two = rng.random() < 0.2
        if two:
            for it in items:
                if it["kind"] == "query" and it.get("form") == "results":
                    it["types"] = "".join(c for c in it["types"] if c in "TI") or "I"
        lay = sltgen.Layout(rng, plain=True)
        bads = rng.sample(CATALOGUE + (CATALOGUE_TWO if two else []), 6)
        for k in range(len(items) + 1):
            pre, _ = sltgen.render(items[:k], lay)
            post, _ = sltgen.render(items[k:], lay)
            for bad in bads:
                blk = bad if bad.endswith("\n") else bad + "\n"
                text = pre + blk + "\n" + post
                cases.append({"text": text, "coltype": "two" if two else "default",
                              "meta": {"stream": "inject", "line": rust_nlines(pre) + 1, "bad": bad}})
    # long rejected lines made of multi-byte characters at every alignment: any byte-indexed truncation or slicing of the offending
    # line (for an error message, say) falls inside a character for some of them
    for ctx in ["%s", "statement %s", "statement ok %s", "query %s", "query I rowsort x %s", "control %s", "control sortmode %s", "sleep %s", "hash-threshold %s",
                "include a %s", "connection a %s", "statement error retry %s backoff 1s", "system ok retry 3 backoff %s", "onlyif a %s x", "subtest a %s"]:
        for k in range(8):
            for unit, reps in (("\u00e9", 200), ("\U0001f642", 90), ("a\u00e9\U0001f642\u3000", 40)):
                tok = "a" * k + unit * reps
                cases.append({"text": "statement ok\nselect 0\n\n" + (ctx % tok) + "\n" + body, "meta": {"stream": "long-multibyte"}})
    # duration tokens: whatever a number parser might take (fractions, exponents, nan / inf, signs, separators, very long digit strings)
    # with every unit, in every place a duration is read; the accepted language is exactly humantime's, everything else is a located error
    nums = ["nan", "NaN", "inf", "-inf", "infinity", "1e20", "1e400", "1E3", "0.5", "1.5", ".5", "5.", "1_000", "+1", "-1", "-0", "0x10", "1,5",
            "9" * 20, "9" * 40, "1" + "0" * 400, "0" * 50 + "1", "18446744073709551615", "18446744073709551616", "1e", "e1", "1ee2", "0.000000001", "4e-3"]
    units = ["", "s", "ms", "us", "ns", "m", "min", "h", "d", "w", "M", "y", "sec", "hours", " s"]
    dctx = ["sleep %s", "statement ok retry 3 backoff %s", "query I retry 2 backoff %s", "system ok retry 1 backoff %s",
            "statement error retry 2 backoff %s", "query I rowsort lbl retry 2 backoff %s"]
    for ctx in dctx:
        for nm in nums:
            for u in (units if tier != "quick" else rng.sample(units, 6) + ["s"]):
                cases.append({"text": "statement ok\nselect 0\n\n" + (ctx % (nm + u)) + "\n" + body, "meta": {"stream": "duration-token"}})
    # the same malformed lines with other blanks between (and around) the tokens: header recognition splits at Unicode white space, so
    # whatever is rejected with single blanks is rejected - at the same line, for the same reason - with tabs, runs of blanks, U+00A0, U+3000
    blanks = ["\t", "  ", " \t ", "\u00a0", "\u3000", "\x0b", "\x0c", "\u2003"]
    bad_lines = [b for b in CATALOGUE if "\t" not in b]
    for _ in range(1200 if tier == "quick" else 40000):
        bad = rng.choice(bad_lines)
        first, sep, tail = bad.partition("\n")
        toks = first.split(" ")
        if len(toks) < 2:
            continue
        mode = rng.random()
        if mode < 0.5:
            k = rng.randrange(len(toks) - 1)
            line = " ".join(toks[:k + 1]) + rng.choice(blanks) + " ".join(toks[k + 1:])
        else:
            line = toks[0] + "".join(rng.choice(blanks + [" "]) + t for t in toks[1:])
        if rng.random() < 0.2:
            line += rng.choice(blanks)
        blk = line + sep + tail
        blk = blk if blk.endswith("\n") else blk + "\n"
        items = sltgen.gen_script(rng, n=rng.randint(0, 2))
        lay = sltgen.Layout(rng, plain=True)
        pre, _ = sltgen.render(items, lay)
        cases.append({"text": pre + blk + "\n" + body, "meta": {"stream": "blank-variant", "line": rust_nlines(pre) + 1, "bad": bad}})
    # arbitrary text and fixture mutations
    fixtures = [open(f).read() for f in sorted(glob.glob("/repo/tests/**/*.slt", recursive=True))]
    alphabet = list("abq 1\n\n\t#-") + ["\r", "\0", "\x85", " ", " ", "é", "🙂", "----", "statement ok", "query I", "\r\n", "retry", "error"]
    for _ in range(3000 if tier == "quick" else 150000):
        r = rng.random()
        if r < 0.35:
            t = "".join(rng.choice(alphabet) for _ in range(rng.randint(0, 60)))
        else:
            t = rng.choice(fixtures)
            ls = t.split("\n")
            op = rng.random()
            if op < 0.25 and ls:
                ls.pop(rng.randrange(len(ls)))
            elif op < 0.45 and ls:
                i = rng.randrange(len(ls)); ls.insert(i, ls[i])
            elif op < 0.65 and ls:
                i = rng.randrange(len(ls)); ws = ls[i].split(" ")
                if ws:
                    j = rng.randrange(len(ws)); ws[j] = rng.choice(VOCAB + MORE + ["", "\t"]); ls[i] = " ".join(ws)
            elif op < 0.8:
                t2 = "\n".join(ls); p = rng.randrange(len(t2) + 1); ls = (t2[:p] + rng.choice(alphabet) + t2[p:]).split("\n")
            elif op < 0.9:
                t2 = "\n".join(ls); ls = t2[:rng.randrange(len(t2) + 1)].split("\n")
            else:
                ls.insert(rng.randrange(len(ls) + 1), "x" * rng.choice([1000, 70000]))
            t = "\n".join(ls)
            if rng.random() < 0.2:
                t = t.replace("\n", "\r\n")
        cases.append({"text": t, "coltype": rng.choice(["default", "default", "two"]), "meta": {"stream": "arbitrary"}})
    return cases


def execute(cases, tier):
    return corr.execute_parse_family(__import__("props.C04", fromlist=["x"]), cases, tier)


def project(case, obs):
    if isinstance(obs, dict):
        return ["panic"]
    if obs and obs[0] == "ok":
        return ["ok", len(obs[1])]
    return obs


def spec_verdict(case, pi, pm):
    return "implementation and parser model disagree: %r vs %r (C04_reject)" % (pi, pm)


def direct_check(case, obs):
    p = project(case, obs)
    if p == ["panic"]:
        return "contradicts L1 (C04_total): the parser panicked: %s" % (obs.get("panic") if isinstance(obs, dict) else "")
    if p[0] == "err":
        n = rust_nlines(case["text"])
        if not (1 <= p[2] <= n + 1):
            return "contradicts L1 (C04_line_bound): error line %d outside [1, %d]" % (p[2], n + 1)
    m = case["meta"]
    if m.get("stream") == "inject":
        if p[0] != "err" or p[2] != m["line"]:
            return "contradicts L1 (C04_strict): malformed line %r injected at line %d gave %r" % (m["bad"], m["line"], p)
    return None


def classify_known(case, obs, mout):
    if isinstance(obs, dict) and "overflow in Duration::new" in obs.get("panic", "") and mout == ["panic"]:
        return "D13"
    return None


def categories(case, obs):
    p = project(case, obs)
    return ["stream=%s" % case["meta"].get("stream"), "result=%s" % (p[0] if p[0] != "err" else "err%d" % p[1]), "col=%s" % case.get("coltype", "default")]


def nontrivial_key(case, obs):
    p = project(case, obs)
    if p[0] != "ok":
        return case["text"]
    return None
