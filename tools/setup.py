#!/usr/bin/env python3
"""setup: build everything from files on disk, offline (MANIFEST.setup_cmd)."""
import os, sys, time
sys.path.insert(0, os.path.dirname(os.path.abspath(__file__)))
import vlib
t = time.time()
rc, out = vlib.build_coq()
if rc != 0:
    print(out[-5000:]); sys.exit(1)
print("coq built in %.0fs" % (time.time() - t)); t = time.time()
vlib.build_model(); print("model extracted+compiled in %.0fs" % (time.time() - t)); t = time.time()
vlib.build_harness(); print("harness built in %.0fs" % (time.time() - t)); t = time.time()
if "--no-cli" not in sys.argv:
    vlib.build_cli(); print("cli built in %.0fs" % (time.time() - t))
