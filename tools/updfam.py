"""updfam.py — the 'update' correspondence family shared by C06, C07 and C08:
Runner::update_test_file on a real tree with a scripted database, then run_file against the
same database from the same initial state, then a second update; optional driver panic at
the k-th request; snapshots of every original file at every request."""
import collections
import vlib
import corr
import sltgen
import refimpl

VALUES = ["1", "10", "a", "ab", "a b", "é", "NULL", "0.5", "x\ty", "(empty)", "🙂", "q  r", " lead", "trail ", " nb", "nb ", "v w"]
ERRS = ["boom", "syntax error at (1,2)", "a.b*c", "line1\nline2", "  padded  ", "x\n\ny", "table \"t\" missing", "a  b", "tab\there",
        "retry 3 backoff 1s", "err [42]", "multi\nline\n\nthree", "e", "with # hash", "dollar$", "plus+q?"]


def rand_answer(rng):
    r = rng.random()
    if r < 0.55:
        ncols = rng.randint(1, 3)
        types = "".join(rng.choice("TIR") for _ in range(ncols))
        rows = [[rng.choice(VALUES) for _ in range(ncols)] for _ in range(rng.randint(0, 4))]
        return ["rows", types, rows]
    if r < 0.75:
        return ["complete", rng.choice([0, 1, 3, 7])]
    return ["err", rng.choice(ERRS)]


def gen_case(rng, with_includes=False, tiny=False):
    items = sltgen.gen_script(rng, n=(rng.randint(0, 2) if tiny else None), allow_include=False)
    # guards: labels unknown to the runner
    lay = sltgen.Layout(rng, plain=(rng.random() < 0.5), crlf=False)
    text, _ = sltgen.render(items, lay)
    if tiny and rng.random() < 0.5:
        text = rng.choice(["", "halt\n", "\n", "# c\n", "halt", "\n\n\n", "subtest x\n"]) + "\n" * rng.choice([0, 0, 1, 9, 16])
    files = [["main.slt", "file", text]]
    if with_includes:
        incs = []
        for i in range(rng.randint(1, 3)):
            it2 = sltgen.gen_script(rng, n=rng.randint(0, 4), allow_include=False)
            t2, _ = sltgen.render(it2, sltgen.Layout(rng, plain=True))
            files.append(["inc/i%d.slt" % i, "file", t2])
        pos = rng.choice(["top", "mid", "end"])
        inc_line = "include inc/*.slt\n"
        if pos == "top":
            files[0][2] = inc_line + "\n" + text
        elif pos == "end":
            files[0][2] = text + ("\n" if text and not text.endswith("\n") else "") + "\n" + inc_line
        else:
            a, _ = sltgen.render(items[:len(items) // 2], sltgen.Layout(rng, plain=True))
            b, _ = sltgen.render(items[len(items) // 2:], sltgen.Layout(rng, plain=True))
            files[0][2] = a + "\n" + inc_line + "\n" + b
    answers = [rand_answer(rng) for _ in range(30)]
    sysa = [["exit", 0, rng.choice(["hi\n", "out\nline2\n", "", "x\n\ny\n", " p \n"]), ""] for _ in range(12)]
    return {"files": files, "main": "main.slt", "answers": answers, "default_answer": ["complete", 0], "sys": sysa,
            "sys_default": ["exit", 0, "", ""], "sep": rng.choice([" ", "\t"]), "strict_cols": rng.random() < 0.3,
            "meta": {"includes": with_includes, "tiny": tiny}}


def model_case(case, out):
    rc = ["multi", [], out.get("oracle", []), bool(case.get("strict_cols")), case.get("labels", []), case.get("vars", []),
          case.get("hash_threshold") or 0, case.get("engine_name", ""), [a for a in case.get("answers", []) if a != ["panic"]] if False else case.get("answers", []),
          case.get("default_answer") or ["complete", 0], case.get("make_fail", []), case.get("sys", []),
          case.get("sys_default") or ["exit", 0, "", ""], False, case.get("env", [])]
    return [case["main"], out["fs"], out["glob"], case.get("coltype") == "two", out.get("re_valid", []), rc, case["sep"], False]


def execute(cases, tier, tag):
    """returns list of dict(case, out, model) plus vm count"""
    outs = vlib.run_impl("update", [corr.strip(c) for c in cases], shards=8)
    # the model cannot decode a ["panic"] answer: replace it (the model's file prediction for crash cases
    # is the uninterrupted result, which is what 'new content' means)
    mcases = []
    for c, o in zip(cases, outs):
        c2 = dict(c)
        c2["answers"] = [a if a != ["panic"] else ["complete", 0] for a in c.get("answers", [])]
        mcases.append(model_case(c2, o))
    mouts = vlib.run_model("update", mcases)
    vm_n = vlib.vm_crosscheck("update", mcases, mouts, 15 if tier == "quick" else 60, tag)
    return [{"case": c, "out": o, "model": m} for c, o, m in zip(cases, outs, mouts)], vm_n


def listing_dict(l):
    return {e[0]: e[1] for e in l}


def model_files(m):
    """model's predicted final content of the rewritten files: path -> text"""
    if not isinstance(m, list) or len(m) < 2:
        return None
    res = m[1]
    out = {}
    for p, b in res[1]:
        out[p] = b.encode("latin-1").decode("utf-8", "replace")
    return res[0], out, (res[3] if res[0] == "ok" else [])


def cli_tree_checks(which):
    """Invocations of the real binary that touch SEVERAL files at once (shared by C05, C06, C07).
    which = "format": `--format main.slt` on a tree whose root includes a same-stem sibling, one file twice and a nested file:
                      every file keeps its meaning, a second run changes no byte, nothing is left behind.
    which = "override": ONE `--override` invocation over two files, the first of which sets modes (sort mode, result mode, hash threshold)
                      and includes a same-stem sibling, the second of which has passing multi-row queries in the engine's order:
                      the second file is not touched (its records pass under ITS modes) and passes when run alone afterwards.
    Returns a list of (clause, description, detail)."""
    import os
    import clirun
    import vlib
    out = []
    sb = clirun.Sandbox("tree")
    try:
        if which == "format":
            files = [["t/main.slt", "include main.prelude\n\nstatement ok\ncreate table t(v int)\n\ninclude reset.slt\n\nquery I rowsort\nselect v from t\n----\n1\n2\n\ninclude reset.slt\n\ninclude sub/*.slt\n"],
                     ["t/main.prelude", "statement ok\nprelude one\n\nstatement ok\nprelude two\n"],
                     ["t/reset.slt", "statement ok\ndelete from t\n\nstatement count 0\nvacuum\n"],
                     ["t/sub/a.slt", "query II\nselect 1, 2\n----\n1 2\n"], ["t/sub/b.slt", "# only a comment\n"]]
            sb.write_files(files)
            def parse_all():
                texts = [open(os.path.join(sb.dir, f[0])).read() for f in files]
                return texts, vlib.run_impl("parse", [{"text": t} for t in texts])
            before_t, before = parse_all()
            r1 = sb.run(["--format", "t/main.slt"], scenario={"rules": []}, timeout=60, engine_ok=False)
            mid_t, mid = parse_all()
            r2 = sb.run(["--format", "t/main.slt"], scenario={"rules": []}, timeout=60, engine_ok=False)
            end_t, _ = parse_all()
            from props import C05
            for f, b, m in zip(files, before, mid):
                if m.get("parse", ["err"])[0] != "ok":
                    out.append(("sound", "after `--format t/main.slt` the file %s no longer parses" % f[0], m.get("parse")))
                elif C05.semantic(vlib.norm(m["parse"][1])) != C05.semantic(vlib.norm(b["parse"][1])):
                    out.append(("sound", "after `--format t/main.slt` the file %s parses to a different script" % f[0],
                                {"before": C05.semantic(vlib.norm(b["parse"][1]))[:8], "after": C05.semantic(vlib.norm(m["parse"][1]))[:8]}))
            for f, a, b in zip(files, mid_t, end_t):
                if a != b:
                    out.append(("idem", "a second `--format t/main.slt` changes %s" % f[0], {"first": a[:300], "second": b[:300]}))
            left = [os.path.join(dp, n) for dp, _, ns in os.walk(os.path.join(sb.dir, "t")) for n in ns if n.endswith(".temp")]
            if left:
                out.append(("debris", "temporary files left behind by `--format`", left))
        else:
            a = ("control sortmode rowsort\n\ncontrol resultmode valuewise\n\nhash-threshold 2\n\ninclude a_modes.inc\n\nquery I\nselect A_one\n----\n1\n")
            inc = "statement ok\nselect A_inc\n"
            b = "query I\nselect B_rows\n----\n3\n1\n2\n\nquery II\nselect B_pairs\n----\nb 2\na 1\n"
            files = [["t/a_modes.slt", a], ["t/a_modes.inc", inc], ["t/b_plain.slt", b]]
            rules = [{"match": "B_rows", "reply": {"result": [["3"], ["1"], ["2"]]}}, {"match": "B_pairs", "reply": {"result": [["b", "2"], ["a", "1"]]}}]
            sb.write_files(files)
            r = sb.run(["--override", "t/a_modes.slt", "t/b_plain.slt"], scenario={"rules": rules}, timeout=90)
            after = {f[0]: open(os.path.join(sb.dir, f[0])).read() for f in files}
            if after["t/b_plain.slt"].rstrip("\n") != b.rstrip("\n"):
                out.append(("frame", "one `--override` over two files rewrote records of the second file although they pass under that file's own modes",
                            {"before": b, "after": after["t/b_plain.slt"], "stdout": r["stdout"][-300:]}))
            pi = vlib.run_impl("parse", [{"text": after["t/a_modes.inc"]}])[0]
            if pi.get("parse", ["err"])[0] != "ok" or "A_inc" not in after["t/a_modes.inc"]:
                out.append(("frame", "`--override` damaged the included file a_modes.inc (same stem as its includer)", after["t/a_modes.inc"][:300]))
            r2 = sb.run(["t/b_plain.slt"], scenario={"rules": rules}, timeout=60)
            if r2["rc"] != 0:
                out.append(("fixpoint", "after the `--override` of both files the second file fails when it is run on its own", r2["stdout"][-400:]))
            r3 = sb.run(["t/a_modes.slt"], scenario={"rules": rules}, timeout=60)
            if r3["rc"] != 0:
                out.append(("fixpoint", "after the `--override` the first file fails when it is run", r3["stdout"][-400:]))
            left = [n for n in os.listdir(os.path.join(sb.dir, "t")) if n.endswith(".temp")]
            if left:
                out.append(("debris", "temporary files left behind by `--override`", left))
    finally:
        sb.close()
    return out
