#!/usr/bin/env python3
"""keep_mutant.py <pid> <mN> <caught_by> [note] — copy a validated seeded change from /tmp/mut into /verif/seeded/<pid>-<mN>/"""
import json, os, shutil, sys
pid, m, caught = sys.argv[1:4]
note = sys.argv[4] if len(sys.argv) > 4 else ""
src = "/tmp/mutout/%s/%s" % (pid, m)
dst = "/verif/seeded/%s-%s" % (pid, m)
os.makedirs(dst, exist_ok=True)
shutil.copy(src + "/patch.diff", dst + "/patch.diff")
if os.path.isdir(dst + "/demo"):
    shutil.rmtree(dst + "/demo")
shutil.copytree(src + "/demo", dst + "/demo")
meta = json.load(open(src + "/meta.json"))
meta.update({
    "breaks_property": pid,
    "validated": "tools/validate_mutant.sh /tmp/mut/%s %s: demo passes on the clean worktree, fails with the patch; `cargo test --workspace --offline` passes with the patch" % (pid, src),
    "checked_with": "tools/try_mutant.sh seeded/%s-%s/patch.diff %s  (git -C /repo apply; python3 tools/vcheck.py <id> --tier quick; git -C /repo checkout -- .)" % (pid, m, caught),
    "caught_by": caught.split(","),
    "note": note,
})
json.dump(meta, open(dst + "/meta.json", "w"), indent=1)
print("kept", dst)
