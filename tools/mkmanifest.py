#!/usr/bin/env python3
"""Regenerate MANIFEST.json from the table below (kept in one place so that the
manifest stays valid while properties are added)."""
import json, os
V = os.path.dirname(os.path.dirname(os.path.abspath(__file__)))

CLAIMED = {
 "C10": dict(
   text="Coq theorems C10_rowsort_perm / C10_valuesort_perm (verdict invariant under every permutation of rows / values, any size), "
        "C10_rowsort_ascending / C10_valuesort_ascending / C10_sort_unique (the compared arrangement is THE ascending one), "
        "C10_nosort_strict, C10_precedence about the Gallina model of apply_record's shaping and run_async_no_retry's verdict; "
        "the model is tied to the Rust code on every run by executing both on all permutations of generated result sets "
        "(Runner::run against a scripted mock DB) and by evaluating the permutation-invariance directly on the implementation.",
   ref="4/C10", technique="Coq proof (Mergesort uniqueness by Sorted+Permutation) + differential correspondence model vs Runner::run",
   note="Trusted: Coq kernel, extraction (ExtrOcamlBasic), hand-written model of runner.rs:871-914/995-1211 validated by the correspondence run; "
        "Rust String order = code-point order assumed (exercised with non-ASCII values)."),
 "C01": dict(
   text="Coq theorems C01_pass_iff_expectation_met, C01_failure_names_the_reason, C01_never_unreachable, C01_verdict: for every record, answer, "
        "configuration and regex oracle the code-shaped model of apply_record+run_async_no_retry (all 11 match arms incl. the two tolerance arms, "
        "sort, hash threshold, value-wise flattening, strict/default column check) passes exactly when the declarative expectation rules "
        "(JudgeSpec.expect_met: Sorted+Permutation arrangement, digest line, Forall2 of normalised lines) hold, and otherwise reports the documented reason. "
        "Tied to the code by running Runner::run on generated (config, record, answer) triples with ~45% wrong expectations.",
   ref="4/C01", technique="Coq proof L2 model = declarative spec + differential correspondence vs Runner::run",
   note="Trusted: Coq kernel; regex is an oracle evaluated by the regex crate; MD5 modelled+validated; shell scripted via AsyncDB::run_command; "
        "message wording, diff rendering, background commands not modelled."),
 "C09": dict(
   text="Coq theorems C09_retry (the loop performs exactly the attempts up to and including the first passing one, one wait of D after each failed attempt, "
        "verdict/state/output of the last executed attempt), C09_execution_count (= min(first pass, N)), C09_stop_at_first_pass, C09_verdict, C09_no_retry_once, "
        "for all N, backoffs, states and attempt behaviours (generic in what an attempt does). Correspondence: exhaustive N<=6 x 2^N outcome sequences x 7 forms x 5 backoffs "
        "through Runner::run with the sleep/run_command hooks logged.",
   ref="4/C09", technique="Coq proof by induction on the attempt count + exhaustive differential correspondence",
   note="Trusted: Coq kernel; waits observed via AsyncDB::sleep hook, not wall clock; a wait after the last failed attempt is not constrained."),
 "C15": dict(
   text="Coq theorems C15_hash_line (exact digest-line formula over the arranged values), C15_no_hash (boundary is >, T=0 disables), "
        "C15_count_is_number_of_values, C15_hash_before_flatten, C15_threshold_scope, for all result sets and thresholds. Correspondence: generated result sets up to 200 values of arbitrary UTF-8, "
        "thresholds around the count, expectation = digest computed by Python hashlib (third implementation).",
   ref="4/C15", technique="Coq proof about the shaping model (MD5 modelled in Gallina) + differential correspondence incl. hashlib digests",
   note="Trusted: Coq kernel; MD5 model validated against RFC vectors/hashlib/md-5 crate, not proved against a second formalisation; rectangular answers for the count clause."),
 "C02": dict(
   text="Coq theorems C02_trace (the trace of run_multi is the concatenation of the events of exactly the records before the first halt / up to and "
        "including the first failing record, failure reported at that record's location), C02_result, C02_halt, C02_compositional, C02_control_scope, "
        "C02_sql_verbatim about the model of run_multi_async/run_async/apply_record, for all scripts, states and scripted databases. Correspondence: generated scripts of all "
        "record kinds with history-dependent answers through run_multi and run_script_with_name, plus a Python reference interpreter for trace/result/line.",
   ref="4/C02", technique="Coq proof (induction over the record list, trace relation) + differential correspondence vs Runner::run_multi/run_script",
   note="Trusted: Coq kernel; model receives the implementation-parsed records (parser tie is C03); CLI path (main.rs re-implements the loop) covered by C16 when built."),
 "C11": dict(
   text="Coq theorems C11_guard (executed <=> every guard admits labels+engine name), C11_any_guard_skips, C11_skipped_*_is_silent (no request, no command, no output, "
        "world counters unchanged), C11_skipped_cannot_fail, C11_admitted_statement_runs, C11_admitted_system_runs_once (hook call or, for `cmd &`, exactly one background spawn). Correspondence: all guard lists of <=2 guards (quick) / <=3 (thorough) over 4 labels x all 16 label sets x "
        "3 record kinds x 3 positions, engine name set, plus guarded background commands observed through the marker files they create, with a direct evaluation of the property on the implementation (guarded ran?, neighbours ran once?).",
   ref="4/C11", technique="Coq proof + exhaustive differential correspondence",
   note="Trusted: Coq kernel; connection established before guards are evaluated (stated premise); that guards attach to the next record only is checked on the implementation directly and by the parser property C03."),
 "C12": dict(
   text="Coq theorems C12_refines_map (connection table refines a finite map; get creates exactly one fresh session on first use), C12_routing_statement/query, "
        "C12_once_and_reused (over any run, incl. retries/halts/failures: invariant kept, one session per newly used name, bindings stable), C12_isolated, C12_shutdown. "
        "Correspondence: generated scripts with arbitrary sequences of connection lines over {default, Default, DEFAULT, a, A, b, another}, per-session counter DB, failing connects, shutdown; "
        "a name->session reference in the generator checks the implementation directly.",
   ref="4/C12", technique="Coq proof (refinement to a finite map, invariant over runs) + differential correspondence",
   note="Trusted: Coq kernel; partial: shutdown_all closes concurrently (join_all) - order canonicalised to a set."),
 "C04": dict(
   text="Coq theorems about the parser model (line-at-a-time state machine): C04_no_panic (no panic for any text whose duration words do not make humantime itself panic; "
        "C04_panic_refuted exhibits the witness = known finding D13), C04_line_bound (error line in [1, n+1]), C04_line_status_uniform, C04_reject_at_boundary (a rejected line at any record boundary is "
        "reported at that very line), C04_strict (a line is accepted iff its words form a documented directive: equivalence with the declarative grammar HeaderSpec.valid_header), "
        "C04_statement_results_rejected, C04_duplicated_error_rejected. Correspondence: all header lines of <=3 (quick) / <=4 (thorough) tokens over a 16-word vocabulary, sampled longer ones, "
        "mutated valid headers, a catalogue of malformed lines injected at every record boundary of generated scripts, arbitrary Unicode text and fixture mutations; both column types.",
   ref="4/C04", technique="Coq proof (state-machine invariant, grammar equivalence) + exhaustive/differential correspondence vs sqllogictest::parse",
   note="Trusted: Coq kernel; Regex::new validity is an oracle; humantime's duration grammar modelled and validated; inputs of >= 2^32-1 lines out of scope. Known finding D13 (dependency panic) listed in known_findings.jsonl."),
 "C14": dict(
   text="Coq theorems C14_expand_sound / C14_expand_complete (the model of parse_file_inner computes exactly the declarative splice: matching files in glob order, bracketed, directly after the include record, recursively), "
        "C14_fuel_irrelevant, C14_markers_nested (Dyck), C14_provenance (file and include-site chain of every located record), C14_missing_file_is_located_error, C14_empty_match_is_located_error, C14_parser_locations. "
        "Correspondence: random directory trees (depth <=4, patterns with * ? .. sub-directories, empty matches, missing files, directories and non-UTF-8 files matching a pattern, halts and parse errors in included files) "
        "through parse_file and run_file, with direct checks of nesting, provenance, ascending order and execution order on the implementation.",
   ref="4/C14", technique="Coq proof (mutual induction over the splice relation, fuel monotonicity) + differential correspondence on real directory trees",
   note="Trusted: Coq kernel; glob::glob and the file system are oracles recorded by the harness for every reachable pattern/path; cyclic includes out of scope. Defect D15 (panic on unreadable match) fixed in /repo."),
 "C03": dict(
   text="Coq theorems C03_roundtrip (for every well-formed abstract script - every record kind, expectation form, sort mode, label, retry clause, guards, connections, "
        "comments, multi-line texts - and every layout: blank strings incl. tabs/NBSP between, before and after header words, block endings, LF/CRLF per line, final "
        "newline or not, parse(render(A,L)) = elab(A): all records, all fields, 1-based line numbers), C03_roundtrip_lines, C03_line_endings, about the line-at-a-time state-machine "
        "model of parse_inner. Tied to the code by parsing generated (A,L) renderings and all fixtures with the real parser and comparing with the parser model AND with the generator's "
        "independent elaboration.",
   ref="4/C03", technique="Coq proof (per-item lemmas, induction over the script, lines/unlines) + three-way differential correspondence",
   note="Trusted: Coq kernel; Regex::new validity oracle; durations are taken as words that humantime accepts (their value is proved for the compact rendering in C05). "
        "The equivalence of the state machine with the nested-loop Rust parser is what the correspondence tests."),
 "C06": dict(
   text="Coq theorems C06_record_converges (for every record, answer, configuration, separator and regex oracle satisfying the escape law, outside the known classes D5/D12: the rewritten record, "
        "as read back, passes the judge on the same answer and is a fixed point of the rewrite), C06_untouched_passes, and at FILE level C06_file_converges (for every flattened record list of a file with its includes, every initial state and "
        "scripted world: if the update completes without a known-finding flag and no command fails, the rewritten list as re-read passes under run_multi from the same state and world issuing exactly the same connects, requests and sleeps, and a "
        "second update is a fixed point; premises retry>=1 and equal strictness shown necessary by counterexamples) with C06_written_is_updated_records, and at TEXT level C06_text_reparses (every file the updater writes parses back to that file's re-read updated records, for parse_file trees, under representability premises each shown necessary by a counterexample; the premise dangling_end is known finding D19, witness C06_dangling_end_refuted), C06_run_depends_on_meaning (the runner's events, state and verdict depend only on the meaning of the script, locations aside) and END TO END C06_end_to_end_source (single file, from the file content before the update: the written file parses, passes against the same database from the same state with exactly the update's events, and a second update reproduces the same bytes), about the model of update_test_file / update_record_with_output / from_actual_error / regex::escape. "
        "File level also by correspondence: Runner::update_test_file on generated trees (mostly wrong expectations, includes, both separators, strict/default columns) with scripted databases, then run_file "
        "against the same database, then a second update; bytes compared with the model (parser+apply_record+update_record+display+trimmer), L1 evaluated on the implementation. Six defects found and fixed (D3 D4 D6 D7 D17 D8).",
   ref="4/C06", technique="Coq proof (record-level and file-level convergence) + differential correspondence with rerun and second update on real trees",
   note="Trusted: Coq kernel; regex is_match oracle with the escape law as premise (tested); end to end proved for a single file; for include trees the per-file text theorem and the flat-list run theorem are both proved, their composition needs every file to be written once (a file included twice is rewritten twice, the last content wins: UpdateEndToEndEx.include_twice_last_write_wins). Known findings D5, D12, D19 listed; D18 and D19 were found by these proofs (D18 fixed)."),
 "C07": dict(
   text="Coq theorems C07_frame (only the expectation may change), C07_only_kind_change (query -> statement count N only for a statement completion), C07_skipped_unchanged, C07_failed_command_unchanged, "
        "C07_pass_keeps (a passing record keeps its expectation as written; row-wise mode), C07_file_frame_and_halt (file level: one record out per record in, same kind and position, markers/halts/non-executable records verbatim, every record from the first halt of the flattened list on - in whichever file - written exactly as it was), C07_text_frame (single file, content to content: the written file parses to records that correspond one to one to the original ones, equal where the updater left the record alone, changed in the expectation only otherwise, equal from the first halt on). Correspondence: records before/after Runner::update_test_file compared field by field; records that pass (Runner::run "
        "on the original), are skipped, lie after halt, or are failing commands must keep their expectation; half of the cases are fixed points of a previous update so that many expectations are correct.",
   ref="4/C07", technique="Coq proof (finite case analysis over update_record) + differential correspondence",
   note="Trusted: Coq kernel; D5 (value-wise mode) is a listed known finding; D18 (halt scoped per file) found and fixed; 'lies after halt' is judged by the property's meaning (first halt of the flattened script)."),
 "C08": dict(
   text="Coq theorems C08_atomic (after EVERY prefix of the operation sequence - create temp, appends, truncations, rename - every file being rewritten holds its old or its complete new content), "
        "C08_only_rename_touches_originals, C08_final (completion: new content everywhere, no temp file), C08_trim (any number of trailing newlines -> exactly one, all sizes), C08_trim_empty, C08_trim_never_panics, "
        "C08_trim_ops, C08_trim_small_refuted (the pre-fix trimmer panics on `halt\\n`: defect D8, fixed), C08_trim_fix_conservative. C08_updater_atomic / C08_updater_final / C08_updater_ownership: the same statements for the operation sequence the updater model itself performs (wevs_of instruments update_loop; closed_of = written), in update and format mode, with per-file record ownership. Correspondence: every original file read back at every database request of an "
        "uninterrupted update; a driver panic injected at every request k; tiny/empty files and up to 20 trailing blank lines; per-file bytes vs model; no *.temp; the real binary `--override` with SIGKILL delivered at every engine request k (old or complete new content per file afterwards); the CLI copy also through --format in C05.",
   ref="4/C08", technique="Coq proof (invariant over operation prefixes) + fault enumeration at every request",
   note="Trusted: Coq kernel; POSIX rename atomicity; partial: durability/fsync ordering, non-POSIX file systems, concurrent writers; the syscall-level comparison (strace) is not built, the op model is tied to the updater model by theorem (UpdateFs.v) and to the code through file contents at every interruption point; a file included twice is outside the premise NoDup (the second rewrite wins)."),
 "C13": dict(
   text="Coq theorems C13_off_identity, C13_sql (for every well-formed template incl. nested defaults and the five escapes the model of subst 0.3.7 + substitution.rs expands as documented, failing on an undefined variable), "
        "C13_lookup_order, C13_locals_shadow_environment, C13_value_verbatim, C13_cmd_identity, C13_trailing_dollar_refuted (known finding D9). Correspondence: generated templates and malformed texts, variables local/environment/both, "
        "substitution toggled inside scripts, SQL and commands, compared with the model and the generator's reference expansion; test-directory identity/uniqueness/removal observed on live runners incl. the library's run_parallel.",
   ref="4/C13", technique="Coq proof (template parser round trip) + differential correspondence",
   note="Trusted: Coq kernel; process environment as oracle table; partial: test-directory uniqueness/removal is tempfile/OS behaviour (observed, not proved); __NOW__ and the directory path canonicalised."),
 "C05": dict(
   text="Coq theorems C05_format_sound (for every parseable text without a CR-terminated line: the written records parse again to a semantically equal script), C05_format_idem (formatting the formatted text reproduces it byte for byte), "
        "C05_duration_roundtrip (every Duration is written as one word that humantime reads back to the same value), C05_default_columns_stable, and through `--format` on files C05_format_file_single / C05_format_file_tree (the content `--format` writes - records' text plus the trimmer - parses again to the same meaning and re-formatting it reproduces the bytes, per file of an include tree; premise dangling_end = known finding D19) - about the parser model and the model of Display; proved through an invariant of parser output, "
        "a canonical re-rendering and the C03 round trip. Correspondence: parse -> Display -> parse -> Display on generated scripts and all fixtures vs the model, semantic equality and idempotence evaluated on the implementation, "
        "and `sqllogictest --format` run twice on real files (bytes vs model incl. the trailing-newline trimmer, files with 0..100 trailing blank lines). Defects D1 D2 D14 D17 found and fixed; D16 known.",
   ref="4/C05", technique="Coq proof (parser-output invariant + C03 round trip + humantime number theory) + differential correspondence incl. the real CLI",
   note="Trusted: Coq kernel; premises col_stable (proved for both column types used) and no_trailing_cr (D16 listed as known finding); the CLI path additionally re-parses every formatted file (known finding D19: empty SQL line at the end of a file); Regex::new validity oracle."),
 "C20": dict(
   text="Coq theorems C20_chunking (for all reply sequences and ALL ways of cutting their concatenation into chunks the k-th pull of the FramedRead loop returns exactly the k-th reply's bytes), "
        "C20_truncated (a stream ending inside the k-th reply gives the k-th call an error - never a frame, never waiting; a clean end gives end-of-stream), C20_stable, C20_prefix_incomplete, "
        "C20_request_roundtrip / C20_request_injective (every SQL text is recovered from its escaped request body; distinct texts give distinct request bytes), about the delimiter-scanner model of "
        "JsonDecoder + FramedRead. Correspondence: ExternalDriver against a scripted child process: every single cut point and (thorough: every, quick: sampled) pair of cut points on short streams, random cuts on long ones, "
        "lock-step/eager writing, every truncation point followed by exit or closed stdout, each call under a timeout; request bytes received by the child compared with the model's serde_json escaping; EOF/reaping after shutdown.",
   ref="4/C20", technique="Coq proof (scanner stability + induction over chunks) + exhaustive-cut differential correspondence with a scripted child",
   note="Trusted: Coq kernel; oracle law: frame_end = serde_json value boundary on object replies (tested by every run); reply contents decoded by Python's json as third implementation; "
        "partial: promptness, pipe buffering, reaping and kill-on-drop are OS/tokio behaviour enforced by timeouts."),
 "C16": dict(
   text="Coq theorems C16_exit (for every list of per-file results in every completion order, with or without fail-fast and Ctrl-C, the drivers' bookkeeping exits 0 iff no file failed and nothing was cancelled), "
        "C16_failure_or_interrupt_is_nonzero, C16_junit (the JUnit totals equal the counts of the per-file results and contain one case per file) about the model Cli.v of run_serial/run_parallel's result bookkeeping. "
        "Correspondence: the real binary with the scripted fake engine over 1..12 files with independently chosen outcomes (pass, failing record, parse error, engine exits, engine never starts, crashing task), serial and -j 1..8, "
        "varying latencies, with/without --junit and --fail-fast; exit status, status tags, parsed JUnit XML against the ground truth and the model. Known finding D11. "
        "Since the driver model exists (Driver.v: small-step model of run_parallel, connect_and_run_test_file and the RUNNING_TESTS lock with the scheduler, Ctrl-C and the order of closes as explicit choices): "
        "C16_driver_results_consistent (the premise of C16_exit is a theorem about everything the driver can produce), C16_driver_exit (its exit decision is 0 iff every reported result is Ok and no Ctrl-C), "
        "C16_driver_reports_each_file_once, C16_driver_junit_one_case_per_file; for run_serial (Serial.v: the files one after the other, Ctrl-C before any file or while one runs) C16_serial_results_consistent, C16_serial_exit, C16_serial_every_file_reported_once, C16_serial_plain_results; every serial run is predicted by the extracted serial model (reports in order, exit status); every parallel run of the real binary, fail-fast and refusals included, is replayed by the extracted driver model on the schedule reconstructed from it and must give the same trace, reports and exit.",
   ref="4/C16", technique="Coq proof (induction over per-file results in any order; invariants of a small-step model of the parallel driver under every schedule) + differential correspondence with the real binary and a scripted engine, incl. replay of each parallel run by the extracted driver model",
   note="Trusted: Coq kernel; partial: the schedule is reconstructed from engine-side time stamps and the order of the reports on stdout (canonicalised for logging lag; an unexplained run is repeated twice before it is reported); run_serial is modelled without its output buffering; the XML layer is parsed by Python's ElementTree."),
 "C17": dict(
   text="Coq theorems C17_create_before_use, C17_session_integrity, C17_session_unique, C17_bounded_concurrency, C17_close_before_drop, C17_dropped_exactly_once_unless_kept: every trace accepted by the observer automaton Par.v "
        "(any length, any interleaving) uses a database only after its CREATE, never shares a session between files, has at most `jobs` files in flight, closes every session of a database before its DROP and drops every created database "
        "exactly once unless kept. Correspondence: the time-ordered log of the fake engine processes under the real binary with -j 1..8 (2..10 files, named connections, `$__DATABASE__` in every statement, failing/dying engines, "
        "latency patterns forcing many interleavings, --keep-db-on-failure, long common path prefixes) must be accepted by the extracted automaton and satisfy the clauses evaluated directly; the library's run_parallel is observed too (known finding D10). "
        "C17_driver_refines_observer: every trace the driver model Driver.v emits - under every list of scheduler choices, any arrival of Ctrl-C, any order of closes - is accepted by the observer automaton, so all of the above holds of every run of "
        "the model of the code, not only of accepted traces; C17_driver_end_closed, C17_driver_finished_run_cleans_up, C17_driver_holds_at_most_jobs, C17_driver_files_in_flight_bounded. Every -j run of the real binary (incl. engines that wind down slowly and sessions whose ends depend on each other) is replayed by the extracted driver model.",
   ref="4/C17", technique="Coq proof (forward simulation: small-step model of run_parallel under every schedule refines an observer automaton whose invariants give the clauses) + trace-acceptance and model-replay correspondence with the real binary",
   note="Trusted: Coq kernel; partial: that tokio's scheduler realises only schedules of the model is sampled (each observed run is replayed by the model), not proved; ordering by CLOCK_MONOTONIC timestamps of the engine processes; a DROP answered with 'Connection refused' (loop break) is not modelled."),
 "C19": dict(
   text="Coq theorems C19_no_new_work (in every accepted trace a connection after the Cancel event belongs to a file started before it), C19_release (every accepted closed trace has closed every connection it opened), "
        "C19_exit_nonzero (Ctrl-C at any point or any failure gives a non-zero exit status for every result list), C19_fail_fast_cancels (under fail-fast the first failure sets the token for good), about Par.v and Cli.v. "
        "Correspondence: the real binary, serial and -j 2..4: the fake engine sends SIGINT to the CLI at its k-th request for every k (thorough) / a spread incl. the CREATE and DROP phases (quick), and --fail-fast with the failing file at every position: "
        "exit status, no session or SQL after the interrupt, every session reaches EOF, every CREATE has its DROP, JUnit with one case per file, termination, automaton acceptance with the Cancel event. "
        "C19_serial_no_new_work (serial driver model: once the token is set every file still to come is reported Skipped). "
        "C19_driver_quiet_after_cancel / C19_driver_fates_after_cancel: in the driver model, from the moment the token is set no step opens a session or sends a statement, and every file reported afterwards gets the result its state at that moment dictates (Skipped if it had not looked at the token, Cancelled if it was running, its own result if it was already shutting down). "
        "C19_driver_progress / C19_driver_never_doomed: in the driver model Driver.v no reachable state short of the end is stuck and a measure bounds the remaining steps - the logic of the drivers, the per-file tasks and the RUNNING_TESTS lock has "
        "no deadlock and no livelock, whatever the scheduler did and whenever Ctrl-C or a fail-fast cancellation struck (with jobs >= 1; -j 0 hangs in model and code alike, see DESIGN 0.8).",
   ref="4/C19", technique="Coq proof (observer automaton with Cancel + bookkeeping model + progress/termination measure on the small-step driver model) + signal injection at every request against the real binary",
   note="Trusted: Coq kernel; partial: signal delivery latency (400 ms allowance inside a 600 ms grace), bounded-time exit (60 s limit) and kill_on_drop are runtime behaviour, observed not proved."),
 "C18": dict(
   text="Coq theorems C18_cover (for ANY hash function and count > 0 every path has exactly one partition id), C18_partition_exact, C18_exactly_one_id (over ids 0..N-1 every file of a glob lies in exactly one selection), "
        "C18_reject (count 0, id >= count, count without id are rejected), C18_single_file_not_filtered, C18_pure. Correspondence: the real binary over random file sets (2..40 names, nested, non-ASCII, overlapping and single-file globs), "
        "N in 1..8, every id, flags vs SLT_PARTITION_* vs Buildkite variables, each configuration in its own process (some twice): the files each process runs (engine-side log) equal the Coq model's selection "
        "(SipHash-1-3 of path bytes ++ 0xFF, mod N), the union over ids is the glob and the selections are disjoint; invalid configurations exit non-zero without contacting the engine.",
   ref="4/C18", technique="Coq proof (for any hash) + differential correspondence with the real binary in separate processes pinning the hash function",
   note="Trusted: Coq kernel; SipHash-1-3 model validated by these runs; glob matching of the used patterns re-implemented in the check; stability across builds of the same std is what pins the hash."),
}

PENDING = "check not built yet in this session (machinery under construction); no claim is made"

def main():
    checks = []
    for pid in sorted(CLAIMED):
        c = CLAIMED[pid]
        checks.append({
            "property_id": pid,
            "quick_cmd": "python3 tools/vcheck.py %s --tier quick" % pid,
            "thorough_cmd": "python3 tools/vcheck.py %s --tier thorough" % pid,
            "evidence_file": "/verif/evidence/%s.json" % pid,
            "replay_cmd_template": "python3 tools/vcheck.py %s --replay {path}" % pid,
            "engine": "coq-model+correspondence",
            "level_claimed": {"category": "proof", "text": c["text"], "design_ref": c["ref"]},
            "level_note": c["note"],
            "technique": c["technique"],
        })
    allp = [json.loads(l)["id"] for l in open(os.path.join(V, "properties.jsonl"))]
    na = [{"property_id": p, "reason": PENDING} for p in allp if p not in CLAIMED]
    m = {
        "version": 1,
        "setup_cmd": "python3 tools/setup.py",
        "hooks": {
            "guard": "sqllogictest_verif",
            "enable": "none needed: every observation point is a public trait (AsyncDB incl. sleep/run_command, MakeConnection) or a process boundary; RUSTFLAGS=\"--cfg sqllogictest_verif\" is reserved and unused",
            "baseline_off_cmd": "cd /repo && cargo test --workspace --no-fail-fast --offline",
            "source_commits": [],
            "add_only": True,
        },
        "engines": [{"name": "coq-model+correspondence", "path": "/verif/coq, /verif/harness, /verif/tools",
                     "serves_properties": sorted(CLAIMED),
                     "kind_free_text": "Coq 8.16 theorems about a hand-written Gallina model; model extracted to OCaml and run against the Rust implementation (built from /repo's working tree) on generated cases"}],
        "checks": checks,
        "not_applicable": na,
        "notes": "See DESIGN.md. Exit codes: 0 ok, 1 VIOLATION, 2 infrastructure error.",
    }
    json.dump(m, open(os.path.join(V, "MANIFEST.json"), "w"), indent=1)

main()
