#!/usr/bin/env python3
"""Regenerate MANIFEST.json from the table below (kept in one place so that the
manifest stays valid while properties are added)."""
import json, os
V = os.path.dirname(os.path.dirname(os.path.abspath(__file__)))

CLAIMED = {
 "C10": dict(
   text="Coq theorems C10_rowsort_perm / C10_valuesort_perm (verdict invariant under every permutation of rows / values, any size), "
        "C10_rowsort_ascending / C10_valuesort_ascending / C10_sort_unique (the compared arrangement is THE ascending one), "
        "C10_nosort_strict, C10_precedence about the Gallina model of apply_record's shaping and run_async_no_retry's verdict; "
        "the model is tied to the Rust code on every run by executing both on all permutations of generated result sets "
        "(Runner::run against a scripted mock DB) and by evaluating the permutation-invariance directly on the implementation.",
   ref="4/C10", technique="Coq proof (Mergesort uniqueness by Sorted+Permutation) + differential correspondence model vs Runner::run",
   note="Trusted: Coq kernel, extraction (ExtrOcamlBasic), hand-written model of runner.rs:871-914/995-1211 validated by the correspondence run; "
        "Rust String order = code-point order assumed (exercised with non-ASCII values)."),
 "C01": dict(
   text="Coq theorems C01_pass_iff_expectation_met, C01_failure_names_the_reason, C01_never_unreachable, C01_verdict: for every record, answer, "
        "configuration and regex oracle the code-shaped model of apply_record+run_async_no_retry (all 11 match arms incl. the two tolerance arms, "
        "sort, hash threshold, value-wise flattening, strict/default column check) passes exactly when the declarative expectation rules "
        "(JudgeSpec.expect_met: Sorted+Permutation arrangement, digest line, Forall2 of normalised lines) hold, and otherwise reports the documented reason. "
        "Tied to the code by running Runner::run on generated (config, record, answer) triples with ~45% wrong expectations.",
   ref="4/C01", technique="Coq proof L2 model = declarative spec + differential correspondence vs Runner::run",
   note="Trusted: Coq kernel; regex is an oracle evaluated by the regex crate; MD5 modelled+validated; shell scripted via AsyncDB::run_command; "
        "message wording, diff rendering, background commands not modelled."),
 "C09": dict(
   text="Coq theorems C09_retry (the loop performs exactly the attempts up to and including the first passing one, one wait of D after each failed attempt, "
        "verdict/state/output of the last executed attempt), C09_execution_count (= min(first pass, N)), C09_stop_at_first_pass, C09_verdict, C09_no_retry_once, "
        "for all N, backoffs, states and attempt behaviours (generic in what an attempt does). Correspondence: exhaustive N<=6 x 2^N outcome sequences x 7 forms x 5 backoffs "
        "through Runner::run with the sleep/run_command hooks logged.",
   ref="4/C09", technique="Coq proof by induction on the attempt count + exhaustive differential correspondence",
   note="Trusted: Coq kernel; waits observed via AsyncDB::sleep hook, not wall clock; a wait after the last failed attempt is not constrained."),
 "C15": dict(
   text="Coq theorems C15_hash_line (exact digest-line formula over the arranged values), C15_no_hash (boundary is >, T=0 disables), "
        "C15_count_is_number_of_values, C15_hash_before_flatten, C15_threshold_scope, for all result sets and thresholds. Correspondence: generated result sets up to 200 values of arbitrary UTF-8, "
        "thresholds around the count, expectation = digest computed by Python hashlib (third implementation).",
   ref="4/C15", technique="Coq proof about the shaping model (MD5 modelled in Gallina) + differential correspondence incl. hashlib digests",
   note="Trusted: Coq kernel; MD5 model validated against RFC vectors/hashlib/md-5 crate, not proved against a second formalisation; rectangular answers for the count clause."),
 "C02": dict(
   text="Coq theorems C02_trace (the trace of run_multi is the concatenation of the events of exactly the records before the first halt / up to and "
        "including the first failing record, failure reported at that record's location), C02_result, C02_halt, C02_compositional, C02_control_scope, "
        "C02_sql_verbatim about the model of run_multi_async/run_async/apply_record, for all scripts, states and scripted databases. Correspondence: generated scripts of all "
        "record kinds with history-dependent answers through run_multi and run_script_with_name, plus a Python reference interpreter for trace/result/line.",
   ref="4/C02", technique="Coq proof (induction over the record list, trace relation) + differential correspondence vs Runner::run_multi/run_script",
   note="Trusted: Coq kernel; model receives the implementation-parsed records (parser tie is C03); CLI path (main.rs re-implements the loop) covered by C16 when built."),
 "C11": dict(
   text="Coq theorems C11_guard (executed <=> every guard admits labels+engine name), C11_any_guard_skips, C11_skipped_*_is_silent (no request, no command, no output, "
        "world counters unchanged), C11_skipped_cannot_fail, C11_admitted_statement_runs. Correspondence: all guard lists of <=2 guards (quick) / <=3 (thorough) over 4 labels x all 16 label sets x "
        "3 record kinds x 3 positions, engine name set, with a direct evaluation of the property on the implementation (guarded ran?, neighbours ran once?).",
   ref="4/C11", technique="Coq proof + exhaustive differential correspondence",
   note="Trusted: Coq kernel; connection established before guards are evaluated (stated premise); that guards attach to the next record only is checked on the implementation directly and by the parser property C03."),
 "C12": dict(
   text="Coq theorems C12_refines_map (connection table refines a finite map; get creates exactly one fresh session on first use), C12_routing_statement/query, "
        "C12_once_and_reused (over any run, incl. retries/halts/failures: invariant kept, one session per newly used name, bindings stable), C12_isolated, C12_shutdown. "
        "Correspondence: generated scripts with arbitrary sequences of connection lines over {default, Default, DEFAULT, a, A, b, another}, per-session counter DB, failing connects, shutdown; "
        "a name->session reference in the generator checks the implementation directly.",
   ref="4/C12", technique="Coq proof (refinement to a finite map, invariant over runs) + differential correspondence",
   note="Trusted: Coq kernel; partial: shutdown_all closes concurrently (join_all) - order canonicalised to a set."),
 "C04": dict(
   text="Coq theorems about the parser model (line-at-a-time state machine): C04_no_panic (no panic for any text whose duration words do not make humantime itself panic; "
        "C04_panic_refuted exhibits the witness = known finding D13), C04_line_bound (error line in [1, n+1]), C04_line_status_uniform, C04_reject_at_boundary (a rejected line at any record boundary is "
        "reported at that very line), C04_strict (a line is accepted iff its words form a documented directive: equivalence with the declarative grammar HeaderSpec.valid_header), "
        "C04_statement_results_rejected, C04_duplicated_error_rejected. Correspondence: all header lines of <=3 (quick) / <=4 (thorough) tokens over a 16-word vocabulary, sampled longer ones, "
        "mutated valid headers, a catalogue of malformed lines injected at every record boundary of generated scripts, arbitrary Unicode text and fixture mutations; both column types.",
   ref="4/C04", technique="Coq proof (state-machine invariant, grammar equivalence) + exhaustive/differential correspondence vs sqllogictest::parse",
   note="Trusted: Coq kernel; Regex::new validity is an oracle; humantime's duration grammar modelled and validated; inputs of >= 2^32-1 lines out of scope. Known finding D13 (dependency panic) listed in known_findings.jsonl."),
 "C14": dict(
   text="Coq theorems C14_expand_sound / C14_expand_complete (the model of parse_file_inner computes exactly the declarative splice: matching files in glob order, bracketed, directly after the include record, recursively), "
        "C14_fuel_irrelevant, C14_markers_nested (Dyck), C14_provenance (file and include-site chain of every located record), C14_missing_file_is_located_error, C14_empty_match_is_located_error, C14_parser_locations. "
        "Correspondence: random directory trees (depth <=4, patterns with * ? .. sub-directories, empty matches, missing files, directories and non-UTF-8 files matching a pattern, halts and parse errors in included files) "
        "through parse_file and run_file, with direct checks of nesting, provenance, ascending order and execution order on the implementation.",
   ref="4/C14", technique="Coq proof (mutual induction over the splice relation, fuel monotonicity) + differential correspondence on real directory trees",
   note="Trusted: Coq kernel; glob::glob and the file system are oracles recorded by the harness for every reachable pattern/path; cyclic includes out of scope. Defect D15 (panic on unreadable match) fixed in /repo."),
}

PENDING = "check not built yet in this session (machinery under construction); no claim is made"

def main():
    checks = []
    for pid in sorted(CLAIMED):
        c = CLAIMED[pid]
        checks.append({
            "property_id": pid,
            "quick_cmd": "python3 tools/vcheck.py %s --tier quick" % pid,
            "thorough_cmd": "python3 tools/vcheck.py %s --tier thorough" % pid,
            "evidence_file": "/verif/evidence/%s.json" % pid,
            "replay_cmd_template": "python3 tools/vcheck.py %s --replay {path}" % pid,
            "engine": "coq-model+correspondence",
            "level_claimed": {"category": "proof", "text": c["text"], "design_ref": c["ref"]},
            "level_note": c["note"],
            "technique": c["technique"],
        })
    allp = [json.loads(l)["id"] for l in open(os.path.join(V, "properties.jsonl"))]
    na = [{"property_id": p, "reason": PENDING} for p in allp if p not in CLAIMED]
    m = {
        "version": 1,
        "setup_cmd": "python3 tools/setup.py",
        "hooks": {
            "guard": "sqllogictest_verif",
            "enable": "none needed: every observation point is a public trait (AsyncDB incl. sleep/run_command, MakeConnection) or a process boundary; RUSTFLAGS=\"--cfg sqllogictest_verif\" is reserved and unused",
            "baseline_off_cmd": "cd /repo && cargo test --workspace --no-fail-fast --offline",
            "source_commits": [],
            "add_only": True,
        },
        "engines": [{"name": "coq-model+correspondence", "path": "/verif/coq, /verif/harness, /verif/tools",
                     "serves_properties": sorted(CLAIMED),
                     "kind_free_text": "Coq 8.16 theorems about a hand-written Gallina model; model extracted to OCaml and run against the Rust implementation (built from /repo's working tree) on generated cases"}],
        "checks": checks,
        "not_applicable": na,
        "notes": "See DESIGN.md. Exit codes: 0 ok, 1 VIOLATION, 2 infrastructure error.",
    }
    json.dump(m, open(os.path.join(V, "MANIFEST.json"), "w"), indent=1)

main()
