#!/usr/bin/env python3
"""vcheck.py <property> --tier quick|thorough [--replay path]
Single entry point of every registered check (see DESIGN.md section 3.5)."""
import argparse
import importlib
import json
import os
import random
import sys
import time

sys.path.insert(0, os.path.dirname(os.path.abspath(__file__)))
import vlib
from vlib import log


def main():
    ap = argparse.ArgumentParser()
    ap.add_argument("pid")
    ap.add_argument("--tier", default=os.environ.get("VERIF_TIER", "quick"))
    ap.add_argument("--replay")
    ap.add_argument("--no-build", action="store_true")
    args = ap.parse_args()
    tier = os.environ.get("VERIF_TIER") or args.tier
    if tier not in ("quick", "thorough"):
        tier = "quick"
    seed = int(os.environ.get("VERIF_SEED", "0") or 0)
    pid = args.pid
    t0 = time.time()
    try:
        mod = importlib.import_module("props." + pid)
        rc = run(mod, pid, tier, seed, args, t0)
    except vlib.InfraError as e:
        print("INFRASTRUCTURE-ERROR property=%s: %s" % (pid, e))
        sys.exit(2)
    sys.exit(rc)


def shrink(mod, tier, d, budget=45.0):
    """(only for modules that declare SHRINK_TEXT = True: their verdict depends on the case text alone, not on expectations the
    generator attached to the case - shrinking the text of a case that carries such expectations would fabricate a failure)
    delta-debugging over the lines of the case's text (or of its files' texts): a smaller case that still shows a disagreement of
    the same kind; time-boxed; returns the original disagreement when nothing smaller is found"""
    case = d["case"]
    texts = []          # (getter, setter)
    if isinstance(case.get("text"), str):
        texts.append(("text", None))
    elif isinstance(case.get("files"), list):
        for i, f in enumerate(case["files"]):
            if isinstance(f, list) and f and isinstance(f[-1], str) and len(f) in (2, 3) and (len(f) == 2 or f[1] == "file"):
                texts.append(("files", i))
    if not texts:
        return d
    t_end = time.time() + budget
    want_spec = bool(d.get("spec"))
    best = d

    def get(c, key):
        return c["text"] if key[0] == "text" else c["files"][key[1]][-1]

    def put(c, key, val):
        c2 = json.loads(json.dumps(c))
        if key[0] == "text":
            c2["text"] = val
        else:
            c2["files"][key[1]][-1] = val
        return c2

    def still(c):
        try:
            r = mod.execute([c], tier)
        except Exception:
            return None
        for d2 in r["disagreements"]:
            if bool(d2.get("spec")) == want_spec and not d2.get("known"):
                return d2
        return None

    for key in texts:
        lines = get(best["case"], key).split("\n")
        n = 2
        while len(lines) >= 2 and time.time() < t_end:
            chunk = max(1, len(lines) // n)
            removed = False
            for i in range(0, len(lines), chunk):
                if time.time() >= t_end:
                    break
                cand = lines[:i] + lines[i + chunk:]
                c2 = put(best["case"], key, "\n".join(cand))
                d2 = still(c2)
                if d2 is not None:
                    lines, best, removed = cand, d2, True
                    n = max(n - 1, 2)
                    break
            if not removed:
                if chunk == 1:
                    break
                n = min(len(lines), n * 2)
    if best is not d:
        best["shrunk_from_lines"] = sum(len(get(d["case"], k).split("\n")) for k in texts)
    return best


def run(mod, pid, tier, seed, args, t0):
    violations = []   # (replay path, suffix)
    known_lines = []
    # ---- 1. proofs
    rc, out = vlib.build_coq()
    proof_problems = []
    if rc != 0:
        proof_problems.append("coq build failed:\n" + out[-3000:])
    hyg = vlib.hygiene()
    proof_problems += ["hygiene: " + h for h in hyg]
    obligations, discharged, details, probs = (0, 0, [], [])
    if rc == 0:
        obligations, discharged, details, probs = vlib.check_props(pid)
    proof_problems += probs
    chk = None
    if rc == 0 and tier == "thorough" and not args.replay:
        chk, cprobs = vlib.coqchk_props(pid)
        proof_problems += cprobs
    # ---- 2. implementation + model builds (from /repo's current working tree)
    if rc == 0:
        vlib.build_model()
    vlib.build_harness()
    if getattr(mod, "NEEDS_CLI", False):
        vlib.build_cli()
    # ---- 3. correspondence
    # the thorough tier repeats generation + execution in several rounds with independent generator states (memory stays bounded);
    # it stops at the first round that shows a disagreement
    rounds = 1 if (args.replay or tier != "thorough") else max(1, int(os.environ.get("VERIF_ROUNDS", "4")))
    res = None
    for rnd in range(rounds):
        rng = random.Random(seed * 1000003 + 17 + rnd * 7919)
        if args.replay:
            rep = json.load(open(args.replay))
            cases = [rep["case"]]
        else:
            cases = (mod.corpus() if rnd == 0 else []) + mod.generate(rng, tier)
        r1 = mod.execute(cases, tier) if rc == 0 else None
        if r1 is None:
            break
        if res is None:
            res = r1
        else:
            res["disagreements"] += r1["disagreements"]
            a, b = res["stats"], r1["stats"]
            for k, v in b.items():
                if isinstance(v, (int, float)) and not isinstance(v, bool) and isinstance(a.get(k), (int, float)):
                    a[k] = a[k] + v
                elif isinstance(v, dict) and isinstance(a.get(k), dict):
                    for kk, vv in v.items():
                        a[k][kk] = a[k].get(kk, 0) + vv if isinstance(vv, (int, float)) and isinstance(a[k].get(kk, 0), (int, float)) else vv
        res["stats"]["rounds"] = rnd + 1
        listed_ids = {e["id"] for e in vlib.known_findings(pid)}
        if any(not (d.get("known") and d["known"] in listed_ids) for d in res["disagreements"]):
            break        # an unlisted disagreement: report it now
    stats = res["stats"] if res else {}
    n = 0
    listed = {e["id"]: e for e in vlib.known_findings(pid)}
    if res:
        for d in res["disagreements"]:
            kid = d.get("known")
            if kid and kid in listed:
                known_lines.append("%s %s" % (kid, listed[kid]["what"]))
                continue
            n += 1
            if n > 5:
                break
            if n == 1 and not args.replay and getattr(mod, "SHRINK_TEXT", False) and not os.environ.get("VERIF_NO_SHRINK"):
                d = shrink(mod, tier, d)
            path = vlib.write_replay(pid, seed, n, {
                "property": pid, "broken": d.get("broken", "corr_" + pid), "seed": seed, "tier": tier,
                "case": d["case"], "impl_observable": d.get("impl"), "model_observable": d.get("model"),
                "spec_verdict": d.get("spec") or "no-failing-input-found", "known_class": None, "note": d.get("note"),
                "shrunk_from_lines": d.get("shrunk_from_lines")})
            violations.append((path, "" if d.get("spec") else " no-failing-input-found"))
    if proof_problems:
        path = vlib.write_replay(pid, seed, 90, {
            "property": pid, "broken": "proof obligations of Props/%s.v" % pid, "problems": proof_problems,
            "spec_verdict": "no-failing-input-found"})
        if not violations:
            violations.append((path, " no-failing-input-found"))
    # ---- 4. evidence
    cov = dict(stats)
    cov.update({
        "obligations": obligations, "discharged": discharged,
        "theorems": details,
        "checker_cmd": "make -C coq (coq_makefile, full .vo) && coqc -Q coq SLT coq/Props/%s.v  [Print Assumptions per theorem]; python3 tools/vcheck.py %s --tier %s" % (pid, pid, tier),
        "trusted_base": vlib.TRUSTED_BASE + getattr(mod, "TRUSTED_EXTRA", []),
        "proof_problems": proof_problems,
        "coqchk": chk if chk is not None else "not run in this tier (thorough only)",
        "known_findings_hit": sorted(set(known_lines)),
    })
    if not args.replay:      # a replay is a diagnostic run of one case: it does not describe what the check covers
        vlib.write_evidence(pid, tier, seed, cov, getattr(mod, "ASSUMPTIONS", []), time.time() - t0, len(violations))
    for k in sorted(set(known_lines)):
        print("KNOWN-FINDING: property=%s %s" % (pid, k))
    if args.replay and res:
        print(json.dumps(res.get("observables", [])[:1], indent=1, ensure_ascii=False))
    for path, suffix in violations:
        print("VIOLATION property=%s replay=%s%s" % (pid, path, suffix))
    if violations:
        return 1
    print("OK property=%s tier=%s seed=%d evaluations=%s theorems=%d/%d wall=%.1fs" % (
        pid, tier, seed, stats.get("evaluations"), discharged, obligations, time.time() - t0))
    return 0


if __name__ == "__main__":
    main()
