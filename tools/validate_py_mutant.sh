#!/bin/bash
# usage: validate_py_mutant.sh <worktree> <mutdir> <demo.py>  — for seeded changes whose demonstration drives the built CLI:
# confirm the demo passes on the clean worktree, fails with the patch, and the workspace suite passes with the patch
set -u
wt="$1"; m="$2"; demo="$3"
export CARGO_TARGET_DIR="$wt/target" CARGO_NET_OFFLINE=true
cd "$wt" || exit 3
git checkout -q -- . ; git clean -fdq -e out -e target
cargo build -q -p sqllogictest-bin --offline 2>/dev/null || { echo "BUILD-FAILED clean"; exit 3; }
python3 "$m/demo/$demo" "$wt/target/debug/sqllogictest" >/tmp/pydemo_$$.log 2>&1; clean_rc=$?
git apply "$m/patch.diff" || { echo "APPLY-FAILED"; exit 3; }
cargo build -q -p sqllogictest-bin --offline 2>/dev/null || { echo "BUILD-FAILED mutant"; git checkout -q -- .; exit 3; }
python3 "$m/demo/$demo" "$wt/target/debug/sqllogictest" >/tmp/pydemo_$$.log 2>&1; mut_rc=$?
cargo test -q --workspace --no-fail-fast --offline >/tmp/suite_$$.log 2>&1; suite_rc=$?
git checkout -q -- . ; git clean -fdq -e out -e target
rm -f /tmp/pydemo_$$.log /tmp/suite_$$.log
echo "demo_clean_rc=$clean_rc demo_mutant_rc=$mut_rc suite_rc=$suite_rc"
[ $clean_rc -eq 0 ] && [ $mut_rc -ne 0 ] && [ $suite_rc -eq 0 ] && echo "VALID" || echo "NOT-VALID"
