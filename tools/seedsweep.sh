#!/bin/bash
# usage: seedsweep.sh "<seeds>" "<pids>"  — run quick checks over several seeds, print non-OK outcomes
cd /verif
for sd in $1; do for p in $2; do
  out=$(VERIF_SEED=$sd timeout 1500 python3 tools/vcheck.py $p --tier quick 2>&1 | grep -E "^(OK|VIOLATION|INFRA|Traceback)" | head -3 | tr '\n' ' ')
  echo "seed=$sd $p: $out"
done; done
