"""runfam.py — helpers for the 'run' correspondence family: a script (text) is parsed by
the real parser and executed by the real Runner against the scripted mock database; the
model receives the records *as the implementation parsed them* plus the same script of
answers, and must produce the same per-record verdicts/outputs and the same event trace."""
import vlib


def impl_case(text, answers=(), default_answer=None, sys=(), sys_default=None, mode="each",
              strict_cols=False, labels=(), vars=(), hash_threshold=None, engine_name="",
              make_fail=(), shutdown=False, coltype="default", oracle_texts=(), meta=None, name="t.slt", env=()):
    return {
        "text": text, "answers": list(answers), "default_answer": default_answer,
        "sys": list(sys), "sys_default": sys_default, "mode": mode, "strict_cols": strict_cols,
        "labels": list(labels), "vars": sorted([list(kv) for kv in vars]),
        "hash_threshold": hash_threshold, "engine_name": engine_name,
        "make_fail": list(make_fail), "shutdown": shutdown, "coltype": coltype,
        "oracle_texts": list(oracle_texts), "meta": meta or {}, "name": name, "env": [list(kv) for kv in env],
    }


def model_case(case, out):
    """wire value for the model's run_case, or None when the implementation did not parse."""
    if "panic" in out or out.get("parse", ["err"])[0] != "ok":
        return None
    return [
        case["mode"],
        out["parse"][1],
        out.get("oracle", []),
        bool(case["strict_cols"]),
        case["labels"],
        case["vars"],
        case["hash_threshold"] or 0,
        case["engine_name"],
        case["answers"],
        case["default_answer"] or ["complete", 0],
        case["make_fail"],
        case["sys"],
        case["sys_default"] or ["exit", 0, "", ""],
        bool(case["shutdown"]),
        case.get("env", []),
    ]


def canon_events(evs):
    evs = vlib.norm(evs)
    # Connections::shutdown_all iterates a HashMap: order of the closes is unspecified
    k = len(evs)
    while k > 0 and evs[k - 1][0] == "shutdown":
        k -= 1
    return evs[:k] + sorted(evs[k:])


def drop_detail(r):
    """the 5th element of an err result (message detail) is not produced by the model"""
    if isinstance(r, list) and r and r[0] == "err":
        return r[:4]
    return r


def observe_impl(case, out):
    if "panic" in out:
        return {"panic": out["panic"]}
    if out["parse"][0] != "ok":
        return {"parse_err": vlib.norm(out["parse"])}
    o = {"events": canon_events(out["events"])}
    # background system commands are observed through the marker files they create (see the harness)
    o["bg"] = sorted("touch %s/%s" % (case["bgdir"], n) for n in out.get("bg_markers", [])) if case.get("bgdir") else []
    if case["mode"] == "each":
        o["results"] = [drop_detail(r) for r in vlib.norm(out["results"])]
        o["details"] = [r[4] if r and r[0] == "err" and len(r) > 4 else None for r in out["results"]]
    else:
        o["final"] = drop_detail(vlib.norm(out["final"]))
        o["detail"] = out["final"][4] if out["final"][0] == "err" and len(out["final"]) > 4 else None
    return o


def observe_model(case, mout):
    if mout == "panic":
        return {"panic": "model predicts a panic of the implementation"}
    if not isinstance(mout, list):
        return {"model_error": mout}
    evs = canon_events(mout[1])
    o = {"events": [e for e in evs if e[0] != "bg"], "bg": sorted(e[1] for e in evs if e[0] == "bg")}
    if case["mode"] == "each":
        o["results"] = mout[0]
    else:
        o["final"] = mout[0]
    return o
