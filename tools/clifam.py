"""clifam.py — file sets and engine scenarios for the CLI properties (C16, C17, C19)."""
import re


def case_name(path):
    return re.sub(r"[ .\-/]", "_", path)


def make_set(rng, nfiles, kinds=None, parallel=True, start=0):
    """returns (files [[path, content]], rules, truth {path: 'ok'|'fail'}, info)"""
    files, rules, truth, info = [], [], {}, {}
    kinds = kinds or ["pass", "pass", "pass", "fail", "fail", "parse", "dies", "nostart"]
    names = ["t/a%02d.slt", "t/b %02d.slt", "t/sub/c-%02d.slt", "t/d.%02d.slt"]
    for i in range(start, start + nfiles):
        path = rng.choice(names) % i
        tag = "F%02d" % i
        kind = rng.choice(kinds)
        if kind == "nostart" and not parallel:
            kind = "dies"
        nrec = rng.randint(1, 4)
        body = "control substitution on\n\n"
        for k in range(1, nrec + 1):
            if k == 2 and rng.random() < 0.5:
                body += "connection c2\n"
            if rng.random() < 0.5:
                body += "statement ok\nselect %s_%d $__DATABASE__\n\n" % (tag, k)
            else:
                body += "query I\nselect %s_%d $__DATABASE__\n----\n1\n\n" % (tag, k)
        if kind == "panic":
            # known finding D9: the per-file task panics inside the substitution crate
            body += "statement ok\nselect %s_9 $\n\n" % tag
            truth[path] = "fail"
        elif kind == "parse":
            pos = rng.choice(["top", "end"])
            body = ("statemnt ok\nselect 1\n\n" + body) if pos == "top" else (body + "statemnt ok\nselect 1\n")
            truth[path] = "fail"
        elif kind == "fail":
            k = rng.randint(1, nrec)
            rules.append({"match": "%s_%d" % (tag, k), "err": "boom %s" % tag})
            truth[path] = "fail"
        elif kind == "dies":
            k = rng.randint(1, nrec)
            rules.append({"match": "%s_%d" % (tag, k), "exit_before_reply": True})
            truth[path] = "fail"
        elif kind == "nostart":
            rules.append({"start_db_prefix": case_name(path) + "_", "exit_at_start": True})
            truth[path] = "fail"
        else:
            truth[path] = "ok"
        lat = rng.choice([0, 0, 5, 20, 60, 150])
        if lat:
            rules.append({"match": tag + "_", "delay_ms": lat})
        files.append([path, body])
        info[path] = {"tag": tag, "kind": kind, "nrec": nrec, "latency": lat}
    return files, rules, truth, info
