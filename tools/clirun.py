"""clirun.py — driving the real `sqllogictest` binary (built from /repo's working tree) against the
scripted fake engine: temp tree, scenario, invocation, engine-side event log, stdout, exit status, JUnit."""
import json
import os
import shutil
import subprocess
import tempfile
import xml.etree.ElementTree as ET
import vlib


class Sandbox:
    def __init__(self, tag="cli"):
        os.makedirs(os.path.join(vlib.CACHE, "tmp"), exist_ok=True)
        self.dir = tempfile.mkdtemp(prefix=tag + "_", dir=os.path.join(vlib.CACHE, "tmp"))
        self.log = os.path.join(self.dir, "engine.log")
        self.scen = os.path.join(self.dir, "scenario.json")

    def write_files(self, files):
        for rel, content in files:
            p = os.path.join(self.dir, rel)
            os.makedirs(os.path.dirname(p), exist_ok=True)
            with open(p, "w", newline="") as f:
                f.write(content)

    def run(self, args, scenario=None, env=None, timeout=60, engine_ok=True):
        json.dump(scenario or {"rules": []}, open(self.scen, "w"))
        if os.path.exists(self.log):
            os.remove(self.log)
        tmpl = "%s engine %s %s {db}" % (vlib.FAKE_ENGINE, self.scen, self.log) if engine_ok else "/nonexistent/engine {db}"
        cmd = [vlib.CLI, "--engine", "external", "--external-engine-command-template", tmpl, "--color", "never"] + args
        e = dict(os.environ)
        for k in ("SLT_PARTITION_ID", "SLT_PARTITION_COUNT", "BUILDKITE_PARALLEL_JOB", "BUILDKITE_PARALLEL_JOB_COUNT", "SLT_FAIL_FAST", "SLT_KEEP_DB_ON_FAILURE", "RUST_LOG"):
            e.pop(k, None)
        e.update(env or {})
        e["RUST_BACKTRACE"] = "0"
        try:
            p = subprocess.run(cmd, cwd=self.dir, env=e, stdout=subprocess.PIPE, stderr=subprocess.PIPE, timeout=timeout)
            rc, so, se, hung = p.returncode, p.stdout.decode("utf-8", "replace"), p.stderr.decode("utf-8", "replace"), False
        except subprocess.TimeoutExpired as ex:
            rc, so, se, hung = None, (ex.stdout or b"").decode("utf-8", "replace"), (ex.stderr or b"").decode("utf-8", "replace"), True
        import time
        t_end = time.monotonic_ns()      # CLOCK_MONOTONIC, the clock the engine processes stamp their events with
        events = []
        if os.path.exists(self.log):
            for l in open(self.log):
                try:
                    ev = json.loads(l)
                    ev["t"] = int(ev["t"])
                    events.append(ev)
                except Exception:
                    pass
        events.sort(key=lambda e: e["t"])
        return {"rc": rc, "stdout": so, "stderr": se, "hung": hung, "events": events, "t_end": t_end}

    def junit(self, name):
        p = os.path.join(self.dir, name + "-junit.xml")
        if not os.path.exists(p):
            return None
        root = ET.parse(p).getroot()
        suites = root.findall("testsuite") if root.tag == "testsuites" else [root]
        cases = []
        for s in suites:
            for tc in s.findall("testcase"):
                st = "success"
                if tc.find("failure") is not None or tc.find("error") is not None:
                    st = "failure"
                elif tc.find("skipped") is not None:
                    st = "skipped"
                cases.append((tc.get("name"), st))
        tot = {k: root.get(k) for k in ("tests", "failures", "errors", "disabled")}
        stot = {k: suites[0].get(k) for k in ("tests", "failures", "errors", "disabled")} if suites else {}
        return {"cases": cases, "totals": tot, "suite_totals": stot}

    def close(self):
        shutil.rmtree(self.dir, ignore_errors=True)


def status_lines(stdout):
    """[(path, tag)] in the order the per-file reports appear"""
    out = []
    import re
    for l in stdout.split("\n"):
        m = re.match(r"^(\S.*?)\s+\.\. (.*)$", l)
        if m:
            g = m.group(2)
            tag = ("OK" if "[OK]" in g else "SKIPPED" if "[SKIPPED]" in g else "FAILED" if "[FAILED]" in g
                   else "CANCELLED" if "[CANCELLED]" in g else None)
            out.append([m.group(1).strip(), tag, l])
        elif l.startswith("[FAILED]") and out:
            out[-1][1] = "FAILED"
        elif l.startswith("[CANCELLED]") and out:
            if out[-1][1] is None or out[-1][0].startswith("|"):
                out[-1][1] = "CANCELLED"
            else:
                # the previous file's report is already complete: this line reports on a file it does not name (defect D20, fixed)
                out.append(["", "CANCELLED", l])
    return out
