(* driver.ml — generic runner for the extracted model.
   usage: model_run <family>   (cases on stdin, one per line; results on stdout)
   Wire format (prefix, blank separated): N <decimal> | S <len> <cp>* | L <len> <val>* *)
module M = Model
open M (* constructors *)
type string = Stdlib.String.t
let length = Stdlib.List.length

let rec pos_of_int (i : int) : positive =
  if i = 1 then XH
  else if i land 1 = 0 then XO (pos_of_int (i lsr 1))
  else XI (pos_of_int (i lsr 1))
let n_of_int (i : int) : n = if i = 0 then N0 else Npos (pos_of_int i)

(* decimal string -> N without going through OCaml ints (values may exceed 2^62) *)
let n_of_dec (s : string) : n =
  if Stdlib.String.length s <= 18 then n_of_int (int_of_string s)
  else begin
    let acc = ref N0 in
    let ten = n_of_int 10 in
    Stdlib.String.iter (fun c -> acc := N.add (N.mul !acc ten) (n_of_int (Stdlib.Char.code c - 48))) s;
    !acc
  end

let rec int_of_pos (p : positive) : int =
  match p with XH -> 1 | XO q -> 2 * int_of_pos q | XI q -> 2 * int_of_pos q + 1
let int_of_n (x : n) : int = match x with N0 -> 0 | Npos p -> int_of_pos p

let rec pos_bits (p : positive) : int = match p with XH -> 1 | XO q | XI q -> 1 + pos_bits q

(* N -> decimal string, exact for any size *)
let dec_of_n (x : n) : string =
  match x with
  | N0 -> "0"
  | Npos p when pos_bits p <= 61 -> string_of_int (int_of_pos p)
  | _ ->
    let ten = n_of_int 10 in
    let buf = Stdlib.Buffer.create 32 in
    let cur = ref x in
    let digits = ref [] in
    while !cur <> N0 do
      let (q, r) = N.div_eucl !cur ten in
      digits := (int_of_n r) :: !digits;
      cur := q
    done;
    Stdlib.List.iter (fun d -> Stdlib.Buffer.add_char buf (Stdlib.Char.chr (48 + d))) !digits;
    Stdlib.Buffer.contents buf

let parse_line (line : string) : val0 =
  let toks = Stdlib.Array.of_list (Stdlib.List.filter (fun s -> s <> "") (Stdlib.String.split_on_char ' ' line)) in
  let pos = ref 0 in
  let next () = let t = toks.(!pos) in incr pos; t in
  let rec value () : val0 =
    match next () with
    | "N" -> VN (n_of_dec (next ()))
    | "S" ->
      let k = int_of_string (next ()) in
      let rec go i acc = if i = 0 then Stdlib.List.rev acc else go (i - 1) (n_of_int (int_of_string (next ())) :: acc) in
      VS (go k [])
    | "L" ->
      let k = int_of_string (next ()) in
      let rec go i acc = if i = 0 then Stdlib.List.rev acc else let v = value () in go (i - 1) (v :: acc) in
      VL (go k [])
    | t -> failwith ("bad token " ^ t)
  in
  value ()

let rec print_val (b : Stdlib.Buffer.t) (v : val0) : unit =
  match v with
  | VN x -> Stdlib.Buffer.add_string b "N "; Stdlib.Buffer.add_string b (dec_of_n x); Stdlib.Buffer.add_char b ' '
  | VS s ->
    Stdlib.Buffer.add_string b "S "; Stdlib.Buffer.add_string b (string_of_int (Stdlib.List.length s)); Stdlib.Buffer.add_char b ' ';
    Stdlib.List.iter (fun c -> Stdlib.Buffer.add_string b (string_of_int (int_of_n c)); Stdlib.Buffer.add_char b ' ') s
  | VL l ->
    Stdlib.Buffer.add_string b "L "; Stdlib.Buffer.add_string b (string_of_int (Stdlib.List.length l)); Stdlib.Buffer.add_char b ' ';
    Stdlib.List.iter (print_val b) l

let str_of_string (s : string) : n list =
  Stdlib.List.init (Stdlib.String.length s) (fun i -> n_of_int (Stdlib.Char.code s.[i]))

let () =
  let fam = str_of_string Stdlib.Sys.argv.(1) in
  let b = Stdlib.Buffer.create 65536 in
  (try
    while true do
      let line = input_line stdin in
      if Stdlib.String.trim line <> "" then begin
        Stdlib.Buffer.clear b;
        (try print_val b (model_main fam (parse_line line))
         with Stack_overflow -> Stdlib.Buffer.clear b; Stdlib.Buffer.add_string b "S 14 115 116 97 99 107 45 111 118 101 114 102 108 111 119 ");
        print_string (Stdlib.Buffer.contents b); print_newline ()
      end
    done
  with End_of_file -> ())
