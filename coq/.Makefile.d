Base.vo Base.glob Base.v.beautified Base.required_vo: Base.v 
Base.vio: Base.v 
Base.vos Base.vok Base.required_vos: Base.v 
Text.vo Text.glob Text.v.beautified Text.required_vo: Text.v Base.vo
Text.vio: Text.v Base.vio
Text.vos Text.vok Text.required_vos: Text.v Base.vos
MD5.vo MD5.glob MD5.v.beautified MD5.required_vo: MD5.v Base.vo Text.vo
MD5.vio: MD5.v Base.vio Text.vio
MD5.vos MD5.vok MD5.required_vos: MD5.v Base.vos Text.vos
Syntax.vo Syntax.glob Syntax.v.beautified Syntax.required_vo: Syntax.v Base.vo Text.vo
Syntax.vio: Syntax.v Base.vio Text.vio
Syntax.vos Syntax.vok Syntax.required_vos: Syntax.v Base.vos Text.vos
Shape.vo Shape.glob Shape.v.beautified Shape.required_vo: Shape.v Syntax.vo MD5.vo
Shape.vio: Shape.v Syntax.vio MD5.vio
Shape.vos Shape.vok Shape.required_vos: Shape.v Syntax.vos MD5.vos
Judge.vo Judge.glob Judge.v.beautified Judge.required_vo: Judge.v Shape.vo
Judge.vio: Judge.v Shape.vio
Judge.vos Judge.vok Judge.required_vos: Judge.v Shape.vos
Decode.vo Decode.glob Decode.v.beautified Decode.required_vo: Decode.v Syntax.vo
Decode.vio: Decode.v Syntax.vio
Decode.vos Decode.vok Decode.required_vos: Decode.v Syntax.vos
Runner.vo Runner.glob Runner.v.beautified Runner.required_vo: Runner.v Judge.vo
Runner.vio: Runner.v Judge.vio
Runner.vos Runner.vok Runner.required_vos: Runner.v Judge.vos
Entry.vo Entry.glob Entry.v.beautified Entry.required_vo: Entry.v Decode.vo Runner.vo
Entry.vio: Entry.v Decode.vio Runner.vio
Entry.vos Entry.vok Entry.required_vos: Entry.v Decode.vos Runner.vos
ShapeProofs.vo ShapeProofs.glob ShapeProofs.v.beautified ShapeProofs.required_vo: ShapeProofs.v Judge.vo
ShapeProofs.vio: ShapeProofs.v Judge.vio
ShapeProofs.vos ShapeProofs.vok ShapeProofs.required_vos: ShapeProofs.v Judge.vos
