(* RetryProofs.v — the retry loop of run_async (C09): it executes exactly the attempts up
   to and including the first passing one, at most n, sleeps the backoff after every failed
   attempt, and returns the verdict of the last executed attempt. *)
From SLT Require Import Runner.
Open Scope N_scope.

Section RetrySpec.
  Variables St Out : Type.
  Variable attempt : St -> list event * St * Out * verdict.
  Variable no_output : Out.

  Notation result := (list event * St * Out * verdict)%type.

  Definition r_events (a : result) : list event := fst (fst (fst a)).
  Definition r_state (a : result) : St := snd (fst (fst a)).
  Definition r_output (a : result) : Out := snd (fst a).
  Definition r_verdict (a : result) : verdict := snd a.
  Definition passes (a : result) : bool := match r_verdict a with Pass => true | _ => false end.

  (* what the i-th attempt does if all the earlier ones failed *)
  Fixpoint potential (n : nat) (s : St) : list result :=
    match n with
    | O => []
    | S n' => let a := attempt s in a :: potential n' (r_state a)
    end.

  Fixpoint upto_first_pass (l : list result) : list result :=
    match l with
    | [] => []
    | a :: r => if passes a then [a] else a :: upto_first_pass r
    end.

  Fixpoint first_pass (l : list result) : option nat :=
    match l with
    | [] => None
    | a :: r => if passes a then Some O else option_map S (first_pass r)
    end.

  (* the attempts the loop really performs *)
  Definition executed (n : nat) (s : St) : list result := upto_first_pass (potential n s).

  Definition trace_of (d : N) (ex : list result) : list event :=
    concat (map (fun a => r_events a ++ if passes a then [] else [ESleep d]) ex).

  Definition last_of {A} (l : list A) (dflt : A) : A := last l dflt.

  Lemma r_events_mk e s o v : r_events (e, s, o, v) = e. Proof. reflexivity. Qed.
  Lemma r_state_mk e s o v : r_state (e, s, o, v) = s. Proof. reflexivity. Qed.
  Lemma r_output_mk e s o v : r_output (e, s, o, v) = o. Proof. reflexivity. Qed.
  Lemma r_verdict_mk e s o v : r_verdict (e, s, o, v) = v. Proof. reflexivity. Qed.

  Lemma retry_gen_S n d s lastv :
    retry_gen St Out attempt no_output (S n) d s lastv =
      let a := attempt s in
      if passes a then a
      else let r := retry_gen St Out attempt no_output n d (r_state a) (r_verdict a) in
           (r_events a ++ [ESleep d] ++ r_events r, r_state r, r_output r, r_verdict r).
  Proof.
    cbn. destruct (attempt s) as [[[ev s1] o] v]. unfold passes, r_verdict, r_state, r_events, r_output. cbn [fst snd].
    destruct v; cbn; try reflexivity;
      destruct (retry_gen St Out attempt no_output n d s1 _) as [[[ev2 s2] o2] v2]; reflexivity.
  Qed.

  Lemma last_cons_ne {A} (x : A) (l : list A) (d1 d2 : A) : l <> [] -> last (x :: l) d1 = last l d2.
  Proof.
    revert x; induction l as [|y l IH]; intros x H; [congruence|].
    destruct l as [|z l]; [reflexivity|]. cbn in *. apply (IH y). discriminate.
  Qed.

  Lemma executed_nonempty n s : executed (S n) s <> [].
  Proof. unfold executed. cbn. destruct (passes (attempt s)); discriminate. Qed.

  Lemma retry_gen_spec n d : forall s lastv,
    let ex := executed n s in
    let res := retry_gen St Out attempt no_output n d s lastv in
    r_events res = trace_of d ex /\
    r_verdict res = last_of (map r_verdict ex) lastv /\
    r_state res = last_of (map r_state ex) s /\
    (passes res = true -> r_output res = last_of (map r_output ex) no_output).
  Proof.
    induction n as [|n IH]; intros s lastv.
    - cbn. repeat split; auto.
    - cbv zeta. rewrite retry_gen_S. cbv zeta. unfold executed. cbn [potential upto_first_pass].
      fold (executed n (r_state (attempt s))).
      destruct (passes (attempt s)) eqn:P.
      + unfold trace_of. cbn [map concat]. rewrite P, !app_nil_r. unfold last_of. cbn. repeat split; auto.
      + destruct (IH (r_state (attempt s)) (r_verdict (attempt s))) as (E1 & E2 & E3 & E4).
        cbv zeta in E1, E2, E3, E4.
        set (r := retry_gen St Out attempt no_output n d (r_state (attempt s)) (r_verdict (attempt s))) in *.
        set (ex := executed n (r_state (attempt s))) in *.
        unfold passes at 1. rewrite r_events_mk, r_verdict_mk, r_state_mk, r_output_mk.
        repeat split.
        * unfold trace_of. cbn [map concat]. rewrite P. fold (trace_of d ex). rewrite <- E1. now rewrite <- app_assoc.
        * rewrite E2. unfold last_of. cbn [map]. destruct (map r_verdict ex) as [|v0 l0]; [reflexivity|]. symmetry; apply last_cons_ne; discriminate.
        * rewrite E3. unfold last_of. cbn [map]. destruct (map r_state ex) as [|v0 l0]; [reflexivity|]. symmetry; apply last_cons_ne; discriminate.
        * intros Pr. fold (passes r) in Pr. destruct n as [|n'].
          -- cbn in r. subst r. unfold passes, r_verdict in Pr, P. cbn [snd] in Pr. rewrite P in Pr. discriminate.
          -- rewrite (E4 Pr). unfold last_of. cbn [map].
             assert (Hne : map r_output ex <> []).
             { subst ex. intros H. apply map_eq_nil in H. now apply executed_nonempty in H. }
             destruct (map r_output ex) as [|v0 l0]; [congruence|]. symmetry; apply last_cons_ne; discriminate.
  Qed.

  Lemma potential_length n s : length (potential n s) = n.
  Proof. revert s; induction n as [|n IH]; intros s; cbn; auto. Qed.

  (* number of executions = index of the first passing attempt (1-based), capped by n *)
  Lemma executed_count l :
    length (upto_first_pass l) = match first_pass l with Some i => S i | None => length l end.
  Proof.
    induction l as [|a l IH]; cbn; [reflexivity|].
    destruct (passes a); cbn; [reflexivity|]. rewrite IH. destruct (first_pass l); reflexivity.
  Qed.

  Lemma first_pass_bound l i : first_pass l = Some i -> (i < length l)%nat.
  Proof.
    revert i; induction l as [|a l IH]; cbn; intros i H; [discriminate|].
    destruct (passes a); [inversion H; lia|].
    destruct (first_pass l) as [j|]; cbn in H; [|discriminate]. inversion H; subst.
    specialize (IH j eq_refl). lia.
  Qed.

  Lemma execution_count n s :
    length (executed n s) =
      match first_pass (potential n s) with Some i => S i | None => n end /\
    (forall i, first_pass (potential n s) = Some i -> (i < n)%nat).
  Proof.
    unfold executed. rewrite executed_count. split.
    - destruct (first_pass (potential n s)); [reflexivity|apply potential_length].
    - intros i H. apply first_pass_bound in H. now rewrite potential_length in H.
  Qed.

  (* every executed attempt but the last failed; nothing is executed after a pass *)
  Lemma executed_shape l :
    Forall (fun a => passes a = false) (removelast (upto_first_pass l)) /\
    (forall a, last (map Some (upto_first_pass l)) None = Some a ->
       passes a = true \/ first_pass l = None).
  Proof.
    induction l as [|a l [IH1 IH2]]; cbn; [split; [constructor|discriminate]|].
    destruct (passes a) eqn:P.
    - cbn. split; [constructor|]. intros b H. inversion H; subst. auto.
    - split.
      + destruct (upto_first_pass l) eqn:U; cbn; [constructor|]. constructor; auto.
      + intros b H. destruct (upto_first_pass l) as [|c u] eqn:U; cbn in H.
        * inversion H; subst. right. destruct l as [|c l]; cbn in *; [reflexivity|].
          destruct (passes c); discriminate.
        * destruct (IH2 b H) as [Hb|Hn]; auto. right. now rewrite Hn.
  Qed.

  Lemma pass_iff_some_attempt_passes l lastv :
    lastv <> Pass ->
    (last_of (map r_verdict (upto_first_pass l)) lastv = Pass <-> existsb passes l = true).
  Proof.
    clear attempt no_output. intros L. induction l as [|a l IH]; cbn.
    - split; [congruence|discriminate].
    - destruct (passes a) eqn:P; cbn.
      + unfold passes in P. destruct (r_verdict a); try discriminate. tauto.
      + rewrite <- IH. unfold last_of. cbn.
        destruct (map r_verdict (upto_first_pass l)) eqn:M; cbn; [|tauto].
        unfold passes in P. destruct (r_verdict a); try discriminate; split; congruence.
  Qed.
End RetrySpec.

(* ---- the instance used by Runner::run_async *)
Section RunAsync.
  Variable re : str -> str -> bool.
  Variable substitute : bool -> list (str * str) -> str -> subres.
  Variable sc : script.

  Definition att (r : record) := attempt_record re substitute sc r.

  Theorem run_async_retry st w r rt :
    record_retry r = Some rt ->
    let n := N.to_nat (attempts rt) in
    let ex := executed _ _ (att r) n (st, w) in
    let '(ev, st', w', o, v) := run_async re substitute sc st w r in
    ev = trace_of _ _ (backoff rt) ex /\
    v = last_of (map (r_verdict _ _) ex) Unreachable /\
    (st', w') = last_of (map (r_state _ _) ex) (st, w) /\
    (v = Pass -> o = last_of (map (r_output _ _) ex) ONothing).
  Proof.
    intros R. cbv zeta. unfold run_async. rewrite R. unfold retry_loop.
    pose proof (retry_gen_spec _ _ (att r) ONothing (N.to_nat (attempts rt)) (backoff rt) (st, w) Unreachable) as H.
    cbv zeta in H. unfold att in *.
    destruct (retry_gen (rstate * world) routput (attempt_record re substitute sc r) ONothing
                (N.to_nat (attempts rt)) (backoff rt) (st, w) Unreachable) as [[[ev sw] o] v].
    destruct H as (E1 & E2 & E3 & E4).
    rewrite r_events_mk in E1. rewrite r_verdict_mk in E2. rewrite r_state_mk in E3. rewrite r_output_mk in E4.
    repeat split; auto.
    - rewrite <- E3. destruct sw; reflexivity.
    - intros ->. apply E4. reflexivity.
  Qed.

  Theorem run_async_no_retry st w r :
    record_retry r = None ->
    run_async re substitute sc st w r = run_no_retry re substitute sc st w r.
  Proof. intros R. unfold run_async. now rewrite R. Qed.
End RunAsync.
