(* UpdateFs.v — the link between the two models of update_test_file:
     (a) Update.v   [update_loop]: record list -> (file, final bytes) list, and
     (b) FsUpdate.v [ops_of] / [closed_of]: write events -> file-system operations,
   and the instances of the C08 theorems (FsProofs.v / Props/C08.v) for the updater.

   [wevs_loop] is [update_loop] instrumented: the same recursion, the same threading of the
   runner state, the world and the one halt flag, for either value of [format_only]; instead
   of accumulating texts it emits the write events.  Where [update_loop] panics (a record with
   no display, the trimmer, no open file) the event list STOPS: nothing is written after a
   panic, and a close whose trimmer panics issues no rename (the trimmer panics, if at all, in
   its first pass, before any truncation: FsProofs.trim_ops_panic). *)
From Coq Require Import String.
From SLT Require Import TextProofs Runner Update UpdateSpec UpdateProofs
                        UpdateFile1 UpdateFile3 UpdateFile FsTrim FsUpdate FsProofs IncludeSpec.
Open Scope N_scope.

(* ------------------------------------------------------------------ small facts *)
Lemma utf8_app a b : utf8 (a ++ b) = utf8 a ++ utf8 b.
Proof. unfold utf8. apply flat_map_app. Qed.

(* the included files of a flattened record list, in the order of their begin markers *)
Definition included_files (rs : list record) : list str :=
  flat_map (fun r => match r with RBeginInclude f => [f] | _ => [] end) rs.

(* the include markers are balanced (IncludeSpec.nested without the file names):
   [d] = number of included files currently open *)
Fixpoint mbal (d : nat) (rs : list record) : bool :=
  match rs with
  | [] => Nat.eqb d 0
  | RBeginInclude _ :: r => mbal (S d) r
  | REndInclude _ :: r => match d with O => false | S d' => mbal d' r end
  | _ :: r => mbal d r
  end.

(* every list produced by Include.expand is balanced (IncludeProofs.expand_nested) *)
Lemma nested_mbal : forall rs stack, nested stack rs = true -> mbal (length stack) rs = true.
Proof.
  induction rs as [|r rest IH]; intros stack H.
  - cbn [nested] in H. destruct stack; [reflexivity|discriminate H].
  - destruct r; cbn [nested mbal] in *; try (apply IH; exact H).
    + apply (IH (file :: stack)). exact H.
    + destruct stack as [|g stk]; [discriminate H|].
      apply andb_true_iff in H. destruct H as [_ H]. cbn [length]. apply IH. exact H.
Qed.

Lemma assoc_bytes_In k c : forall l, assoc_bytes k l = Some c -> In (k, c) l.
Proof.
  induction l as [|[k' v] l IH]; cbn [assoc_bytes]; intros H; [discriminate H|].
  destruct (str_eqb_spec k k') as [E|_].
  - inversion H; subst. left. reflexivity.
  - right. apply IH. exact H.
Qed.

Lemma Forall2_In_right {A B} (R : A -> B -> Prop) l1 l2 b :
  Forall2 R l1 l2 -> In b l2 -> exists a, In a l1 /\ R a b.
Proof.
  intros H. induction H as [|x y l1 l2 Hxy _ IH]; intros Hb; [destruct Hb|].
  destruct Hb as [<-|Hb].
  - exists x. split; [left; reflexivity|exact Hxy].
  - destruct (IH Hb) as (a & Ha & Hr). exists a. split; [right; exact Ha|exact Hr].
Qed.

(* [closed_of] only reports live files, and reports a file of a duplicate-free tree once *)
Lemma closed_of_live : forall evs st f c,
  In (f, c) (closed_of evs st) -> In f (live st evs).
Proof.
  induction evs as [|e r IH]; intros st f c H; [destruct H|].
  destruct e as [g|bs|].
  - rewrite (live_open g []). apply (IH _ _ _ H).
  - destruct st as [|[g c0] st]; cbn [closed_of] in H.
    + apply (IH _ _ _ H).
    + change (live ((g, c0) :: st) (WWrite bs :: r)) with (live ((g, c0 ++ bs) :: st) r).
      apply (IH _ _ _ H).
  - destruct st as [|[g c0] st]; cbn [closed_of] in H.
    + apply (IH _ _ _ H).
    + change (live ((g, c0) :: st) (WClose :: r)) with (live ((g, c0) :: st) r).
      destruct H as [H|H].
      * inversion H; subst. apply live_top.
      * apply live_tail. apply (IH _ _ _ H).
Qed.

Lemma closed_of_assoc : forall evs st f c,
  NoDup (live st evs) -> In (f, c) (closed_of evs st) -> assoc_bytes f (closed_of evs st) = Some c.
Proof.
  induction evs as [|e r IH]; intros st f c Hnd H; [destruct H|].
  destruct e as [g|bs|].
  - rewrite (live_open g []) in Hnd. cbn [closed_of] in *. apply IH; assumption.
  - destruct st as [|[g c0] st]; cbn [closed_of] in *.
    + apply IH; assumption.
    + change (live ((g, c0) :: st) (WWrite bs :: r)) with (live ((g, c0 ++ bs) :: st) r) in Hnd.
      apply IH; assumption.
  - destruct st as [|[g c0] st]; cbn [closed_of] in *.
    + apply IH; assumption.
    + change (live ((g, c0) :: st) (WClose :: r)) with (live ((g, c0) :: st) r) in Hnd.
      destruct (live_push_nodup g c0 st r Hnd) as [Hnd' Hg].
      cbn [assoc_bytes]. destruct H as [H|H].
      * inversion H; subst. now rewrite str_eqb_refl.
      * destruct (str_eqb_spec f g) as [E|_].
        -- subst f. exfalso. apply Hg. eapply closed_of_live; exact H.
        -- apply IH; assumption.
Qed.

(* ------------------------------------------------------------------ the events of the updater *)
Definition ures_written (u : ures) : list (str * list N) :=
  match u with UOk wr _ _ => wr | UPanic wr _ _ => wr end.

Section Wevs.
  Variable re : str -> str -> bool.
  Variable sep : str.
  Variable strict : bool.
  Variable substitute : bool -> list (str * str) -> str -> subres.
  Variable sc : script.
  Variable format_only : bool.

  Notation apply_record := (apply_record substitute sc).
  Notation update_record := (update_record re sep strict).
  Notation update_loop := (update_loop re sep strict substitute sc format_only).

  (* [write_rec it r], as an event: the bytes appended, then the events of the rest (which
     sees the item with the text appended); no event when the record has no display *)
  Definition wwrite (it : item) (r : record) (k : item -> list wev) : list wev :=
    match display r with
    | Some t => WWrite (utf8 (t ++ [10])) :: k (mkItem (it_file it) (it_text it ++ t ++ [10]))
    | None => []
    end.

  Fixpoint wevs_loop (rs : list record) (stack : list item) (halt : bool) (st : rstate) (w : world)
    : list wev :=
    match rs with
    | [] =>
        match stack with
        | it :: _ => match close_item it with Some _ => [WClose] | None => [] end
        | [] => []
        end
    | r :: rest =>
        match stack with
        | [] => []
        | it :: below =>
            match r with
            | RBeginInclude f => WOpen f :: wevs_loop rest (mkItem f [] :: stack) halt st w
            | REndInclude _ =>
                match close_item it with
                | Some _ => WClose :: wevs_loop rest below halt st w
                | None => []
                end
            | _ =>
                if halt then wwrite it r (fun it' => wevs_loop rest (it' :: below) true st w)
                else match r with
                | RHalt _ => wwrite it r (fun it' => wevs_loop rest (it' :: below) true st w)
                | _ =>
                    if format_only then wwrite it r (fun it' => wevs_loop rest (it' :: below) false st w)
                    else
                    let '(e1, st1, w1, o) := apply_record st w r in
                    let r' := match update_record r o with Some x => x | None => r end in
                    wwrite it r' (fun it' => wevs_loop rest (it' :: below) false st1 w1)
                end
            end
        end
    end.

  (* the whole update of the file [main]: its temp file is opened first *)
  Definition wevs_of (main : str) (rs : list record) (st : rstate) (w : world) : list wev :=
    WOpen main :: wevs_loop rs [mkItem main []] false st w.

  (* an open file of [update_loop] as an open file of [closed_of]: the bytes written so far *)
  Definition enc (it : item) : str * list N := (it_file it, utf8 (it_text it)).

  Lemma wwrite_closed it below r (U : item -> ures) (K : item -> list wev) done pan :
    (forall it', ures_written (U it') = done ++ closed_of (K it') (map enc (it' :: below))) ->
    ures_written pan = done ->
    ures_written (match write_rec it r with Some it' => U it' | None => pan end)
    = done ++ closed_of (wwrite it r K) (map enc (it :: below)).
  Proof.
    intros HU Hp. unfold write_rec, wwrite. destruct (display r) as [t|].
    - rewrite HU. cbn [map closed_of]. unfold enc at 1 3. cbn [it_file it_text].
      rewrite (utf8_app (it_text it)). reflexivity.
    - rewrite Hp. cbn [closed_of]. now rewrite app_nil_r.
  Qed.

  (* ---- (1) whatever the outcome: the files [update_loop] reports as written are exactly the
     files [closed_of] closes, with the same bytes, in the same order *)
  Lemma loop_closed : forall rs stack halt st w done ev kn,
    ures_written (update_loop rs stack halt st w done ev kn)
    = done ++ closed_of (wevs_loop rs stack halt st w) (map enc stack).
  Proof.
    induction rs as [|r rest IH]; intros stack halt st w done ev kn.
    - cbn [Update.update_loop wevs_loop]. destruct stack as [|it below]; [cbn; now rewrite app_nil_r|].
      unfold close_item. destruct (trim_tail (utf8 (it_text it))) as [b|] eqn:T.
      + cbn [ures_written map closed_of]. unfold enc at 1. rewrite T. reflexivity.
      + cbn [ures_written closed_of]. now rewrite app_nil_r.
    - destruct stack as [|it below]; [destruct r; cbn; now rewrite app_nil_r|].
      assert (Hcopy : forall h,
                 ures_written (match write_rec it r with
                               | Some it' => update_loop rest (it' :: below) h st w done ev kn
                               | None => UPanic done ev (map it_file (it :: below))
                               end)
                 = done ++ closed_of (wwrite it r (fun it' => wevs_loop rest (it' :: below) h st w))
                                     (map enc (it :: below))).
      { intros h. apply wwrite_closed; [intros it'; apply IH|reflexivity]. }
      assert (Hexec :
                 ures_written
                   (let '(e1, st1, w1, o) := apply_record st w r in
                    let r' := match update_record r o with Some x => x | None => r end in
                    match write_rec it r' with
                    | Some it' => update_loop rest (it' :: below) false st1 w1 done (ev ++ e1)
                                              (kn ++ known_class sep (cfg st1) r o)
                    | None => UPanic done (ev ++ e1) (map it_file (it :: below))
                    end)
                 = done ++ closed_of
                             (let '(e1, st1, w1, o) := apply_record st w r in
                              let r' := match update_record r o with Some x => x | None => r end in
                              wwrite it r' (fun it' => wevs_loop rest (it' :: below) false st1 w1))
                             (map enc (it :: below))).
      { destruct (apply_record st w r) as [[[e1 st1] w1] o]. cbv zeta.
        apply wwrite_closed; [intros it'; apply IH|reflexivity]. }
      destruct r; cbn [Update.update_loop wevs_loop];
        try (destruct halt; [apply Hcopy | destruct format_only; [apply Hcopy | apply Hexec]]).
      + (* halt *) destruct halt; apply Hcopy.
      + (* begin include *) rewrite IH. reflexivity.
      + (* end include *)
        unfold close_item. destruct (trim_tail (utf8 (it_text it))) as [b|] eqn:T.
        * rewrite IH. cbn [map closed_of]. unfold enc at 2. rewrite T.
          rewrite <- app_assoc. reflexivity.
        * cbn [ures_written closed_of]. now rewrite app_nil_r.
  Qed.

  Lemma update_loop_no_file rs halt st w done ev kn :
    update_loop rs [] halt st w done ev kn = UPanic done ev [].
  Proof. destruct rs; reflexivity. Qed.

  Lemma write_rec_uok it r (U : item -> ures) d e o written ev kn :
    match write_rec it r with Some it' => U it' | None => UPanic d e o end = UOk written ev kn ->
    exists t, display r = Some t /\
              U (mkItem (it_file it) (it_text it ++ t ++ [10])) = UOk written ev kn.
  Proof.
    unfold write_rec. destruct (display r) as [t|]; intros H; [|discriminate H].
    exists t. split; [reflexivity|exact H].
  Qed.

  (* ---- (2) when the update ends in UOk: the files opened are the included files in marker
     order, and the events are balanced exactly when the include markers are *)
  Lemma loop_uok : forall rs stack halt st w done ev0 kn0 written ev kn,
    update_loop rs stack halt st w done ev0 kn0 = UOk written ev kn ->
    opened (wevs_loop rs stack halt st w) = included_files rs /\
    balanced (length stack) (wevs_loop rs stack halt st w) = mbal (pred (length stack)) rs.
  Proof.
    induction rs as [|r rest IH]; intros stack halt st w done ev0 kn0 written ev kn H.
    - cbn [Update.update_loop] in H. destruct stack as [|it below]; [discriminate H|].
      cbn [wevs_loop]. destruct (close_item it); [|discriminate H].
      split; reflexivity.
    - destruct stack as [|it below]; [rewrite update_loop_no_file in H; discriminate H|].
      assert (Hcopy : forall h,
                 included_files (r :: rest) = included_files rest ->
                 (forall d, mbal d (r :: rest) = mbal d rest) ->
                 match write_rec it r with
                 | Some it' => update_loop rest (it' :: below) h st w done ev0 kn0
                 | None => UPanic done ev0 (map it_file (it :: below))
                 end = UOk written ev kn ->
                 let evs := wwrite it r (fun it' => wevs_loop rest (it' :: below) h st w) in
                 opened evs = included_files (r :: rest) /\
                 balanced (length (it :: below)) evs = mbal (pred (length (it :: below))) (r :: rest)).
      { intros h Hi Hm Hc. apply write_rec_uok in Hc. destruct Hc as (t & D & Hc).
        apply IH in Hc. destruct Hc as [Ho Hb]. cbv zeta. unfold wwrite. rewrite D, Hi, Hm.
        split; [exact Ho|exact Hb]. }
      assert (Hexec :
                 included_files (r :: rest) = included_files rest ->
                 (forall d, mbal d (r :: rest) = mbal d rest) ->
                 (let '(e1, st1, w1, o) := apply_record st w r in
                  let r' := match update_record r o with Some x => x | None => r end in
                  match write_rec it r' with
                  | Some it' => update_loop rest (it' :: below) false st1 w1 done (ev0 ++ e1)
                                            (kn0 ++ known_class sep (cfg st1) r o)
                  | None => UPanic done (ev0 ++ e1) (map it_file (it :: below))
                  end) = UOk written ev kn ->
                 let evs := (let '(e1, st1, w1, o) := apply_record st w r in
                             let r' := match update_record r o with Some x => x | None => r end in
                             wwrite it r' (fun it' => wevs_loop rest (it' :: below) false st1 w1)) in
                 opened evs = included_files (r :: rest) /\
                 balanced (length (it :: below)) evs = mbal (pred (length (it :: below))) (r :: rest)).
      { intros Hi Hm Hc. destruct (apply_record st w r) as [[[e1 st1] w1] o]. cbv zeta in Hc |- *.
        apply write_rec_uok in Hc. destruct Hc as (t & D & Hc).
        apply IH in Hc. destruct Hc as [Ho Hb]. unfold wwrite. rewrite D, Hi, Hm.
        split; [exact Ho|exact Hb]. }
      destruct r; cbn [Update.update_loop] in H; cbn [wevs_loop];
        try (destruct halt;
             [apply Hcopy; [reflexivity|reflexivity|exact H]
             |destruct format_only;
              [apply Hcopy; [reflexivity|reflexivity|exact H]
              |apply Hexec; [reflexivity|reflexivity|exact H]]]).
      + (* halt *) destruct halt; (apply Hcopy; [reflexivity|reflexivity|exact H]).
      + (* begin include *)
        apply IH in H. destruct H as [Ho Hb].
        cbn [opened flat_map app] in Ho |- *. cbn [included_files flat_map app].
        split; [f_equal; exact Ho|exact Hb].
      + (* end include *)
        destruct (close_item it); [|discriminate H].
        destruct below as [|it2 below]; [rewrite update_loop_no_file in H; discriminate H|].
        apply IH in H. destruct H as [Ho Hb]. split; [exact Ho|exact Hb].
  Qed.
End Wevs.

(* ------------------------------------------------------------------ the linking theorem *)
(* Whatever the outcome (UOk or a panic), the (file, bytes) list reported by [update_loop] is the
   list of files closed by its events. *)
Theorem update_loop_closed_of_any :
  forall re sep strict substitute sc format_only main rs st w,
    closed_of (wevs_of re sep strict substitute sc format_only main rs st w) []
    = ures_written (update_loop re sep strict substitute sc format_only rs [mkItem main []] false st w [] [] []).
Proof.
  intros re sep strict substitute sc fmt main rs st w.
  unfold wevs_of. cbn [closed_of]. rewrite loop_closed. reflexivity.
Qed.
Print Assumptions update_loop_closed_of_any.

(* Under UOk the events are balanced exactly when the include markers of the list are. *)
Theorem update_loop_balanced_iff :
  forall re sep strict substitute sc format_only main rs st w written ev kn,
    update_loop re sep strict substitute sc format_only rs [mkItem main []] false st w [] [] [] = UOk written ev kn ->
    balanced 0 (wevs_of re sep strict substitute sc format_only main rs st w) = mbal 0 rs.
Proof.
  intros re sep strict substitute sc fmt main rs st w written ev kn H.
  unfold wevs_of. cbn [balanced].
  destruct (loop_uok re sep strict substitute sc fmt _ _ _ _ _ _ _ _ _ _ _ H) as [_ Hb]. exact Hb.
Qed.
Print Assumptions update_loop_balanced_iff.

(* The statement asked for.  The premise [nested [] rs = true] (the markers form a Dyck word:
   IncludeSpec; true of every list produced by Include.expand: IncludeProofs.expand_nested) is
   needed for the balance only, and cannot be dropped there: [update_loop] closes ONLY the
   innermost file still open at the end of the list and still answers UOk, see
   [balanced_needs_nested] below. *)
Theorem update_loop_closed_of :
  forall re sep strict substitute sc format_only main rs st w written ev kn,
    update_loop re sep strict substitute sc format_only rs [mkItem main []] false st w [] [] [] = UOk written ev kn ->
    let evs := wevs_of re sep strict substitute sc format_only main rs st w in
    closed_of evs [] = written /\
    opened evs = main :: included_files rs /\
    (nested [] rs = true -> balanced 0 evs = true).
Proof.
  intros re sep strict substitute sc fmt main rs st w written ev kn H. cbv zeta.
  split; [|split].
  - rewrite update_loop_closed_of_any, H. reflexivity.
  - unfold wevs_of. cbn [opened flat_map app]. f_equal.
    destruct (loop_uok re sep strict substitute sc fmt _ _ _ _ _ _ _ _ _ _ _ H) as [Ho _]. exact Ho.
  - intros Hn. rewrite (update_loop_balanced_iff _ _ _ _ _ _ _ _ _ _ _ _ _ H).
    apply (nested_mbal rs []). exact Hn.
Qed.
Print Assumptions update_loop_closed_of.

(* FALSE without the premise on the markers: a begin marker that is never closed.  The update
   answers UOk, having closed (and renamed) the included file only; the temp file of the main
   file is never renamed. *)
Example balanced_needs_nested :
  let rs := [RBeginInclude (lit "a.slt")] in
  exists written,
    update_loop Cex.re_any [9] false Cex.no_subst Cex.sc0 false rs [mkItem (lit "m.slt") []] false
                Cex.st_lax world0 [] [] [] = UOk written [] [] /\
    written = [(lit "a.slt", [])] /\
    nested [] rs = false /\
    balanced 0 (wevs_of Cex.re_any [9] false Cex.no_subst Cex.sc0 false (lit "m.slt") rs Cex.st_lax world0) = false.
Proof.
  cbv zeta. eexists. split; [vm_compute; reflexivity|].
  split; [reflexivity|]. split; vm_compute; reflexivity.
Qed.

(* ------------------------------------------------------------------ C08 for the updater *)
(* (i) crash safety.  After EVERY prefix of the file operations of an update that ends in UOk,
   every file of the include tree holds its old content or exactly the bytes [update_loop]
   reports for it.  [main :: included_files rs] is [opened (wevs_of ...)]
   ([update_loop_closed_of]), so the premises are those of C08_atomic. *)
Theorem update_atomic :
  forall re sep strict substitute sc format_only main rs st w written ev kn tmp fs0 k f,
    update_loop re sep strict substitute sc format_only rs [mkItem main []] false st w [] [] [] = UOk written ev kn ->
    NoDup (main :: included_files rs) -> fresh tmp (main :: included_files rs) ->
    In f (main :: included_files rs) ->
    let fsk := run_ops fs0 (firstn k (ops_of tmp (wevs_of re sep strict substitute sc format_only main rs st w) [])) in
    fsk f = fs0 f \/ (exists c, assoc_bytes f written = Some c /\ In (f, c) written /\ fsk f = Some c).
Proof.
  intros re sep strict substitute sc fmt main rs st w written ev kn tmp fs0 k f H Hnd Hfr Hf. cbv zeta.
  destruct (update_loop_closed_of _ _ _ _ _ _ _ _ _ _ _ _ _ H) as (Hc & Ho & _).
  rewrite <- Ho in Hnd, Hfr, Hf.
  destruct (atomic_prefix tmp _ fs0 k f Hnd Hfr Hf) as [Hold|(c & Ha & Hnew)]; [left; exact Hold|].
  right. rewrite Hc in Ha. exists c. split; [exact Ha|]. split; [apply assoc_bytes_In; exact Ha|exact Hnew].
Qed.
Print Assumptions update_atomic.

(* the same for an update that PANICS (a record without display, the trimmer, no open file):
   the events stop at the panic, [written] is what was renamed before it.  Premises on the files
   actually opened. *)
Theorem update_atomic_any_outcome :
  forall re sep strict substitute sc format_only main rs st w tmp fs0 k f,
    let evs := wevs_of re sep strict substitute sc format_only main rs st w in
    let written := ures_written (update_loop re sep strict substitute sc format_only rs [mkItem main []] false st w [] [] []) in
    NoDup (opened evs) -> fresh tmp (opened evs) -> In f (opened evs) ->
    let fsk := run_ops fs0 (firstn k (ops_of tmp evs [])) in
    fsk f = fs0 f \/ (exists c, assoc_bytes f written = Some c /\ fsk f = Some c).
Proof.
  intros re sep strict substitute sc fmt main rs st w tmp fs0 k f evs written Hnd Hfr Hf.
  subst written. rewrite <- update_loop_closed_of_any. apply atomic_prefix; assumption.
Qed.
Print Assumptions update_atomic_any_outcome.

(* no write or truncation ever names a file of the tree: only the rename of its temp file *)
Theorem update_only_rename_touches_originals :
  forall re sep strict substitute sc format_only main rs st w written ev kn tmp f o,
    update_loop re sep strict substitute sc format_only rs [mkItem main []] false st w [] [] [] = UOk written ev kn ->
    fresh tmp (main :: included_files rs) -> In f (main :: included_files rs) ->
    In o (ops_of tmp (wevs_of re sep strict substitute sc format_only main rs st w) []) ->
    match o with
    | OpCreate p | OpAppend p _ | OpSetLen p _ => p <> f
    | OpRename s d => s <> f
    end.
Proof.
  intros re sep strict substitute sc fmt main rs st w written ev kn tmp f o H Hfr Hf Ho.
  destruct (update_loop_closed_of _ _ _ _ _ _ _ _ _ _ _ _ _ H) as (_ & Hop & _).
  rewrite <- Hop in Hfr, Hf. eapply only_rename_touches_originals; eassumption.
Qed.
Print Assumptions update_only_rename_touches_originals.

(* a path that is neither a file of the tree nor the temp file of one is never touched *)
Theorem update_fs_frame :
  forall re sep strict substitute sc format_only main rs st w written ev kn tmp fs0 k q,
    update_loop re sep strict substitute sc format_only rs [mkItem main []] false st w [] [] [] = UOk written ev kn ->
    (forall g, In g (main :: included_files rs) -> q <> tmp g /\ q <> g) ->
    run_ops fs0 (firstn k (ops_of tmp (wevs_of re sep strict substitute sc format_only main rs st w) [])) q = fs0 q.
Proof.
  intros re sep strict substitute sc fmt main rs st w written ev kn tmp fs0 k q H Hq.
  destruct (update_loop_closed_of _ _ _ _ _ _ _ _ _ _ _ _ _ H) as (_ & Hop & _).
  apply ops_of_frame. change (live [] ?e) with (opened e). rewrite Hop. exact Hq.
Qed.
Print Assumptions update_fs_frame.

(* (ii) completion.  The markers balanced (true of every expanded list), the tree without
   duplicates, temp names fresh: when all operations are done every file of the tree holds
   exactly the bytes [update_loop] reports for it, every reported pair is on disk, and no temp
   file remains.  (C08_final also assumes that no temp file exists beforehand; its proof
   does not use that, and it is not assumed here.) *)
Theorem update_final :
  forall re sep strict substitute sc format_only main rs st w written ev kn tmp fs0,
    update_loop re sep strict substitute sc format_only rs [mkItem main []] false st w [] [] [] = UOk written ev kn ->
    nested [] rs = true ->
    NoDup (main :: included_files rs) -> fresh tmp (main :: included_files rs) ->
    let fsn := run_ops fs0 (ops_of tmp (wevs_of re sep strict substitute sc format_only main rs st w) []) in
    (forall f, In f (main :: included_files rs) ->
       (exists c, assoc_bytes f written = Some c /\ In (f, c) written /\ fsn f = Some c) /\ fsn (tmp f) = None) /\
    (forall f c, In (f, c) written ->
       In f (main :: included_files rs) /\ fsn f = Some c /\ fsn (tmp f) = None).
Proof.
  intros re sep strict substitute sc fmt main rs st w written ev kn tmp fs0 H Hn Hnd Hfr. cbv zeta.
  destruct (update_loop_closed_of _ _ _ _ _ _ _ _ _ _ _ _ _ H) as (Hc & Ho & Hb).
  specialize (Hb Hn). rewrite <- Ho in *.
  set (evs := wevs_of re sep strict substitute sc fmt main rs st w) in *.
  assert (Hfin : forall f, In f (opened evs) ->
            (exists c, assoc_bytes f written = Some c /\ In (f, c) written /\
                       run_ops fs0 (ops_of tmp evs []) f = Some c) /\
            run_ops fs0 (ops_of tmp evs []) (tmp f) = None).
  { intros f Hf.
    destruct (final_gen tmp evs [] fs0 f Hb Hnd Hfr) as [(c & Ha & Hv) Ht];
      [intros g c []|exact Hf|].
    rewrite Hc in Ha. split; [|exact Ht].
    exists c. split; [exact Ha|]. split; [apply assoc_bytes_In; exact Ha|exact Hv]. }
  split; [exact Hfin|].
  intros f c Hi. rewrite <- Hc in Hi.
  assert (Hf : In f (opened evs)) by (apply (closed_of_live evs [] f c Hi)).
  split; [exact Hf|].
  destruct (Hfin f Hf) as [(c' & Ha & _ & Hv) Ht].
  rewrite <- Hc in Ha. rewrite (closed_of_assoc evs [] f c Hnd Hi) in Ha. inversion Ha; subst c'.
  split; [exact Hv|exact Ht].
Qed.
Print Assumptions update_final.

(* ------------------------------------------------------------------ (iii) record ownership *)
Lemma Forall2_impl_In {A B} (R R' : A -> B -> Prop) l1 l2 :
  Forall2 R l1 l2 -> (forall a b, In a l1 -> In b l2 -> R a b -> R' a b) -> Forall2 R' l1 l2.
Proof.
  intros H. induction H as [|x y l1 l2 Hxy _ IH]; intros Hi; constructor.
  - apply Hi; [left; reflexivity|left; reflexivity|exact Hxy].
  - apply IH. intros a b Ha Hb. apply Hi; right; assumption.
Qed.

(* the records [split_files] attributes to a file are no markers, and have a display *)
Definition plain (r : record) : Prop := marker r = None /\ display r <> None.

Lemma split_files_plain : forall rs pstack pdone files,
  split_files rs pstack pdone = Some files ->
  Forall (fun r => marker r = None -> display r <> None) rs ->
  Forall (fun p => Forall plain (snd p)) pstack ->
  Forall (fun p => Forall plain (snd p)) pdone ->
  Forall (fun p : str * list record => Forall plain (snd p)) files.
Proof.
  induction rs as [|r rest IH]; intros pstack pdone files H Hd Hs Hp.
  - cbn [split_files] in H. destruct pstack as [|p ps]; [discriminate H|].
    inversion H; subst. apply Forall_app. split; [exact Hp|].
    constructor; [|constructor]. inversion Hs; assumption.
  - cbn [split_files] in H. destruct pstack as [|[f l] below]; [discriminate H|].
    inversion Hd as [|x y Hr Hrest]; subst. inversion Hs as [|x y Hl Hbelow]; subst.
    cbn [snd] in Hl.
    destruct (marker r) as [[[|] g]|] eqn:M.
    + apply (IH _ _ _ H Hrest); [|exact Hp].
      constructor; [constructor|]. constructor; assumption.
    + apply (IH _ _ _ H Hrest); [exact Hbelow|].
      apply Forall_app. split; [exact Hp|]. constructor; [exact Hl|constructor].
    + apply (IH _ _ _ H Hrest); [|exact Hp].
      constructor; [|exact Hbelow]. cbn [snd]. apply Forall_app. split; [exact Hl|].
      constructor; [|constructor]. split; [exact M|apply Hr; reflexivity].
Qed.

(* what is on disk after the update, file by file, given the attribution of records to files *)
Lemma fs_ownership tmp evs fs0 owned written :
  closed_of evs [] = written -> balanced 0 evs = true ->
  NoDup (opened evs) -> fresh tmp (opened evs) ->
  Forall2 closed_as owned written ->
  let fsn := run_ops fs0 (ops_of tmp evs []) in
  Forall2 (fun (p : str * list record) (d : str * list N) =>
             fst d = fst p /\
             trim_tail (utf8 (recs_text (snd p))) = TOk (snd d) /\
             fsn (fst p) = Some (snd d) /\ fsn (tmp (fst p)) = None) owned written.
Proof.
  intros Hc Hb Hnd Hfr HF. cbv zeta.
  eapply Forall2_impl_In; [exact HF|].
  intros [f recs] [f' c] _ Hi [Hn Ht]. cbn [fst snd] in *. subst f'.
  split; [reflexivity|]. split; [exact Ht|].
  rewrite <- Hc in Hi.
  assert (Hf : In f (opened evs)) by (apply (closed_of_live evs [] f c Hi)).
  destruct (final_gen tmp evs [] fs0 f Hb Hnd Hfr) as [(c' & Ha & Hv) Htmp];
    [intros g c0 []|exact Hf|].
  rewrite (closed_of_assoc evs [] f c Hnd Hi) in Ha. inversion Ha; subst c'.
  split; [exact Hv|exact Htmp].
Qed.

(* (iii), `--override` (format_only = false).  [owned] attributes the records written
   ([updated_records]: UpdateFile1.upd) to files by the include markers alone; on completion
   every file of the tree holds the trimmed UTF-8 text of exactly its own records, each followed
   by a newline ([recs_text] = flat_map of [display r ++ newline]; every owned record is no
   marker and has a display), in closing order, and no temp file remains. *)
Theorem update_file_ownership :
  forall re sep strict substitute sc main rs st w written ev kn tmp fs0,
    update_loop re sep strict substitute sc false rs [mkItem main []] false st w [] [] [] = UOk written ev kn ->
    nested [] rs = true ->
    NoDup (main :: included_files rs) -> fresh tmp (main :: included_files rs) ->
    let fsn := run_ops fs0 (ops_of tmp (wevs_of re sep strict substitute sc false main rs st w) []) in
    exists owned,
      split_files (updated_records re sep strict substitute sc rs st w) [(main, [])] [] = Some owned /\
      Forall2 (fun (p : str * list record) (d : str * list N) =>
                 fst d = fst p /\
                 trim_tail (utf8 (recs_text (snd p))) = TOk (snd d) /\
                 fsn (fst p) = Some (snd d) /\ fsn (tmp (fst p)) = None) owned written /\
      Forall (fun p : str * list record => Forall plain (snd p)) owned.
Proof.
  intros re sep strict substitute sc main rs st w written ev kn tmp fs0 H Hn Hnd Hfr. cbv zeta.
  destruct (update_loop_closed_of _ _ _ _ _ _ _ _ _ _ _ _ _ H) as (Hc & Ho & Hb).
  specialize (Hb Hn). rewrite <- Ho in Hnd, Hfr.
  destruct (update_loop_updated _ _ _ _ _ _ _ _ _ _ _ _ H) as (_ & _ & owned & Hs & HF & Hd).
  exists owned. split; [exact Hs|]. split.
  - apply fs_ownership; assumption.
  - eapply split_files_plain; [exact Hs|exact Hd| |constructor].
    constructor; [constructor|constructor].
Qed.
Print Assumptions update_file_ownership.

(* (i) + (iii): after every prefix of the operations, a file of the tree holds its old content
   or the trimmed text of exactly its own records *)
Theorem update_atomic_ownership :
  forall re sep strict substitute sc main rs st w written ev kn tmp fs0 k f,
    update_loop re sep strict substitute sc false rs [mkItem main []] false st w [] [] [] = UOk written ev kn ->
    NoDup (main :: included_files rs) -> fresh tmp (main :: included_files rs) ->
    In f (main :: included_files rs) ->
    let fsk := run_ops fs0 (firstn k (ops_of tmp (wevs_of re sep strict substitute sc false main rs st w) [])) in
    exists owned,
      split_files (updated_records re sep strict substitute sc rs st w) [(main, [])] [] = Some owned /\
      (fsk f = fs0 f \/
       exists recs c, In (f, recs) owned /\ Forall plain recs /\
                      trim_tail (utf8 (recs_text recs)) = TOk c /\ fsk f = Some c).
Proof.
  intros re sep strict substitute sc main rs st w written ev kn tmp fs0 k f H Hnd Hfr Hf. cbv zeta.
  destruct (update_loop_updated _ _ _ _ _ _ _ _ _ _ _ _ H) as (_ & _ & owned & Hs & HF & Hd).
  exists owned. split; [exact Hs|].
  destruct (update_atomic _ _ _ _ _ _ _ _ _ _ _ _ _ tmp fs0 k f H Hnd Hfr Hf) as [Hold|(c & _ & Hi & Hnew)];
    [left; exact Hold|right].
  destruct (Forall2_In_right _ _ _ _ HF Hi) as ([f' recs] & Hp & Hn & Ht). cbn [fst snd] in *. subst f'.
  exists recs, c. split; [exact Hp|]. split; [|split; [exact Ht|exact Hnew]].
  assert (Hall : Forall (fun p : str * list record => Forall plain (snd p)) owned).
  { eapply split_files_plain; [exact Hs|exact Hd| |constructor].
    constructor; [constructor|constructor]. }
  rewrite Forall_forall in Hall. apply (Hall _ Hp).
Qed.
Print Assumptions update_atomic_ownership.

(* ---- (iii) for `--format` (format_only = true): nothing is executed, the records written are
   the records of the list themselves *)
Section FormatFiles.
  Variable re : str -> str -> bool.
  Variable sep : str.
  Variable strict : bool.
  Variable substitute : bool -> list (str * str) -> str -> subres.
  Variable sc : script.

  Notation update_loop := (update_loop re sep strict substitute sc true).

  Lemma format_loop_files : forall rs stack halt st w done ev0 kn0 written ev kn pstack pdone,
    update_loop rs stack halt st w done ev0 kn0 = UOk written ev kn ->
    Forall2 item_rel stack pstack ->
    Forall2 closed_as pdone done ->
    exists files,
      split_files rs pstack pdone = Some files /\
      Forall2 closed_as files written /\
      Forall (fun r => marker r = None -> display r <> None) rs /\
      ev = ev0 /\ kn = kn0.
  Proof.
    induction rs as [|r rest IH]; intros stack halt st w done ev0 kn0 written ev kn pstack pdone H Hst Hdn.
    - cbn [Update.update_loop] in H. destruct stack as [|it below]; [discriminate H|].
      destruct (close_item it) as [d|] eqn:C; [|discriminate H]. inversion H; subst.
      inversion Hst as [|x p l l' Hx Hl]; subst.
      exists (pdone ++ [p]). split; [reflexivity|].
      split; [apply Forall2_snoc; [exact Hdn|]; eapply close_item_rel; eauto|].
      split; [constructor|split; reflexivity].
    - destruct stack as [|it below]; [destruct r; discriminate H|].
      inversion Hst as [|x p l pbelow Hx Hl]; subst. destruct p as [f recs].
      assert (Hcopy : forall h,
                 marker r = None ->
                 match write_rec it r with
                 | Some it' => update_loop rest (it' :: below) h st w done ev0 kn0
                 | None => UPanic done ev0 (map it_file (it :: below))
                 end = UOk written ev kn ->
                 exists files,
                   split_files (r :: rest) ((f, recs) :: pbelow) pdone = Some files /\
                   Forall2 closed_as files written /\
                   Forall (fun r => marker r = None -> display r <> None) (r :: rest) /\
                   ev = ev0 /\ kn = kn0).
      { intros h Hm Hc. destruct (write_rec it r) as [it'|] eqn:W; [|discriminate Hc].
        destruct (write_rec_rel _ _ _ _ W Hx) as [Hx' Hd]. cbn [fst snd] in Hx'.
        destruct (IH _ _ _ _ _ _ _ _ _ _ ((f, recs ++ [r]) :: pbelow) pdone Hc) as
          (files & S & Cl & Dp & E1 & E2); [constructor; assumption|exact Hdn|].
        exists files. split; [cbn [split_files]; rewrite Hm; exact S|].
        split; [exact Cl|]. split; [constructor; [intros _; exact Hd|exact Dp]|].
        split; assumption. }
      destruct r as [ | | | | | | | | | | | | | g | g ]; cbn [Update.update_loop] in H;
        try (destruct halt; (eapply (Hcopy _ eq_refl); exact H)).
      + (* begin include *)
        destruct (IH _ _ _ _ _ _ _ _ _ _ ((g, []) :: (f, recs) :: pbelow) pdone H) as
          (files & S & Cl & Dp & E1 & E2).
        { constructor; [split; reflexivity|constructor; assumption]. }
        { exact Hdn. }
        exists files. split; [cbn [split_files marker]; exact S|].
        split; [exact Cl|]. split; [constructor; [intros X; discriminate X|exact Dp]|].
        split; assumption.
      + (* end include *)
        destruct (close_item it) as [d|] eqn:C; [|discriminate H].
        destruct (IH _ _ _ _ _ _ _ _ _ _ pbelow (pdone ++ [(f, recs)]) H) as
          (files & S & Cl & Dp & E1 & E2).
        { exact Hl. }
        { apply Forall2_snoc; [exact Hdn|]. eapply close_item_rel; eauto. }
        exists files. split; [cbn [split_files marker]; exact S|].
        split; [exact Cl|]. split; [constructor; [intros X; discriminate X|exact Dp]|].
        split; assumption.
  Qed.
End FormatFiles.

(* `--format`: no event, no known-finding flag, and every file holds the trimmed text of the
   records of the INPUT list that lie between its markers *)
Theorem format_file_ownership :
  forall re sep strict substitute sc main rs st w written ev kn tmp fs0,
    update_loop re sep strict substitute sc true rs [mkItem main []] false st w [] [] [] = UOk written ev kn ->
    nested [] rs = true ->
    NoDup (main :: included_files rs) -> fresh tmp (main :: included_files rs) ->
    let fsn := run_ops fs0 (ops_of tmp (wevs_of re sep strict substitute sc true main rs st w) []) in
    ev = [] /\ kn = [] /\
    exists owned,
      split_files rs [(main, [])] [] = Some owned /\
      Forall2 (fun (p : str * list record) (d : str * list N) =>
                 fst d = fst p /\
                 trim_tail (utf8 (recs_text (snd p))) = TOk (snd d) /\
                 fsn (fst p) = Some (snd d) /\ fsn (tmp (fst p)) = None) owned written /\
      Forall (fun p : str * list record => Forall plain (snd p)) owned.
Proof.
  intros re sep strict substitute sc main rs st w written ev kn tmp fs0 H Hn Hnd Hfr. cbv zeta.
  destruct (update_loop_closed_of _ _ _ _ _ _ _ _ _ _ _ _ _ H) as (Hc & Ho & Hb).
  specialize (Hb Hn). rewrite <- Ho in Hnd, Hfr.
  destruct (format_loop_files _ _ _ _ _ _ _ _ _ _ _ _ _ _ _ _ [(main, [])] [] H) as
    (owned & Hs & HF & Hd & E1 & E2).
  { constructor; [split; reflexivity|constructor]. }
  { constructor. }
  split; [exact E1|]. split; [exact E2|].
  exists owned. split; [exact Hs|]. split.
  - apply fs_ownership; assumption.
  - eapply split_files_plain; [exact Hs|exact Hd| |constructor].
    constructor; [constructor|constructor].
Qed.
Print Assumptions format_file_ownership.

(* ------------------------------------------------------------------ the same file included twice *)
(* If the include tree names a file twice (`include a.slt` at two places, or two globs that
   overlap) then [main :: included_files rs] has a duplicate, so [NoDup] - a premise of C08_atomic,
   C08_final and of every corollary above - FAILS and nothing above applies to that tree.
   What the model predicts then: the file is rewritten twice through the same temp name, each
   time from the records of one visit, and the second rename overwrites the first.  Below the
   two visits differ (the statement fails at the first visit only): [update_loop] reports both
   contents for a.slt, the disk ends with the SECOND, while the first-match lookup
   [assoc_bytes] used by C08_final finds the FIRST: the conclusion of C08_final is false there.
   The markers are balanced; no temp file remains. *)
Module Twice.
  Definition tmp : str -> str := fun f => f ++ lit ".temp".
  Definition a : str := lit "a.slt".
  Definition m : str := lit "m.slt".
  Definition sc_err_then_ok : script :=
    mkScript [AOut (DErr (lit "boom"))] (AOut (DComplete 0)) [] [] (SysExit true []) [].
  Definition in_a : record := RStatement (Loc a 1 None) [] CDefault (lit "x") SOk None.
  Definition rs : list record :=
    [RInclude (Cex.at_line 1) a; RBeginInclude a; in_a; REndInclude a;
     RInclude (Cex.at_line 2) a; RBeginInclude a; in_a; REndInclude a].
  Definition fs0 : fsys :=
    fun q => if str_eqb q m then Some (lit "old m") else if str_eqb q a then Some (lit "old a") else None.
  Definition evs : list wev :=
    wevs_of Cex.re_any [9] false Cex.no_subst sc_err_then_ok false m rs Cex.st_lax world0.

  Example double_include_second_wins :
    exists b1 b2 bm ev,
      update_loop Cex.re_any [9] false Cex.no_subst sc_err_then_ok false rs [mkItem m []] false
                  Cex.st_lax world0 [] [] [] = UOk [(a, b1); (a, b2); (m, bm)] ev [] /\
      b1 = lit "statement error boom
x
" /\
      b2 = lit "statement ok
x
" /\
      nested [] rs = true /\ balanced 0 evs = true /\
      ~ NoDup (m :: included_files rs) /\
      let fsn := run_ops fs0 (ops_of tmp evs []) in
      fsn a = Some b2 /\ assoc_bytes a (closed_of evs []) = Some b1 /\
      fsn m = Some bm /\ fsn (tmp a) = None /\ fsn (tmp m) = None.
  Proof.
    eexists _, _, _, _. split; [vm_compute; reflexivity|].
    split; [vm_compute; reflexivity|]. split; [vm_compute; reflexivity|].
    split; [vm_compute; reflexivity|]. split; [vm_compute; reflexivity|].
    split.
    - intros Hn. vm_compute in Hn. inversion Hn as [|x l Hx Hl]; subst.
      inversion Hl as [|y l2 Hy _]; subst. apply Hy. left. reflexivity.
    - cbv zeta. repeat split; vm_compute; reflexivity.
  Qed.
End Twice.
Print Assumptions balanced_needs_nested.
Print Assumptions Twice.double_include_second_wins.
