(* RunMeaning.v — the runner's behaviour depends only on the MEANING of the script
   (FormatSpec.meaning: blank-line records dropped, adjacent comment blocks merged,
   locations erased): same events, same final state and world, and the same ending up to the
   location a failure reports. *)
From SLT Require Import Base Text Syntax Parser Unparse FormatSpec Judge Runner.
Open Scope N_scope.

(* ------------------------------------------------------------------ endings up to the reported location *)
Definition final_eq_modloc (a b : final) : Prop :=
  match a, b with
  | FOk, FOk => True
  | FErr k _, FErr k' _ => k = k'
  | FBug, FBug => True
  | _, _ => False
  end.

Definition ending_eq_modloc (a b : ending) : Prop :=
  match a, b with
  | Finished, Finished => True
  | Halted, Halted => True
  | Stopped f, Stopped f' => final_eq_modloc f f'
  | _, _ => False
  end.

Lemma final_eq_modloc_refl f : final_eq_modloc f f.
Proof. destruct f; cbn; auto. Qed.
Lemma final_eq_modloc_sym a b : final_eq_modloc a b -> final_eq_modloc b a.
Proof. destruct a, b; cbn; auto. Qed.
Lemma final_eq_modloc_trans a b c : final_eq_modloc a b -> final_eq_modloc b c -> final_eq_modloc a c.
Proof. destruct a, b, c; cbn; try tauto; congruence. Qed.

Lemma ending_eq_modloc_refl e : ending_eq_modloc e e.
Proof. destruct e; cbn; auto using final_eq_modloc_refl. Qed.
Lemma ending_eq_modloc_sym a b : ending_eq_modloc a b -> ending_eq_modloc b a.
Proof. destruct a, b; cbn; auto using final_eq_modloc_sym. Qed.
Lemma ending_eq_modloc_trans a b c : ending_eq_modloc a b -> ending_eq_modloc b c -> ending_eq_modloc a c.
Proof. destruct a, b, c; cbn; try tauto. apply final_eq_modloc_trans. Qed.

(* for an ending without failure the relation is equality *)
Lemma ending_eq_modloc_finished e : ending_eq_modloc Finished e -> e = Finished.
Proof. destruct e; cbn; tauto. Qed.
Lemma ending_eq_modloc_halted e : ending_eq_modloc Halted e -> e = Halted.
Proof. destruct e; cbn; tauto. Qed.
Lemma ending_eq_modloc_final a b : ending_eq_modloc a b -> final_eq_modloc (final_of a) (final_of b).
Proof. destruct a, b; cbn; tauto. Qed.
Lemma final_eq_modloc_ok f : final_eq_modloc FOk f -> f = FOk.
Proof. destruct f; cbn; tauto. Qed.

(* two results of run_multi_e that agree but for the reported location *)
Definition res_eq_modloc (x y : list event * rstate * world * ending) : Prop :=
  let '(ev, st, w, e) := x in
  let '(ev', st', w', e') := y in
  ev = ev' /\ st = st' /\ w = w' /\ ending_eq_modloc e e'.

Lemma res_eq_modloc_refl x : res_eq_modloc x x.
Proof. destruct x as [[[ev st] w] e]. cbn. auto using ending_eq_modloc_refl. Qed.
Lemma res_eq_modloc_sym x y : res_eq_modloc x y -> res_eq_modloc y x.
Proof.
  destruct x as [[[ev st] w] e], y as [[[ev' st'] w'] e']. cbn.
  intros (-> & -> & -> & H). auto using ending_eq_modloc_sym.
Qed.
Lemma res_eq_modloc_trans x y z : res_eq_modloc x y -> res_eq_modloc y z -> res_eq_modloc x z.
Proof.
  destruct x as [[[ev st] w] e], y as [[[ev' st'] w'] e'], z as [[[ev2 st2] w2] e2]. cbn.
  intros (-> & -> & -> & H) (-> & -> & -> & H'). eauto using ending_eq_modloc_trans.
Qed.

Section RunMeaning.
  Variable re : str -> str -> bool.
  Variable substitute : bool -> list (str * str) -> str -> subres.
  Variable sc : script.

  Notation apply_record := (apply_record substitute sc).
  Notation run_no_retry := (run_no_retry re substitute sc).
  Notation run_async := (run_async re substitute sc).
  Notation run_multi_e := (run_multi_e re substitute sc).
  Notation run_multi := (run_multi re substitute sc).

  (* ---------------------------------------------------------------- one record: the location is never looked at *)
  Lemma apply_record_erase st w r : apply_record st w (erase r) = apply_record st w r.
  Proof. destruct r; reflexivity. Qed.

  Lemma judge_erase g r o : judge re g (erase r) o = judge re g r o.
  Proof. destruct r; reflexivity. Qed.

  Lemma record_retry_erase r : record_retry (erase r) = record_retry r.
  Proof. destruct r; reflexivity. Qed.

  Lemma run_no_retry_erase st w r : run_no_retry st w (erase r) = run_no_retry st w r.
  Proof.
    unfold Runner.run_no_retry. rewrite apply_record_erase.
    destruct (apply_record st w r) as [[[ev st1] w1] o]. rewrite judge_erase. reflexivity.
  Qed.

  Lemma attempt_record_erase r sw :
    attempt_record re substitute sc (erase r) sw = attempt_record re substitute sc r sw.
  Proof. unfold attempt_record. rewrite run_no_retry_erase. reflexivity. Qed.

  Lemma retry_gen_ext (St Out : Type) (f g : St -> list event * St * Out * verdict) (no : Out) :
    (forall s, f s = g s) ->
    forall n d s last, retry_gen St Out f no n d s last = retry_gen St Out g no n d s last.
  Proof.
    intros Hfg. induction n as [|n IH]; intros d s last; [reflexivity|].
    cbn [retry_gen]. rewrite Hfg. destruct (g s) as [[[ev s1] o] v].
    destruct v; try reflexivity; rewrite IH; reflexivity.
  Qed.

  Lemma run_async_erase st w r : run_async st w (erase r) = run_async st w r.
  Proof.
    unfold Runner.run_async. rewrite record_retry_erase.
    destruct (record_retry r) as [rt|]; [|apply run_no_retry_erase].
    unfold retry_loop.
    rewrite (retry_gen_ext _ _ (attempt_record re substitute sc (erase r))
                               (attempt_record re substitute sc r) ONothing
                               (attempt_record_erase r)).
    reflexivity.
  Qed.

  (* ---------------------------------------------------------------- blank lines and comments do nothing *)
  Lemma run_async_newline st w : run_async st w RNewline = ([], st, w, ONothing, Pass).
  Proof. reflexivity. Qed.

  Lemma run_async_comment st w ls : run_async st w (RComment ls) = ([], st, w, ONothing, Pass).
  Proof. reflexivity. Qed.

  Lemma run_multi_e_newline st w rest : run_multi_e st w (RNewline :: rest) = run_multi_e st w rest.
  Proof.
    cbn [Runner.run_multi_e]. rewrite run_async_newline.
    destruct (run_multi_e st w rest) as [[[ev st1] w1] e]. reflexivity.
  Qed.

  Lemma run_multi_e_comment st w ls rest : run_multi_e st w (RComment ls :: rest) = run_multi_e st w rest.
  Proof.
    cbn [Runner.run_multi_e]. rewrite run_async_comment.
    destruct (run_multi_e st w rest) as [[[ev st1] w1] e]. reflexivity.
  Qed.

  (* ---------------------------------------------------------------- a record and its erasure in front of two
     tails that run alike *)
  Lemma run_multi_e_cons_erase st w r A B :
    (forall st1 w1, res_eq_modloc (run_multi_e st1 w1 A) (run_multi_e st1 w1 B)) ->
    res_eq_modloc (run_multi_e st w (r :: A)) (run_multi_e st w (erase r :: B)).
  Proof.
    intros HAB.
    assert (Hgen :
      res_eq_modloc
        (let '(ev, st1, w1, _, v) := run_async st w r in
         match v with
         | Pass => let '(ev2, st2, w2, f) := run_multi_e st1 w1 A in (ev ++ ev2, st2, w2, f)
         | Fail k => (ev, st1, w1, Stopped (FErr k (record_loc r)))
         | Unreachable => (ev, st1, w1, Stopped FBug)
         end)
        (let '(ev, st1, w1, _, v) := run_async st w (erase r) in
         match v with
         | Pass => let '(ev2, st2, w2, f) := run_multi_e st1 w1 B in (ev ++ ev2, st2, w2, f)
         | Fail k => (ev, st1, w1, Stopped (FErr k (record_loc (erase r))))
         | Unreachable => (ev, st1, w1, Stopped FBug)
         end)).
    { rewrite run_async_erase. destruct (run_async st w r) as [[[[ev st1] w1] o] v].
      destruct v as [|k|].
      - specialize (HAB st1 w1).
        destruct (run_multi_e st1 w1 A) as [[[ev2 st2] w2] f],
                 (run_multi_e st1 w1 B) as [[[ev2' st2'] w2'] f'].
        cbn in HAB |- *. destruct HAB as (-> & -> & -> & H). auto.
      - cbn. auto.
      - cbn. auto. }
    destruct r; cbn [erase]; try exact Hgen.
    (* the only kind left is halt: both runs stop there (for a comment erase only trims the lines) *)
    cbn. auto.
  Qed.

  (* ---------------------------------------------------------------- a script and its meaning run alike *)
  Lemma run_multi_e_meaning_self : forall A st w,
    res_eq_modloc (run_multi_e st w A) (run_multi_e st w (meaning A)).
  Proof.
    induction A as [|r A IH]; intros st w; [apply res_eq_modloc_refl|].
    destruct r;
      try (cbn [meaning]; apply run_multi_e_cons_erase; intros st1 w1; apply IH).
    - (* comment *)
      cbn [meaning]. rewrite run_multi_e_comment.
      destruct (meaning A) as [|m M] eqn:EM.
      + rewrite run_multi_e_comment. apply IH.
      + destruct m; try (rewrite run_multi_e_comment; apply IH).
        rewrite run_multi_e_comment. specialize (IH st w).
        rewrite run_multi_e_comment in IH. exact IH.
    - (* blank line *)
      cbn [meaning]. rewrite run_multi_e_newline. apply IH.
  Qed.

  (* ================================================================ THE THEOREM *)
  Theorem run_multi_meaning :
    forall (A B : list record), meaning A = meaning B ->
    forall st w ev st' w' e,
      run_multi_e st w A = (ev, st', w', e) ->
      exists e', run_multi_e st w B = (ev, st', w', e') /\ ending_eq_modloc e e'.
  Proof.
    intros A B HAB st w ev st' w' e HA.
    pose proof (run_multi_e_meaning_self A st w) as H1.
    pose proof (run_multi_e_meaning_self B st w) as H2.
    rewrite HAB in H1. apply res_eq_modloc_sym in H2.
    pose proof (res_eq_modloc_trans _ _ _ H1 H2) as H. rewrite HA in H.
    destruct (run_multi_e st w B) as [[[ev' st2] w2] e']. cbn in H.
    destruct H as (-> & -> & -> & He). exists e'. split; [reflexivity | exact He].
  Qed.

  (* in terms of [sem_eq] *)
  Corollary run_multi_sem_eq :
    forall A B, sem_eq A B ->
    forall st w, res_eq_modloc (run_multi_e st w A) (run_multi_e st w B).
  Proof.
    intros A B HAB st w.
    destruct (run_multi_e st w A) as [[[ev st'] w'] e] eqn:HA.
    destruct (run_multi_meaning A B HAB st w ev st' w' e HA) as (e' & -> & He).
    cbn. auto.
  Qed.

  (* the library entry point: a success is preserved, a failure up to its location *)
  Corollary run_multi_meaning_final :
    forall A B, meaning A = meaning B ->
    forall st w ev st' w' f,
      run_multi st w A = (ev, st', w', f) ->
      exists f', run_multi st w B = (ev, st', w', f') /\ final_eq_modloc f f'.
  Proof.
    intros A B HAB st w ev st' w' f HA. unfold Runner.run_multi in *.
    destruct (run_multi_e st w A) as [[[ev0 st0] w0] e] eqn:EA. inversion HA; subst.
    destruct (run_multi_meaning A B HAB st w ev st' w' e EA) as (e' & -> & He).
    exists (final_of e'). split; [reflexivity|]. apply ending_eq_modloc_final. exact He.
  Qed.

  Corollary run_multi_meaning_ok :
    forall A B, meaning A = meaning B ->
    forall st w ev st' w',
      run_multi st w A = (ev, st', w', FOk) -> run_multi st w B = (ev, st', w', FOk).
  Proof.
    intros A B HAB st w ev st' w' HA.
    destruct (run_multi_meaning_final A B HAB st w ev st' w' FOk HA) as (f' & HB & Hf).
    apply final_eq_modloc_ok in Hf. subst f'. exact HB.
  Qed.

  Corollary run_multi_meaning_err :
    forall A B, meaning A = meaning B ->
    forall st w ev st' w' k l,
      run_multi st w A = (ev, st', w', FErr k l) ->
      exists l', run_multi st w B = (ev, st', w', FErr k l').
  Proof.
    intros A B HAB st w ev st' w' k l HA.
    destruct (run_multi_meaning_final A B HAB st w ev st' w' _ HA) as (f' & HB & Hf).
    destruct f' as [|k' l'|]; cbn in Hf; try contradiction. subst k'. exists l'. exact HB.
  Qed.
End RunMeaning.

Print Assumptions run_multi_meaning.
Print Assumptions run_multi_meaning_final.
Print Assumptions run_multi_meaning_ok.
Print Assumptions run_multi_meaning_err.
