(* UpdateText3.v — the text layer of --override, part 3: the trailing-newline trimmer.
   The bytes finally written are utf8 of the appended text with its trailing line feeds reduced
   to one (FsTrim / C08_trim).  The parser treats trailing blank lines as blank-line records,
   EXCEPT after a header line whose SQL block is empty: there the blank line IS the (empty) SQL
   text, and once it is trimmed away the file ends in a dangling header (UnexpectedEOF).  So:
   the trimmed text parses to the same records up to trailing blank-line records, or - exactly
   when the last record other than blank lines has an empty SQL/command text - it fails with
   UnexpectedEOF (counterexample in UpdateText8.v: a small defect of --format / --override). *)
From SLT Require Import Base Text Syntax Duration Parser Render TextProofs RenderProofs
     Unparse FsTrim FsProofs FormatSpec FormatProofs Runner Update UpdateSpec UpdateProofs
     UpdateFile1 UpdateFile3 UpdateFile UpdateText UpdateText2.
Open Scope N_scope.

(* ------------------------------------------------------------------ A. bytes *)
Lemma utf8_app a b : utf8 (a ++ b) = utf8 a ++ utf8 b.
Proof. unfold utf8. apply flat_map_app. Qed.

Lemma utf8_repeat_nl k : utf8 (repeat 10 k) = repeat 10 k.
Proof. induction k as [|k IH]; [reflexivity|]. cbn [repeat]. change (utf8 (10 :: repeat 10 k)) with (10 :: utf8 (repeat 10 k)). rewrite IH. reflexivity. Qed.

Lemma utf8_cp_last c : c <> 10 -> utf8_cp c <> [] /\ last (utf8_cp c) 0 <> 10.
Proof.
  intros Hc. unfold utf8_cp.
  destruct (c <? 128); [split; [discriminate | exact Hc]|].
  assert (Hx : forall x, 128 + x <> 10) by (intros x; lia).
  destruct (c <? 2048); [split; [discriminate | cbn [last]; apply Hx]|].
  destruct (c <? 65536); split; try discriminate; cbn [last]; apply Hx.
Qed.

Lemma utf8_last body : last body 0 <> 10 -> last (utf8 body) 0 <> 10.
Proof.
  destruct body as [|x b] using rev_ind; [cbn; discriminate|]. clear IHb.
  rewrite last_last. intros Hx. rewrite utf8_app.
  destruct (utf8_cp_last x Hx) as [Hne Hl].
  change (utf8 [x]) with (utf8_cp x ++ []). rewrite app_nil_r.
  rewrite last_app_nonnil by exact Hne. exact Hl.
Qed.

Lemma recs_text_end rs : recs_text rs = [] \/ last (recs_text rs) 0 = 10.
Proof.
  induction rs as [|r rs IH] using rev_ind; [left; reflexivity|].
  rewrite recs_text_snoc. unfold rec_text. destruct (display r) as [t|].
  - right. rewrite app_assoc. apply last_last.
  - rewrite app_nil_r. exact IH.
Qed.

(* what the trimmer leaves of a text that is empty or ends in a line feed *)
Lemma trim_tail_text text bytes :
  text = [] \/ last text 0 = 10 ->
  trim_tail (utf8 text) = TOk bytes ->
  (text = [] /\ bytes = []) \/
  (exists body j, last body 0 <> 10 /\ text = body ++ [10] ++ repeat 10 j /\ bytes = utf8 (body ++ [10])).
Proof.
  intros Hend Ht. destruct (split_trailing_nl text) as (body & k & Htext & Hl).
  destruct k as [|k].
  - cbn [repeat] in Htext. rewrite app_nil_r in Htext. subst body.
    destruct Hend as [->|Hend]; [|contradiction].
    left. split; [reflexivity|]. cbn in Ht. inversion Ht. reflexivity.
  - right. exists body, k. split; [exact Hl|]. split; [exact Htext|].
    rewrite Htext, utf8_app, utf8_repeat_nl in Ht.
    rewrite trim_tail_spec in Ht; [| apply utf8_last; exact Hl | cbn; lia].
    inversion Ht. rewrite utf8_app. reflexivity.
Qed.

(* ------------------------------------------------------------------ B. lines *)
Lemma lines_aux_snoc_nl : forall a cur b,
  lines_aux cur (a ++ 10 :: b) = lines_aux cur (a ++ [10]) ++ lines_aux [] b.
Proof.
  induction a as [|c a IH]; intros cur b.
  - cbn [app lines_aux]. rewrite N.eqb_refl. reflexivity.
  - cbn [app lines_aux]. destruct (c =? 10).
    + rewrite IH. reflexivity.
    + apply IH.
Qed.

Lemma lines_repeat_nl j : lines (repeat 10 j) = repeat [] j.
Proof.
  unfold lines. induction j as [|j IH]; [reflexivity|].
  cbn [repeat lines_aux]. rewrite N.eqb_refl. cbn [strip_cr_rev]. rewrite IH. reflexivity.
Qed.

Lemma lines_trailing body j :
  lines (body ++ [10] ++ repeat 10 j) = lines (body ++ [10]) ++ repeat [] j.
Proof.
  unfold lines. cbn [app]. rewrite lines_aux_snoc_nl. fold (lines (repeat 10 j)).
  rewrite lines_repeat_nl. reflexivity.
Qed.

(* ------------------------------------------------------------------ C. pending comments *)
(* outside the top level no comment block is pending *)
Definition cmI (p : pstate) : Prop := pmode p = Top \/ pcomments p = [].

Section Tail.
  Variable col : N -> option N.
  Variable re : str -> bool.
  Variable file : str.
  Variable upper : option loc.

  Notation step := (Parser.step col re file upper).
  Notation run_lines := (Parser.run_lines col re file upper).
  Notation top_line := (Parser.top_line col re file upper).
  Notation finish := (Parser.finish file upper).
  Notation complete := (RenderProofs.complete col re file upper).
  Notation erec := (RenderProofs.erec file upper).

  Lemma top_line_comments p n line p' :
    top_line p n line = SNext p' -> pcomments p' = pcomments p.
  Proof.
    unfold Parser.top_line. destruct line as [|c0 l0].
    { intros H; inversion H; subst; reflexivity. }
    cbv zeta. destruct (split_ws (c0 :: l0)) as [|t args].
    { intros H; inversion H; subst; reflexivity. }
    repeat match goal with
           | |- (if ?b then _ else _) = _ -> _ => destruct b
           | |- match ?x with _ => _ end = _ -> _ => destruct x
           end;
      try discriminate; intros H; inversion H; subst; reflexivity.
  Qed.

  Lemma step_cmI p line p' : cmI p -> step p line = SNext p' -> cmI p'.
  Proof.
    intros HI Hs. destruct p as [rs cs cn cm ln m].
    destruct m as [|hl h|hl h sql|hl h sql acc|hl h sql acc pend].
    - destruct (N.eq_dec (hd 0 line) 35) as [E|E].
      + destruct line as [|c l]; [discriminate E|]. cbn [hd] in E. subst c.
        rewrite step_comment in Hs. inversion Hs; subst. left. reflexivity.
      + rewrite step_top in Hs by exact E. apply top_line_comments in Hs.
        right. exact Hs.
    - destruct HI as [HI|HI]; [discriminate HI|]. cbn [pcomments] in HI. subst cm.
      rewrite step_first in Hs. inversion Hs; subst. right. reflexivity.
    - destruct HI as [HI|HI]; [discriminate HI|]. cbn [pcomments] in HI. subst cm.
      destruct line as [|c l].
      + rewrite step_body_blank in Hs. inversion Hs; subst. left. reflexivity.
      + destruct (str_eqb_spec (c :: l) DELIM) as [E|E].
        * rewrite E, step_body_delim in Hs. unfold on_delimiter in Hs.
          repeat match type of Hs with
                 | (if ?b then _ else _) = _ => destruct b
                 | match ?x with _ => _ end = _ => destruct x
                 end; try discriminate Hs; inversion Hs; subst; right; reflexivity.
        * rewrite step_body_line in Hs by (try discriminate; exact E).
          inversion Hs; subst. right. reflexivity.
    - destruct HI as [HI|HI]; [discriminate HI|]. cbn [pcomments] in HI. subst cm.
      destruct line as [|c l].
      + rewrite step_result_blank in Hs. inversion Hs; subst. left. reflexivity.
      + rewrite step_result_line in Hs by discriminate. inversion Hs; subst. right. reflexivity.
    - destruct HI as [HI|HI]; [discriminate HI|]. cbn [pcomments] in HI. subst cm.
      destruct line as [|c l].
      + destruct pend.
        * rewrite step_multi_blank1 in Hs. inversion Hs; subst. left. reflexivity.
        * rewrite step_multi_blank0 in Hs. inversion Hs; subst. right. reflexivity.
      + rewrite step_multi_line in Hs by discriminate. inversion Hs; subst. right. reflexivity.
  Qed.

  Lemma run_lines_cmI : forall ls p p', cmI p -> run_lines p ls = SNext p' -> cmI p'.
  Proof.
    induction ls as [|l ls IH]; intros p p' HI Hr; cbn [Parser.run_lines] in Hr.
    - inversion Hr; subst. exact HI.
    - destruct (step p l) as [p1| |] eqn:Es; try discriminate.
      eapply IH; [eapply step_cmI; eassumption | exact Hr].
  Qed.

  (* ---------------------------------------------------------------- D. trailing blank lines *)
  Lemma complete_cons p l ls p1 : step p l = SNext p1 -> complete p (l :: ls) = complete p1 ls.
  Proof. intros H. unfold RenderProofs.complete. cbn [Parser.run_lines]. rewrite H. reflexivity. Qed.

  Lemma complete_nil p : complete p [] = finish p.
  Proof. reflexivity. Qed.

  Lemma finish_top rs cs cn cm ln : finish (mkP rs cs cn cm ln Top) = POk (vr rs cm).
  Proof.
    change (finish (mkP rs cs cn cm ln Top)) with (POk (recs (flush_comments (mkP rs cs cn cm ln Top)))).
    rewrite flush_mk. reflexivity.
  Qed.

  Lemma step_top_blank rs cs cn cm ln :
    step (mkP rs cs cn cm ln Top) [] = SNext (mkP (vr rs cm ++ [RNewline]) cs cn [] (ln + 1) Top).
  Proof. rewrite step_top by (cbn; discriminate). reflexivity. Qed.

  Lemma blank_top : forall j rs cs cn cm ln,
    complete (mkP rs cs cn cm ln Top) (repeat [] j) = POk (vr rs cm ++ repeat RNewline j).
  Proof.
    induction j as [|j IH]; intros rs cs cn cm ln.
    - cbn [repeat]. rewrite complete_nil, finish_top, app_nil_r. reflexivity.
    - cbn [repeat]. rewrite (complete_cons _ _ _ _ (step_top_blank rs cs cn cm ln)).
      rewrite IH. unfold vr at 1. rewrite app_nil_r, <- app_assoc. reflexivity.
  Qed.

  Lemma finish_body rs cs cn cm ln hl h sql :
    finish (mkP rs cs cn cm ln (Body hl h sql)) = POk (rs ++ [erec hl cs cn h sql [] None None]).
  Proof.
    change (finish (mkP rs cs cn cm ln (Body hl h sql)))
      with (POk (recs (Parser.emit file upper (mkP rs cs cn cm ln (Body hl h sql)) hl h sql [] None None))).
    rewrite emit_mk. reflexivity.
  Qed.

  Lemma finish_result rs cs cn cm ln hl h sql acc :
    finish (mkP rs cs cn cm ln (ResultLines hl h sql acc)) = POk (rs ++ [erec hl cs cn h sql acc None None]).
  Proof.
    change (finish (mkP rs cs cn cm ln (ResultLines hl h sql acc)))
      with (POk (recs (Parser.emit file upper (mkP rs cs cn cm ln (ResultLines hl h sql acc)) hl h sql acc None None))).
    rewrite emit_mk. reflexivity.
  Qed.

  Lemma finish_multiline rs cs cn cm ln hl h sql acc pend :
    finish (mkP rs cs cn cm ln (MultiLine hl h sql acc pend)) =
    POk (rs ++ [erec hl cs cn h sql [] (multi_fe h (trim acc)) (multi_fo h (trim acc))]).
  Proof.
    change (finish (mkP rs cs cn cm ln (MultiLine hl h sql acc pend)))
      with (POk (recs (Parser.finish_multi file upper (mkP rs cs cn cm ln (MultiLine hl h sql acc pend)) hl h sql acc))).
    rewrite finish_multi_mk. reflexivity.
  Qed.

  (* a record closed by the first trailing blank line, then blank-line records *)
  Lemma blank_after_emit rs cs cn ln r j p1 :
    step (mkP rs cs cn [] ln (pmode p1)) [] = SNext (mkP (rs ++ [r]) (pconds p1) (pconn p1) [] (ln + 1) Top) ->
    complete (mkP rs cs cn [] ln (pmode p1)) (repeat [] (S j)) = POk ((rs ++ [r]) ++ repeat RNewline j).
  Proof.
    intros Hs. cbn [repeat]. rewrite (complete_cons _ _ _ _ Hs). rewrite blank_top.
    unfold vr. rewrite app_nil_r. reflexivity.
  Qed.

  (* running [j] blank lines from a reachable state *)
  Theorem blank_tail : forall j p R,
    cmI p -> complete p (repeat [] j) = POk R ->
    match pmode p with
    | First hl h =>
        finish p = PErr PUnexpectedEOF (hl + 1) /\
        ((1 <= j)%nat ->
         exists n, R = recs p ++ erec hl (pconds p) (pconn p) h [] [] None None :: repeat RNewline n)
    | _ => exists R1 n, finish p = POk R1 /\ R = R1 ++ repeat RNewline n
    end.
  Proof.
    intros j p R HI Hc. destruct p as [rs cs cn cm ln m].
    destruct m as [|hl h|hl h sql|hl h sql acc|hl h sql acc pend]; cbn [pmode recs pconds pconn].
    - rewrite blank_top in Hc. inversion Hc; subst. exists (vr rs cm), j.
      split; [apply finish_top | reflexivity].
    - destruct HI as [HI|HI]; [discriminate HI|]. cbn [pcomments] in HI. subst cm.
      split; [reflexivity|]. intros Hj. destruct j as [|j]; [lia|].
      cbn [repeat] in Hc. rewrite (complete_cons _ _ _ _ (step_first _ _ _ _ _ _ _ _ _ _ _ _)) in Hc.
      destruct j as [|j].
      + rewrite complete_nil, finish_body in Hc. inversion Hc; subst. exists O.
        reflexivity.
      + cbn [repeat] in Hc.
        rewrite (complete_cons _ _ _ _ (step_body_blank _ _ _ _ _ _ _ _ _ _ _ _)) in Hc.
        rewrite blank_top in Hc. inversion Hc; subst. exists j.
        unfold vr. rewrite app_nil_r, <- app_assoc. reflexivity.
    - destruct HI as [HI|HI]; [discriminate HI|]. cbn [pcomments] in HI. subst cm.
      exists (rs ++ [erec hl cs cn h sql [] None None]). rewrite finish_body.
      destruct j as [|j].
      + rewrite complete_nil, finish_body in Hc. inversion Hc; subst. exists O.
        split; [reflexivity | rewrite app_nil_r; reflexivity].
      + cbn [repeat] in Hc.
        rewrite (complete_cons _ _ _ _ (step_body_blank _ _ _ _ _ _ _ _ _ _ _ _)) in Hc.
        rewrite blank_top in Hc. inversion Hc; subst. exists j.
        split; [reflexivity|]. unfold vr. rewrite app_nil_r. reflexivity.
    - destruct HI as [HI|HI]; [discriminate HI|]. cbn [pcomments] in HI. subst cm.
      exists (rs ++ [erec hl cs cn h sql acc None None]). rewrite finish_result.
      destruct j as [|j].
      + rewrite complete_nil, finish_result in Hc. inversion Hc; subst. exists O.
        split; [reflexivity | rewrite app_nil_r; reflexivity].
      + cbn [repeat] in Hc.
        rewrite (complete_cons _ _ _ _ (step_result_blank _ _ _ _ _ _ _ _ _ _ _ _ _)) in Hc.
        rewrite blank_top in Hc. inversion Hc; subst. exists j.
        split; [reflexivity|]. unfold vr. rewrite app_nil_r. reflexivity.
    - destruct HI as [HI|HI]; [discriminate HI|]. cbn [pcomments] in HI. subst cm.
      exists (rs ++ [erec hl cs cn h sql [] (multi_fe h (trim acc)) (multi_fo h (trim acc))]).
      rewrite finish_multiline.
      assert (Hpend : forall j ln R,
                 complete (mkP rs cs cn [] ln (MultiLine hl h sql acc true)) (repeat [] j) = POk R ->
                 exists n, R = (rs ++ [erec hl cs cn h sql [] (multi_fe h (trim acc)) (multi_fo h (trim acc))])
                               ++ repeat RNewline n).
      { intros j0 ln0 R0 Hc0. destruct j0 as [|j0].
        - rewrite complete_nil, finish_multiline in Hc0. inversion Hc0; subst. exists O.
          rewrite app_nil_r. reflexivity.
        - cbn [repeat] in Hc0.
          rewrite (complete_cons _ _ _ _ (step_multi_blank1 _ _ _ _ _ _ _ _ _ _ _ _ _)) in Hc0.
          rewrite blank_top in Hc0. inversion Hc0; subst. exists j0.
          unfold vr. rewrite app_nil_r. reflexivity. }
      destruct pend.
      + destruct (Hpend j ln R Hc) as [n Hn]. exists n. split; [reflexivity | exact Hn].
      + destruct j as [|j].
        * rewrite complete_nil, finish_multiline in Hc. inversion Hc; subst. exists O.
          split; [reflexivity | rewrite app_nil_r; reflexivity].
        * cbn [repeat] in Hc.
          rewrite (complete_cons _ _ _ _ (step_multi_blank0 _ _ _ _ _ _ _ _ _ _ _ _ _)) in Hc.
          destruct (Hpend j (ln + 1) R Hc) as [n Hn]. exists n. split; [reflexivity | exact Hn].
  Qed.

  (* the text with its trailing line feeds reduced to one *)
  Theorem parse_trimmed body j R :
    parse col re file upper (body ++ [10] ++ repeat 10 j) = POk R ->
    (exists R1 n, parse col re file upper (body ++ [10]) = POk R1 /\ R = R1 ++ repeat RNewline n) \/
    ((1 <= j)%nat /\
     exists ln R0 r n, parse col re file upper (body ++ [10]) = PErr PUnexpectedEOF ln /\
                       R = R0 ++ r :: repeat RNewline n /\
                       match r with
                       | RStatement _ _ _ sql _ _ | RQuery _ _ _ sql _ _ | RSystem _ _ sql _ _ => sql = []
                       | _ => False
                       end).
  Proof.
    unfold parse, parse_lines_list. rewrite lines_trailing.
    set (L := lines (body ++ [10])). intros Hp.
    rewrite run_lines_app in Hp.
    destruct (run_lines pstate0 L) as [p1| |] eqn:E1; try discriminate Hp.
    assert (HI : cmI p1) by (eapply run_lines_cmI; [|exact E1]; left; reflexivity).
    pose proof (blank_tail j p1 R HI) as Hbt. unfold RenderProofs.complete in Hbt.
    specialize (Hbt Hp).
    destruct (pmode p1) as [|hl h|hl h sql|hl h sql acc|hl h sql acc pend] eqn:Em;
      try (left; exact Hbt).
    destruct Hbt as [Hf Hj].
    destruct j as [|j].
    - left. cbn [repeat Parser.run_lines] in Hp. rewrite Hf in Hp. discriminate Hp.
    - right. split; [lia|]. destruct (Hj ltac:(lia)) as [n Hn].
      exists (hl + 1), (recs p1), (erec hl (pconds p1) (pconn p1) h [] [] None None), n.
      split; [exact Hf|]. split; [exact Hn|]. destruct h; reflexivity.
  Qed.
End Tail.

Print Assumptions parse_trimmed.

(* ------------------------------------------------------------------ E. meaning *)
Lemma meaning_blanks n : meaning (repeat RNewline n) = [].
Proof. induction n as [|n IH]; [reflexivity | exact IH]. Qed.

Lemma meaning_app_blanks : forall A n, meaning (A ++ repeat RNewline n) = meaning A.
Proof.
  induction A as [|a A IH]; intros n; [apply meaning_blanks|].
  destruct a; cbn [app meaning]; rewrite ?IH; reflexivity.
Qed.

Lemma meaning_last : forall A r n,
  is_rcomment r = false -> r <> RNewline ->
  exists M, meaning (A ++ r :: repeat RNewline n) = M ++ [erase r].
Proof.
  induction A as [|a A IH]; intros r n Hc Hn.
  - exists []. cbn [app]. rewrite meaning_cons_plain by exact Hc. rewrite meaning_blanks.
    destruct r; try contradiction; try discriminate Hc; reflexivity.
  - destruct (IH r n Hc Hn) as [M HM].
    destruct a; cbn [app meaning]; rewrite ?HM;
      try (eexists (_ :: M); reflexivity); try (exists M; reflexivity).
    destruct M as [|m0 M'].
    + destruct r; try contradiction; try discriminate Hc; eexists [_]; reflexivity.
    + destruct m0; cbn [app];
        first [ eexists (_ :: _ :: M'); reflexivity | eexists (_ :: M'); reflexivity ].
Qed.

Definition empty_sql (r : record) : bool :=
  match r with
  | RStatement _ _ _ [] _ _ | RQuery _ _ _ [] _ _ | RSystem _ _ [] _ _ => true
  | _ => false
  end.

Lemma empty_sql_erase r : empty_sql (erase r) = empty_sql r.
Proof. destruct r; reflexivity. Qed.
Lemma empty_sql_reread r : empty_sql (reread r) = empty_sql r.
Proof. destruct r; reflexivity. Qed.

Lemma last_map {A B} (f : A -> B) l d : last (map f l) (f d) = f (last l d).
Proof.
  induction l as [|a l IH]; [reflexivity|]. destruct l as [|b l]; [reflexivity|].
  change (last (map f (a :: b :: l)) (f d)) with (last (map f (b :: l)) (f d)). rewrite IH. reflexivity.
Qed.

(* the last record of a script other than blank lines has an empty SQL / command text *)
Definition ends_in_empty_sql (rs : list record) : bool := empty_sql (last (meaning rs) RNewline).

(* ------------------------------------------------------------------ F. the composed statement *)
Section Final.
  Variable col : N -> option N.
  Variable rv : str -> bool.
  Variable rm : str -> str -> bool.
  Variable sep : str.
  Variable strict : bool.
  Variable substitute : bool -> list (str * str) -> str -> subres.
  Variable sc : script.
  Hypothesis Hcol : col_stable col.
  Hypothesis Hesc : escape_valid rv.

  (* the general form: the trimmed file parses back, or ends in a dangling header *)
  Theorem update_text_reparses_or_eof :
    forall file upper main rs st w written ev kn,
      parsed_ok col rv rs ->
      update_loop rm sep strict substitute sc false rs [mkItem main []] false st w [] [] []
        = UOk written ev kn ->
      Forall2 (out_repr col sep strict) rs (updated_outputs rm sep strict substitute sc rs st w) ->
      let rs' := updated_records rm sep strict substitute sc rs st w in
      exists text,
        written = [(main, utf8 text)] /\
        ((exists R n,
            parse col rv file upper text = POk R /\
            reparse file upper 0 [] (map reread rs') = R ++ repeat RNewline n /\
            meaning R = map reread (meaning rs')) \/
         (ends_in_empty_sql rs' = true /\
          exists ln, parse col rv file upper text = PErr PUnexpectedEOF ln)).
  Proof.
    intros file upper main rs st w written ev kn Hp HU Hout rs'.
    destruct (update_text_reparses_untrimmed col rv rm sep strict substitute sc Hcol Hesc
                file upper main rs st w written ev kn Hp HU Hout)
      as (bytes & Hw & Ht & _ & Hparse & Hmean). fold rs' in Ht, Hparse, Hmean.
    destruct (trim_tail_text _ _ (recs_text_end rs') Ht) as [[Htext ->]|(body & j & Hl & Htext & ->)].
    - exists []. split; [exact Hw|]. left.
      rewrite Htext in Hparse. exists (reparse file upper 0 [] (map reread rs')), O.
      split; [exact Hparse|]. split; [rewrite app_nil_r; reflexivity | exact Hmean].
    - exists (body ++ [10]). split; [exact Hw|].
      rewrite Htext in Hparse.
      destruct (parse_trimmed col rv file upper body j _ Hparse)
        as [(R1 & n & Hp1 & HR)|(Hj & ln & R0 & r & n & Hp1 & HR & Hr)].
      + left. exists R1, n. split; [exact Hp1|]. split; [exact HR|].
        rewrite <- Hmean, HR. symmetry. apply meaning_app_blanks.
      + right. split; [|exists ln; exact Hp1].
        assert (Hrc : is_rcomment r = false) by (destruct r; try contradiction; reflexivity).
        assert (Hrn : r <> RNewline) by (intros ->; contradiction).
        destruct (meaning_last R0 r n Hrc Hrn) as [M HM].
        rewrite <- HR, Hmean in HM.
        unfold ends_in_empty_sql.
        rewrite <- empty_sql_reread. change RNewline with (reread RNewline) at 1.
        rewrite <- last_map. rewrite HM, last_last, empty_sql_erase.
        destruct r; try contradiction; subst; reflexivity.
  Qed.

  (* PART 3: the bytes written for the file are (the UTF-8 encoding of) a text that parses, with
     the same column-type function and regex oracle, to the records written - up to trailing
     blank-line records, which the trimmer removes - hence to a script with their meaning. *)
  Theorem update_text_reparses :
    forall file upper main rs st w written ev kn,
      parsed_ok col rv rs ->
      update_loop rm sep strict substitute sc false rs [mkItem main []] false st w [] [] []
        = UOk written ev kn ->
      Forall2 (out_repr col sep strict) rs (updated_outputs rm sep strict substitute sc rs st w) ->
      let rs' := updated_records rm sep strict substitute sc rs st w in
      ends_in_empty_sql rs' = false ->
      exists text R n,
        written = [(main, utf8 text)] /\
        parse col rv file upper text = POk R /\
        reparse file upper 0 [] (map reread rs') = R ++ repeat RNewline n /\
        meaning R = map reread (meaning rs').
  Proof.
    intros file upper main rs st w written ev kn Hp HU Hout rs' Hend.
    destruct (update_text_reparses_or_eof file upper main rs st w written ev kn Hp HU Hout)
      as (text & Hw & [(R & n & H1 & H2 & H3)|(Hbad & _)]).
    - exists text, R, n. repeat split; assumption.
    - fold rs' in Hbad. rewrite Hbad in Hend. discriminate Hend.
  Qed.
End Final.

Print Assumptions update_text_reparses_or_eof.
Print Assumptions update_text_reparses.
