(* UpdateText.v — the text layer of --override, part 1 (one record).

   The updater writes, for every record, [display r' ++ LF] where r' is the record rewritten by
   [update_record] from the actual output.  C05 (FormatProofs.v) proves the display/parse round
   trip for every record satisfying the parser-output invariant [rec_ok].  This file shows that
   the rewritten record, AS IT IS WRITTEN ([reread r']: Display trims an expected stdout), again
   satisfies [rec_ok], provided the output is representable in the format ([out_repr] below),
   the column-type function is stable ([col_stable], the premise of C05) and the regex validity
   oracle accepts escaped patterns ([escape_valid]).  Every premise that cannot be dropped comes
   with a counterexample (section "necessity"). *)
From SLT Require Import Base Text Syntax Duration Parser Render TextProofs RenderProofs
     Unparse FormatSpec FormatProofs Runner Update UpdateSpec UpdateProofs.
Open Scope N_scope.

(* ------------------------------------------------------------------ premises *)

(* P1. regex::escape always produces a pattern that Regex::new accepts.  [rv] is the validity
   oracle of the PARSER (an inline `error <regex>` is rejected when invalid); the matching oracle
   of the runner (escape_law, C06) is a different function. *)
Definition escape_valid (rv : str -> bool) : Prop := forall s, rv (re_escape s) = true.

(* P2. a multi-line text (error message, expected stdout) that the `----` block can hold: once
   trimmed (Display and the parser both trim) it contains neither CR LF (str::lines would drop the
   CR) nor three consecutive LF, i.e. two consecutive empty lines (the parser ends the block at
   the first two).  Blank-only and empty texts ARE representable (written as an empty block). *)
Definition text_repr (t : str) : Prop := ok3 (trim t) /\ nocrlf (trim t).

(* P3. a result row, joined with the separator, is one non-empty physical line: no LF inside, no
   CR at its end (it would be taken for part of a CRLF), not empty (an empty line ends the
   results).  A blank-only line is representable as far as the parser goes. *)
Definition row_repr (sep : str) (row : list str) : Prop :=
  line_ok (join sep row) /\ join sep row <> [].
Definition rows_repr (sep : str) (rows : list (list str)) : Prop := Forall (row_repr sep) rows.

(* P4. the column types of the output can be written as the type word of a `query` header: the
   characters are canonical for the column-type function (they read back as themselves), and
   there is at least one; a result without columns is only representable by the bare header
   `query` (no sort mode, no label, no retry clause). *)
Definition types_repr (col : N -> option N) (types : str)
           (s : option sortmode) (lb : option str) (rt : option retry) : Prop :=
  (types = [] /\ s = None /\ lb = None /\ rt = None) \/
  (types <> [] /\ parse_types col types = Some types).

(* P5. counts fit in 64 bits (they are u64 / usize in the tool; N in the model) *)
Definition count_repr (n : N) : Prop := n <= U64MAX.

(* the premise on one (record, output) pair: each clause is required exactly where the updater
   writes the corresponding part of the output into the record *)
Definition out_repr (col : N -> option N) (sep : str) (strict : bool) (r : record) (o : routput) : Prop :=
  match r, o with
  | RStatement _ _ _ _ e _, OQuery _ rows None =>
      match e with SCount _ => count_repr (N.of_nat (length rows)) | _ => True end
  | RStatement _ _ _ _ e _, OStatement n None =>
      match e with SCount _ => count_repr n | _ => True end
  | RQuery _ _ _ _ _ _, OStatement n None => count_repr n
  | RStatement _ _ _ _ _ _, OStatement _ (Some m) => text_repr m
  | RQuery _ _ _ _ _ _, OQuery _ _ (Some m) => text_repr m
  | RQuery _ _ _ _ (QResults et s lb ex) rt, OQuery types rows None =>
      (validate rows ex = false -> rows_repr sep rows) /\
      (col_validate strict types et = false -> types_repr col types s lb rt)
  | RQuery _ _ _ _ (QError _) rt, OQuery types rows None =>
      rows_repr sep rows /\ types_repr col types None None rt
  | RSystem _ _ _ _ _, OSystem (Some t) false => text_repr t
  | _, _ => True
  end.

(* sufficient conditions in terms of single values *)
Definition value_repr (v : str) : Prop := v <> [] /\ ~ In 10 v /\ last v 0 <> 13.

Lemma last_app_ne {A} (a b : list A) d : b <> [] -> last (a ++ b) d = last b d.
Proof. apply last_app_nonnil. Qed.

Lemma join_values_line sep : forall row,
  ~ In 10 sep -> row <> [] -> Forall value_repr row -> row_repr sep row.
Proof.
  intros row Hsep Hne Hrow. induction row as [|v row IH]; [contradiction|].
  inversion Hrow as [|v' row' (Hv1 & Hv2 & Hv3) Hrest]; subst.
  destruct row as [|w row].
  - unfold row_repr. cbn [join]. repeat split; assumption.
  - specialize (IH ltac:(discriminate) Hrest). destruct IH as [[IH1 IH2] IH3].
    unfold row_repr in *. rewrite join_cons2. split; [split|].
    + intros Hin. apply in_app_or in Hin as [Hin|Hin]; [exact (Hv2 Hin)|].
      apply in_app_or in Hin as [Hin|Hin]; [exact (Hsep Hin) | exact (IH1 Hin)].
    + rewrite app_assoc. rewrite last_app_ne by exact IH3. exact IH2.
    + destruct v; [contradiction | discriminate].
Qed.

Lemma text_repr_of t : ok3 t -> nocrlf t -> text_repr t.
Proof.
  intros H3 Hc. destruct (trim_split t) as (a & b & Hab). rewrite Hab in H3, Hc. split.
  - eapply ok3_prefix. eapply ok3_suffix. exact H3.
  - eapply nocrlf_prefix. eapply nocrlf_suffix. exact Hc.
Qed.

(* a text without any line feed is representable: in particular [text_repr m] holds of every
   message for which the inline form `error <regex>` is chosen (its escaped form survives
   split_whitespace / join, so it contains no LF), i.e. the premise only bites for messages
   written as a `----` block *)
Lemma ok3_noLF t : ~ In 10 t -> ok3 t.
Proof.
  induction t as [|c r IH]; intros H; [exact I|]. cbn [ok3]. split.
  - intros [Hc _]. apply H. left. exact Hc.
  - apply IH. intros Hin. apply H. right. exact Hin.
Qed.

Lemma nocrlf_noLF t : ~ In 10 t -> nocrlf t.
Proof.
  induction t as [|c r IH]; intros H; [exact I|]. cbn [nocrlf]. split.
  - intros [_ Hh]. apply H. right. destruct r as [|x r]; [discriminate Hh|].
    cbn in Hh. inversion Hh; subst. left. reflexivity.
  - apply IH. intros Hin. apply H. right. exact Hin.
Qed.

Lemma text_repr_single_line t : ~ In 10 t -> text_repr t.
Proof. intros H. apply text_repr_of; [apply ok3_noLF | apply nocrlf_noLF]; exact H. Qed.

(* ------------------------------------------------------------------ one record *)

Lemma mtext_ok_trim t : text_repr t -> mtext_ok (trim t).
Proof.
  intros [H3 Hc]. destruct (trim_shape t) as [E|[Hh Hl]]; [left; exact E|].
  right. repeat split; assumption.
Qed.

Lemma mtext_ok_trim_id t : mtext_ok t -> trim t = t.
Proof.
  intros [->|(Hh & Hl & _)]; [reflexivity|]. apply trim_id; assumption.
Qed.

Lemma retry_shape_same ws : is_retry_shape ws = retry_shaped ws.
Proof. reflexivity. Qed.

Section OneRecord.
  Variable col : N -> option N.
  Variable rv : str -> bool.            (* Regex::new accepts the pattern (parser) *)
  Variable rm : str -> str -> bool.     (* Regex::is_match (runner / updater) *)
  Variable sep : str.
  Variable strict : bool.
  Hypothesis Hcol : col_stable col.
  Hypothesis Hesc : escape_valid rv.

  Notation rec_ok := (rec_ok col rv).
  Notation err_ok := (err_ok rv).
  Notation update_record := (update_record rm sep strict).

  Lemma new_expected_error_ok ref m rt :
    text_repr m -> err_ok (new_expected_error ref m (has_retry rt)) rt.
  Proof.
    intros Hm. pose proof (mtext_ok_trim m Hm) as Hmt.
    unfold new_expected_error, from_actual_error.
    set (b := match ref with
              | Some (EMulti _) => true
              | _ => match lines (trim m) with _ :: _ :: _ => true | _ => false end
                     || negb (inline_fits (re_escape m))
              end).
    destruct b eqn:Eb; [exact Hmt|].
    destruct (re_escape m) as [|c s] eqn:Ee; [exact I|].
    destruct rt as [rt|]; cbn [has_retry]; [exact Hmt|].
    cbn [err_ok]. split; [reflexivity|].
    assert (Hfit : inline_fits (c :: s) = true).
    { subst b. destruct ref as [[| |]|]; try discriminate Eb;
        apply orb_false_iff in Eb as [_ Eb]; apply negb_false_iff in Eb; exact Eb. }
    unfold inline_fits in Hfit. apply andb_true_iff in Hfit as [Hj Hr].
    apply str_eqb_eq in Hj. apply negb_true_iff in Hr.
    exists (split_ws (c :: s)). split; [symmetry; exact Hj|].
    split; [|split; [|split]].
    - intros E. rewrite E in Hj. discriminate Hj.
    - apply split_ws_tokens.
    - rewrite retry_shape_same. exact Hr.
    - rewrite Hj, <- Ee. apply Hesc.
  Qed.

  Lemma types_repr_head types s lb rt :
    types_repr col types s lb rt ->
    match lb with
    | Some l => token l /\ kw "retry" l = false /\ (s = None -> parse_sortmode l = None)
    | None => True
    end ->
    qhead_ok col types s lb rt.
  Proof.
    intros [H|[Hne Hp]] Hlb; [left; exact H|]. right.
    destruct (parse_types_stable col Hcol types types Hp) as (_ & Hws & _).
    split; [split; assumption|]. split; [|split; [exact Hp | exact Hlb]].
    destruct (kw "error" types) eqn:E; [|reflexivity]. exfalso.
    unfold kw in E. apply str_eqb_eq in E. subst types.
    destruct Hcol as [_ Hbad]. apply Hbad. exact Hp.
  Qed.

  Lemma qhead_ok_label types s lb rt :
    qhead_ok col types s lb rt ->
    match lb with
    | Some l => token l /\ kw "retry" l = false /\ (s = None -> parse_sortmode l = None)
    | None => True
    end.
  Proof.
    intros [(_ & _ & -> & _)|(_ & _ & _ & H)]; [exact I | exact H].
  Qed.

  Lemma res_ok_rows rows : rows_repr sep rows -> res_ok (map (join sep) rows).
  Proof.
    intros H. unfold res_ok. apply Forall_forall. intros l Hl.
    apply in_map_iff in Hl as (row & <- & Hrow).
    unfold rows_repr in H. rewrite Forall_forall in H. exact (H row Hrow).
  Qed.

  (* a record that satisfies the parser-output invariant is written as itself *)
  Lemma rec_ok_reread r : rec_ok r -> reread r = r.
  Proof.
    destruct r; cbn [rec_ok reread]; try reflexivity.
    intros (_ & Ho & _). destruct stdout as [t|]; [|reflexivity].
    cbn [option_map]. rewrite (mtext_ok_trim_id t Ho). reflexivity.
  Qed.

  (* MAIN THEOREM of part 1 *)
  Theorem update_record_rec_ok r o r' :
    rec_ok r -> update_record r o = Some r' -> out_repr col sep strict r o ->
    rec_ok (reread r').
  Proof.
    intros Hr Hu Ho.
    destruct r as [l f|l cs c sql e rt|l cs c sql e rt|l cs cmd out rt|l d|l x|l|c|l n|c|c|ls| | |];
      destruct o as [|types rows err|cnt err|out' failed]; cbn [Update.update_record] in Hu;
      try discriminate Hu.
    - (* statement, rows / error *)
      destruct Hr as (Hb & He & Hrt).
      destruct err as [m|]; [discriminate Hu|]. inversion Hu; subst; clear Hu.
      cbn [reread rec_ok]. split; [exact Hb|]. split; [|exact Hrt].
      cbn [out_repr] in Ho. destruct e; cbn [sexp_ok]; try exact I. exact Ho.
    - (* statement, completion / error *)
      destruct Hr as (Hb & He & Hrt).
      destruct err as [m|].
      + cbn [out_repr] in Ho.
        assert (Hgo : forall ref, rec_ok (reread (RStatement l cs c sql
                        (SError (new_expected_error ref m (has_retry rt))) rt))).
        { intros ref. cbn [reread rec_ok]. split; [exact Hb|]. split; [|exact Hrt].
          cbn [sexp_ok]. apply new_expected_error_ok. exact Ho. }
        destruct e as [|n|x].
        * inversion Hu; subst. apply Hgo.
        * inversion Hu; subst. apply Hgo.
        * destruct (err_match rm x m); [discriminate Hu|]. inversion Hu; subst. apply Hgo.
      + inversion Hu; subst; clear Hu.
        cbn [reread rec_ok]. split; [exact Hb|]. split; [|exact Hrt].
        cbn [out_repr] in Ho. destruct e; cbn [sexp_ok]; try exact I. exact Ho.
    - (* query, rows / error *)
      destruct Hr as (Hb & He & Hrt).
      destruct err as [m|].
      + assert (Hm : text_repr m) by (destruct e; exact Ho).
        assert (Hgo : forall ref, rec_ok (reread (RQuery l cs c sql
                        (QError (new_expected_error ref m (has_retry rt))) rt))).
        { intros ref. cbn [reread rec_ok]. split; [exact Hb|]. split; [|exact Hrt].
          cbn [qexp_ok]. apply new_expected_error_ok. exact Hm. }
        destruct e as [et s lb ex|x].
        * inversion Hu; subst. apply Hgo.
        * destruct (err_match rm x m); [discriminate Hu|]. inversion Hu; subst. apply Hgo.
      + inversion Hu; subst; clear Hu.
        cbn [reread rec_ok]. split; [exact Hb|]. split; [|exact Hrt].
        destruct e as [et s lb ex|x]; cbn [qexp_ok out_repr] in *.
        * destruct He as [Hh Hres]. destruct Ho as [Ho1 Ho2]. split.
          -- destruct (col_validate strict types et) eqn:Ec; [exact Hh|].
             apply types_repr_head; [apply Ho2; reflexivity|].
             eapply qhead_ok_label. exact Hh.
          -- destruct (validate rows ex) eqn:Ev; [exact Hres|].
             apply res_ok_rows. apply Ho1. reflexivity.
        * destruct Ho as [Ho1 Ho2]. split.
          -- apply types_repr_head; [exact Ho2 | exact I].
          -- apply res_ok_rows. exact Ho1.
    - (* query, completion *)
      destruct Hr as (Hb & He & Hrt).
      destruct err as [m|]; [discriminate Hu|]. inversion Hu; subst; clear Hu.
      cbn [reread rec_ok]. split; [exact Hb|]. split; [|exact Hrt].
      cbn [sexp_ok]. destruct e; exact Ho.
    - (* system *)
      destruct Hr as (Hb & _ & Hrt).
      destruct failed; [discriminate Hu|]. inversion Hu; subst; clear Hu.
      cbn [reread rec_ok]. split; [exact Hb|]. split; [|exact Hrt].
      destruct out' as [t|]; cbn [option_map]; [|exact I].
      apply mtext_ok_trim. exact Ho.
  Qed.

  (* what is written for a record: rewritten, or left alone *)
  Definition written_rec (r : record) (o : routput) : record :=
    match update_record r o with Some x => x | None => r end.

  Corollary written_rec_ok r o :
    rec_ok r -> out_repr col sep strict r o -> rec_ok (reread (written_rec r o)).
  Proof.
    intros Hr Ho. unfold written_rec. destruct (update_record r o) as [r'|] eqn:Hu.
    - eapply update_record_rec_ok; eassumption.
    - rewrite rec_ok_reread by exact Hr. exact Hr.
  Qed.
End OneRecord.

Print Assumptions update_record_rec_ok.
