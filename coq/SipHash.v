(* SipHash.v — SipHash-1-3 with zero keys as used by std's DefaultHasher::new() for `str`
   (the bytes followed by 0xFF); 64-bit words as N mod 2^64.  Modelled and validated against
   Rust (the partition choices of the real binary), not proved against a second formalisation. *)
From SLT Require Export Base Text.
Open Scope N_scope.

Definition M64 : N := 18446744073709551616.
Definition w64 (x : N) : N := x mod M64.
Definition add64 (a b : N) : N := w64 (a + b).
Definition rotl64 (x s : N) : N := w64 (N.lor (N.shiftl x s) (N.shiftr x (64 - s))).

Definition sipround (v : N * N * N * N) : N * N * N * N :=
  let '(v0, v1, v2, v3) := v in
  let v0 := add64 v0 v1 in let v1 := rotl64 v1 13 in let v1 := N.lxor v1 v0 in let v0 := rotl64 v0 32 in
  let v2 := add64 v2 v3 in let v3 := rotl64 v3 16 in let v3 := N.lxor v3 v2 in
  let v0 := add64 v0 v3 in let v3 := rotl64 v3 21 in let v3 := N.lxor v3 v0 in
  let v2 := add64 v2 v1 in let v1 := rotl64 v1 17 in let v1 := N.lxor v1 v2 in let v2 := rotl64 v2 32 in
  (v0, v1, v2, v3).

Fixpoint le64 (bs : list N) : N := match bs with [] => 0 | b :: r => b + 256 * le64 r end.

Definition compress (v : N * N * N * N) (m : N) : N * N * N * N :=
  let '(v0, v1, v2, v3) := v in
  let '(v0, v1, v2, v3) := sipround (v0, v1, v2, N.lxor v3 m) in
  (N.lxor v0 m, v1, v2, v3).

Fixpoint blocks (fuel : nat) (v : N * N * N * N) (bs : list N) : (N * N * N * N) * list N :=
  match fuel with
  | O => (v, bs)
  | S f => if (8 <=? N.of_nat (length bs))
           then blocks f (compress v (le64 (firstn 8 bs))) (skipn 8 bs)
           else (v, bs)
  end.

Definition siphash13 (k0 k1 : N) (bs : list N) : N :=
  let v := (N.lxor k0 8317987319222330741, N.lxor k1 7237128888997146477,
            N.lxor k0 7816392313619706465, N.lxor k1 8387220255154660723) in
  let '(v, tail) := blocks (length bs) v bs in
  let b := w64 (N.shiftl (N.of_nat (length bs) mod 256) 56) + le64 tail in
  let '(v0, v1, v2, v3) := compress v b in
  let '(v0, v1, v2, v3) := sipround (sipround (sipround (v0, v1, N.lxor v2 255, v3))) in
  N.lxor (N.lxor v0 v1) (N.lxor v2 v3).

(* <str as Hash>::hash with DefaultHasher::new() *)
Definition hash_path (p : str) : N := siphash13 0 0 (utf8 p ++ [255]).
