(* DriverLive.v — the driver model never gets stuck and always ends.
   A measure [mu] on states: no transition increases it, Ctrl-C leaves it unchanged, and in
   every state short of the end some choice other than Ctrl-C strictly decreases it (with at
   least one job).  Hence from every state the run can be completed within [mu] steps, and a
   scheduler cannot make progress more than [mu] times: the logic of run_parallel / run_serial,
   connect_and_run_test_file and the RUNNING_TESTS lock contains no deadlock and no livelock.
   (With jobs = 0 and at least one file the model is stuck in the stream phase - as is
   buffer_unordered(0) in the code: see DESIGN.md 0.8.) *)
From SLT Require Import Base Par Cli ParProofs Driver DriverTrans DriverInv.
Open Scope nat_scope.

Definition aw (a : act) : nat := match a with ASql _ false => 4 | _ => 2 end.
Fixpoint sw (l : list act) : nat := match l with [] => 0 | a :: r => aw a + sw r end.

Definition rank (f : fcfg) (t : tstate) : nat :=
  match t with
  | TIdle => sw (f_script f) + 7
  | TSpawned => sw (f_script f) + 6
  | TWaitSkip => 2
  | TRunning rest conns => sw rest + length conns + 4
  | TClosing _ open _ => length open + 2
  | TDone _ _ => 1
  | TReported _ => 0
  end.

Fixpoint ranks (l : list (fcfg * tstate)) : nat :=
  match l with [] => 0 | (f, t) :: r => rank f t + ranks r end.

Definition phase_rank (cf : cfg) (p : dphase) : nat :=
  match p with
  | DCreate todo => length todo + length (c_files cf) + 5
  | DStream => length (c_files cf) + 4
  | DDrop todo => length todo + 2
  | DClose => 1
  | DEnd => 0
  end.

Definition mu (cf : cfg) (st : dst) : nat := phase_rank cf (d_phase st) + ranks (d_tasks st).

Lemma ranks_upd i f t t' l : nth_error l i = Some (f, t) ->
  ranks (upd i (f, t') l) + rank f t = ranks l + rank f t'.
Proof.
  revert i; induction l as [|[g u] l IH]; intros [|i]; cbn [nth_error upd ranks]; try discriminate.
  - intros E; injection E as -> ->. lia.
  - intros E. specialize (IH _ E). lia.
Qed.

Lemma removeN_length s l : In s l -> S (length (removeN s l)) = length l.
Proof.
  induction l as [|x l IH]; cbn [In removeN length]; [tauto|].
  intros H. destruct (N.eqb_spec s x) as [E|E]; [reflexivity|].
  destruct H as [H|H]; [congruence|]. cbn [length]. rewrite (IH H). reflexivity.
Qed.

Lemma ttrans_rank f tok nr next t t' evs next' :
  ttrans f tok nr next t t' evs next' -> rank f t' <= rank f t.
Proof.
  intros T; destruct T; cbn [rank length sw aw]; rewrite ?map_length; try lia;
    try (match goal with |- context [if ?b then _ else _] => destruct b end; cbn [sw aw]; lia).
  pose proof (removeN_length _ _ H). lia.
Qed.

Lemma dbs_length cf : length (dbs_of cf) = length (c_files cf).
Proof. unfold dbs_of. apply map_length. Qed.

(* no transition increases the measure *)
Lemma trans_mu cf st st' evs : DInv cf st -> trans cf st st' evs -> mu cf st' <= mu cf st.
Proof.
  intros D T. unfold mu. destruct T; cbn [set_phase set_tasks d_phase d_tasks]; rewrite ?H; cbn [phase_rank length]; try lia.
  - pose proof (ranks_upd _ _ _ TSpawned _ H1). cbn [rank] in *. lia.
  - pose proof (dbs_length cf). destruct (d_refused st); cbn [phase_rank]; lia.
  - pose proof (ranks_upd _ _ _ t' _ H0). pose proof (ttrans_rank _ _ _ _ _ _ _ _ H1). lia.
  - unfold report_result. pose proof (ranks_upd _ _ _ (TReported had) _ H0). cbn [rank] in *.
    destruct r; cbn [fst d_phase d_tasks phase_rank]; lia.
Qed.

Lemma reach_mu cf st st' tr : DInv cf st -> reach cf st st' tr -> mu cf st' <= mu cf st.
Proof.
  intros D R. induction R; [lia|].
  pose proof (trans_mu _ _ _ _ D H). pose proof (IHR (DInv_trans _ _ _ _ D H)). lia.
Qed.

(* ---- progress ---- *)
Definition mover (t : tstate) : bool :=
  match t with TSpawned | TRunning _ _ | TClosing _ _ _ => true | _ => false end.
Definition is_done (t : tstate) : bool := match t with TDone _ _ => true | _ => false end.
Definition is_wait (t : tstate) : bool := match t with TWaitSkip => true | _ => false end.

Fixpoint find_idx (g : tstate -> bool) (l : list (fcfg * tstate)) : option nat :=
  match l with
  | [] => None
  | (_, t) :: r => if g t then Some O else option_map S (find_idx g r)
  end.

Lemma find_idx_some g l i : find_idx g l = Some i -> exists f t, nth_error l i = Some (f, t) /\ g t = true.
Proof.
  revert i; induction l as [|[f t] l IH]; intros i; cbn [find_idx]; [discriminate|].
  destruct (g t) eqn:G.
  - intros E; injection E as <-. exists f, t. auto.
  - destruct (find_idx g l) as [j|]; cbn [option_map]; [|discriminate].
    intros E; injection E as <-. cbn [nth_error]. apply IH. reflexivity.
Qed.

Lemma find_idx_none g l : find_idx g l = None -> forall i f t, nth_error l i = Some (f, t) -> g t = false.
Proof.
  induction l as [|[f0 t0] l IH]; cbn [find_idx]; intros H i f t Hi.
  - destruct i; discriminate Hi.
  - destruct (g t0) eqn:G; [discriminate H|].
    destruct (find_idx g l) eqn:F; cbn [option_map] in H; [discriminate H|].
    destruct i as [|i]; cbn [nth_error] in Hi.
    + injection Hi as <- <-. exact G.
    + eapply IH; eauto.
Qed.

Lemma task_step_progress f tok nr next k t :
  mover t = true -> rank f (fst (fst (task_step f tok nr next k t))) < rank f t.
Proof.
  destruct t as [| | |rest conns|r open had|r had|had]; cbn [mover]; try discriminate; intros _; cbn [task_step].
  - destruct tok; cbn [fst rank length sw]; lia.
  - destruct tok; [cbn [fst rank]; rewrite map_length; lia|].
    destruct rest as [|[c|c ok|] rest]; cbn [fst rank length sw aw]; rewrite ?map_length; try lia.
    destruct (lookupN c conns); destruct ok; cbn [fst rank length sw aw]; rewrite ?map_length; lia.
  - destruct open as [|s0 o]; [cbn [fst rank length]; lia|].
    cbn [fst rank].
    assert (Hin : In (nth k (s0 :: o) s0) (s0 :: o)).
    { destruct (Nat.lt_ge_cases k (length (s0 :: o))) as [L|L]; [apply nth_In; exact L|].
      rewrite nth_overflow by exact L. left; reflexivity. }
    pose proof (removeN_length _ _ Hin). lia.
Qed.

Lemma no_readers_if_no_mover l :
  (forall i f t, nth_error l i = Some (f, t) -> mover t = false) -> no_readers l = true.
Proof.
  intros H. unfold no_readers. apply forallb_forall. intros [f t] Hin.
  apply In_nth_error in Hin. destruct Hin as [i Hi]. specialize (H _ _ _ Hi).
  cbn [snd]. destruct t; cbn in *; congruence.
Qed.

Lemma n_active_zero l :
  (forall i f t, nth_error l i = Some (f, t) -> active t = false) -> n_active l = 0.
Proof.
  intros H. unfold n_active.
  assert (E : filter (fun p => active (snd p)) l = []).
  { induction l as [|[f t] l IH]; cbn [filter snd]; [reflexivity|].
    rewrite (H 0 f t eq_refl). apply IH. intros i g u Hi. apply (H (S i) g u Hi). }
  rewrite E. reflexivity.
Qed.

(* in every state short of the end some choice other than Ctrl-C makes strict progress *)
Theorem driver_progress cf st :
  0 < c_jobs cf -> DInv cf st -> d_phase st <> DEnd ->
  exists c, c <> CCtrlC /\ mu cf (fst (dstep cf st c)) < mu cf st.
Proof.
  intros J D Hne. unfold mu.
  destruct (d_phase st) as [[|db todo]| |[|db todo]| |] eqn:P.
  - exists CDriver. split; [discriminate|]. cbn [dstep]. unfold driver_step. rewrite P. cbn [fst set_phase d_phase d_tasks phase_rank length]. lia.
  - exists CDriver. split; [discriminate|]. cbn [dstep]. unfold driver_step. rewrite P. cbn [fst set_phase d_phase d_tasks phase_rank length]. lia.
  - (* stream *)
    destruct (find_idx mover (d_tasks st)) as [i|] eqn:F1.
    { destruct (find_idx_some _ _ _ F1) as [f [t [Hi Hm]]].
      exists (CTask i 0). split; [discriminate|]. cbn [dstep]. rewrite P, Hi.
      pose proof (task_step_progress f (d_token st) (no_readers (d_tasks st)) (d_next st) 0 t Hm) as L.
      destruct (task_step f (d_token st) (no_readers (d_tasks st)) (d_next st) 0 t) as [[t' ev] nx].
      cbn [fst] in *. cbn [set_tasks d_phase d_tasks]. rewrite P.
      pose proof (ranks_upd _ _ _ t' _ Hi). lia. }
    pose proof (find_idx_none _ _ F1) as N1.
    destruct (find_idx is_done (d_tasks st)) as [i|] eqn:F2.
    { destruct (find_idx_some _ _ _ F2) as [f [t [Hi Hm]]]. destruct t; try discriminate Hm.
      exists (CReport i). split; [discriminate|]. cbn [dstep]. unfold report_step. rewrite P, Hi.
      pose proof (ranks_upd _ _ _ (TReported had) _ Hi). cbn [rank] in *.
      destruct r; cbn [fst d_phase d_tasks phase_rank]; lia. }
    pose proof (find_idx_none _ _ F2) as N2.
    destruct (find_idx is_wait (d_tasks st)) as [i|] eqn:F3.
    { destruct (find_idx_some _ _ _ F3) as [f [t [Hi Hm]]]. destruct t; try discriminate Hm.
      exists (CTask i 0). split; [discriminate|]. cbn [dstep]. rewrite P, Hi.
      cbn [task_step]. rewrite (no_readers_if_no_mover _ N1).
      cbn [fst set_tasks d_phase d_tasks]. rewrite P.
      pose proof (ranks_upd _ _ _ (TDone RSkipped false) _ Hi). cbn [rank] in *. lia. }
    pose proof (find_idx_none _ _ F3) as N3.
    assert (Hact : n_active (d_tasks st) = 0).
    { apply n_active_zero. intros i f t Hi. specialize (N1 _ _ _ Hi). specialize (N2 _ _ _ Hi). specialize (N3 _ _ _ Hi).
      destruct t; cbn in *; congruence. }
    exists CDriver. split; [discriminate|]. cbn [dstep]. unfold driver_step. rewrite P, Hact.
    assert (Hlt : Nat.ltb 0 (c_jobs cf) = true) by (apply Nat.ltb_lt; exact J). rewrite Hlt.
    destruct (first_idle (d_tasks st)) as [i|] eqn:Fi.
    + destruct (first_idle_spec _ _ Fi) as [f Hf]. rewrite Hf.
      cbn [fst set_tasks d_phase d_tasks]. rewrite P.
      pose proof (ranks_upd _ _ _ TSpawned _ Hf). cbn [rank] in *. lia.
    + assert (Hall : forallb (fun p => is_reported (snd p)) (d_tasks st) = true).
      { apply forallb_forall. intros [f t] Hin. apply In_nth_error in Hin. destruct Hin as [i Hi].
        specialize (N1 _ _ _ Hi). specialize (N2 _ _ _ Hi). specialize (N3 _ _ _ Hi). cbn [snd].
        destruct t; cbn in *; try congruence.
        exfalso. clear - Fi Hi. revert i Hi. induction (d_tasks st) as [|[g u] l IH]; intros [|i] Hi; cbn [nth_error first_idle] in *; try discriminate.
        - injection Hi as -> ->. discriminate Fi.
        - destruct (is_idle u); [discriminate Fi|]. destruct (first_idle l); [discriminate Fi|]. eapply IH; eauto. }
      rewrite Hall. pose proof (dbs_length cf).
      destruct (d_refused st); cbn [fst set_phase d_phase d_tasks phase_rank]; lia.
  - exists CDriver. split; [discriminate|]. cbn [dstep]. unfold driver_step. rewrite P. cbn [fst set_phase d_phase d_tasks phase_rank length]. lia.
  - exists CDriver. split; [discriminate|]. cbn [dstep]. unfold driver_step. rewrite P.
    destruct (c_keep cf && mem db (d_failed_db st)); cbn [fst set_phase d_phase d_tasks phase_rank length]; lia.
  - exists CDriver. split; [discriminate|]. cbn [dstep]. unfold driver_step. rewrite P. cbn [fst set_phase d_phase d_tasks phase_rank length]. lia.
  - congruence.
Qed.

Lemma DInv_dstep cf st c : DInv cf st -> DInv cf (fst (dstep cf st c)).
Proof.
  intros D. destruct (dstep cf st c) as [st' evs] eqn:E. cbn [fst].
  eapply DInv_trans; [exact D|eapply dstep_trans; exact E].
Qed.

(* from every state that satisfies the invariant the run can be completed, in at most mu steps,
   without the help of Ctrl-C *)
Theorem driver_can_finish cf : 0 < c_jobs cf ->
  forall n st, DInv cf st -> mu cf st <= n ->
  exists sched, length sched <= n /\ ~ In CCtrlC sched /\ d_phase (fst (drun cf st sched)) = DEnd.
Proof.
  intros J. induction n as [|n IH]; intros st D L.
  - destruct (d_phase st) eqn:P; try (exfalso; unfold mu in L; rewrite P in L; cbn [phase_rank] in L; lia).
    exists []. cbn. auto.
  - destruct (d_phase st) eqn:P.
    5: { exists []. cbn. split; [lia|]. split; [tauto|exact P]. }
    all: assert (Hne : d_phase st <> DEnd) by (rewrite P; discriminate);
      destruct (driver_progress cf st J D Hne) as [c [Hc Hlt]];
      destruct (IH (fst (dstep cf st c)) (DInv_dstep cf st c D) ltac:(lia)) as [sched [L1 [L2 L3]]];
      exists (c :: sched); (split; [cbn [length]; lia|]); (split; [intros [E|E]; [exact (Hc E)|exact (L2 E)]|]);
      cbn [drun]; destruct (dstep cf st c) as [st1 e1]; cbn [fst] in *;
      destruct (drun cf st1 sched) as [st2 e2]; cbn [fst] in *; exact L3.
Qed.

Corollary driver_terminates cf : 0 < c_jobs cf ->
  exists sched, length sched <= mu cf (dst0 cf) /\ d_phase (fst (drun cf (dst0 cf) sched)) = DEnd.
Proof.
  intros J. destruct (driver_can_finish cf J (mu cf (dst0 cf)) (dst0 cf) (DInv_init cf) (le_n _)) as [s [A [_ B]]].
  exists s. auto.
Qed.

(* ... and from wherever a run has got to, whatever the scheduler and Ctrl-C did before *)
Corollary driver_never_doomed cf sched st tr : 0 < c_jobs cf ->
  drun cf (dst0 cf) sched = (st, tr) ->
  exists more, length more <= mu cf (dst0 cf) /\ ~ In CCtrlC more /\ d_phase (fst (drun cf st more)) = DEnd.
Proof.
  intros J H. apply drun_reach in H.
  pose proof (DInv_reach _ _ _ _ (DInv_init cf) H) as D.
  pose proof (reach_mu _ _ _ _ (DInv_init cf) H) as L.
  exact (driver_can_finish cf J _ st D L).
Qed.
