(* FsProofs.v — proofs about the trailing-newline trimmer (FsTrim.v) and the temp-file +
   rename protocol of the updater (FsUpdate.v). *)
From SLT Require Import Base FsTrim FsUpdate.
Open Scope N_scope.

(* ================================================================== *)
(* 1. the trimmer                                                     *)
(* ================================================================== *)

Lemma ctn_cons x r :
  count_trailing_nl_rev (x :: r) =
  if N.eqb x 10 then S (count_trailing_nl_rev r) else O.
Proof.
  destruct x as [|p]; [reflexivity|].
  repeat (destruct p as [p|p|]; try reflexivity).
Qed.

Lemma ctn_nil : count_trailing_nl_rev [] = O.
Proof. reflexivity. Qed.

Lemma ctn_firstn r : forall j,
  count_trailing_nl_rev (firstn j r) = Nat.min (count_trailing_nl_rev r) j.
Proof.
  induction r as [|x r IH]; intros [|j]; cbn [firstn]; rewrite ?ctn_cons, ?ctn_nil;
    try reflexivity.
  - now rewrite Nat.min_0_r.
  - destruct (N.eqb x 10); [|reflexivity].
    rewrite IH. reflexivity.
Qed.

Lemma ctn_repeat_app k r :
  count_trailing_nl_rev (repeat 10 k ++ r) = (k + count_trailing_nl_rev r)%nat.
Proof.
  induction k as [|k IH]; cbn [repeat app]; [reflexivity|].
  rewrite ctn_cons. cbn [N.eqb Pos.eqb]. rewrite IH. reflexivity.
Qed.

Lemma ctn_rev_last body : last body 0 <> 10 -> count_trailing_nl_rev (rev body) = O.
Proof.
  destruct body as [|x body _] using rev_ind; intros Hl; [reflexivity|].
  rewrite last_last in Hl. rewrite rev_unit, ctn_cons.
  destruct (N.eqb_spec x 10); congruence.
Qed.

Lemma rev_repeat {A} (a : A) k : rev (repeat a k) = repeat a k.
Proof.
  induction k as [|k IH]; [reflexivity|].
  cbn [repeat rev]. rewrite IH. symmetry. apply repeat_cons.
Qed.

Lemma ctn_rev_body_nl body k :
  last body 0 <> 10 ->
  count_trailing_nl_rev (rev (body ++ repeat 10 k)) = k.
Proof.
  intros Hl. rewrite rev_app_distr, rev_repeat, ctn_repeat_app, ctn_rev_last by exact Hl.
  lia.
Qed.

(* the trailing-newline count of the window of [n] bytes *)
Lemma window_count f n :
  count_trailing_nl_rev (rev (skipn (length f - n) f)) =
  Nat.min (count_trailing_nl_rev (rev f)) n.
Proof. rewrite <- firstn_rev. apply ctn_firstn. Qed.

Lemma firstn_repeat {A} (a : A) k j : (j <= k)%nat -> firstn j (repeat a k) = repeat a j.
Proof.
  revert j; induction k as [|k IH]; intros [|j] Hj; cbn [repeat firstn]; try reflexivity; try lia.
  rewrite IH by lia. reflexivity.
Qed.

Lemma firstn_body_nl body k j :
  (j <= k)%nat ->
  firstn (length (body ++ repeat 10 k) - j) (body ++ repeat 10 k) = body ++ repeat 10 (k - j).
Proof.
  intros Hj. rewrite app_length, repeat_length.
  replace (length body + k - j)%nat with (length body + (k - j))%nat by lia.
  rewrite firstn_app_2, firstn_repeat by lia. reflexivity.
Qed.

(* one unfolding of the loop, with the window count abstracted *)
Lemma trim_loop_S fuel f :
  trim_loop (S fuel) f =
  let n := Nat.min (length f) 8 in
  match n with
  | O => TOk f
  | _ =>
    let k := Nat.min (count_trailing_nl_rev (rev f)) n in
    match k with
    | O => TPanic
    | S O => TOk f
    | _ => let f' := firstn (length f - k + 1) f in
           if Nat.ltb k n then TOk f' else trim_loop fuel f'
    end
  end.
Proof. cbn [trim_loop]. cbv zeta. rewrite window_count. reflexivity. Qed.

Lemma trim_loop_spec : forall fuel body k,
  last body 0 <> 10 -> (1 <= k)%nat -> (k <= fuel)%nat ->
  trim_loop fuel (body ++ repeat 10 k) = TOk (body ++ [10]).
Proof.
  induction fuel as [|fuel IH]; intros body k Hl Hk Hf; [lia|].
  rewrite trim_loop_S. cbv zeta.
  rewrite (ctn_rev_body_nl body k Hl).
  assert (Hlen : length (body ++ repeat 10 k) = (length body + k)%nat)
    by now rewrite app_length, repeat_length.
  remember (Nat.min (length (body ++ repeat 10 k)) 8) as n eqn:Hn.
  destruct n as [|n']; [lia|].
  remember (Nat.min k (S n')) as c eqn:Hc.
  destruct c as [|[|c']]; [lia| |].
  - assert (k = 1)%nat by lia. subst k. reflexivity.
  - pose (L := length (body ++ repeat 10 k)). fold L. fold L in Hlen, Hn.
    replace (L - S (S c') + 1)%nat with (L - S c')%nat by lia. subst L.
    rewrite firstn_body_nl by lia.
    destruct (Nat.ltb_spec (S (S c')) (S n')) as [Hlt|Hge].
    + replace (k - S c')%nat with 1%nat by lia. reflexivity.
    + apply IH; [exact Hl|lia|lia].
Qed.

Theorem trim_tail_spec :
  forall body k, last body 0 <> 10 -> (1 <= k)%nat ->
    trim_tail (body ++ repeat 10 k) = TOk (body ++ [10]).
Proof.
  intros body k Hl Hk. unfold trim_tail. apply trim_loop_spec; [exact Hl|exact Hk|].
  rewrite app_length, repeat_length. lia.
Qed.
Print Assumptions trim_tail_spec.

Theorem trim_tail_empty : trim_tail [] = TOk [].
Proof. reflexivity. Qed.
Print Assumptions trim_tail_empty.

(* every file is a body not ending in a newline followed by a run of newlines *)
Lemma split_trailing_nl (f : list N) :
  exists body k, f = body ++ repeat 10 k /\ last body 0 <> 10.
Proof.
  induction f as [|x f IH] using rev_ind.
  - exists [], O. split; [reflexivity|]. cbn [last]. discriminate.
  - destruct (N.eq_dec x 10) as [Hx|Hx].
    + destruct IH as (body & k & Hf & Hl). exists body, (S k). split; [|exact Hl].
      subst x f. cbn [repeat]. rewrite repeat_cons, app_assoc. reflexivity.
    + exists (f ++ [x]), O. split; [cbn [repeat]; now rewrite app_nil_r|].
      now rewrite last_last.
Qed.

Theorem trim_tail_total : forall f, f = [] \/ last f 0 = 10 -> exists b, trim_tail f = TOk b.
Proof.
  intros f [Hf|Hf].
  - subst f. exists []. reflexivity.
  - destruct (split_trailing_nl f) as (body & k & Hfk & Hl).
    destruct k as [|k].
    + cbn [repeat] in Hfk. rewrite app_nil_r in Hfk. congruence.
    + subst f. exists (body ++ [10]). apply trim_tail_spec; [exact Hl|lia].
Qed.
Print Assumptions trim_tail_total.

Theorem trim_tail_v0_refuted : exists f, last f 0 = 10 /\ trim_tail_v0 f = TPanic.
Proof. exists [104; 97; 108; 116; 10]. split; reflexivity. Qed.
Print Assumptions trim_tail_v0_refuted.

Lemma trim_loop_v0_agrees : forall fuel f b,
  trim_loop_v0 fuel f = TOk b -> trim_loop fuel f = TOk b.
Proof.
  induction fuel as [|fuel IH]; intros f b H; [discriminate H|].
  cbn [trim_loop_v0] in H. cbn [trim_loop].
  destruct (Nat.ltb_spec (length f) 8) as [Hlt|Hge]; [discriminate H|].
  replace (Nat.min (length f) 8) with 8%nat by lia. cbv zeta in H |- *.
  cbv iota beta.
  destruct (count_trailing_nl_rev (rev (skipn (length f - 8) f))) as [|[|k]];
    [discriminate H|exact H|].
  destruct (Nat.ltb (S (S k)) 8); [exact H|]. apply IH. exact H.
Qed.

Theorem trim_tail_v0_agrees : forall f b, trim_tail_v0 f = TOk b -> trim_tail f = TOk b.
Proof. intros f b. apply trim_loop_v0_agrees. Qed.
Print Assumptions trim_tail_v0_agrees.

(* ================================================================== *)
(* 2. the truncations emitted by trim_ops                              *)
(* ================================================================== *)

Lemma fs_set_same fs p v : fs_set fs p v p = v.
Proof. unfold fs_set. now rewrite str_eqb_refl. Qed.

Lemma fs_set_other fs p v q : q <> p -> fs_set fs p v q = fs q.
Proof.
  intros Hq. unfold fs_set. destruct (str_eqb_spec q p) as [He|_]; [contradiction|reflexivity].
Qed.

Lemma run_ops_cons fs o ops : run_ops fs (o :: ops) = run_ops (apply_op fs o) ops.
Proof. reflexivity. Qed.

Lemma run_ops_nil fs : run_ops fs [] = fs.
Proof. reflexivity. Qed.

Lemma run_ops_app fs a b : run_ops fs (a ++ b) = run_ops (run_ops fs a) b.
Proof. unfold run_ops. apply fold_left_app. Qed.

Lemma trim_ops_loop_spec : forall fuel fs p c b,
  fs p = Some c -> trim_loop fuel c = TOk b ->
  run_ops fs (trim_ops_loop fuel p c) p = Some b /\
  (forall q, q <> p -> run_ops fs (trim_ops_loop fuel p c) q = fs q).
Proof.
  induction fuel as [|fuel IH]; intros fs p c b Hp Ht; [discriminate Ht|].
  cbn [trim_loop] in Ht. cbn [trim_ops_loop]. cbv zeta in Ht |- *.
  destruct (Nat.min (length c) 8) as [|n'].
  { rewrite run_ops_nil. split; [congruence|reflexivity]. }
  destruct (count_trailing_nl_rev (rev (skipn (length c - S n') c))) as [|[|k]].
  { discriminate Ht. }
  { rewrite run_ops_nil. split; [congruence|reflexivity]. }
  rewrite run_ops_cons. cbn [apply_op]. rewrite Hp.
  destruct (Nat.ltb (S (S k)) (S n')).
  - rewrite run_ops_nil. split.
    + rewrite fs_set_same. congruence.
    + intros q Hq. now apply fs_set_other.
  - destruct (IH (fs_set fs p (Some (firstn (length c - S (S k) + 1) c))) p _ b
                (fs_set_same _ _ _) Ht) as [H1 H2].
    split; [exact H1|]. intros q Hq. rewrite (H2 q Hq). now apply fs_set_other.
Qed.

Theorem trim_ops_spec :
  forall fs p c b, fs p = Some c -> trim_tail c = TOk b ->
    run_ops fs (trim_ops p c) p = Some b /\ (forall q, q <> p -> run_ops fs (trim_ops p c) q = fs q).
Proof. intros fs p c b Hp Ht. now apply trim_ops_loop_spec. Qed.
Print Assumptions trim_ops_spec.

(* when the trimmer panics (file not ending in a newline) no truncation is emitted *)
Lemma trim_ops_panic p c : trim_tail c = TPanic -> trim_ops p c = [].
Proof.
  intros Ht.
  destruct c as [|x c']; [discriminate Ht|].
  destruct (N.eq_dec (last (x :: c') 0) 10) as [Hl|Hl].
  { destruct (trim_tail_total (x :: c') (or_intror Hl)) as [b Hb]. congruence. }
  unfold trim_ops. cbn [trim_ops_loop]. cbv zeta.
  rewrite window_count, (ctn_rev_last _ Hl).
  cbn [Nat.min]. destruct (Nat.min (length (x :: c')) 8); reflexivity.
Qed.

(* ================================================================== *)
(* 3/4. the temp-file + rename protocol                                *)
(* ================================================================== *)

Definition fresh (tmp : str -> str) (files : list str) : Prop :=
  (forall f g, In f files -> In g files -> tmp f <> g) /\
  (forall f g, In f files -> In g files -> tmp f = tmp g -> f = g).

Fixpoint balanced (depth : nat) (evs : list wev) : bool :=
  match evs with
  | [] => Nat.eqb depth 0
  | WOpen _ :: r => balanced (S depth) r
  | WWrite _ :: r => match depth with O => false | _ => balanced depth r end
  | WClose :: r => match depth with O => false | S d => balanced d r end
  end.

Lemma fresh_incl tmp l l' : (forall x, In x l' -> In x l) -> fresh tmp l -> fresh tmp l'.
Proof.
  intros Hi [H1 H2]. split.
  - intros f g Hf Hg. apply H1; now apply Hi.
  - intros f g Hf Hg. apply H2; now apply Hi.
Qed.

(* ---- frame: operations that do not name a path leave it alone *)
Definition writes (o : fsop) (q : str) : Prop :=
  match o with
  | OpCreate p | OpAppend p _ | OpSetLen p _ => q = p
  | OpRename s d => q = s \/ q = d
  end.

Lemma apply_op_frame fs o q : ~ writes o q -> apply_op fs o q = fs q.
Proof.
  destruct o as [p|p bs|p n|s d]; cbn [writes apply_op]; intros Hw.
  - now apply fs_set_other.
  - destruct (fs p); [now apply fs_set_other|reflexivity].
  - destruct (fs p); [now apply fs_set_other|reflexivity].
  - destruct (fs s); [|reflexivity].
    rewrite fs_set_other by tauto. apply fs_set_other. tauto.
Qed.

Lemma run_ops_frame : forall ops fs q,
  (forall o, In o ops -> ~ writes o q) -> run_ops fs ops q = fs q.
Proof.
  induction ops as [|o ops IH]; intros fs q Hw; [reflexivity|].
  rewrite run_ops_cons, IH by (intros o' Ho'; apply Hw; now right).
  apply apply_op_frame. apply Hw. now left.
Qed.

Lemma In_firstn {A} (x : A) : forall l k, In x (firstn k l) -> In x l.
Proof.
  intros l k Hx. rewrite <- (firstn_skipn k l). apply in_or_app. now left.
Qed.

(* ---- the live files: those on the stack and those still to be opened *)
Definition live (st : list (str * list N)) (evs : list wev) : list str :=
  rev (map fst st) ++ opened evs.

Lemma live_push g c st r : live ((g, c) :: st) r = rev (map fst st) ++ g :: opened r.
Proof. unfold live. cbn [map fst rev]. now rewrite <- app_assoc. Qed.

Lemma live_open g c st r : live st (WOpen g :: r) = live ((g, c) :: st) r.
Proof. rewrite live_push. reflexivity. Qed.

Lemma live_top g c st r : In g (live ((g, c) :: st) r).
Proof. rewrite live_push. apply in_or_app. right. now left. Qed.

Lemma live_tail g c st r x : In x (live st r) -> In x (live ((g, c) :: st) r).
Proof.
  rewrite live_push. unfold live. rewrite !in_app_iff. cbn [In]. tauto.
Qed.

Lemma live_push_inv g c st r x :
  In x (live ((g, c) :: st) r) -> x = g \/ In x (live st r).
Proof.
  rewrite live_push. unfold live. rewrite !in_app_iff. cbn [In]. intuition auto.
Qed.

Lemma live_stack g c st r : In (g, c) st -> In g (live st r).
Proof.
  intros Hi. unfold live. apply in_or_app. left. rewrite <- in_rev.
  change g with (fst (g, c)). now apply in_map.
Qed.

Lemma live_push_nodup g c st r :
  NoDup (live ((g, c) :: st) r) -> NoDup (live st r) /\ ~ In g (live st r).
Proof. rewrite live_push. apply NoDup_remove. Qed.

(* ---- every operation is about the temp file of a live file *)
Definition op_for (tmp : str -> str) (g : str) (o : fsop) : Prop :=
  match o with
  | OpCreate p | OpAppend p _ | OpSetLen p _ => p = tmp g
  | OpRename s d => s = tmp g /\ d = g
  end.

Lemma trim_ops_loop_for : forall fuel p c o,
  In o (trim_ops_loop fuel p c) -> exists n, o = OpSetLen p n.
Proof.
  induction fuel as [|fuel IH]; intros p c o Ho; [destruct Ho|].
  cbn [trim_ops_loop] in Ho. cbv zeta in Ho.
  destruct (Nat.min (length c) 8) as [|n']; [destruct Ho|].
  destruct (count_trailing_nl_rev (rev (skipn (length c - S n') c))) as [|[|k]];
    [destruct Ho|destruct Ho|].
  destruct Ho as [Ho|Ho]; [eexists; symmetry; exact Ho|].
  destruct (Nat.ltb (S (S k)) (S n')); [destruct Ho|]. eapply IH. exact Ho.
Qed.

Lemma trim_ops_for p c o : In o (trim_ops p c) -> exists n, o = OpSetLen p n.
Proof. apply trim_ops_loop_for. Qed.

Lemma ops_of_for tmp : forall evs st o,
  In o (ops_of tmp evs st) -> exists g, In g (live st evs) /\ op_for tmp g o.
Proof.
  induction evs as [|e r IH]; intros st o Ho; [destruct Ho|].
  destruct e as [g|bs|]; cbn [ops_of] in Ho.
  - rewrite (live_open g []). destruct Ho as [Ho|Ho].
    + subst o. exists g. split; [apply live_top|reflexivity].
    + apply IH in Ho. exact Ho.
  - destruct st as [|[g c] st].
    + apply IH in Ho. exact Ho.
    + destruct Ho as [Ho|Ho].
      * subst o. exists g. split; [apply (live_top g c st r)|reflexivity].
      * apply IH in Ho. exact Ho.
  - destruct st as [|[g c] st].
    + apply IH in Ho. exact Ho.
    + apply in_app_or in Ho. destruct Ho as [Ho|[Ho|Ho]].
      * apply trim_ops_for in Ho. destruct Ho as [n Ho]. subst o.
        exists g. split; [apply (live_top g c st r)|reflexivity].
      * subst o. exists g. split; [apply (live_top g c st r)|split; reflexivity].
      * apply IH in Ho. destruct Ho as (g' & Hg' & Hfor).
        exists g'. split; [|exact Hfor]. apply (live_tail g c st r). exact Hg'.
Qed.

Theorem only_rename_touches_originals :
  forall tmp evs f o,
    fresh tmp (opened evs) -> In f (opened evs) -> In o (ops_of tmp evs []) ->
    match o with
    | OpCreate p | OpAppend p _ | OpSetLen p _ => p <> f
    | OpRename s d => s <> f
    end.
Proof.
  intros tmp evs f o [Hfr _] Hf Ho.
  apply ops_of_for in Ho. destruct Ho as (g & Hg & Hfor).
  change (live [] evs) with (opened evs) in Hg.
  destruct o as [p|p bs|p n|s d]; cbn [op_for] in Hfor.
  - subst p. now apply Hfr.
  - subst p. now apply Hfr.
  - subst p. now apply Hfr.
  - destruct Hfor as [Hs _]. subst s. now apply Hfr.
Qed.
Print Assumptions only_rename_touches_originals.

(* a path that is neither a live file nor the temp file of one is never touched *)
Lemma ops_of_frame tmp evs st fs j q :
  (forall g, In g (live st evs) -> q <> tmp g /\ q <> g) ->
  run_ops fs (firstn j (ops_of tmp evs st)) q = fs q.
Proof.
  intros Hq. apply run_ops_frame. intros o Ho Hw.
  apply In_firstn in Ho. apply ops_of_for in Ho. destruct Ho as (g & Hg & Hfor).
  destruct (Hq g Hg) as [Hq1 Hq2].
  destruct o as [p|p bs|p n|s d]; cbn [op_for writes] in Hfor, Hw.
  - congruence.
  - congruence.
  - congruence.
  - destruct Hfor as [-> ->]. tauto.
Qed.

(* ---- closing a file: truncations, then the rename *)
Definition trimmed (c : list N) : list N :=
  match trim_tail c with TOk b => b | TPanic => c end.

Lemma trim_prefix_frame fs p c j q :
  q <> p -> run_ops fs (firstn j (trim_ops p c)) q = fs q.
Proof.
  intros Hq. apply run_ops_frame. intros o Ho Hw. apply In_firstn in Ho.
  apply trim_ops_for in Ho. destruct Ho as [n ->]. cbn [writes] in Hw. contradiction.
Qed.

Lemma run_trim_ops fs p c :
  fs p = Some c ->
  run_ops fs (trim_ops p c) p = Some (trimmed c) /\
  (forall q, q <> p -> run_ops fs (trim_ops p c) q = fs q).
Proof.
  intros Hp. unfold trimmed. destruct (trim_tail c) as [b|] eqn:Ht.
  - now apply trim_ops_spec.
  - rewrite (trim_ops_panic p c Ht), run_ops_nil. split; [exact Hp|reflexivity].
Qed.

Lemma close_step fs p g c :
  fs p = Some c -> p <> g ->
  let fs2 := apply_op (run_ops fs (trim_ops p c)) (OpRename p g) in
  fs2 g = Some (trimmed c) /\ fs2 p = None /\
  (forall q, q <> p -> q <> g -> fs2 q = fs q).
Proof.
  intros Hp Hpg. destruct (run_trim_ops fs p c Hp) as [H1 H2].
  cbn zeta. cbn [apply_op]. rewrite H1. split; [|split].
  - rewrite fs_set_other by congruence. apply fs_set_same.
  - apply fs_set_same.
  - intros q Hq1 Hq2. rewrite !fs_set_other by assumption. now apply H2.
Qed.

(* ---- the stack invariant: the temp file of every open file holds what was written *)
Definition stack_ok (tmp : str -> str) (fs : fsys) (st : list (str * list N)) : Prop :=
  forall g c, In (g, c) st -> fs (tmp g) = Some c.

Lemma stack_ok_push tmp fs g c0 c st r :
  NoDup (live ((g, c0) :: st) r) -> fresh tmp (live ((g, c0) :: st) r) ->
  stack_ok tmp fs st ->
  stack_ok tmp (fs_set fs (tmp g) (Some c)) ((g, c) :: st).
Proof.
  intros Hnd [_ Hinj] Hst g' c' [He|Hi].
  - inversion He; subst g' c'. apply fs_set_same.
  - rewrite fs_set_other; [now apply Hst|].
    apply live_push_nodup in Hnd. destruct Hnd as [_ Hg].
    intros He. apply Hinj in He.
    + subst g'. apply Hg. eapply live_stack. exact Hi.
    + apply live_tail. eapply live_stack. exact Hi.
    + apply live_top.
Qed.

Lemma stack_ok_pop tmp fs fs2 g c st r :
  NoDup (live ((g, c) :: st) r) -> fresh tmp (live ((g, c) :: st) r) ->
  stack_ok tmp fs ((g, c) :: st) ->
  (forall q, q <> tmp g -> q <> g -> fs2 q = fs q) ->
  stack_ok tmp fs2 st.
Proof.
  intros Hnd [Hne Hinj] Hst Hfs2 g' c' Hi.
  apply live_push_nodup in Hnd. destruct Hnd as [_ Hg].
  assert (Hl' : In g' (live ((g, c) :: st) r)) by (apply live_tail; eapply live_stack; exact Hi).
  rewrite Hfs2.
  - apply Hst. now right.
  - intros He. apply Hinj in He; [|exact Hl'|apply live_top].
    subst g'. apply Hg. eapply live_stack. exact Hi.
  - apply Hne; [exact Hl'|apply live_top].
Qed.

(* ---- atomicity, generalised over the stack and the current file system *)
Lemma atomic_gen tmp : forall evs st fs k f,
  NoDup (live st evs) -> fresh tmp (live st evs) -> stack_ok tmp fs st ->
  In f (live st evs) ->
  run_ops fs (firstn k (ops_of tmp evs st)) f = fs f \/
  (exists c, assoc_bytes f (closed_of evs st) = Some c /\
             run_ops fs (firstn k (ops_of tmp evs st)) f = Some c).
Proof.
  induction evs as [|e r IH]; intros st fs k f Hnd Hfr Hst Hf.
  { left. cbn [ops_of]. now rewrite firstn_nil. }
  destruct e as [g|bs|].
  - (* WOpen g *)
    rewrite (live_open g []) in Hnd, Hfr, Hf.
    cbn [ops_of closed_of]. destruct k as [|k]; [left; reflexivity|].
    cbn [firstn]. rewrite run_ops_cons. cbn [apply_op].
    assert (Hne : f <> tmp g).
    { intros He. destruct Hfr as [Hfr _]. apply (Hfr g f); [apply live_top|exact Hf|now symmetry]. }
    specialize (IH ((g, []) :: st) (fs_set fs (tmp g) (Some [])) k f Hnd Hfr
                   (stack_ok_push tmp fs g [] [] st r Hnd Hfr Hst) Hf).
    rewrite (fs_set_other fs (tmp g) (Some []) f Hne) in IH. exact IH.
  - (* WWrite bs *)
    destruct st as [|[g c] st].
    + cbn [ops_of closed_of]. apply IH; assumption.
    + cbn [ops_of closed_of]. destruct k as [|k]; [left; reflexivity|].
      cbn [firstn]. rewrite run_ops_cons. cbn [apply_op].
      change (live ((g, c) :: st) (WWrite bs :: r)) with (live ((g, c) :: st) r) in Hnd, Hfr, Hf.
      rewrite (Hst g c (or_introl eq_refl)).
      assert (Hne : f <> tmp g).
      { intros He. destruct Hfr as [Hfr _]. apply (Hfr g f); [apply live_top|exact Hf|now symmetry]. }
      assert (Hst0 : stack_ok tmp fs st) by (intros g' c' Hi; apply Hst; now right).
      specialize (IH ((g, c ++ bs) :: st) (fs_set fs (tmp g) (Some (c ++ bs))) k f Hnd Hfr
                     (stack_ok_push tmp fs g c (c ++ bs) st r Hnd Hfr Hst0) Hf).
      rewrite (fs_set_other fs (tmp g) (Some (c ++ bs)) f Hne) in IH. exact IH.
  - (* WClose *)
    destruct st as [|[g c] st].
    + cbn [ops_of closed_of]. apply IH; assumption.
    + cbn [ops_of closed_of].
      change (live ((g, c) :: st) (WClose :: r)) with (live ((g, c) :: st) r) in Hnd, Hfr, Hf.
      assert (Htg : tmp g <> g).
      { destruct Hfr as [Hfr _]. apply Hfr; apply live_top. }
      assert (Hne : f <> tmp g).
      { intros He. destruct Hfr as [Hfr _]. apply (Hfr g f); [apply live_top|exact Hf|now symmetry]. }
      rewrite firstn_app.
      destruct (k - length (trim_ops (tmp g) c))%nat as [|j] eqn:Hk.
      * (* the crash happens inside the truncations *)
        cbn [firstn]. rewrite app_nil_r. left. now apply trim_prefix_frame.
      * rewrite firstn_all2 by lia. cbn [firstn].
        rewrite run_ops_app, run_ops_cons.
        destruct (close_step fs (tmp g) g c (Hst g c (or_introl eq_refl)) Htg)
          as (Hg2 & _ & Hother).
        cbv zeta in Hg2, Hother.
        set (fs2 := apply_op (run_ops fs (trim_ops (tmp g) c)) (OpRename (tmp g) g)) in *.
        destruct (live_push_nodup g c st r Hnd) as [Hnd' Hgl].
        assert (Hfr' : fresh tmp (live st r)).
        { eapply fresh_incl; [|exact Hfr]. intros x Hx. now apply live_tail. }
        assert (Hst' : stack_ok tmp fs2 st).
        { eapply stack_ok_pop; [exact Hnd|exact Hfr|exact Hst|exact Hother]. }
        fold (trimmed c).
        destruct (live_push_inv g c st r f Hf) as [Hfg|Hfl].
        -- (* f is the file just renamed: nothing touches it any more *)
           subst f. right. exists (trimmed c). cbn [assoc_bytes]. rewrite str_eqb_refl.
           split; [reflexivity|]. rewrite ops_of_frame; [exact Hg2|].
           intros g' Hg'. split.
           ++ intros He. destruct Hfr as [Hfr _].
              apply (Hfr g' g); [now apply live_tail|apply live_top|now symmetry].
           ++ intros He. subst g'. contradiction.
        -- assert (Hfg : f <> g) by (intros He; subst f; contradiction).
           specialize (IH st fs2 j f Hnd' Hfr' Hst' Hfl).
           rewrite (Hother f Hne Hfg) in IH.
           cbn [assoc_bytes].
           destruct (str_eqb_spec f g) as [He|_]; [contradiction|]. exact IH.
Qed.

Theorem atomic_prefix :
  forall tmp evs fs0 k f,
    NoDup (opened evs) -> fresh tmp (opened evs) -> In f (opened evs) ->
    let fsk := run_ops fs0 (firstn k (ops_of tmp evs [])) in
    fsk f = fs0 f \/ (exists c, assoc_bytes f (closed_of evs []) = Some c /\ fsk f = Some c).
Proof.
  intros tmp evs fs0 k f Hnd Hfr Hf. cbv zeta.
  apply atomic_gen; try assumption.
  intros g c [].
Qed.
Print Assumptions atomic_prefix.

(* ---- completion *)
Lemma final_gen tmp : forall evs st fs f,
  balanced (length st) evs = true ->
  NoDup (live st evs) -> fresh tmp (live st evs) -> stack_ok tmp fs st ->
  In f (live st evs) ->
  (exists c, assoc_bytes f (closed_of evs st) = Some c /\
             run_ops fs (ops_of tmp evs st) f = Some c) /\
  run_ops fs (ops_of tmp evs st) (tmp f) = None.
Proof.
  induction evs as [|e r IH]; intros st fs f Hb Hnd Hfr Hst Hf.
  { cbn [balanced] in Hb. apply Nat.eqb_eq in Hb. destruct st; [destruct Hf|discriminate Hb]. }
  destruct e as [g|bs|].
  - (* WOpen g *)
    rewrite (live_open g []) in Hnd, Hfr, Hf.
    cbn [ops_of closed_of]. rewrite run_ops_cons. cbn [apply_op].
    apply IH; [exact Hb|exact Hnd|exact Hfr| |exact Hf].
    now apply (stack_ok_push tmp fs g [] [] st r).
  - (* WWrite bs *)
    destruct st as [|[g c] st]; [discriminate Hb|].
    cbn [ops_of closed_of]. rewrite run_ops_cons. cbn [apply_op].
    change (live ((g, c) :: st) (WWrite bs :: r)) with (live ((g, c) :: st) r) in Hnd, Hfr, Hf.
    rewrite (Hst g c (or_introl eq_refl)).
    assert (Hst0 : stack_ok tmp fs st) by (intros g' c' Hi; apply Hst; now right).
    apply IH; [exact Hb|exact Hnd|exact Hfr| |exact Hf].
    now apply (stack_ok_push tmp fs g c (c ++ bs) st r).
  - (* WClose *)
    destruct st as [|[g c] st]; [discriminate Hb|].
    cbn [ops_of closed_of]. cbn [balanced length] in Hb.
    change (live ((g, c) :: st) (WClose :: r)) with (live ((g, c) :: st) r) in Hnd, Hfr, Hf.
    assert (Htg : tmp g <> g).
    { destruct Hfr as [Hfr _]. apply Hfr; apply live_top. }
    rewrite run_ops_app, run_ops_cons.
    destruct (close_step fs (tmp g) g c (Hst g c (or_introl eq_refl)) Htg)
      as (Hg2 & Hg3 & Hother).
    cbv zeta in Hg2, Hg3, Hother.
    set (fs2 := apply_op (run_ops fs (trim_ops (tmp g) c)) (OpRename (tmp g) g)) in *.
    destruct (live_push_nodup g c st r Hnd) as [Hnd' Hgl].
    assert (Hfr' : fresh tmp (live st r)).
    { eapply fresh_incl; [|exact Hfr]. intros x Hx. now apply live_tail. }
    assert (Hst' : stack_ok tmp fs2 st).
    { eapply stack_ok_pop; [exact Hnd|exact Hfr|exact Hst|exact Hother]. }
    fold (trimmed c).
    destruct (live_push_inv g c st r f Hf) as [Hfg|Hfl].
    + subst f. rewrite <- (firstn_all (ops_of tmp r st)).
      split.
      * exists (trimmed c). cbn [assoc_bytes]. rewrite str_eqb_refl.
        split; [reflexivity|]. rewrite ops_of_frame; [exact Hg2|].
        intros g' Hg'. split.
        -- intros He. destruct Hfr as [Hfr _].
           apply (Hfr g' g); [now apply live_tail|apply live_top|now symmetry].
        -- intros He. subst g'. contradiction.
      * rewrite ops_of_frame; [exact Hg3|].
        intros g' Hg'. split.
        -- intros He. destruct Hfr as [_ Hinj].
           apply Hinj in He; [|apply live_top|now apply live_tail].
           subst g'. contradiction.
        -- intros He. destruct Hfr as [Hfr _].
           apply (Hfr g g'); [apply live_top|now apply live_tail|exact He].
    + assert (Hfg : f <> g) by (intros He; subst f; contradiction).
      cbn [assoc_bytes].
      destruct (str_eqb_spec f g) as [He|_]; [contradiction|].
      apply IH; assumption.
Qed.

Theorem final_state :
  forall tmp evs fs0 f,
    balanced 0 evs = true -> NoDup (opened evs) -> fresh tmp (opened evs) ->
    (forall g, In g (opened evs) -> fs0 (tmp g) = None) ->
    In f (opened evs) ->
    let fsn := run_ops fs0 (ops_of tmp evs []) in
    (exists c, assoc_bytes f (closed_of evs []) = Some c /\ fsn f = Some c) /\ fsn (tmp f) = None.
Proof.
  intros tmp evs fs0 f Hb Hnd Hfr _ Hf. cbv zeta.
  apply final_gen; try assumption.
  intros g c [].
Qed.
Print Assumptions final_state.

(* bonus: the content recorded by [closed_of] for a file whose writes end in a newline ends
   with exactly one newline *)
Corollary trimmed_one_newline c :
  last c 0 = 10 -> exists body, last body 0 <> 10 /\ trimmed c = body ++ [10].
Proof.
  intros Hc. destruct (split_trailing_nl c) as (body & k & Hck & Hl).
  destruct k as [|k].
  - cbn [repeat] in Hck. rewrite app_nil_r in Hck. congruence.
  - exists body. split; [exact Hl|]. unfold trimmed. subst c.
    rewrite trim_tail_spec by (try exact Hl; lia). reflexivity.
Qed.
Print Assumptions trimmed_one_newline.
