(* Decode.v — glue between the wire format (val trees mirroring the harness's
   tagged-list JSON) and the model's types.  Part of the trusted correspondence
   machinery, not of any theorem. *)
From SLT Require Export Syntax.
Open Scope N_scope.

Definition tag_of (v : val) : str := get_s (nthv 0 (get_l v)).
Definition tag_is (v : val) (t : string) : bool := str_eqb (tag_of v) (lit t).
Definition arg (i : nat) (v : val) : val := nthv i (get_l v).
Definition is_null (v : val) : bool := match v with VL [] => true | _ => false end.
Definition d_opt {A} (f : val -> A) (v : val) : option A := if is_null v then None else Some (f v).

Fixpoint mk_loc (l : list (str * N)) : loc :=
  match l with
  | [] => Loc [] 0 None
  | (f, n) :: r => Loc f n (match r with [] => None | _ => Some (mk_loc r) end)
  end.
Definition d_loc (v : val) : loc :=
  mk_loc (map (fun p => (get_s (arg 0 p), get_n (arg 1 p))) (get_l v)).

Fixpoint loc_chain (l : loc) : list (str * N) :=
  match l with Loc f n u => (f, n) :: match u with None => [] | Some l' => loc_chain l' end end.
Definition e_loc (l : loc) : val := vlist (fun p => VL [VS (fst p); VN (snd p)]) (loc_chain l).

Definition NANOS : N := 1000000000.
Definition d_retry (v : val) : option retry :=
  d_opt (fun v => mkRetry (get_n (arg 0 v)) (get_n (arg 1 v) * NANOS + get_n (arg 2 v))) v.
Definition e_retry (r : option retry) : val :=
  match r with None => VL [] | Some r => VL [VN (attempts r); VN (backoff r / NANOS); VN (backoff r mod NANOS)] end.

Definition d_cond (v : val) : cond :=
  if tag_is v "onlyif" then OnlyIf (get_s (arg 1 v)) else SkipIf (get_s (arg 1 v)).
Definition e_cond (c : cond) : val :=
  match c with OnlyIf l => vtag "onlyif" [VS l] | SkipIf l => vtag "skipif" [VS l] end.

Definition d_conn (v : val) : conn :=
  if tag_is v "named" then CNamed (get_s (arg 1 v)) else CDefault.
Definition e_conn (c : conn) : val :=
  match c with CDefault => vtag "default" [] | CNamed n => vtag "named" [VS n] end.

Definition d_experr (v : val) : experr :=
  if tag_is v "inline" then EInline (get_s (arg 1 v))
  else if tag_is v "multi" then EMulti (get_s (arg 1 v))
  else EEmpty.
Definition e_experr (e : experr) : val :=
  match e with
  | EEmpty => vtag "empty" []
  | EInline r => vtag "inline" [VS r]
  | EMulti t => vtag "multi" [VS t]
  end.

Definition d_sort (v : val) : option sortmode :=
  let s := get_s v in
  if str_eqb s (lit "nosort") then Some NoSort
  else if str_eqb s (lit "rowsort") then Some RowSort
  else if str_eqb s (lit "valuesort") then Some ValueSort
  else None.
Definition sort_name (m : sortmode) : str :=
  match m with NoSort => lit "nosort" | RowSort => lit "rowsort" | ValueSort => lit "valuesort" end.
Definition e_sort (m : option sortmode) : val :=
  match m with None => VL [] | Some m => VS (sort_name m) end.

Definition d_strs (v : val) : list str := map get_s (get_l v).
Definition e_strs (l : list str) : val := vlist VS l.
Definition e_ostr (o : option str) : val := match o with None => VL [] | Some s => VS s end.
Definition d_ostr (v : val) : option str := match v with VS s => Some s | _ => None end.

Definition d_stmt_expect (v : val) : stmt_expect :=
  if tag_is v "count" then SCount (get_n (arg 1 v))
  else if tag_is v "error" then SError (d_experr (arg 1 v))
  else SOk.
Definition e_stmt_expect (e : stmt_expect) : val :=
  match e with
  | SOk => vtag "ok" []
  | SCount n => vtag "count" [VN n]
  | SError x => vtag "error" [e_experr x]
  end.

Definition d_query_expect (v : val) : query_expect :=
  if tag_is v "error" then QError (d_experr (arg 1 v))
  else QResults (get_s (arg 1 v)) (d_sort (arg 2 v)) (d_ostr (arg 3 v)) (d_strs (arg 4 v)).
Definition e_query_expect (e : query_expect) : val :=
  match e with
  | QError x => vtag "error" [e_experr x]
  | QResults t s l r => vtag "results" [VS t; e_sort s; e_ostr l; e_strs r]
  end.

Definition d_control (v : val) : control :=
  if tag_is v "sortmode" then CtlSortMode (match d_sort (arg 1 v) with Some m => m | None => NoSort end)
  else if tag_is v "resultmode" then
    CtlResultMode (if str_eqb (get_s (arg 1 v)) (lit "valuewise") then ValueWise else RowWise)
  else CtlSubstitution (get_b (arg 1 v)).
Definition e_control (c : control) : val :=
  match c with
  | CtlSortMode m => vtag "sortmode" [VS (sort_name m)]
  | CtlResultMode RowWise => vtag "resultmode" [VS (lit "rowwise")]
  | CtlResultMode ValueWise => vtag "resultmode" [VS (lit "valuewise")]
  | CtlSubstitution b => vtag "substitution" [vbool b]
  end.

Definition d_record (v : val) : record :=
  if tag_is v "include" then RInclude (d_loc (arg 1 v)) (get_s (arg 2 v))
  else if tag_is v "statement" then
    RStatement (d_loc (arg 1 v)) (map d_cond (get_l (arg 2 v))) (d_conn (arg 3 v))
               (get_s (arg 4 v)) (d_stmt_expect (arg 5 v)) (d_retry (arg 6 v))
  else if tag_is v "query" then
    RQuery (d_loc (arg 1 v)) (map d_cond (get_l (arg 2 v))) (d_conn (arg 3 v))
           (get_s (arg 4 v)) (d_query_expect (arg 5 v)) (d_retry (arg 6 v))
  else if tag_is v "system" then
    RSystem (d_loc (arg 1 v)) (map d_cond (get_l (arg 2 v))) (get_s (arg 3 v))
            (d_ostr (arg 4 v)) (d_retry (arg 5 v))
  else if tag_is v "sleep" then
    RSleep (d_loc (arg 1 v)) (get_n (arg 0 (arg 2 v)) * NANOS + get_n (arg 1 (arg 2 v)))
  else if tag_is v "subtest" then RSubtest (d_loc (arg 1 v)) (get_s (arg 2 v))
  else if tag_is v "halt" then RHalt (d_loc (arg 1 v))
  else if tag_is v "control" then RControl (d_control (arg 1 v))
  else if tag_is v "hash-threshold" then RHashThreshold (d_loc (arg 1 v)) (get_n (arg 2 v))
  else if tag_is v "condition" then RCondition (d_cond (arg 1 v))
  else if tag_is v "connection" then RConnection (d_conn (arg 1 v))
  else if tag_is v "comment" then RComment (d_strs (arg 1 v))
  else if tag_is v "begin-include" then RBeginInclude (get_s (arg 1 v))
  else if tag_is v "end-include" then REndInclude (get_s (arg 1 v))
  else RNewline.

Definition e_record (r : record) : val :=
  match r with
  | RInclude l f => vtag "include" [e_loc l; VS f]
  | RStatement l cs c sql e r =>
      vtag "statement" [e_loc l; vlist e_cond cs; e_conn c; VS sql; e_stmt_expect e; e_retry r]
  | RQuery l cs c sql e r =>
      vtag "query" [e_loc l; vlist e_cond cs; e_conn c; VS sql; e_query_expect e; e_retry r]
  | RSystem l cs cmd out r =>
      vtag "system" [e_loc l; vlist e_cond cs; VS cmd; e_ostr out; e_retry r]
  | RSleep l d => vtag "sleep" [e_loc l; VL [VN (d / NANOS); VN (d mod NANOS)]]
  | RSubtest l n => vtag "subtest" [e_loc l; VS n]
  | RHalt l => vtag "halt" [e_loc l]
  | RControl c => vtag "control" [e_control c]
  | RHashThreshold l n => vtag "hash-threshold" [e_loc l; VN n]
  | RCondition c => vtag "condition" [e_cond c]
  | RConnection c => vtag "connection" [e_conn c]
  | RComment ls => vtag "comment" [e_strs ls]
  | RNewline => vtag "newline" []
  | RBeginInclude f => vtag "begin-include" [VS f]
  | REndInclude f => vtag "end-include" [VS f]
  end.

(* answers *)
Definition d_dbout (v : val) : dbout :=
  if tag_is v "rows" then DRows (get_s (arg 1 v)) (map d_strs (get_l (arg 2 v)))
  else if tag_is v "complete" then DComplete (get_n (arg 1 v))
  else DErr (get_s (arg 1 v)).

Definition d_sysout (v : val) : sysout :=
  if tag_is v "exit" then SysExit (get_n (arg 1 v) =? 0) (get_s (arg 2 v)) else SysSpawnErr.

Definition e_rows (rows : list (list str)) : val := vlist e_strs rows.

Definition e_routput (o : routput) : val :=
  match o with
  | ONothing => vtag "nothing" []
  | OQuery t rows e => vtag "query" [VS t; e_rows rows; e_ostr e]
  | OStatement n e => vtag "statement" [VN n; e_ostr e]
  | OSystem out failed => vtag "system" [e_ostr out; vbool failed]
  end.

Definition e_verdict (v : verdict) : val :=
  match v with
  | Pass => vtag "ok" []
  | Fail k => vtag "err" [VN (kind_code k)]
  | Unreachable => vtag "unreachable" []
  end.

(* regex oracle table: [[pattern, text, bool], ...] *)
Fixpoint tbl_lookup (tbl : list val) (dflt : bool) (re t : str) : bool :=
  match tbl with
  | [] => dflt
  | e :: r => if str_eqb (get_s (arg 0 e)) re && str_eqb (get_s (arg 1 e)) t
              then get_b (arg 2 e) else tbl_lookup r dflt re t
  end.
