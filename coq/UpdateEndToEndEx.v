(* UpdateEndToEndEx.v — for UpdateEndToEnd.update_end_to_end_single: a non-vacuity instance
   (all premises hold of a concrete file, scripted database and shell; the conclusion is
   obtained from the theorem), and the reason why the statement is NOT extended as it stands to
   include trees: a file included twice is written twice, the second content replaces the first
   ("last write wins"), and the tree left on disk fails on rerun. *)
From Coq Require Import String.
From SLT Require Import Base Text Syntax Duration Parser Render TextProofs RenderProofs
     Unparse FsTrim FsProofs FormatSpec FormatProofs JudgeSpec Runner Update UpdateSpec UpdateProofs
     Include IncludeSpec IncludeProofs
     UpdateFile1 UpdateFile2 UpdateFile3 UpdateFile UpdateText UpdateText2 UpdateText3 UpdateText5
     UpdateText6 UpdateText7 UpdateText8 RunMeaning UpdateEndToEnd.
Open Scope N_scope.

Definition re_any (_ _ : str) : bool := true.
Lemma re_any_escape : escape_law re_any.
Proof. intros s. reflexivity. Qed.
Definition no_subst (_ : bool) (_ : list (str * str)) (s : str) : subres := SubOk s.
Definition st_lax : rstate := mkRState (mkConfig None None 0 false) false [] [] [].

(* ------------------------------------------------------------------ non-vacuity *)
(* the file of UpdateText8.NV (a comment, a statement that fails with a two-line message, a
   query whose expectation is wrong, a command with an expected stdout) *)
Module NV2.
  Definition sc := UpdateText8.NV.sc.
  Definition rs := UpdateText8.NV.rs.
  Definition outs : list routput := updated_outputs re_any [9] false no_subst sc rs st_lax world0.

  Ltac text_tac :=
    split; vm_compute; repeat split; try exact I;
    let H := fresh in intros H; decompose [and] H; congruence.

  Lemma outs_repr : Forall2 (out_repr default_col [9] false) rs outs.
  Proof.
    remember outs as o eqn:E. vm_compute in E. subst o.
    remember rs as l eqn:E. vm_compute in E. subst l.
    repeat (apply Forall2_cons || apply Forall2_nil); try exact I.
    - cbn [out_repr]. text_tac.
    - cbn [out_repr]. split.
      + intros _. repeat (apply Forall_cons || apply Forall_nil); unfold row_repr, line_ok;
          vm_compute; repeat split; try discriminate;
          let H := fresh in intros H; decompose [or] H; try congruence; try contradiction.
      + intros _. right. split; [discriminate | vm_compute; reflexivity].
    - cbn [out_repr]. text_tac.
  Qed.

  Lemma outs_cmd_ok : Forall cmd_ok outs.
  Proof. remember outs as o eqn:E. vm_compute in E. subst o. repeat constructor. Qed.

  Lemma rs_retry_ok : Forall UpdateFile1.retry_ok rs.
  Proof. remember rs as l eqn:E. vm_compute in E. subst l. repeat constructor. Qed.

  Example update_end_to_end_single_instance :
    exists written ev text R st' w',
      update_loop re_any [9] false no_subst sc false rs [mkItem F []] false st_lax world0 [] [] []
        = UOk written ev [] /\
      written = [(F, utf8 text)] /\
      parse default_col rvT F None text = POk R /\
      run_multi re_any no_subst sc st_lax world0 R = (ev, st', w', FOk) /\
      update_loop re_any [9] false no_subst sc false R [mkItem F []] false st_lax world0 [] [] []
        = UOk written ev [] /\
      ev <> [] /\ meaning R <> meaning rs.
  Proof.
    destruct (update_loop re_any [9] false no_subst sc false rs [mkItem F []] false st_lax world0 [] [] [])
      as [written ev kn|] eqn:HU; [|vm_compute in HU; discriminate HU].
    assert (Hkn : kn = []) by (vm_compute in HU; inversion HU; reflexivity). subst kn.
    assert (Hev : ev <> []) by (vm_compute in HU; inversion HU; discriminate).
    destruct (update_end_to_end_single default_col rvT re_any [9] false no_subst sc
                default_col_stable rvT_escape_valid re_any_escape F None F rs st_lax world0 written ev
                eq_refl rs_retry_ok UpdateText8.NV.rs_parsed_ok HU outs_repr outs_cmd_ok)
      as (text & R & H1 & H2 & H3 & (st' & w' & H4 & _) & H5 & _); [vm_compute; reflexivity|].
    exists written, ev, text, R, st', w'. repeat split; try assumption.
    rewrite H3. vm_compute. intros H. discriminate H.
  Qed.
End NV2.
Print Assumptions NV2.update_end_to_end_single_instance.

(* ------------------------------------------------------------------ include trees: last write wins *)
(* m.slt includes a.slt twice; a.slt holds one query expecting 1; the database answers 5 to the
   first request and 6 to the second.  The update completes without any flag, every output is
   representable, no command fails - and it writes a.slt TWICE, with 5 and then with 6.  With
   the content written last on disk, the tree parses again, and its run fails at the first
   inclusion (5 against the expected 6).  So "every file written parses" (C06_text_reparses) and
   "the re-read flat list passes" (C06_file_converges) do not combine into "the tree on disk
   passes" unless no file is written twice. *)
Module IncludeTwice.
  Definition M : str := lit "m.slt".
  Definition A : str := lit "a.slt".
  Definition a_text (v : string) : str := src ["query I"; "select 1"; "----"; v]%string.
  Definition m_text : str := src ["include a.slt"; "include a.slt"]%string.
  Definition fs_with (a : str) (f : str) : option fentry :=
    if str_eqb f M then Some (FFile m_text) else if str_eqb f A then Some (FFile a) else None.
  Definition glob1 (p : str) : globres := GOk [p].
  Definition sc56 : script :=
    mkScript [AOut (DRows (lit "I") [[lit "5"]]); AOut (DRows (lit "I") [[lit "6"]])]
             (AOut (DComplete 0)) [] [] (SysExit true []) [].

  Definition rs : list record :=
    match parse_file default_col rvT (fs_with (a_text "1")) glob1 5 M with FOkR l => l | _ => [] end.
  Definition outs : list routput := updated_outputs re_any [9] false no_subst sc56 rs st_lax world0.
  Definition ev56 : list event := [EConnect 0; ESql 0 (lit "select 1"); ESql 0 (lit "select 1")].
  (* the tree as left on disk: a.slt holds the content written last *)
  Definition rs2 : list record :=
    match parse_file default_col rvT (fs_with (a_text "6")) glob1 5 M with FOkR l => l | _ => [] end.

  Lemma tree_parses : parse_file default_col rvT (fs_with (a_text "1")) glob1 5 M = FOkR rs.
  Proof. vm_compute. reflexivity. Qed.

  Lemma update_writes_a_twice :
    update_loop re_any [9] false no_subst sc56 false rs [mkItem M []] false st_lax world0 [] [] []
      = UOk [(A, utf8 (a_text "5")); (A, utf8 (a_text "6")); (M, utf8 m_text)] ev56 [].
  Proof. vm_compute. reflexivity. Qed.

  Lemma rs_retry_ok : Forall UpdateFile1.retry_ok rs.
  Proof. remember rs as l eqn:E. vm_compute in E. subst l. repeat constructor. Qed.

  Lemma outs_cmd_ok : Forall cmd_ok outs.
  Proof. remember outs as l eqn:E. vm_compute in E. subst l. repeat constructor. Qed.

  Lemma outs_repr : Forall2 (out_repr default_col [9] false) rs outs.
  Proof.
    remember outs as o eqn:E. vm_compute in E. subst o.
    remember rs as l eqn:E. vm_compute in E. subst l.
    repeat (apply Forall2_cons || apply Forall2_nil); try exact I.
    all: cbn [out_repr].
    all: split; [ | intros Hx; vm_compute in Hx; discriminate Hx].
    all: intros _; repeat (apply Forall_cons || apply Forall_nil); unfold row_repr, line_ok.
    all: vm_compute; repeat split; try discriminate.
    all: let H := fresh in intros H; decompose [or] H; try congruence; try contradiction.
  Qed.

  Lemma tree_on_disk_parses : parse_file default_col rvT (fs_with (a_text "6")) glob1 5 M = FOkR rs2.
  Proof. vm_compute. reflexivity. Qed.

  Lemma tree_on_disk_fails :
    exists ev2 st' w' l,
      run_multi re_any no_subst sc56 st_lax world0 rs2 = (ev2, st', w', FErr KResultMismatch l).
  Proof. eexists _, _, _, _. vm_compute. reflexivity. Qed.

  Example include_twice_last_write_wins :
    exists rs written ev,
      parse_file default_col rvT (fs_with (a_text "1")) glob1 5 M = FOkR rs /\
      update_loop re_any [9] false no_subst sc56 false rs [mkItem M []] false st_lax world0 [] [] []
        = UOk written ev [] /\
      Forall UpdateFile1.retry_ok rs /\
      Forall cmd_ok (updated_outputs re_any [9] false no_subst sc56 rs st_lax world0) /\
      Forall2 (out_repr default_col [9] false) rs (updated_outputs re_any [9] false no_subst sc56 rs st_lax world0) /\
      (* a.slt is written twice, with different contents *)
      written = [(A, utf8 (a_text "5")); (A, utf8 (a_text "6")); (M, utf8 m_text)] /\
      utf8 (a_text "5") <> utf8 (a_text "6") /\
      (* the tree as left on disk (a.slt = the content written last) parses and fails *)
      exists rs2 ev2 st' w' l,
        parse_file default_col rvT (fs_with (a_text "6")) glob1 5 M = FOkR rs2 /\
        run_multi re_any no_subst sc56 st_lax world0 rs2 = (ev2, st', w', FErr KResultMismatch l).
  Proof.
    exists rs, [(A, utf8 (a_text "5")); (A, utf8 (a_text "6")); (M, utf8 m_text)], ev56.
    split; [exact tree_parses|]. split; [exact update_writes_a_twice|].
    split; [exact rs_retry_ok|]. split; [exact outs_cmd_ok|]. split; [exact outs_repr|].
    split; [reflexivity|]. split; [vm_compute; discriminate|].
    destruct tree_on_disk_fails as (ev2 & st' & w' & l & H).
    exists rs2, ev2, st', w', l. split; [exact tree_on_disk_parses | exact H].
  Qed.
End IncludeTwice.
Print Assumptions IncludeTwice.include_twice_last_write_wins.
