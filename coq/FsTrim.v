(* FsTrim.v — the trailing-newline trimmer of override_with_outfile (runner.rs, main.rs):
   a window of min(8, file length) bytes read from the end of the temp file, repeated while
   the whole window consists of newlines.  Bytes as N.  Outcome Panic where the Rust code
   panics (assert!(num_newlines > 0)).
   [trim_tail_v0] is the trimmer as it was before the fix of defect D8 (fixed window of 8
   bytes; seek before the start of the file panics). *)
From SLT Require Export Base Text.
Open Scope N_scope.

Inductive tres := TOk (bytes : list N) | TPanic.

Fixpoint count_trailing_nl_rev (r : list N) : nat :=
  match r with
  | 10 :: r' => S (count_trailing_nl_rev r')
  | _ => O
  end.

(* one pass of the loop on the current file content; fuel bounds the number of passes *)
Fixpoint trim_loop (fuel : nat) (f : list N) : tres :=
  match fuel with
  | O => TPanic
  | S fuel' =>
      let n := Nat.min (length f) 8 in
      match n with
      | O => TOk f                                                  (* empty file: nothing to do *)
      | _ =>
        let window := skipn (length f - n) f in
        let k := count_trailing_nl_rev (rev window) in
        match k with
        | O => TPanic                                               (* assert!(num_newlines > 0) *)
        | S O => TOk f
        | _ =>
            let f' := firstn (length f - k + 1) f in                (* set_len(len - k + 1) *)
            if Nat.ltb k n then TOk f' else trim_loop fuel' f'
        end
      end
  end.

Definition trim_tail (f : list N) : tres := trim_loop (S (length f)) f.

(* ---- the trimmer before the fix *)
Fixpoint trim_loop_v0 (fuel : nat) (f : list N) : tres :=
  match fuel with
  | O => TPanic
  | S fuel' =>
      if Nat.ltb (length f) 8 then TPanic                           (* seek(End(-8)).unwrap() *)
      else
        let window := skipn (length f - 8) f in
        let k := count_trailing_nl_rev (rev window) in
        match k with
        | O => TPanic
        | S O => TOk f
        | _ =>
            let f' := firstn (length f - k + 1) f in
            if Nat.ltb k 8 then TOk f' else trim_loop_v0 fuel' f'
        end
  end.
Definition trim_tail_v0 (f : list N) : tres := trim_loop_v0 (S (length f)) f.
