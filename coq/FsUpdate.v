(* FsUpdate.v — the file operations of update_test_file (library and CLI copies): a temp file
   per file being rewritten (created at start / BeginInclude), one append per record, the
   trimmer's truncations, and one rename over the original at EndInclude / the end.
   The theorem of C08 is about EVERY PREFIX of this operation sequence (a crash between any
   two operations); a partial append is again a prefix after splitting the append. *)
From SLT Require Export FsTrim.
Open Scope N_scope.

Inductive fsop :=
| OpCreate (p : str)                      (* open(create, truncate) *)
| OpAppend (p : str) (bs : list N)        (* write at the end *)
| OpSetLen (p : str) (n : nat)            (* ftruncate *)
| OpRename (src dst : str).               (* rename(2): atomic replacement *)

Definition fsys := str -> option (list N).

Definition fs_set (fs : fsys) (p : str) (v : option (list N)) : fsys :=
  fun q => if str_eqb q p then v else fs q.

Definition apply_op (fs : fsys) (o : fsop) : fsys :=
  match o with
  | OpCreate p => fs_set fs p (Some [])
  | OpAppend p bs => match fs p with Some c => fs_set fs p (Some (c ++ bs)) | None => fs end
  | OpSetLen p n => match fs p with Some c => fs_set fs p (Some (firstn n c)) | None => fs end
  | OpRename s d => match fs s with Some c => fs_set (fs_set fs d (Some c)) s None | None => fs end
  end.

Definition run_ops (fs : fsys) (ops : list fsop) : fsys := fold_left apply_op ops fs.

(* the truncations the trimmer performs on a temp file whose content is [c]
   (same loop as FsTrim.trim_loop, emitting the set_len calls) *)
Fixpoint trim_ops_loop (fuel : nat) (p : str) (f : list N) : list fsop :=
  match fuel with
  | O => []
  | S fuel' =>
      let n := Nat.min (length f) 8 in
      match n with
      | O => []
      | _ =>
        let window := skipn (length f - n) f in
        let k := count_trailing_nl_rev (rev window) in
        match k with
        | O => []
        | S O => []
        | _ =>
            let f' := firstn (length f - k + 1) f in
            OpSetLen p (length f - k + 1) :: (if Nat.ltb k n then [] else trim_ops_loop fuel' p f')
        end
      end
  end.
Definition trim_ops (p : str) (c : list N) : list fsop := trim_ops_loop (S (length c)) p c.

(* what the updater does, abstractly: open a file for rewriting, write a record, close it *)
Inductive wev := WOpen (f : str) | WWrite (bs : list N) | WClose.

Section Ops.
  Variable tmp : str -> str.     (* name of the temp file used for an original (freshness below) *)

  Fixpoint ops_of (evs : list wev) (stack : list (str * list N)) : list fsop :=
    match evs with
    | [] => []
    | WOpen f :: r => OpCreate (tmp f) :: ops_of r ((f, []) :: stack)
    | WWrite bs :: r =>
        match stack with
        | (f, c) :: st => OpAppend (tmp f) bs :: ops_of r ((f, c ++ bs) :: st)
        | [] => ops_of r []
        end
    | WClose :: r =>
        match stack with
        | (f, c) :: st => trim_ops (tmp f) c ++ OpRename (tmp f) f :: ops_of r st
        | [] => ops_of r []
        end
    end.

  (* the complete new content of every file that is closed, in closing order *)
  Fixpoint closed_of (evs : list wev) (stack : list (str * list N)) : list (str * list N) :=
    match evs with
    | [] => []
    | WOpen f :: r => closed_of r ((f, []) :: stack)
    | WWrite bs :: r =>
        match stack with
        | (f, c) :: st => closed_of r ((f, c ++ bs) :: st)
        | [] => closed_of r []
        end
    | WClose :: r =>
        match stack with
        | (f, c) :: st =>
            (f, match trim_tail c with TOk b => b | TPanic => c end) :: closed_of r st
        | [] => closed_of r []
        end
    end.

  Definition opened (evs : list wev) : list str :=
    flat_map (fun e => match e with WOpen f => [f] | _ => [] end) evs.
End Ops.

Fixpoint assoc_bytes (k : str) (l : list (str * list N)) : option (list N) :=
  match l with
  | [] => None
  | (k', v) :: r => if str_eqb k k' then Some v else assoc_bytes k r
  end.
