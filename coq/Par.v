(* Par.v — observer automaton for the CLI's parallel (and serial) runs, C17 / C19.
   Its state mirrors the driver's data and its steps are enabled as the code enables them:
     - all CREATE DATABASE statements are issued before any test file starts;
     - a file starts (its first connection) only while fewer than [jobs] files are in flight
       (buffer_unordered(jobs)) and only while the cancellation token is not set;
     - all sessions of a file are closed together at the end of the file (shutdown_async
       precedes the return on every path), after which the file never connects again;
     - DROP DATABASE is issued only after the result stream is exhausted (no file in flight),
       once per created database in turn, except those kept for debugging;
     - the management connection is closed last.
   Safety (create-before-use, bounded concurrency, close-before-drop, dropped exactly once
   unless kept, no new file after cancel, everything released) is NOT a guard: it is proved
   from these guards in ParProofs.v.  Events are what the engine side can observe. *)
From SLT Require Export Base.
Open Scope N_scope.

Inductive pev :=
| PCreate (db : str)
| PConnect (db : str) (s : N)
| PSql (db : str) (s : N)
| PClose (db : str) (s : N)
| PCancel
| PDrop (db : str)
| PMgmtClose.

Record params := mkParams { jobs : nat; kept : list str }.

Record pst := mkPst {
  created : list str;
  sessions : list (str * N);    (* open sessions *)
  seen : list N;                (* session ids used so far *)
  started : list str;           (* databases whose file has started *)
  closing : list str;           (* databases whose file has begun to shut its sessions down *)
  finished : list str;          (* databases whose file has closed all its sessions *)
  dropped : list str;
  cancelled_ : bool;
  dropping : bool;
  closed_ : bool
}.

Definition pst0 : pst := mkPst [] [] [] [] [] [] [] false false false.

Fixpoint mem (x : str) (l : list str) : bool :=
  match l with [] => false | y :: r => str_eqb x y || mem x r end.
Fixpoint memN (x : N) (l : list N) : bool :=
  match l with [] => false | y :: r => (x =? y) || memN x r end.
Definition sess_eqb (a b : str * N) : bool := str_eqb (fst a) (fst b) && (snd a =? snd b).
Fixpoint mem_sess (x : str * N) (l : list (str * N)) : bool :=
  match l with [] => false | y :: r => sess_eqb x y || mem_sess x r end.
Fixpoint remove_sess (x : str * N) (l : list (str * N)) : list (str * N) :=
  match l with [] => [] | y :: r => if sess_eqb x y then r else y :: remove_sess x r end.
Definition has_open (db : str) (l : list (str * N)) : bool := existsb (fun p => str_eqb (fst p) db) l.

(* files in flight: started and not finished *)
Definition inflight (st : pst) : list str := filter (fun db => negb (mem db (finished st))) (started st).

Definition pstep (pa : params) (st : pst) (e : pev) : option pst :=
  if closed_ st then None else
  match e with
  | PCreate db =>
      if dropping st || mem db (created st) then None
      else match started st with
           | [] => Some (mkPst (created st ++ [db]) (sessions st) (seen st) (started st) (closing st) (finished st)
                               (dropped st) (cancelled_ st) (dropping st) false)
           | _ => None
           end
  | PConnect db s =>
      if dropping st || negb (mem db (created st)) || mem db (closing st) || memN s (seen st) then None
      else if mem db (started st) then
        Some (mkPst (created st) ((db, s) :: sessions st) (s :: seen st) (started st) (closing st) (finished st)
                    (dropped st) (cancelled_ st) false false)
      else if cancelled_ st || negb (Nat.ltb (length (inflight st)) (jobs pa)) then None
      else Some (mkPst (created st) ((db, s) :: sessions st) (s :: seen st) (started st ++ [db]) (closing st) (finished st)
                       (dropped st) false false false)
  | PSql db s =>
      if mem_sess (db, s) (sessions st) && negb (mem db (closing st)) then Some st else None
  | PClose db s =>
      if mem_sess (db, s) (sessions st) then
        let ss := remove_sess (db, s) (sessions st) in
        Some (mkPst (created st) ss (seen st) (started st)
                    (if mem db (closing st) then closing st else db :: closing st)
                    (if has_open db ss then finished st else db :: finished st)
                    (dropped st) (cancelled_ st) (dropping st) false)
      else None
  | PCancel =>
      Some (mkPst (created st) (sessions st) (seen st) (started st) (closing st) (finished st) (dropped st) true (dropping st) false)
  | PDrop db =>
      match inflight st with
      | [] => if negb (mem db (created st)) || mem db (dropped st) || mem db (kept pa) then None
              else Some (mkPst (created st) (sessions st) (seen st) (started st) (closing st) (finished st)
                               (db :: dropped st) (cancelled_ st) true false)
      | _ => None
      end
  | PMgmtClose =>
      match inflight st with
      | [] => if forallb (fun db => mem db (dropped st) || mem db (kept pa)) (created st)
              then Some (mkPst (created st) (sessions st) (seen st) (started st) (closing st) (finished st)
                               (dropped st) (cancelled_ st) (dropping st) true)
              else None
      | _ => None
      end
  end.

Fixpoint prun (pa : params) (st : pst) (tr : list pev) : option pst :=
  match tr with
  | [] => Some st
  | e :: r => match pstep pa st e with Some st' => prun pa st' r | None => None end
  end.

Definition accepts (pa : params) (tr : list pev) : bool :=
  match prun pa pst0 tr with Some _ => true | None => false end.

(* index of the first event the automaton refuses (for diagnostics) *)
Fixpoint first_refused (pa : params) (st : pst) (tr : list pev) (i : nat) : option nat :=
  match tr with
  | [] => None
  | e :: r => match pstep pa st e with Some st' => first_refused pa st' r (S i) | None => Some i end
  end.
