(* IncludeProofs.v — C14: the include-expansion model (Include.v) against its declarative
   specification (IncludeSpec.v).
     a. parse_locs
     b. expand_sound / expand_complete / expand_fuel_mono
     c. expand_nested / expand_provenance
     d. missing_file_error / empty_include_error *)
From SLT Require Export IncludeSpec.
From SLT Require Import ParserSafety.
Open Scope N_scope.

(* ------------------------------------------------------------------------- *)
(* a. parser invariants                                                       *)

Definition no_marker (r : record) : Prop :=
  match r with RBeginInclude _ | REndInclude _ => False | _ => True end.

Definition loc_ok (file : str) (upper : option loc) (r : record) : Prop :=
  match record_loc_opt r with Some (Loc f _ u) => f = file /\ u = upper | None => True end.

Definition good (file : str) (upper : option loc) (r : record) : Prop :=
  no_marker r /\ loc_ok file upper r.

Section ParseLocs.
  Variable col : N -> option N.
  Variable re : str -> bool.
  Variable file : str.
  Variable upper : option loc.

  Notation step := (step col re file upper).
  Notation top_line := (top_line col re file upper).
  Notation run_lines := (run_lines col re file upper).
  Notation emit := (emit file upper).
  Notation finish_multi := (finish_multi file upper).
  Notation finish := (finish file upper).
  Notation good := (good file upper).
  Notation goodp p := (Forall good (recs p)).

  Lemma good_snoc rs r : Forall good rs -> good r -> Forall good (rs ++ [r]).
  Proof. intros Hrs Hr. apply Forall_app. split; [exact Hrs | constructor; [exact Hr | constructor]]. Qed.

  Lemma good_unlocated r :
    no_marker r -> record_loc_opt r = None -> good r.
  Proof. intros Hm Hl. split; [exact Hm |]. unfold loc_ok. rewrite Hl. exact I. Qed.

  Lemma good_located r n :
    no_marker r -> record_loc_opt r = Some (mkloc file upper n) -> good r.
  Proof. intros Hm Hl. split; [exact Hm |]. unfold loc_ok. rewrite Hl. cbn. auto. Qed.

  Lemma emit_good p line h sql q e o : goodp p -> goodp (emit p line h sql q e o).
  Proof.
    intros Hp. destruct h; cbn [Parser.emit recs]; apply good_snoc; try exact Hp;
      apply (good_located _ line); cbn; auto.
  Qed.

  Lemma finish_multi_good p line h sql acc : goodp p -> goodp (finish_multi p line h sql acc).
  Proof. intros Hp. unfold Parser.finish_multi. destruct h; apply emit_good; exact Hp. Qed.

  Lemma flush_good p : goodp p -> goodp (flush_comments p).
  Proof.
    intros Hp. unfold flush_comments. destruct (pcomments p); [exact Hp |].
    cbn [recs]. apply good_snoc; [exact Hp |]. apply good_unlocated; cbn; auto.
  Qed.

  Lemma top_line_good p n line p' :
    top_line p n line = SNext p' -> goodp p -> goodp p'.
  Proof.
    unfold Parser.top_line.
    destruct line as [| c line].
    { intros H Hp; inversion H; subst p'. cbn [push recs]. apply good_snoc; [exact Hp |].
      apply good_unlocated; cbn; auto. }
    destruct (split_ws (c :: line)) as [| t args].
    { intros H Hp; inversion H; subst p'; exact Hp. }
    intros H Hp.
    repeat dmh; try discriminate; inversion H; subst p'; cbn [push set_mode recs];
      try exact Hp;
      (apply good_snoc; [exact Hp |]);
      first [ apply good_unlocated; cbn; solve [auto]
            | apply (good_located _ n); cbn; solve [auto] ].
  Qed.

  Lemma on_delimiter_good p hl h sql p' :
    on_delimiter p hl h sql = SNext p' -> goodp p -> goodp p'.
  Proof.
    unfold on_delimiter. intros H Hp.
    repeat dmh; try discriminate; inversion H; subst p'; exact Hp.
  Qed.

  Lemma step_good p l p' : step p l = SNext p' -> goodp p -> goodp p'.
  Proof.
    destruct p as [rs cs cn cm ln m]. cbn [recs]. intros H Hp.
    destruct m as [| hl h | hl h sql | hl h sql acc | hl h sql acc pend];
      [| unfold Parser.step in H; cbn [pmode lineno recs pconds pconn pcomments] in H ..].
    - rewrite step_top in H. destruct (is_comment l).
      + inversion H; subst p'. exact Hp.
      + apply top_line_good in H; [exact H |]. apply flush_good. exact Hp.
    - inversion H; subst p'. exact Hp.
    - destruct l as [| ch l].
      + inversion H; subst p'. apply emit_good. exact Hp.
      + destruct (str_eqb (ch :: l) DELIM).
        * apply on_delimiter_good in H; [exact H | exact Hp].
        * inversion H; subst p'. exact Hp.
    - destruct l as [| ch l]; inversion H; subst p'; [apply emit_good |]; exact Hp.
    - destruct l as [| ch l]; [destruct pend |]; inversion H; subst p';
        [apply finish_multi_good | |]; exact Hp.
  Qed.

  Lemma run_good ls : forall p p', run_lines p ls = SNext p' -> goodp p -> goodp p'.
  Proof.
    induction ls as [| l ls IH]; intros p p' H Hp; cbn [Parser.run_lines] in H.
    - inversion H; subst p'. exact Hp.
    - destruct (step p l) as [q | k n |] eqn:E; try discriminate.
      apply (IH q p' H). apply (step_good p l q E Hp).
  Qed.

  Lemma finish_good p rs : finish p = POk rs -> goodp p -> Forall good rs.
  Proof.
    unfold Parser.finish. intros H Hp.
    destruct (pmode p) as [| hl h | hl h sql | hl h sql acc | hl h sql acc pend];
      try discriminate; inversion H; subst rs.
    - apply flush_good; exact Hp.
    - apply emit_good; exact Hp.
    - apply emit_good; exact Hp.
    - apply finish_multi_good; exact Hp.
  Qed.

  Lemma parse_good s rs : parse col re file upper s = POk rs -> Forall good rs.
  Proof.
    unfold parse, parse_lines_list. intros H.
    destruct (run_lines pstate0 (lines s)) as [p | k n |] eqn:E; try discriminate.
    apply (finish_good p rs H). apply (run_good _ _ _ E). constructor.
  Qed.
End ParseLocs.

Theorem parse_locs :
  forall col re file upper s rs, parse col re file upper s = POk rs ->
    Forall (fun r => match r with RBeginInclude _ | REndInclude _ => False | _ => True end) rs /\
    Forall (fun r => match record_loc_opt r with Some (Loc f _ u) => f = file /\ u = upper | None => True end) rs.
Proof.
  intros col re file upper s rs H. apply parse_good in H.
  split; (eapply Forall_impl; [| exact H]); intros r [Hm Hl]; [exact Hm | exact Hl].
Qed.
Print Assumptions parse_locs.

(* ------------------------------------------------------------------------- *)
(* The two local fixpoints of [expand], as top-level functions                 *)

Definition tail_with (g : fpres) (pre : list record) : fpres :=
  match g with
  | FOkR t => FOkR (pre ++ t)
  | FErrR k l => FErrR k l
  | FPanicR => FPanicR
  | FOutOfFuel => FOutOfFuel
  end.

Definition each_fn (exp : loc -> fpres) (il : loc) (k : fpres) : list str -> fpres :=
  fix each (fl : list str) : fpres :=
    match fl with
    | [] => k
    | f :: fl' =>
        match exp (Loc f 0 (Some il)) with
        | FOkR inner =>
            match each fl' with
            | FOkR t => FOkR (RBeginInclude f :: inner ++ REndInclude f :: t)
            | e => e
            end
        | e => e
        end
    end.

Definition go_fn (glob : str -> globres) (exp : loc -> fpres) (file : str) : list record -> fpres :=
  fix go (rs : list record) : fpres :=
    match rs with
    | [] => FOkR []
    | r :: rest =>
        match r with
        | RInclude il filename =>
            match glob (join_path (dirname file) filename) with
            | GBadPattern | GUnreadable => FErrR K_INVALID_INCLUDE il
            | GOk [] => FErrR K_EMPTY_INCLUDE il
            | GOk files =>
                let res := each_fn exp il (tail_with (go rest) []) files in
                match res with FOkR t => FOkR (r :: t) | e => e end
            end
        | _ => tail_with (go rest) [r]
        end
    end.

Lemma expand_S col re fs glob fuel file n upper :
  expand col re fs glob (S fuel) (Loc file n upper) =
  match fs file with
  | None => FErrR K_FILE_NOT_FOUND (Loc file n upper)
  | Some FDir | Some FBinary => FErrR K_INVALID_INCLUDE (Loc file n upper)
  | Some (FFile script) =>
      match parse col re file upper script with
      | PPanic => FPanicR
      | PErr k m => FErrR (pkind_code k) (Loc file m upper)
      | POk rs => go_fn glob (expand col re fs glob fuel) file rs
      end
  end.
Proof. reflexivity. Qed.

Notation brackets files inners :=
  (concat (map (fun p => bracket (fst p) (snd p)) (combine files inners))).

Lemma tail_with_ok g pre out :
  tail_with g pre = FOkR out -> exists t, g = FOkR t /\ out = pre ++ t.
Proof. destruct g; cbn; intros H; inversion H; eauto. Qed.

Lemma tail_with_fuel g pre : tail_with g pre <> FOutOfFuel -> g <> FOutOfFuel.
Proof. destruct g; cbn; congruence. Qed.

Lemma go_fn_plain glob exp file r rest :
  is_include r = false ->
  go_fn glob exp file (r :: rest) = tail_with (go_fn glob exp file rest) [r].
Proof. destruct r; cbn [is_include]; intros H; try discriminate; reflexivity. Qed.

Lemma go_fn_include glob exp file il fn rest :
  go_fn glob exp file (RInclude il fn :: rest) =
  match glob (join_path (dirname file) fn) with
  | GBadPattern | GUnreadable => FErrR K_INVALID_INCLUDE il
  | GOk [] => FErrR K_EMPTY_INCLUDE il
  | GOk files =>
      tail_with (each_fn exp il (tail_with (go_fn glob exp file rest) []) files) [RInclude il fn]
  end.
Proof.
  cbn [go_fn]. destruct (glob (join_path (dirname file) fn)) as [[| f fl] | |]; try reflexivity.
  cbv zeta. fold (go_fn glob exp file rest).
  destruct (each_fn exp il (tail_with (go_fn glob exp file rest) []) (f :: fl)); reflexivity.
Qed.

Lemma bracket_app f inner rest :
  bracket f inner ++ rest = RBeginInclude f :: inner ++ REndInclude f :: rest.
Proof. unfold bracket. cbn [app]. rewrite <- app_assoc. reflexivity. Qed.

Lemma brackets_cons f fl inner inners rest :
  brackets (f :: fl) (inner :: inners) ++ rest =
  RBeginInclude f :: inner ++ REndInclude f :: brackets fl inners ++ rest.
Proof. cbn [combine map concat fst snd]. rewrite <- app_assoc. apply bracket_app. Qed.

Scheme expands_mind := Minimality for expands Sort Prop
  with splice_mind := Minimality for splice Sort Prop
  with expands_all_mind := Minimality for expands_all Sort Prop.
Combined Scheme expands_mutind from expands_mind, splice_mind, expands_all_mind.

(* ------------------------------------------------------------------------- *)
(* b. the model computes exactly the declarative splice                        *)

Section Expand.
  Variable col : N -> option N.
  Variable re : str -> bool.
  Variable fs : str -> option fentry.
  Variable glob : str -> globres.

  Notation expand := (expand col re fs glob).
  Notation expands := (expands col re fs glob).
  Notation splice := (splice col re fs glob).
  Notation expands_all := (expands_all col re fs glob).
  Notation go_fn := (go_fn glob).

  (* soundness *)

  Lemma each_sound exp il k :
    (forall l o, exp l = FOkR o -> expands l o) ->
    forall fl out, each_fn exp il k fl = FOkR out ->
      exists inners t, expands_all il fl inners /\ k = FOkR t /\ out = brackets fl inners ++ t.
  Proof.
    intros Hexp. induction fl as [| f fl IH]; intros out H.
    - cbn in H. exists [], out. split; [constructor | split; [exact H | reflexivity]].
    - cbn [each_fn] in H. fold (each_fn exp il k fl) in H.
      destruct (exp (Loc f 0 (Some il))) as [inner | | |] eqn:E; try discriminate.
      destruct (each_fn exp il k fl) as [t | | |] eqn:E2; try discriminate.
      inversion H; subst out; clear H.
      destruct (IH t eq_refl) as [inners [t0 [Hall [Hk Ht]]]].
      exists (inner :: inners), t0. split; [| split; [exact Hk |]].
      + constructor; [apply Hexp; exact E | exact Hall].
      + rewrite brackets_cons, Ht. reflexivity.
  Qed.

  Lemma go_sound exp file :
    (forall l o, exp l = FOkR o -> expands l o) ->
    forall rs out, go_fn exp file rs = FOkR out -> splice file rs out.
  Proof.
    intros Hexp. induction rs as [| r rest IH]; intros out H.
    - cbn in H. inversion H. constructor.
    - destruct (is_include r) eqn:Ei.
      + destruct r; try discriminate Ei. rename l into il, filename into fn.
        rewrite go_fn_include in H.
        destruct (glob (join_path (dirname file) fn)) as [[| f fl] | |] eqn:Eg; try discriminate.
        apply tail_with_ok in H. destruct H as [t [H Ho]]. subst out.
        apply each_sound in H; [| exact Hexp].
        destruct H as [inners [t0 [Hall [Hk Ht]]]]. subst t.
        apply tail_with_ok in Hk. destruct Hk as [t1 [Hk Ht]]. cbn [app] in Ht. subst t1.
        cbn [app]. eapply sp_include; [exact Eg | discriminate | exact Hall | apply IH; exact Hk].
      + rewrite (go_fn_plain _ _ _ _ _ Ei) in H.
        apply tail_with_ok in H. destruct H as [t [H Ho]]. subst out. cbn [app].
        apply sp_plain; [exact Ei | apply IH; exact H].
  Qed.

  Lemma expand_sound_sec fuel : forall l out, expand fuel l = FOkR out -> expands l out.
  Proof.
    induction fuel as [| fuel IH]; intros [file n upper] out H; [discriminate |].
    rewrite expand_S in H.
    destruct (fs file) as [[script | |] |] eqn:Ef; try discriminate.
    destruct (parse col re file upper script) as [rs | k m |] eqn:Ep; try discriminate.
    eapply ex_file; [exact Ef | exact Ep |]. eapply go_sound; [exact IH | exact H].
  Qed.

  (* completeness *)

  Lemma expand_complete_mut :
    (forall l out, expands l out ->
       exists fuel0, forall fuel, (fuel0 <= fuel)%nat -> expand fuel l = FOkR out) /\
    (forall file rs out, splice file rs out ->
       exists fuel0, forall fuel, (fuel0 <= fuel)%nat -> go_fn (expand fuel) file rs = FOkR out) /\
    (forall il fl inners, expands_all il fl inners ->
       exists fuel0, forall fuel, (fuel0 <= fuel)%nat ->
         forall t, each_fn (expand fuel) il (FOkR t) fl = FOkR (brackets fl inners ++ t)).
  Proof.
    apply expands_mutind.
    - intros file n upper script rs out Hf Hp _ [fuel0 IH].
      exists (S fuel0). intros fuel Hle. destruct fuel as [| fuel]; [lia |].
      rewrite expand_S, Hf, Hp. apply IH. lia.
    - intros file. exists O. reflexivity.
    - intros file r rest out Hi _ [fuel0 IH]. exists fuel0. intros fuel Hle.
      rewrite (go_fn_plain _ _ _ _ _ Hi), (IH fuel Hle). reflexivity.
    - intros file il fn files inners rest out Hg Hne _ [fa IHa] _ [fb IHb].
      exists (Nat.max fa fb). intros fuel Hle.
      rewrite go_fn_include, Hg. destruct files as [| f fl]; [congruence |].
      rewrite (IHb fuel) by lia. cbn [tail_with app].
      rewrite (IHa fuel) by lia. reflexivity.
    - intros il. exists O. reflexivity.
    - intros il f fl inner inners _ [fa IHa] _ [fb IHb].
      exists (Nat.max fa fb). intros fuel Hle t.
      cbn [each_fn]. fold (each_fn (expand fuel) il (FOkR t) fl).
      rewrite (IHa fuel) by lia. rewrite (IHb fuel) by lia.
      rewrite brackets_cons. reflexivity.
  Qed.

  (* fuel monotonicity *)

  Definition refines (exp exp' : loc -> fpres) : Prop :=
    forall l r, exp l = r -> r <> FOutOfFuel -> exp' l = r.

  Lemma each_mono exp exp' il :
    refines exp exp' ->
    forall fl k k' r, each_fn exp il k fl = r -> r <> FOutOfFuel ->
      (k <> FOutOfFuel -> k' = k) -> each_fn exp' il k' fl = r.
  Proof.
    intros Hexp. induction fl as [| f fl IH]; intros k k' r H Hne Hk.
    - cbn in *. subst r. apply Hk. exact Hne.
    - cbn [each_fn] in *. fold (each_fn exp il k fl) in H. fold (each_fn exp' il k' fl).
      destruct (exp (Loc f 0 (Some il))) as [inner | kk ll | |] eqn:E.
      + rewrite (Hexp _ _ E) by discriminate.
        destruct (each_fn exp il k fl) as [t | kk ll | |] eqn:E2;
          try (rewrite (IH k k' _ E2) by (try discriminate; exact Hk); exact H).
        congruence.
      + rewrite (Hexp _ _ E) by discriminate. exact H.
      + rewrite (Hexp _ _ E) by discriminate. exact H.
      + congruence.
  Qed.

  Lemma go_mono exp exp' file :
    refines exp exp' ->
    forall rs r, go_fn exp file rs = r -> r <> FOutOfFuel -> go_fn exp' file rs = r.
  Proof.
    intros Hexp. induction rs as [| x rest IH]; intros r H Hne.
    - exact H.
    - destruct (is_include x) eqn:Ei.
      + destruct x; try discriminate Ei. rename l into il, filename into fn.
        rewrite go_fn_include in *.
        destruct (glob (join_path (dirname file) fn)) as [[| f fl] | |] eqn:Eg; try exact H.
        subst r. apply tail_with_fuel in Hne.
        f_equal. eapply each_mono; [exact Hexp | reflexivity | exact Hne |].
        intros Hk. apply tail_with_fuel in Hk. f_equal. apply IH; [reflexivity | exact Hk].
      + rewrite (go_fn_plain glob exp _ _ _ Ei) in H. rewrite (go_fn_plain glob exp' _ _ _ Ei).
        subst r. apply tail_with_fuel in Hne.
        f_equal. apply IH; [reflexivity | exact Hne].
  Qed.

  Lemma expand_fuel_mono_sec fuel :
    forall l r, expand fuel l = r -> r <> FOutOfFuel ->
      forall fuel', (fuel <= fuel')%nat -> expand fuel' l = r.
  Proof.
    induction fuel as [| fuel IH]; intros [file n upper] r H Hne fuel' Hle.
    - cbn in H. congruence.
    - destruct fuel' as [| fuel']; [lia |].
      rewrite expand_S in *.
      destruct (fs file) as [[script | |] |]; try exact H.
      destruct (parse col re file upper script) as [rs | k m |]; try exact H.
      eapply go_mono; [| exact H | exact Hne].
      intros l r0 Hl Hr. apply (IH l r0 Hl Hr). lia.
  Qed.
End Expand.

Theorem expand_sound :
  forall col re fs glob fuel l out, expand col re fs glob fuel l = FOkR out -> expands col re fs glob l out.
Proof. exact expand_sound_sec. Qed.
Print Assumptions expand_sound.

Theorem expand_complete :
  forall col re fs glob l out, expands col re fs glob l out ->
    exists fuel0, forall fuel, (fuel0 <= fuel)%nat -> expand col re fs glob fuel l = FOkR out.
Proof. intros col re fs glob. apply (expand_complete_mut col re fs glob). Qed.
Print Assumptions expand_complete.

Theorem expand_fuel_mono :
  forall col re fs glob fuel l r, expand col re fs glob fuel l = r -> r <> FOutOfFuel ->
    forall fuel', (fuel <= fuel')%nat -> expand col re fs glob fuel' l = r.
Proof. exact expand_fuel_mono_sec. Qed.
Print Assumptions expand_fuel_mono.

(* ------------------------------------------------------------------------- *)
(* c. nesting of the markers, provenance                                       *)

Lemma loc_eqb_refl : forall a, loc_eqb a a = true.
Proof.
  fix IH 1. intros [f n [u |]]; cbn [loc_eqb]; rewrite str_eqb_refl, N.eqb_refl; cbn [andb].
  - apply IH.
  - reflexivity.
Qed.

Lemma oloc_eqb_refl a : oloc_eqb a a = true.
Proof. destruct a as [x |]; cbn; [apply loc_eqb_refl | reflexivity]. Qed.

Definition loc_up (l : loc) : option loc := match l with Loc _ _ u => u end.

Section Markers.
  Variable col : N -> option N.
  Variable re : str -> bool.
  Variable fs : str -> option fentry.
  Variable glob : str -> globres.

  Notation expands := (expands col re fs glob).
  Notation splice := (splice col re fs glob).
  Notation expands_all := (expands_all col re fs glob).

  Lemma nested_mut :
    (forall l out, expands l out ->
       forall st tail, nested st (out ++ tail) = nested st tail) /\
    (forall file rs out, splice file rs out -> Forall no_marker rs ->
       forall st tail, nested st (out ++ tail) = nested st tail) /\
    (forall il fl inners, expands_all il fl inners ->
       forall st tail, nested st (brackets fl inners ++ tail) = nested st tail).
  Proof.
    apply expands_mutind.
    - intros file n upper script rs out _ Hp _ IH. apply IH.
      apply parse_good in Hp. eapply Forall_impl; [| exact Hp]. intros r [Hm _]. exact Hm.
    - intros file _ st tail. reflexivity.
    - intros file r rest out Hi _ IH Hall st tail.
      inversion Hall as [| r' rest' Hr Hrest]; subst r' rest'.
      cbn [app]. rewrite <- (IH Hrest st tail).
      destruct r; cbn in Hr; try contradiction; reflexivity.
    - intros file il fn files inners rest out _ _ _ IHa _ IHb Hall st tail.
      inversion Hall as [| r' rest' Hr Hrest]; subst r' rest'.
      cbn [app nested]. rewrite <- app_assoc, IHa. apply IHb. exact Hrest.
    - intros il st tail. reflexivity.
    - intros il f fl inner inners _ IHa _ IHb st tail.
      rewrite brackets_cons. cbn [nested]. rewrite IHa. cbn [nested].
      rewrite str_eqb_refl. cbn [andb]. apply IHb.
  Qed.

  Lemma provenance_mut :
    (forall l out, expands l out ->
       forall li, exists li2, forall st tail,
         provenance (loc_file l, loc_up l) li st (out ++ tail) =
         provenance (loc_file l, loc_up l) li2 st tail) /\
    (forall file rs out, splice file rs out -> forall up, Forall (good file up) rs ->
       forall li, exists li2, forall st tail,
         provenance (file, up) li st (out ++ tail) = provenance (file, up) li2 st tail) /\
    (forall il fl inners, expands_all il fl inners ->
       forall cur st tail,
         provenance cur (Some il) st (brackets fl inners ++ tail) =
         provenance cur (Some il) st tail).
  Proof.
    apply expands_mutind.
    - intros file n upper script rs out _ Hp _ IH li. cbn [loc_file loc_up].
      apply IH. apply parse_good in Hp. exact Hp.
    - intros file up _ li. exists li. reflexivity.
    - intros file r rest out Hi _ IH up Hall li.
      inversion Hall as [| r' rest' [Hm Hl] Hrest]; subst r' rest'.
      destruct (IH up Hrest li) as [li2 H]. exists li2. intros st tail.
      cbn [app]. rewrite <- H. unfold loc_ok in Hl.
      destruct r; cbn in Hm, Hi; try contradiction; try discriminate;
        cbn [provenance record_loc_opt] in *; try reflexivity;
        destruct l as [f m u]; destruct Hl as [-> ->]; cbn [fst snd];
        rewrite str_eqb_refl, oloc_eqb_refl; reflexivity.
    - intros file il fn files inners rest out _ _ _ IHa _ IHb up Hall li.
      inversion Hall as [| r' rest' [Hm Hl] Hrest]; subst r' rest'.
      destruct (IHb up Hrest (Some il)) as [li2 H]. exists li2. intros st tail.
      cbn [app provenance record_loc_opt]. unfold loc_ok in Hl. cbn [record_loc_opt] in Hl.
      destruct il as [f m u]. destruct Hl as [-> ->]. cbn [fst snd].
      rewrite str_eqb_refl, oloc_eqb_refl. cbn [andb].
      rewrite <- app_assoc, IHa. apply H.
    - intros il cur st tail. reflexivity.
    - intros il f fl inner inners _ IHa _ IHb cur st tail.
      rewrite brackets_cons. cbn [provenance].
      destruct (IHa None) as [li2 H]. cbn [loc_file loc_up] in H. rewrite H.
      cbn [provenance]. apply IHb.
  Qed.
End Markers.

Theorem expand_nested :
  forall col re fs glob fuel l out, expand col re fs glob fuel l = FOkR out -> nested [] out = true.
Proof.
  intros col re fs glob fuel l out H. apply expand_sound in H.
  rewrite <- (app_nil_r out).
  rewrite (proj1 (nested_mut col re fs glob) l out H [] []). reflexivity.
Qed.
Print Assumptions expand_nested.

Theorem expand_provenance :
  forall col re fs glob fuel f n up out,
    expand col re fs glob fuel (Loc f n up) = FOkR out -> provenance (f, up) None [] out = true.
Proof.
  intros col re fs glob fuel f n up out H. apply expand_sound in H.
  destruct (proj1 (provenance_mut col re fs glob) _ _ H None) as [li2 Hp].
  cbn [loc_file loc_up] in Hp.
  rewrite <- (app_nil_r out), Hp. reflexivity.
Qed.
Print Assumptions expand_provenance.

(* ------------------------------------------------------------------------- *)
(* d. located errors                                                          *)

Theorem missing_file_error :
  forall col re fs glob fuel file n up,
    fs file = None -> expand col re fs glob (S fuel) (Loc file n up) = FErrR K_FILE_NOT_FOUND (Loc file n up).
Proof. intros col re fs glob fuel file n up H. rewrite expand_S, H. reflexivity. Qed.
Print Assumptions missing_file_error.

Lemma go_fn_err_app glob exp file pre rest k l :
  (forall r, In r pre -> is_include r = false) ->
  go_fn glob exp file rest = FErrR k l ->
  go_fn glob exp file (pre ++ rest) = FErrR k l.
Proof.
  intros Hpre Hrest. induction pre as [| r pre IH]; [exact Hrest |].
  cbn [app]. rewrite go_fn_plain by (apply Hpre; left; reflexivity).
  rewrite IH; [reflexivity |]. intros x Hx. apply Hpre. right. exact Hx.
Qed.

Theorem empty_include_error :
  forall col re fs glob fuel file n up script pre il fn rest outpre,
    fs file = Some (FFile script) ->
    parse col re file up script = POk (pre ++ RInclude il fn :: rest) ->
    splice col re fs glob file pre outpre ->            (* everything before it expands fine ... *)
    (forall r, In r pre -> is_include r = false) ->      (* ... simplest form: no include before it *)
    glob (join_path (dirname file) fn) = GOk [] ->
    expand col re fs glob (S fuel) (Loc file n up) = FErrR K_EMPTY_INCLUDE il.
Proof.
  intros col re fs glob fuel file n up script pre il fn rest outpre Hf Hp _ Hpre Hg.
  rewrite expand_S, Hf, Hp. apply go_fn_err_app; [exact Hpre |].
  rewrite go_fn_include, Hg. reflexivity.
Qed.
Print Assumptions empty_include_error.
