(* NonVacuity.v -- the property theorems of Props/C01.v ... Props/C20.v are not vacuous.

   For every theorem whose statement has premises there is an
       Example nv_<theorem name> : <its premises at one concrete, non-trivial witness, conjoined>
   proved by computation.  Premises that are equations about the model's output (a parse, a run
   of the script driver, a run of the observer automaton, ...) are stated with the concrete input
   AND the concrete output.  Where a theorem only has premises inside its conclusion (inner
   implications), those inner premises are instantiated.  A few extra Examples (suffix
   _values, _accepts, _expands, _refused, _system) show the other side of an equivalence or a
   second witness.  No axioms; every Example is closed by Qed.

   Layout (grouped by the model a witness lives in; each group starts with its own imports):
     Judge / Runner fixture : C01, C02, C09, C11, C12
     Parser fixture         : C03, C04, C05
     Update                 : C06, C07
     File system            : C08
     Shape / hash           : C10, C15
     Substitution           : C13
     Include                : C14
     Cli / Par automaton    : C16, C17, C19   (+ the driver model: the C16_driver, C17_driver, C19_driver theorems)
     Partition              : C18
     Framing                : C20   (last: Framing.v defines a constructor named In)

   NO PREMISES (pure universally quantified equations / iffs / existence statements; no Example):
     C02_halt, C02_compositional,
     C04_panic_refuted, C04_line_status_uniform,
     C05_default_columns_stable,
     C07_skipped_unchanged, C07_failed_command_unchanged,
     C08_trim_empty, C08_trim_small_refuted,
     C10_precedence,
     C11_guard, C11_any_guard_skips, C11_skipped_cannot_fail,
     C13_lookup_order,
     C15_threshold_scope,
     C16_junit,
     C18_single_file_not_filtered, C18_pure,
     C19_fail_fast_cancels.
   Theorems with no top-level premise but premises inside the conclusion, which ARE instantiated:
     C02_control_scope, C09_execution_count, C09_stop_at_first_pass, C12_shutdown, C18_reject
     (and the two inner premises of C01_verdict).

   NOT COVERED: none (see the end of the file). *)

(* ###################################################################### *)
From SLT Require Import JudgeSpec JudgeProofs Runner RetryProofs RunnerProofs Entry.
Open Scope N_scope.

(* ================================================================= C01 *)
Definition c01_re : str -> str -> bool := fun r m => str_eqb r m.
Definition c01_cfg := mkConfig None None 0 true.
Definition c01_q :=
  RQuery (Loc (lit "a.slt") 3 None) [SkipIf (lit "x")] (CNamed (lit "c1")) (lit "select a, b from t")
         (QResults (lit "IT") (Some RowSort) None [lit "1 x"; lit "2 y"]) None.
(* an answer that meets the expectation (after rowsort) and one that does not *)
Definition c01_good := ADb (DRows (lit "IT") [[lit "2"; lit "y"]; [lit "1"; lit "x"]]).
Definition c01_bad := ADb (DRows (lit "IT") [[lit "2"; lit "z"]; [lit "1"; lit "x"]]).

Example nv_C01_pass_iff_expectation_met :
  judged c01_q c01_good /\ run_record c01_re c01_cfg c01_q c01_good = Pass.
Proof. split; [exact I | vm_compute; reflexivity]. Qed.

Example nv_C01_failure_names_the_reason :
  judged c01_q c01_bad /\ run_record c01_re c01_cfg c01_q c01_bad = Fail KResultMismatch.
Proof. split; [exact I | vm_compute; reflexivity]. Qed.

Example nv_C01_never_unreachable : judged c01_q c01_bad.
Proof. exact I. Qed.

(* both inner premises of C01_verdict are satisfiable: expect_met, and its negation *)
Example nv_C01_verdict :
  (judged c01_q c01_good /\ expect_met c01_re c01_cfg c01_q c01_good) /\
  (judged c01_q c01_bad /\ ~ expect_met c01_re c01_cfg c01_q c01_bad).
Proof.
  split; split; try exact I.
  - apply (judge_pass_iff c01_re c01_cfg c01_q c01_good I). vm_compute; reflexivity.
  - intros H. apply (judge_pass_iff c01_re c01_cfg c01_q c01_bad I) in H. vm_compute in H. discriminate.
Qed.

(* ================================================================= runner fixture (C02, C09, C11, C12) *)
Definition rn_re : str -> str -> bool := fun r m => str_eqb r m.
Definition rn_sub := real_subst [(lit "HOME", lit "/root")].
Definition rn_sc := mkScript
  [AOut (DComplete 1); AEcho; AOut (DErr (lit "boom")); AOut (DRows (lit "I") [[lit "7"]])]
  AEcho [] [SysExit true (lit "hi
")] SysSpawnErr (lit "pg").
Definition rn_cfg0 := mkConfig None None 0 false.
Definition rn_cfg1 := mkConfig (Some RowSort) None 0 false.
Definition rn_st0 := mkRState rn_cfg0 false [lit "mydb"] [] [].
Definition rn_L n := Loc (lit "a.slt") n None.
Definition rn_r1 := RStatement (rn_L 1) [] CDefault (lit "create table t(a int)") SOk None.
Definition rn_r2 := RControl (CtlSortMode RowSort).
Definition rn_r3 := RQuery (rn_L 5) [OnlyIf (lit "pg")] (CNamed (lit "c2")) (lit "select $x")
                           (QResults (lit "II") None None [lit "1 0"]) None.
Definition rn_r4 := RStatement (rn_L 9) [] CDefault (lit "insert into t values (1)") SOk None.
Definition rn_r5 := RHalt (rn_L 12).
Definition rn_r6 := RSystem (rn_L 13) [] (lit "echo hi") (Some (lit "hi")) None.
Definition rn_conns := [(CDefault, 0); (CNamed (lit "c2"), 1)].
Definition rn_st1 := mkRState rn_cfg1 false [lit "mydb"] rn_conns [].
Definition rn_ev3 := [EConnect 0; ESql 0 (lit "create table t(a int)"); EConnect 1; ESql 1 (lit "select $x")].

(* ================================================================= C02 *)
(* a run that stops at the failing 4th record (the database answers "boom") *)
Example nv_C02_trace :
  run_multi_e rn_re rn_sub rn_sc rn_st0 world0 [rn_r1; rn_r2; rn_r3; rn_r4; rn_r5; rn_r6] =
    (rn_ev3 ++ [ESql 0 (lit "insert into t values (1)")], rn_st1,
     mkWorld 3 2 2 0 [(0, 2); (1, 1)], Stopped (FErr KFail (rn_L 9))).
Proof. vm_compute; reflexivity. Qed.

(* a run that ends at a halt *)
Example nv_C02_result :
  run_multi_e rn_re rn_sub rn_sc rn_st0 world0 [rn_r1; rn_r2; rn_r3; rn_r5; rn_r4; rn_r6] =
    (rn_ev3, rn_st1, mkWorld 2 2 2 0 [(0, 1); (1, 1)], Halted).
Proof. vm_compute; reflexivity. Qed.

(* inner premises of C02_control_scope *)
Example nv_C02_control_scope :
  rn_r2 = RControl (CtlSortMode RowSort) /\ RHashThreshold (rn_L 2) 8 = RHashThreshold (rn_L 2) 8.
Proof. split; reflexivity. Qed.

Example nv_C02_sql_verbatim : subst_on rn_st1 = false.
Proof. reflexivity. Qed.

(* ================================================================= C09 *)
(* retry 3: the database fails twice ("busy"), then completes *)
Definition c09_sc := mkScript
  [AOut (DErr (lit "busy")); AOut (DErr (lit "busy")); AOut (DComplete 1); AOut (DErr (lit "late"))]
  AEcho [] [] SysSpawnErr (lit "pg").
Definition c09_rt := mkRetry 3 500.
Definition c09_r := RStatement (rn_L 7) [] CDefault (lit "insert into t values (1)") (SCount 1) (Some c09_rt).
Definition c09_att := att rn_re rn_sub c09_sc c09_r.

Example nv_C09_retry :
  record_retry c09_r = Some c09_rt /\
  (* the potential attempts have a failing prefix of length 2 *)
  map (passes _ _) (potential _ _ c09_att (N.to_nat (attempts c09_rt)) (rn_st0, world0)) = [false; false; true].
Proof. split; vm_compute; reflexivity. Qed.

(* inner premise of C09_execution_count *)
Example nv_C09_execution_count :
  first_pass _ _ (potential _ _ c09_att 3 (rn_st0, world0)) = Some 2%nat.
Proof. vm_compute; reflexivity. Qed.

(* a generic list of attempt results: two failures, a pass, and a never-executed fourth *)
Definition c09_l : list (list event * nat * nat * verdict) :=
  [ ([ESql 0 (lit "x")], 1%nat, 0%nat, Fail KFail);
    ([ESql 0 (lit "x")], 2%nat, 0%nat, Fail KCountMismatch);
    ([ESql 0 (lit "x")], 3%nat, 7%nat, Pass);
    ([ESql 0 (lit "x")], 4%nat, 0%nat, Fail KFail) ].
(* inner premise of C09_stop_at_first_pass: the last executed attempt is the third *)
Example nv_C09_stop_at_first_pass :
  last (map Some (upto_first_pass _ _ c09_l)) None = Some ([ESql 0 (lit "x")], 3%nat, 7%nat, Pass) /\
  removelast (upto_first_pass _ _ c09_l) =
    [([ESql 0 (lit "x")], 1%nat, 0%nat, Fail KFail); ([ESql 0 (lit "x")], 2%nat, 0%nat, Fail KCountMismatch)].
Proof. split; vm_compute; reflexivity. Qed.

Example nv_C09_verdict : Unreachable <> Pass /\ existsb (passes _ _) c09_l = true.
Proof. split; [discriminate | vm_compute; reflexivity]. Qed.

Example nv_C09_no_retry_once : record_retry rn_r3 = None.
Proof. reflexivity. Qed.

(* ================================================================= C11 / C12 *)
(* a runner in mid-run: two sessions bound, substitution on with a local variable x = 42 *)
Definition rn_st2 := mkRState rn_cfg1 true [lit "mydb"] rn_conns [(lit "x", lit "42")].
Definition rn_w2 := mkWorld 2 2 2 0 [(0, 1); (1, 1)].
Definition rn_c3 := CNamed (lit "c3").
Definition rn_st3 := mkRState rn_cfg1 true [lit "mydb"] (rn_conns ++ [(rn_c3, 2)]) [(lit "x", lit "42")].
Definition rn_w3 := mkWorld 2 3 3 0 [(0, 1); (1, 1)].
(* the engine is "pg", the runner label "mydb": the second guard skips *)
Definition c11_skip := [OnlyIf (lit "pg"); SkipIf (lit "mydb")].
Definition c11_open := [OnlyIf (lit "pg"); SkipIf (lit "sqlite")].

(* a new connection name: the session is opened (EConnect 2) although the record is then skipped *)
Example nv_C11_skipped_statement_is_silent :
  may_substitute rn_sub rn_st2 true (lit "select ${x} + $x") = SubOk (lit "select 42 + 42") /\
  get_conn rn_sc rn_st2 rn_w2 rn_c3 = ([EConnect 2], rn_st3, rn_w3, Some 2) /\
  should_skip (labels rn_st3) (engine rn_sc) c11_skip = true.
Proof. repeat split; vm_compute; reflexivity. Qed.

(* an already bound connection name *)
Example nv_C11_skipped_query_is_silent :
  may_substitute rn_sub rn_st2 true (lit "select ${y:7}, $HOME") = SubOk (lit "select 7, /root") /\
  get_conn rn_sc rn_st2 rn_w2 (CNamed (lit "c2")) = ([], rn_st2, rn_w2, Some 1) /\
  should_skip (labels rn_st2) (engine rn_sc) c11_skip = true.
Proof. repeat split; vm_compute; reflexivity. Qed.

(* for a system record the engine name is not a label: `onlyif pg` skips *)
Example nv_C11_skipped_system_is_silent :
  should_skip (labels rn_st2) [] [SkipIf (lit "sqlite"); OnlyIf (lit "pg")] = true.
Proof. vm_compute; reflexivity. Qed.

Example nv_C11_admitted_statement_runs :
  may_substitute rn_sub rn_st2 true (lit "select ${x} + $x") = SubOk (lit "select 42 + 42") /\
  get_conn rn_sc rn_st2 rn_w2 rn_c3 = ([EConnect 2], rn_st3, rn_w3, Some 2) /\
  should_skip (labels rn_st3) (engine rn_sc) c11_open = false.
Proof. repeat split; vm_compute; reflexivity. Qed.

Example nv_C12_refines_map :
  get_conn rn_sc rn_st2 rn_w2 rn_c3 = ([EConnect 2], rn_st3, rn_w3, Some 2) /\
  get_conn rn_sc rn_st3 rn_w3 rn_c3 = ([], rn_st3, rn_w3, Some 2).
Proof. split; vm_compute; reflexivity. Qed.

Example nv_C12_routing_statement :
  may_substitute rn_sub rn_st2 true (lit "select ${x} + $x") = SubOk (lit "select 42 + 42") /\
  get_conn rn_sc rn_st2 rn_w2 rn_c3 = ([EConnect 2], rn_st3, rn_w3, Some 2) /\
  should_skip (labels rn_st3) (engine rn_sc) c11_open = false.
Proof. exact nv_C11_admitted_statement_runs. Qed.

Example nv_C12_routing_query :
  may_substitute rn_sub rn_st2 true (lit "select ${y:7}, $HOME") = SubOk (lit "select 7, /root") /\
  get_conn rn_sc rn_st2 rn_w2 (CNamed (lit "c2")) = ([], rn_st2, rn_w2, Some 1) /\
  should_skip (labels rn_st2) (engine rn_sc) c11_open = false.
Proof. repeat split; vm_compute; reflexivity. Qed.

Lemma rn_conn_inv : conn_inv rn_st2 rn_w2.
Proof.
  split; [|split].
  - vm_compute. repeat constructor.
    + intros [H|[]]; discriminate H.
    + intros [].
  - intros c id H. cbn in H. destruct H as [H|[H|[]]]; injection H as <- <-; reflexivity.
  - intros c id H. cbn in H. destruct H as [H|[H|[]]]; injection H as <- <-; vm_compute; reflexivity.
Qed.

(* from the mid-run state: a query on the bound session c2 (echo answer "1 1"), a statement on
   the new name c3 (the database answers "boom": the run stops there), never reaching the rest *)
Definition c12_q := RQuery (rn_L 20) [] (CNamed (lit "c2")) (lit "select $x")
                           (QResults (lit "II") None None [lit "1 1"]) None.
Definition c12_sc := mkScript
  [AOut (DComplete 1); AEcho; AEcho; AOut (DErr (lit "boom"))] AEcho [] [] SysSpawnErr (lit "pg").
Definition c12_s := RStatement (rn_L 24) c11_open rn_c3 (lit "insert into t values ($x)") SOk None.
Example nv_C12_once_and_reused :
  run_multi_e rn_re rn_sub c12_sc rn_st2 rn_w2 [c12_q; c12_s; rn_r6] =
    ([ESql 1 (lit "select 42"); EConnect 2; ESql 2 (lit "insert into t values (42)")],
     rn_st3, mkWorld 4 3 3 0 [(0, 1); (1, 2); (2, 1)], Stopped (FErr KFail (rn_L 24))) /\
  conn_inv rn_st2 rn_w2.
Proof. split; [vm_compute; reflexivity | exact rn_conn_inv]. Qed.

Example nv_C12_isolated :
  conn_inv rn_st2 rn_w2 /\ find_conn (CNamed (lit "c2")) (conns rn_st2) = Some 1 /\
  find_conn (CNamed (lit "c2")) (conns rn_st2) = Some 1.
Proof. split; [exact rn_conn_inv | split; vm_compute; reflexivity]. Qed.

(* inner premise of C12_shutdown *)
Example nv_C12_shutdown : find_conn rn_c3 (conns rn_st3) = Some 2.
Proof. vm_compute; reflexivity. Qed.

(* ###################################################################### *)
From SLT Require Import Parser Render TextProofs RenderProofs HeaderSpec ParserSafety Unparse FormatSpec FormatProofs.
Open Scope N_scope.

(* ---------------------------------------------------------------- helpers (proved, no axioms) *)
Fixpoint nv_nodbl (t : list str) : bool :=
  match t with
  | a :: r => match r with
              | b :: _ => negb (match a, b with [], [] => true | _, _ => false end) && nv_nodbl r
              | [] => true
              end
  | [] => true
  end.
Lemma nv_nodbl_tail x t : nv_nodbl (x :: t) = true -> nv_nodbl t = true.
Proof. destruct t as [|y t]; [reflexivity|]. cbn [nv_nodbl]. intros H. apply andb_true_iff in H as [_ H]. exact H. Qed.
Lemma nv_nodbl_ok t : nv_nodbl t = true -> forall a b u v, t = u ++ a :: b :: v -> ~ (a = [] /\ b = []).
Proof.
  intros H a b u. revert t H. induction u as [|x u IH]; intros t H v E [-> ->]; subst t.
  - cbn in H. discriminate.
  - cbn [app] in H. apply nv_nodbl_tail in H. apply (IH _ H v eq_refl). split; reflexivity.
Qed.

Lemma nv_dur_safe_words_dec ws :
  forallb (fun t => match parse_duration t with DPanic => false | _ => true end) ws = true -> dur_safe_words ws.
Proof.
  intros H t Hin. rewrite forallb_forall in H. specialize (H t Hin).
  destruct (parse_duration t); [discriminate | discriminate | discriminate H].
Qed.
Lemma nv_dur_safe_dec ls :
  forallb (fun l => forallb (fun t => match parse_duration t with DPanic => false | _ => true end) (split_ws l)) ls = true ->
  dur_safe ls.
Proof.
  intros H l t Hl Ht. rewrite forallb_forall in H. specialize (H l Hl).
  exact (nv_dur_safe_words_dec _ H t Ht).
Qed.

Ltac nv_fin :=
  match goal with
  | |- _ <> _ => first [discriminate | vm_compute; discriminate | vm_compute; intuition (try discriminate; try congruence)]
  | |- ~ _ => vm_compute; intuition (try discriminate; try congruence)
  | |- _ = _ => vm_compute; reflexivity
  | |- (_ <= _)%N => vm_compute; discriminate
  | |- (_ < _)%N => vm_compute; reflexivity
  | |- True => exact I
  | |- Forall _ _ => repeat constructor
  | |- forall a b u v, _ = _ -> ~ _ => apply nv_nodbl_ok; vm_compute; reflexivity
  | |- _ -> _ => let H := fresh in intro H;
       first [discriminate H | (vm_compute in H; first [discriminate H | injection H as <-; reflexivity]) | nv_fin]
  | |- forall _, _ => intro; nv_fin
  | |- _ => idtac
  end.

(* ================================================================= C03 *)
Definition nv_hl (seps : list str) := mkHlay [] seps [].
(* comment block, control line with odd blanks, statement, blank line, white-space-only line,
   sleep, onlyif + connection (consumed by the next statement), multi-line error text,
   system with expected output, query with sort mode, retry clause and results, ending at EOF *)
Definition c03_script : list item :=
  [ IComment [lit " setup"; lit " (two comment lines)"];
    IControl (mkHlay [32] [[32]; [9; 32]] [32]) (CtlSortMode RowSort);
    IStatement (nv_hl [[32]]) SFOk None [lit "create table t(a int, b int)"] EndBlank MEndDouble;
    IBlank;
    ISpace [32; 9];
    ISleep (nv_hl [[32]]) (lit "2m") 120000000000;
    ICond (nv_hl [[32]]) (OnlyIf (lit "pg"));
    IConnection (nv_hl [[32]]) (lit "c2");
    IStatement (nv_hl [[32]]) (SFErrMulti [lit "db error:"; lit "  no such table"]) None [lit "drop table u"] EndBlank MEndDouble;
    ISystem (nv_hl [[32]]) None [lit "echo hi"] (Some [lit "hi"]) EndBlank MEndDouble;
    IQuery (nv_hl [[32]; [32;32]; [32]; [32]; [32]; [32]])
           (QFResults (lit "II") (lit "II") (Some RowSort) None true [lit "1 2"; lit "3 4"])
           (Some (mkRClause 3 (lit "1s") 1000000000))
           [lit "select a, b"; lit "from t"] EndEof MEndEof ].
Definition c03_re : str -> bool := fun _ => true.
Definition c03_eols := [false; true; false; false; true; true; false; true].

Lemma c03_wf : wf_script default_col c03_re c03_script.
Proof.
  cbn [wf_script c03_script wf_item is_comment].
  unfold wf_hlay, wf_sform, wf_qform, wf_retry, wf_rclause, wf_block, wf_multi, token, blank, line_ok.
  repeat match goal with |- _ /\ _ => split end; nv_fin.
  all: try (repeat constructor; nv_fin).
Qed.

(* no final newline: the last physical line ("3 4") is not empty *)
Example nv_C03_roundtrip :
  wf_script default_col c03_re c03_script /\ (false = false -> last (render_lines c03_script) [] <> []).
Proof. split; [exact c03_wf | intros _; vm_compute; discriminate]. Qed.

Example nv_C03_roundtrip_lines : wf_script default_col c03_re c03_script.
Proof. exact c03_wf. Qed.

Definition c03_ls : list str := [lit "select 1 "; []; lit "  from t"; lit "x"].
Example nv_C03_line_endings :
  Forall line_ok c03_ls /\ (false = false -> last c03_ls [] <> []).
Proof.
  split; [| intros _; vm_compute; discriminate].
  unfold line_ok. repeat constructor; nv_fin.
Qed.

(* ================================================================= C04 *)
Definition c04_file := lit "t.slt".
(* the rendered script above contains two duration words ("2m", "1s") *)
Example nv_C04_no_panic : dur_safe (render_lines c03_script).
Proof. apply nv_dur_safe_dec. vm_compute; reflexivity. Qed.

Definition c04_pre : list str := [lit "# c"; lit "statement ok"; lit "select 1"; []].
Definition c04_bad : str := lit "statement count many".
Definition c04_post : list str := [lit "select 2"; []; lit "halt"].

Example nv_C04_line_bound :
  parse_lines_list default_col c03_re c04_file None (c04_pre ++ c04_bad :: c04_post) = PErr PInvalidNumber 5.
Proof. vm_compute; reflexivity. Qed.

Definition c04_p : pstate :=
  mkP [RComment [lit " c"]; RStatement (Loc c04_file 2 None) [] CDefault (lit "select 1") SOk None]
      [] CDefault [] 4 Top.
Example nv_C04_reject_at_boundary :
  run_lines default_col c03_re c04_file None pstate0 c04_pre = SNext c04_p /\
  pmode c04_p = Top /\
  hd_error c04_bad <> Some 35 /\
  status_of default_col c03_re c04_bad = LReject PInvalidNumber.
Proof. repeat split; try (vm_compute; reflexivity). vm_compute; discriminate. Qed.

Definition c04_line : str := lit "query II  rowsort lbl retry 3 backoff 1s".
Example nv_C04_strict :
  split_ws c04_line <> [] /\ dur_safe_words (split_ws c04_line).
Proof. split; [vm_compute; discriminate | apply nv_dur_safe_words_dec; vm_compute; reflexivity]. Qed.
(* ... and both sides of the equivalence hold for it *)
Example nv_C04_strict_accepts : status_of default_col c03_re c04_line = LAccept.
Proof. vm_compute; reflexivity. Qed.

Example nv_C04_statement_results_rejected :
  (SCount 2 = SOk \/ exists n, SCount 2 = SCount n) /\ (SOk = SOk \/ exists n, SOk = SCount n).
Proof. split; [right; exists 2; reflexivity | left; reflexivity]. Qed.

Example nv_C04_duplicated_error_rejected : EInline (lit "no such table") <> EEmpty.
Proof. discriminate. Qed.

(* ================================================================= C05 *)
Definition c05_s : str := render c03_script c03_eols false.
Definition c05_L n := Loc (lit "a.slt") n None.
Definition c05_emulti := SError (EMulti (lit "db error:
  no such table")).
Definition c05_qres := QResults (lit "II") (Some RowSort) None [lit "1 2"; lit "3 4"].
Definition c05_rs : list record :=
  [ RComment [lit " setup"; lit " (two comment lines)"]; RControl (CtlSortMode RowSort);
    RStatement (c05_L 4) [] CDefault (lit "create table t(a int, b int)") SOk None; RNewline;
    RSleep (c05_L 9) 120000000000; RCondition (OnlyIf (lit "pg")); RConnection (CNamed (lit "c2"));
    RStatement (c05_L 12) [OnlyIf (lit "pg")] (CNamed (lit "c2")) (lit "drop table u") c05_emulti None;
    RSystem (c05_L 19) [] (lit "echo hi") (Some (lit "hi")) None;
    RQuery (c05_L 25) [] CDefault (lit "select a, b
from t") c05_qres (Some (mkRetry 3 1000000000)) ].
(* the formatted file: canonical blanks, LF only, no white-space-only line *)
Definition c05_f : str := lit "# setup
# (two comment lines)
control sortmode rowsort
statement ok
create table t(a int, b int)


sleep 2m
onlyif pg
connection c2
statement error
drop table u
----
db error:
  no such table


system ok
echo hi
----
hi


query II rowsort retry 3 backoff 1s
select a, b
from t
----
1 2
3 4

".
(* the records read back from it: same meaning, line numbers shifted *)
Definition c05_rs' : list record :=
  [ RComment [lit " setup"; lit " (two comment lines)"]; RControl (CtlSortMode RowSort);
    RStatement (c05_L 4) [] CDefault (lit "create table t(a int, b int)") SOk None; RNewline;
    RSleep (c05_L 8) 120000000000; RCondition (OnlyIf (lit "pg")); RConnection (CNamed (lit "c2"));
    RStatement (c05_L 11) [OnlyIf (lit "pg")] (CNamed (lit "c2")) (lit "drop table u") c05_emulti None;
    RSystem (c05_L 18) [] (lit "echo hi") (Some (lit "hi")) None;
    RQuery (c05_L 24) [] CDefault (lit "select a, b
from t") c05_qres (Some (mkRetry 3 1000000000)) ].

Lemma c05_no_cr : no_trailing_cr c05_s.
Proof. unfold no_trailing_cr. vm_compute. repeat (constructor; [discriminate|]). constructor. Qed.

Example nv_C05_format_sound :
  col_stable default_col /\ no_trailing_cr c05_s /\
  parse default_col c03_re (lit "a.slt") None c05_s = POk c05_rs.
Proof. split; [exact default_col_stable | split; [exact c05_no_cr | vm_compute; reflexivity]]. Qed.

Example nv_C05_format_idem :
  col_stable default_col /\ no_trailing_cr c05_s /\
  parse default_col c03_re (lit "a.slt") None c05_s = POk c05_rs /\
  write_records c05_rs = Some c05_f /\
  parse default_col c03_re (lit "a.slt") None c05_f = POk c05_rs'.
Proof.
  split; [exact default_col_stable | split; [exact c05_no_cr |]].
  repeat split; vm_compute; reflexivity.
Qed.

(* 1 hour 1 minute 1 second and 5 ns *)
Example nv_C05_duration_roundtrip : 3661000000005 <= U64MAX * NS_PER_S + 999999999.
Proof. vm_compute; discriminate. Qed.

(* ###################################################################### *)
From SLT Require Import JudgeSpec Update UpdateSpec UpdateProofs.
Open Scope N_scope.

(* ================================================================= C06 / C07 *)
(* a regex oracle that accepts a pattern exactly when it is the escaped form of the message *)
Definition c06_re : str -> str -> bool := fun pat s => str_eqb pat (re_escape s).
Lemma c06_escape_law : escape_law c06_re.
Proof. intros s. unfold c06_re. apply str_eqb_refl. Qed.

Definition c06_cfg := mkConfig None None 0 true.
Definition c06_sep : str := [32].
Definition c06_L n := Loc (lit "a.slt") n None.
(* a query whose written column types and result lines are both wrong *)
Definition c06_q :=
  RQuery (c06_L 3) [SkipIf (lit "x")] (CNamed (lit "c1")) (lit "select a, b from t")
         (QResults (lit "II") (Some RowSort) (Some (lit "lbl")) [lit "9 z"]) (Some (mkRetry 2 1000)).
Definition c06_a := ADb (DRows (lit "IT") [[lit "2"; lit "y"]; [lit "1"; lit "x"]]).
Definition c06_q' :=
  RQuery (c06_L 3) [SkipIf (lit "x")] (CNamed (lit "c1")) (lit "select a, b from t")
         (QResults (lit "IT") (Some RowSort) (Some (lit "lbl")) [lit "1 x"; lit "2 y"]) (Some (mkRetry 2 1000)).

Example nv_C06_record_converges :
  escape_law c06_re /\ judged c06_q c06_a /\
  known_class c06_sep c06_cfg c06_q (apply c06_cfg c06_q c06_a) = [] /\
  (forall ok out, c06_a = ASys (SysExit ok out) -> ok = true) /\
  c06_a <> ASys SysSpawnErr /\
  update_record c06_re c06_sep (strict_cols c06_cfg) c06_q (apply c06_cfg c06_q c06_a) = Some c06_q'.
Proof.
  split; [exact c06_escape_law|]. split; [exact I|]. split; [vm_compute; reflexivity|].
  split; [intros ok out H; discriminate H|]. split; [discriminate | vm_compute; reflexivity].
Qed.

(* the same premises on a system record whose command succeeded with another output *)
Definition c06_sys := RSystem (c06_L 8) [] (lit "echo hello") (Some (lit "bye")) None.
Definition c06_sa := ASys (SysExit true (lit "hello
")).
Definition c06_sys' := RSystem (c06_L 8) [] (lit "echo hello") (Some (lit "hello
")) None.
Example nv_C06_record_converges_system :
  escape_law c06_re /\ judged c06_sys c06_sa /\
  known_class c06_sep c06_cfg c06_sys (apply c06_cfg c06_sys c06_sa) = [] /\
  (forall ok out, c06_sa = ASys (SysExit ok out) -> ok = true) /\
  c06_sa <> ASys SysSpawnErr /\
  update_record c06_re c06_sep (strict_cols c06_cfg) c06_sys (apply c06_cfg c06_sys c06_sa) = Some c06_sys'.
Proof.
  split; [exact c06_escape_law|]. split; [exact I|]. split; [vm_compute; reflexivity|].
  split; [intros ok out H; injection H as <- _; reflexivity|]. split; [discriminate | vm_compute; reflexivity].
Qed.

(* a statement whose inline error pattern matches the database's message is left alone *)
Definition c06_st :=
  RStatement (c06_L 12) [] CDefault (lit "drop table t.u") (SError (EInline (lit "no such table: t\.u"))) None.
Definition c06_ea := ADb (DErr (lit "no such table: t.u")).
Example nv_C06_untouched_passes :
  judged c06_st c06_ea /\ (forall ok out, c06_ea = ASys (SysExit ok out) -> ok = true) /\
  c06_ea <> ASys SysSpawnErr /\
  update_record c06_re c06_sep (strict_cols c06_cfg) c06_st (apply c06_cfg c06_st c06_ea) = None.
Proof.
  split; [exact I|]. split; [intros ok out H; discriminate H|]. split; [discriminate | vm_compute; reflexivity].
Qed.

Example nv_C07_frame :
  update_record c06_re c06_sep true c06_q (OQuery (lit "IT") [[lit "1"; lit "x"]; [lit "2"; lit "y"]] None) = Some c06_q'.
Proof. vm_compute; reflexivity. Qed.

Example nv_C07_only_kind_change :
  update_record c06_re c06_sep true c06_q (OStatement 3 None) =
    Some (RStatement (c06_L 3) [SkipIf (lit "x")] (CNamed (lit "c1")) (lit "select a, b from t") (SCount 3) (Some (mkRetry 2 1000))).
Proof. vm_compute; reflexivity. Qed.

(* the rewritten query passes on the same answer (row-wise mode) *)
Example nv_C07_pass_keeps :
  judged c06_q' c06_a /\ rmode c06_cfg <> Some ValueWise /\
  run_record c06_re c06_cfg c06_q' c06_a = Pass /\
  (forall l cs c sql e rt n, c06_q' = RQuery l cs c sql e rt -> c06_a <> ADb (DComplete n)).
Proof.
  split; [exact I|]. split; [discriminate|]. split; [vm_compute; reflexivity|].
  intros; discriminate.
Qed.

(* ###################################################################### *)
From SLT Require Import FsTrim FsUpdate FsProofs.
Open Scope N_scope.

(* ================================================================= C08 *)
Definition c08_tmp : str -> str := fun f => f ++ lit ".temp".
Definition c08_main := lit "main.slt".
Definition c08_inc := lit "sub/inc.slt".
(* main file opened, one record, an included file opened, two records (the last leaves three
   trailing newlines for the trimmer), closed, one more record in the main file, closed *)
Definition c08_evs : list wev :=
  [ WOpen c08_main; WWrite (lit "include sub/*.slt
");
    WOpen c08_inc; WWrite (lit "statement ok
create table t(a int)

"); WWrite (lit "query I
select 1
----
1


"); WClose;
    WWrite (lit "halt
"); WClose ].
Definition c08_fs0 : fsys :=
  fun q => if str_eqb q c08_main then Some (lit "include sub/*.slt
halt
")
           else if str_eqb q c08_inc then Some (lit "old content
") else None.

Lemma c08_nodup : NoDup (opened c08_evs).
Proof.
  vm_compute. constructor; [|constructor; [|constructor]].
  - intros [H|[]]; discriminate H.
  - intros [].
Qed.
Lemma c08_fresh : fresh c08_tmp (opened c08_evs).
Proof.
  split; intros f g Hf Hg; cbn in Hf, Hg;
    destruct Hf as [<-|[<-|[]]], Hg as [<-|[<-|[]]]; try reflexivity;
    try (vm_compute; discriminate); intro H; vm_compute in H; discriminate H.
Qed.
Lemma c08_in : In c08_inc (opened c08_evs).
Proof. vm_compute. right; left; reflexivity. Qed.

Example nv_C08_atomic :
  NoDup (opened c08_evs) /\ fresh c08_tmp (opened c08_evs) /\ In c08_inc (opened c08_evs).
Proof. exact (conj c08_nodup (conj c08_fresh c08_in)). Qed.

(* the truncation the trimmer issues on the included file's temp file is one of the operations *)
Example nv_C08_only_rename_touches_originals :
  fresh c08_tmp (opened c08_evs) /\ In c08_inc (opened c08_evs) /\
  In (OpSetLen (c08_tmp c08_inc) 60) (ops_of c08_tmp c08_evs []) /\
  In (OpRename (c08_tmp c08_inc) c08_inc) (ops_of c08_tmp c08_evs []).
Proof.
  split; [exact c08_fresh|]. split; [exact c08_in|].
  split; vm_compute; repeat (first [left; reflexivity | right]).
Qed.

Example nv_C08_final :
  balanced 0 c08_evs = true /\ NoDup (opened c08_evs) /\ fresh c08_tmp (opened c08_evs) /\
  (forall g, In g (opened c08_evs) -> c08_fs0 (c08_tmp g) = None) /\
  In c08_inc (opened c08_evs).
Proof.
  split; [vm_compute; reflexivity|]. split; [exact c08_nodup|]. split; [exact c08_fresh|].
  split; [|exact c08_in].
  intros g Hg. cbn in Hg. destruct Hg as [<-|[<-|[]]]; vm_compute; reflexivity.
Qed.

(* eleven trailing newlines: more than one 8-byte window *)
Definition c08_body : list N := lit "statement ok
select 1".
Example nv_C08_trim : last c08_body 0%N <> 10%N /\ (1 <= 11)%nat.
Proof. split; [vm_compute; discriminate | lia]. Qed.

Example nv_C08_trim_never_panics :
  c08_body ++ repeat 10 11 = [] \/ last (c08_body ++ repeat 10 11) 0%N = 10%N.
Proof. right. vm_compute; reflexivity. Qed.

Definition c08_p := lit "a.slt.temp".
Definition c08_c : list N := c08_body ++ repeat 10 11.
Definition c08_fs : fsys := fun q => if str_eqb q c08_p then Some c08_c else if str_eqb q (lit "a.slt") then Some (lit "old") else None.
Example nv_C08_trim_ops :
  c08_fs c08_p = Some c08_c /\ trim_tail c08_c = TOk (c08_body ++ [10]).
Proof. split; vm_compute; reflexivity. Qed.

Example nv_C08_trim_fix_conservative :
  trim_tail_v0 (c08_body ++ repeat 10 3) = TOk (c08_body ++ [10]).
Proof. vm_compute; reflexivity. Qed.

(* ###################################################################### *)
From Coq Require Import Sorting.Sorted Sorting.Permutation.
From SLT Require Import Judge ShapeProofs JudgeSpec JudgeProofs Runner HashProofs.
Open Scope N_scope.

(* ================================================================= C10 *)
Definition c10_cfg := mkConfig (Some RowSort) None 0 true.
Definition c10_ra := [lit "2"; lit "y"].
Definition c10_rb := [lit "1"; lit "x"].
Definition c10_rc := [lit "10"; lit "z"].
Definition c10_rows := [c10_ra; c10_rb; c10_rc].
Definition c10_rows' := [c10_rc; c10_ra; c10_rb].          (* a 3-cycle of the rows *)
Definition c10_e := QResults (lit "IT") None None [lit "1 x"; lit "10 z"; lit "2 y"].

Example nv_C10_rowsort_perm :
  eff_sort (query_sort c10_e) (file_sort c10_cfg) = Some RowSort /\ Permutation c10_rows c10_rows'.
Proof. split; [reflexivity | exact (Permutation_app_comm [c10_ra; c10_rb] [c10_rc])]. Qed.

(* the values regrouped across row boundaries: 2 y 1 x 10 z  ->  1 x 10 | z | 2 y *)
Definition c10_vrows' := [[lit "1"; lit "x"; lit "10"]; [lit "z"]; [lit "2"; lit "y"]].
Definition c10_ev := QResults (lit "IT") (Some ValueSort) None [lit "1"; lit "10"; lit "2"; lit "x"; lit "y"; lit "z"].
Example nv_C10_valuesort_perm :
  eff_sort (query_sort c10_ev) (file_sort c10_cfg) = Some ValueSort /\
  Permutation (values_of c10_rows) (values_of c10_vrows').
Proof.
  split; [reflexivity|].
  exact (Permutation_app_comm [lit "2"; lit "y"] [lit "1"; lit "x"; lit "10"; lit "z"]).
Qed.

Example nv_C10_rowsort_ascending : eff_sort None (Some RowSort) = Some RowSort.
Proof. reflexivity. Qed.

Example nv_C10_valuesort_ascending : eff_sort (Some ValueSort) (Some RowSort) = Some ValueSort.
Proof. reflexivity. Qed.

(* "10" sorts before "2": the order is the string order *)
Example nv_C10_sort_unique :
  Permutation [c10_rb; c10_rc; c10_ra] c10_rows /\ StronglySorted row_le [c10_rb; c10_rc; c10_ra].
Proof.
  split.
  - apply Permutation_sym. exact (Permutation_app_comm [c10_ra] [c10_rb; c10_rc]).
  - repeat constructor.
Qed.

Definition c10_cfgn := mkConfig None (Some RowWise) 0 true.
Example nv_C10_nosort_strict :
  (eff_sort (Some NoSort) (file_sort c10_cfgn) = None \/ eff_sort (Some NoSort) (file_sort c10_cfgn) = Some NoSort) /\
  threshold c10_cfgn = 0 /\ rmode c10_cfgn <> Some ValueWise /\
  col_validate (strict_cols c10_cfgn) (lit "IT") (lit "IT") = true.
Proof. split; [right; reflexivity|]. split; [reflexivity|]. split; [discriminate | vm_compute; reflexivity]. Qed.

(* ================================================================= C15 *)
(* 3 rows x 2 columns = 6 values, threshold 4 *)
Example nv_C15_hash_line :
  0 < 4 /\ 4 < value_count (Some RowSort) None (lit "IT") c10_rows.
Proof. split; vm_compute; reflexivity. Qed.

Example nv_C15_no_hash :
  (8 = 0 \/ value_count (Some RowSort) None (lit "IT") c10_rows <= 8) /\
  (0 = 0 \/ value_count (Some RowSort) None (lit "IT") c10_rows <= 0).
Proof. split; [right; vm_compute; discriminate | left; reflexivity]. Qed.

Example nv_C15_count_is_number_of_values :
  Forall (fun r => length r = length (lit "IT")) c10_rows /\ arrangement None (Some ValueSort) c10_rows <> [].
Proof. split; [repeat constructor | vm_compute; discriminate]. Qed.

Example nv_C15_hash_before_flatten :
  0 < 5 /\ 5 < value_count None (Some ValueSort) (lit "IT") c10_rows.
Proof. split; vm_compute; reflexivity. Qed.

(* ###################################################################### *)
From SLT Require Import Runner RunnerProofs Subst SubstSpec SubstProofs.
Open Scope N_scope.

(* ================================================================= C13 *)
Definition c13_env : str -> option str :=
  fun k => if str_eqb k (lit "HOME") then Some (lit "/root") else if str_eqb k (lit "x") then Some (lit "from-env") else None.
(* the value of x contains specials: it must be inserted verbatim *)
Definition c13_locals : list (str * str) := [(lit "x", lit "$HOME \$"); (lit "db", lit "t1")].

Example nv_C13_off_identity :
  subst_on (mkRState (mkConfig None None 0 false) false [lit "mydb"] [] c13_locals) = false.
Proof. reflexivity. Qed.

(* select $x, ${HOME} ${y:d\}${db}}\$5   -- bare, braced, default (nested, with an escaped brace), escape *)
Definition c13_t : tmpl :=
  TLit (lit "select ") (TBare (lit "x") (TLit (lit ", ") (TBrace (lit "HOME") (TLit (lit " ")
    (TDefault (lit "y") (TLit (lit "d") (TEsc 125 (TBrace (lit "db") TNil)))
       (TEsc 36 (TLit (lit "5") TNil))))))).
Example nv_C13_sql : wf_tmpl true c13_t.
Proof.
  cbn [wf_tmpl c13_t]. unfold name_ok.
  repeat match goal with |- _ /\ _ => split end; nv_fin.
  all: try (repeat constructor; nv_fin).
  all: vm_compute; discriminate.
Qed.
(* and the documented expansion of it is a text (not the error branch) *)
Example nv_C13_sql_expands :
  render_t c13_t = lit "select $x, ${HOME} ${y:d\}${db}}\$5" /\
  expand_spec (var_lookup c13_env c13_locals) c13_t = inr (lit "select $HOME \$, /root d}t1$5").
Proof. split; vm_compute; reflexivity. Qed.

Example nv_C13_locals_shadow_environment :
  lit "x" <> lit "__TEST_DIR__" /\ lit "x" <> lit "__NOW__" /\
  assoc_str (lit "x") c13_locals = Some (lit "$HOME \$") /\ c13_env (lit "x") = Some (lit "from-env").
Proof. repeat split; try (vm_compute; discriminate); vm_compute; reflexivity. Qed.

Example nv_C13_value_verbatim :
  var_lookup c13_env c13_locals (lit "x") = Some (lit "$HOME \$") /\
  expand_spec (var_lookup c13_env c13_locals) (TLit (lit " and ") (TBrace (lit "HOME") TNil)) = inr (lit " and /root").
Proof. split; vm_compute; reflexivity. Qed.

Definition c13_cmd : str := lit "echo $HOME ${x} $d > out.txt".
Example nv_C13_cmd_identity :
  contains (lit "$__TEST_DIR__") c13_cmd = false /\ contains (lit "$__NOW__") c13_cmd = false /\
  (forall k v, In (k, v) c13_locals -> contains (36%N :: k) c13_cmd = false).
Proof.
  split; [vm_compute; reflexivity|]. split; [vm_compute; reflexivity|].
  intros k v H. cbn in H. destruct H as [H|[H|[]]]; injection H as <- <-; vm_compute; reflexivity.
Qed.

Example nv_C13_trailing_dollar_refuted : Forall (fun c => is_special c = false) (lit "select 1 + ").
Proof. repeat constructor. Qed.

(* ###################################################################### *)
From SLT Require Import Parser Include IncludeSpec IncludeProofs.
Open Scope N_scope.

(* ================================================================= C14 *)
Definition c14_main := lit "main.slt".
Definition c14_a := lit "sub/a.slt".
Definition c14_b := lit "sub/b.slt".
Definition c14_deep := lit "sub/d/deep.slt".
Definition c14_e := lit "e.slt".
Definition c14_e_text := lit "# e
statement ok
select 1

include nothing/*.slt
halt
".
Definition c14_a_text := lit "# file a
include d/*.slt
statement ok
insert into t values (1)
".
(* main.slt includes sub/*.slt (two matches, in path order); sub/a.slt includes d/*.slt, resolved
   against its own directory; e.slt has an include that matches nothing *)
Definition c14_fs : str -> option fentry := fun p =>
  if str_eqb p c14_main then Some (FFile (lit "statement ok
create table t(a int)

include sub/*.slt

halt
"))
  else if str_eqb p c14_a then Some (FFile c14_a_text)
  else if str_eqb p c14_b then Some (FFile (lit "query I
select a from t
----
1
"))
  else if str_eqb p c14_deep then Some (FFile (lit "subtest deep
"))
  else if str_eqb p c14_e then Some (FFile c14_e_text)
  else if str_eqb p (lit "sub") then Some FDir else None.
Definition c14_glob : str -> globres := fun p =>
  if str_eqb p (lit "sub/*.slt") then GOk [c14_a; c14_b]
  else if str_eqb p (lit "sub/d/*.slt") then GOk [c14_deep]
  else if str_eqb p (lit "nothing/*.slt") then GOk []
  else GBadPattern.
Definition c14_re := fun _ : str => true.

Definition c14_il := Loc c14_main 4 None.                 (* the include site in main.slt *)
Definition c14_il2 := Loc c14_a 2 (Some c14_il).          (* the include site in sub/a.slt *)
Definition c14_out : list record :=
  [ RStatement (Loc c14_main 1 None) [] CDefault (lit "create table t(a int)") SOk None;
    RInclude c14_il (lit "sub/*.slt");
    RBeginInclude c14_a;
      RComment [lit " file a"];
      RInclude c14_il2 (lit "d/*.slt");
      RBeginInclude c14_deep;
        RSubtest (Loc c14_deep 1 (Some c14_il2)) (lit "deep");
      REndInclude c14_deep;
      RStatement (Loc c14_a 3 (Some c14_il)) [] CDefault (lit "insert into t values (1)") SOk None;
    REndInclude c14_a;
    RBeginInclude c14_b;
      RQuery (Loc c14_b 1 (Some c14_il)) [] CDefault (lit "select a from t") (QResults (lit "I") None None [lit "1"]) None;
    REndInclude c14_b;
    RNewline;
    RHalt (Loc c14_main 6 None) ].

Lemma c14_expand3 : expand default_col c14_re c14_fs c14_glob 3 (Loc c14_main 0 None) = FOkR c14_out.
Proof. vm_compute; reflexivity. Qed.

Example nv_C14_expand_sound :
  expand default_col c14_re c14_fs c14_glob 3 (Loc c14_main 0 None) = FOkR c14_out.
Proof. exact c14_expand3. Qed.

(* the declarative splice relation holds of the same expansion (obtained through soundness) *)
Example nv_C14_expand_complete :
  expands default_col c14_re c14_fs c14_glob (Loc c14_main 0 None) c14_out.
Proof. exact (expand_sound _ _ _ _ _ _ _ c14_expand3). Qed.

(* with fuel 2 the nesting depth 3 is not reached: the premise r <> FOutOfFuel matters *)
Example nv_C14_fuel_irrelevant :
  expand default_col c14_re c14_fs c14_glob 3 (Loc c14_main 0 None) = FOkR c14_out /\
  FOkR c14_out <> FOutOfFuel /\ (3 <= 10)%nat /\
  expand default_col c14_re c14_fs c14_glob 2 (Loc c14_main 0 None) = FOutOfFuel.
Proof. split; [exact c14_expand3|]. split; [discriminate|]. split; [lia | vm_compute; reflexivity]. Qed.

Example nv_C14_markers_nested :
  expand default_col c14_re c14_fs c14_glob 3 (Loc c14_main 0 None) = FOkR c14_out.
Proof. exact c14_expand3. Qed.

Example nv_C14_provenance :
  expand default_col c14_re c14_fs c14_glob 3 (Loc c14_main 0 None) = FOkR c14_out.
Proof. exact c14_expand3. Qed.

(* a directory "sub" exists, a file "sub/c.slt" does not *)
Example nv_C14_missing_file_is_located_error : c14_fs (lit "sub/c.slt") = None.
Proof. vm_compute; reflexivity. Qed.

Definition c14_pre : list record :=
  [ RComment [lit " e"]; RStatement (Loc c14_e 2 None) [] CDefault (lit "select 1") SOk None ].
Example nv_C14_empty_match_is_located_error :
  c14_fs c14_e = Some (FFile c14_e_text) /\
  parse default_col c14_re c14_e None c14_e_text =
    POk (c14_pre ++ RInclude (Loc c14_e 5 None) (lit "nothing/*.slt") :: [RHalt (Loc c14_e 6 None)]) /\
  splice default_col c14_re c14_fs c14_glob c14_e c14_pre c14_pre /\
  (forall r, In r c14_pre -> is_include r = false) /\
  c14_glob (join_path (dirname c14_e) (lit "nothing/*.slt")) = GOk [].
Proof.
  split; [vm_compute; reflexivity|]. split; [vm_compute; reflexivity|].
  split; [repeat constructor|]. split; [|vm_compute; reflexivity].
  intros r H. cbn in H. destruct H as [<-|[<-|[]]]; reflexivity.
Qed.

(* sub/a.slt parsed as an included file: its records carry the include site as their chain *)
Example nv_C14_parser_locations :
  parse default_col c14_re c14_a (Some c14_il) c14_a_text =
    POk [ RComment [lit " file a"]; RInclude c14_il2 (lit "d/*.slt");
          RStatement (Loc c14_a 3 (Some c14_il)) [] CDefault (lit "insert into t values (1)") SOk None ].
Proof. vm_compute; reflexivity. Qed.

(* ###################################################################### *)
From SLT Require Import Par ParProofs Cli CliProofs.
Open Scope N_scope.

(* ================================================================= C16 *)
(* fail-fast: the failure sets the token, after which one file is cancelled and one skipped *)
Definition c16_rs : list fresult := [ROk; RErr false; RCancelled; RSkipped; ROk].
Example nv_C16_exit :
  consistent true false false c16_rs /\ consistent false false false [ROk; ROk; ROk].
Proof. split; cbn; intuition. Qed.
(* both sides of the equivalence are inhabited *)
Example nv_C16_exit_values :
  exit_status true false c16_rs = 1 /\ exit_status false false [ROk; ROk; ROk] = 0.
Proof. split; vm_compute; reflexivity. Qed.

Example nv_C16_failure_or_interrupt_is_nonzero :
  ((exists r, In r c16_rs /\ (exists b, r = RErr b)) \/ false = true) /\
  ((exists r, In r [ROk; ROk] /\ (exists b, r = RErr b)) \/ true = true).
Proof.
  split; [left | right; reflexivity].
  exists (RErr false). split; [right; left; reflexivity | exists false; reflexivity].
Qed.

(* ================================================================= C17 *)
Definition c17_db1 := lit "db1".
Definition c17_db2 := lit "db2".
Definition c17_dbk := lit "dbk".
(* two jobs; the database dbk is kept for debugging *)
Definition c17_pa := mkParams 2 [c17_dbk].
(* three databases created; file 1 uses two sessions, file 2 one; they overlap (2 in flight);
   file 1 closes both sessions, then the third file starts; closes; drops (dbk kept); shutdown *)
Definition c17_pre : list pev :=
  [ PCreate c17_db1; PCreate c17_db2; PCreate c17_dbk;
    PConnect c17_db1 1; PSql c17_db1 1; PConnect c17_db2 2; PConnect c17_db1 3; PSql c17_db1 3; PSql c17_db2 2 ].
Definition c17_mid : list pev :=
  [ PClose c17_db1 1; PClose c17_db1 3; PConnect c17_dbk 4; PSql c17_dbk 4; PClose c17_db2 2; PClose c17_dbk 4 ].
Definition c17_tr : list pev := c17_pre ++ c17_mid ++ [PDrop c17_db1; PDrop c17_db2; PMgmtClose].
Definition c17_final : pst :=
  mkPst [c17_db1; c17_db2; c17_dbk] [] [4; 3; 2; 1] [c17_db1; c17_db2; c17_dbk]
        [c17_dbk; c17_db2; c17_db1] [c17_dbk; c17_db2; c17_db1] [c17_db2; c17_db1] false true true.

Lemma c17_run : prun c17_pa pst0 c17_tr = Some c17_final.
Proof. vm_compute; reflexivity. Qed.

(* e = the second drop *)
Example nv_C17_create_before_use :
  prun c17_pa pst0 ((c17_pre ++ c17_mid ++ [PDrop c17_db1]) ++ PDrop c17_db2 :: [PMgmtClose]) = Some c17_final /\
  (PDrop c17_db2 = PConnect c17_db2 0 \/ PDrop c17_db2 = PSql c17_db2 0 \/ PDrop c17_db2 = PDrop c17_db2).
Proof. split; [vm_compute; reflexivity | right; right; reflexivity]. Qed.

(* e = a statement on the second session of file 1 *)
Example nv_C17_session_integrity :
  prun c17_pa pst0 ((firstn 7 c17_pre) ++ PSql c17_db1 3 :: (PSql c17_db2 2 :: c17_mid ++ [PDrop c17_db1; PDrop c17_db2; PMgmtClose]))
    = Some c17_final /\
  (PSql c17_db1 3 = PSql c17_db1 3 \/ PSql c17_db1 3 = PClose c17_db1 3).
Proof. split; [vm_compute; reflexivity | left; reflexivity]. Qed.

Example nv_C17_session_unique :
  prun c17_pa pst0 ((firstn 6 c17_pre) ++ PConnect c17_db1 3 :: ([PSql c17_db1 3; PSql c17_db2 2] ++ c17_mid ++ [PDrop c17_db1; PDrop c17_db2; PMgmtClose]))
    = Some c17_final.
Proof. vm_compute; reflexivity. Qed.

(* a prefix at which two files are in flight with three open sessions *)
Example nv_C17_bounded_concurrency :
  prun c17_pa pst0 c17_pre =
    Some (mkPst [c17_db1; c17_db2; c17_dbk] [(c17_db1, 3); (c17_db2, 2); (c17_db1, 1)] [3; 2; 1]
                [c17_db1; c17_db2] [] [] [] false false false).
Proof. vm_compute; reflexivity. Qed.

Example nv_C17_close_before_drop :
  prun c17_pa pst0 ((c17_pre ++ c17_mid) ++ PDrop c17_db1 :: [PDrop c17_db2; PMgmtClose]) = Some c17_final /\
  In (PConnect c17_db1 3) (c17_pre ++ c17_mid).
Proof. split; [vm_compute; reflexivity | vm_compute; repeat (first [left; reflexivity | right])]. Qed.

(* both branches: db1 is dropped once, dbk is kept *)
Example nv_C17_dropped_exactly_once_unless_kept :
  prun c17_pa pst0 c17_tr = Some c17_final /\ closed_ c17_final = true /\
  In (PCreate c17_db1) c17_tr /\ In (PCreate c17_dbk) c17_tr.
Proof.
  split; [exact c17_run|]. split; [reflexivity|].
  split; vm_compute; repeat (first [left; reflexivity | right]).
Qed.

(* ================================================================= C19 *)
(* Ctrl-C while file 1 is running: it may still open its second session and finishes;
   files 2 and 3 never start; everything is released *)
Definition c19_pre : list pev :=
  [ PCreate c17_db1; PCreate c17_db2; PCreate c17_dbk; PConnect c17_db1 1; PSql c17_db1 1 ].
Definition c19_mid : list pev := [ PSql c17_db1 1 ].
Definition c19_post : list pev :=
  [ PSql c17_db1 2; PClose c17_db1 1; PClose c17_db1 2; PDrop c17_db2; PDrop c17_db1; PMgmtClose ].
Definition c19_tr : list pev := c19_pre ++ PCancel :: c19_mid ++ PConnect c17_db1 2 :: c19_post.
Definition c19_final : pst :=
  mkPst [c17_db1; c17_db2; c17_dbk] [] [2; 1] [c17_db1] [c17_db1] [c17_db1] [c17_db1; c17_db2] true true true.

Example nv_C19_no_new_work :
  prun c17_pa pst0 (c19_pre ++ PCancel :: c19_mid ++ PConnect c17_db1 2 :: c19_post) = Some c19_final.
Proof. vm_compute; reflexivity. Qed.
(* ... whereas a connection of a file that had not started is refused after the cancellation *)
Example nv_C19_no_new_work_refused :
  prun c17_pa pst0 (c19_pre ++ PCancel :: c19_mid ++ [PConnect c17_db2 2]) = None.
Proof. vm_compute; reflexivity. Qed.

Example nv_C19_release :
  prun c17_pa pst0 c19_tr = Some c19_final /\ closed_ c19_final = true /\ In (PConnect c17_db1 2) c19_tr.
Proof.
  split; [vm_compute; reflexivity|]. split; [reflexivity|].
  vm_compute; repeat (first [left; reflexivity | right]).
Qed.

Example nv_C19_exit_nonzero :
  ((exists r, In r [ROk; ROk] /\ (exists b, r = RErr b)) \/ true = true) /\
  ((exists r, In r [ROk; RCancelled; RErr true] /\ (exists b, r = RErr b)) \/ false = true).
Proof.
  split; [right; reflexivity | left].
  exists (RErr true). split; [right; right; left; reflexivity | exists true; reflexivity].
Qed.

(* ================================================= the driver model (C16, C17, C19) *)
From SLT Require Import Driver DriverInv DriverSim DriverProofs DriverLive.

(* three files, two jobs, fail-fast: the second file fails on its first statement, which cancels the
   first (in flight, two sessions) and skips the third; a fair schedule of 40 rounds *)
Definition drv_f1 := mkF c17_db1 [AConnect 0; ASql 0 true; AConnect 1; ASql 1 true; ASql 0 true] false.
Definition drv_f2 := mkF c17_db2 [AConnect 0; ASql 0 false; ASql 0 true] false.
Definition drv_f3 := mkF c17_dbk [AConnect 0; ASql 0 true] false.
Definition drv_cf := mkCfg 2 true true [drv_f1; drv_f2; drv_f3].

(* an explicit schedule, one choice per step *)
Definition drv_sched : list choice :=
  [CDriver; CDriver; CDriver; CDriver;          (* three CREATE DATABASE, then the stream phase *)
   CDriver; CDriver;                            (* two files pulled (two jobs) *)
   CTask 0 0; CTask 1 0;                        (* both look at the token and start *)
   CTask 0 0; CTask 1 0; CTask 0 0;             (* connect, connect, sql *)
   CTask 1 0;                                   (* the failing statement of the second file *)
   CTask 0 0;                                   (* the first file opens its second session *)
   CTask 1 0;                                   (* the answer arrives: the record of the second file fails *)
   CTask 1 0; CTask 1 0; CReport 1;             (* close, done, reported: fail-fast sets the token *)
   CDriver; CTask 2 0; CTask 2 0; CReport 2;    (* the third file is pulled, waits for the lock ... *)
   CTask 0 0; CTask 0 1; CTask 0 0; CTask 0 0;  (* the first file is cancelled and closes both sessions (second one first) *)
   CTask 2 0; CReport 2; CReport 0;             (* ... and is skipped only now *)
   CDriver; CDriver; CDriver; CDriver; CDriver; CDriver ].

Definition drv_final := fst (drun drv_cf (dst0 drv_cf) drv_sched).
Definition drv_trace := snd (drun drv_cf (dst0 drv_cf) drv_sched).

Example nv_driver_run :
  drv_trace =
    [PCreate c17_db1; PCreate c17_db2; PCreate c17_dbk;
     PConnect c17_db1 0; PConnect c17_db2 1; PSql c17_db1 0; PSql c17_db2 1; PConnect c17_db1 2;
     PClose c17_db2 1; PCancel; PClose c17_db1 0; PClose c17_db1 2;
     PDrop c17_db1; PDrop c17_dbk; PMgmtClose] /\
  d_phase drv_final = DEnd /\
  d_reported drv_final = [(c17_db2, RErr false); (c17_dbk, RSkipped); (c17_db1, RCancelled)] /\
  exit_of drv_final = 1%N /\ kept_of drv_cf drv_final = [c17_db2].
Proof. vm_compute. repeat split; reflexivity. Qed.

Example nv_C17_driver_refines_observer :
  wf_cfg drv_cf /\ drun drv_cf (dst0 drv_cf) drv_sched = (drv_final, drv_trace).
Proof.
  split; [|vm_compute; reflexivity]. unfold wf_cfg. vm_compute.
  repeat (constructor; [cbn; intros H; repeat (destruct H as [H|H]; [discriminate H|]); exact H|]); constructor.
Qed.

Example nv_C17_driver_end_closed :
  wf_cfg drv_cf /\ drun drv_cf (dst0 drv_cf) drv_sched = (drv_final, drv_trace) /\ d_phase drv_final = DEnd.
Proof.
  split; [exact (proj1 nv_C17_driver_refines_observer)|]. split; vm_compute; reflexivity.
Qed.

Example nv_C17_driver_finished_run_cleans_up :
  wf_cfg drv_cf /\ drun drv_cf (dst0 drv_cf) drv_sched = (drv_final, drv_trace) /\ d_phase drv_final = DEnd /\ List.In drv_f2 (c_files drv_cf).
Proof.
  split; [exact (proj1 nv_C17_driver_refines_observer)|]. split; [vm_compute; reflexivity|]. split; [vm_compute; reflexivity|].
  right; left; reflexivity.
Qed.

Example nv_C17_driver_files_in_flight_bounded :
  wf_cfg drv_cf /\ drun drv_cf (dst0 drv_cf) drv_sched = (drv_final, drv_trace).
Proof. exact nv_C17_driver_refines_observer. Qed.

Example nv_C17_driver_holds_at_most_jobs :
  drun drv_cf (dst0 drv_cf) (firstn 13 drv_sched) = (fst (drun drv_cf (dst0 drv_cf) (firstn 13 drv_sched)), snd (drun drv_cf (dst0 drv_cf) (firstn 13 drv_sched))) /\
  n_active (d_tasks (fst (drun drv_cf (dst0 drv_cf) (firstn 13 drv_sched)))) = 2%nat.
Proof. split; vm_compute; reflexivity. Qed.

Example nv_C16_driver_results_consistent : drun drv_cf (dst0 drv_cf) drv_sched = (drv_final, drv_trace).
Proof. vm_compute; reflexivity. Qed.
Example nv_C16_driver_exit : drun drv_cf (dst0 drv_cf) drv_sched = (drv_final, drv_trace).
Proof. vm_compute; reflexivity. Qed.
Example nv_C16_driver_reports_each_file_once :
  drun drv_cf (dst0 drv_cf) drv_sched = (drv_final, drv_trace) /\
  match d_phase drv_final with DDrop _ | DClose | DEnd => True | _ => False end.
Proof. split; [vm_compute; reflexivity|vm_compute; exact I]. Qed.

Example nv_C16_driver_junit_one_case_per_file :
  drun drv_cf (dst0 drv_cf) drv_sched = (drv_final, drv_trace) /\
  match d_phase drv_final with DDrop _ | DClose | DEnd => True | _ => False end /\
  junit_totals (results drv_final) = (3, 1, 2)%nat.
Proof. split; [vm_compute; reflexivity|]. split; [vm_compute; exact I|vm_compute; reflexivity]. Qed.

(* a state in the middle of the run (after the failure has been reported, the first file still in flight) *)
Definition drv_mid := fst (drun drv_cf (dst0 drv_cf) (firstn 21 drv_sched)).
Example nv_C19_driver_progress :
  (0 < c_jobs drv_cf)%nat /\ DInv drv_cf drv_mid /\ d_phase drv_mid <> DEnd /\ d_token drv_mid = true.
Proof.
  split; [cbn; lia|]. split.
  - unfold drv_mid. destruct (drun drv_cf (dst0 drv_cf) (firstn 21 drv_sched)) as [st tr] eqn:E. cbn [fst].
    eapply DInv_reach; [apply DInv_init|eapply DriverTrans.drun_reach; exact E].
  - split; vm_compute; [discriminate|reflexivity].
Qed.
(* the state right after the failure was reported under fail-fast: token set, file 0 running with two sessions, file 2 idle *)
Example nv_C19_driver_quiet_after_cancel :
  DriverTrans.reach drv_cf drv_mid drv_final (snd (drun drv_cf drv_mid (skipn 21 drv_sched))) /\ d_token drv_mid = true /\
  d_reported drv_final = d_reported drv_mid ++ [(c17_dbk, RSkipped); (c17_db1, RCancelled)].
Proof.
  split; [|split; vm_compute; reflexivity].
  assert (E : drun drv_cf drv_mid (skipn 21 drv_sched) = (drv_final, snd (drun drv_cf drv_mid (skipn 21 drv_sched)))) by (vm_compute; reflexivity).
  exact (DriverTrans.drun_reach _ _ _ _ _ E).
Qed.
Example nv_C19_driver_fates_after_cancel : d_token drv_mid = true /\ d_reported drv_mid = [(c17_db2, RErr false)].
Proof. split; vm_compute; reflexivity. Qed.

Example nv_C19_driver_ctrlc_or_failure_exit_nonzero :
  drun drv_cf (dst0 drv_cf) drv_sched = (drv_final, drv_trace) /\ List.In (c17_db2, RErr false) (d_reported drv_final).
Proof. split; [vm_compute; reflexivity|]. vm_compute. left; reflexivity. Qed.

Example nv_C19_driver_never_doomed :
  (0 < c_jobs drv_cf)%nat /\
  drun drv_cf (dst0 drv_cf) (firstn 21 drv_sched) = (drv_mid, snd (drun drv_cf (dst0 drv_cf) (firstn 21 drv_sched))).
Proof. split; [cbn; lia|]. unfold drv_mid. destruct (drun drv_cf (dst0 drv_cf) (firstn 21 drv_sched)); reflexivity. Qed.

(* ================================================= the serial driver (C16, C19) *)
From SLT Require Import Serial SerialProofs.
(* five files, fail-fast: the third fails; Ctrl-C never arrives *)
Example nv_serial_plain :
  let st := srun true (sst0 [FPass; FPass; FFails false; FPass; FFails true]) (plain_schedule [FPass; FPass; FFails false; FPass; FFails true]) in
  s_reported st = [ROk; ROk; RErr false; RSkipped; RSkipped] /\ sexit st = 1%N /\ s_todo st = [].
Proof. vm_compute. repeat split; reflexivity. Qed.
(* Ctrl-C while the second file runs *)
Example nv_C16_serial_every_file_reported_once :
  let st := srun false (sst0 [FPass; FPass; FFails false]) [SRun false; SRun true; SRun false] in
  s_todo st = [] /\ s_reported st = [ROk; RCancelled; RSkipped] /\ s_ctrlc st = true /\ sexit st = 1%N.
Proof. vm_compute. repeat split; reflexivity. Qed.
Example nv_C19_serial_no_new_work :
  s_token (srun false (sst0 [FPass; FPass; FPass]) [SRun false; SCtrlC]) = true /\
  s_reported (srun false (srun false (sst0 [FPass; FPass; FPass]) [SRun false; SCtrlC]) [SRun false; SRun false]) = [ROk; RSkipped; RSkipped].
Proof. vm_compute. split; reflexivity. Qed.

(* ###################################################################### *)
From SLT Require Import Partition PartitionProofs.
Open Scope N_scope.

(* ================================================================= C18 *)
Definition c18_files : list str := [lit "test/a.slt"; lit "test/b.slt"; lit "test/sub/c.slt"; lit "test/d.slt"].

Example nv_C18_cover : 0 < 3.
Proof. reflexivity. Qed.

(* the real hash (SipHash-1-3 of the path), three partitions, four files *)
Example nv_C18_partition_exact : (0 < 3)%nat /\ List.In (lit "test/sub/c.slt") c18_files.
Proof. split; [lia | right; right; left; reflexivity]. Qed.
(* ... and the partitions are not degenerate on these files *)
Example nv_C18_partition_exact_values :
  map (fun p => hash_path p mod 3) c18_files = [0; 1; 0; 0] /\
  filter (selected hash_path 3 1) c18_files = [lit "test/b.slt"].
Proof. split; vm_compute; reflexivity. Qed.

Example nv_C18_exactly_one_id : (0 < 3)%nat.
Proof. lia. Qed.

(* the four inner premises of C18_reject, each at concrete option values *)
Example nv_C18_reject :
  Some 0 = Some 0 /\
  (Some 3 = Some 3 /\ Some 5 = Some 5 /\ 3 <= 5) /\
  (Some 3 = Some 3 /\ @None N = None) /\
  (Some 3 = Some 3 /\ Some 1 = Some 1 /\ 0 < 3 /\ 1 < 3).
Proof. repeat split; try reflexivity; vm_compute; discriminate. Qed.

(* ###################################################################### *)
From SLT Require Import Framing FramingProofs.
Open Scope N_scope.

(* ================================================================= C20 *)
(* two replies: nested arrays and a brace inside a string; leading white space, an escaped quote
   and a closing brace inside a string *)
Definition c20_f1 : list N := lit "{""result"":""ok"",""rows"":[[""1"",""a}""]]}".
Definition c20_f2 : list N := lit "
 {""err"":""x\""}y""}".
Definition c20_fs := [c20_f1; c20_f2].
Definition c20_tail : list N := lit "
{""par".
(* cut inside the string "a}", just after the backslash of the escape, and inside the tail *)
Definition c20_chunks : list (list N) :=
  [ firstn 30 c20_f1; skipn 30 c20_f1 ++ firstn 12 c20_f2; skipn 12 c20_f2 ++ firstn 3 c20_tail; skipn 3 c20_tail ].

Lemma c20_frames : Forall is_frame c20_fs.
Proof. repeat constructor. Qed.

Example nv_C20_chunking :
  Forall is_frame c20_fs /\ concat c20_chunks = concat c20_fs ++ c20_tail.
Proof. split; [exact c20_frames | vm_compute; reflexivity]. Qed.

(* the stream ends inside the third reply *)
Example nv_C20_truncated :
  Forall is_frame c20_fs /\ frame_end c20_tail = None /\ concat c20_chunks = concat c20_fs ++ c20_tail.
Proof. split; [exact c20_frames | split; vm_compute; reflexivity]. Qed.

Example nv_C20_stable : frame_end (c20_f1 ++ firstn 12 c20_f2) = Some (length c20_f1).
Proof. vm_compute; reflexivity. Qed.

Example nv_C20_prefix_incomplete :
  is_frame c20_f2 /\ c20_f2 = firstn 12 c20_f2 ++ skipn 12 c20_f2 /\ skipn 12 c20_f2 <> [].
Proof. split; [vm_compute; reflexivity | split; [vm_compute; reflexivity | vm_compute; discriminate]]. Qed.

(* ---------------------------------------------------------------------------------------
   NOT COVERED: none.  Every theorem of Props/C01.v ... Props/C20.v that has premises has an
   Example above; the 19 theorems listed under NO PREMISES at the top need none. *)
