(* PartitionProofs.v — partitions are disjoint and exhaustive, for ANY hash function (C18). *)
From Coq Require Import Sorting.Permutation.
From SLT Require Import Partition.
Open Scope N_scope.

Section Cover.
  Variable h : str -> N.

  Theorem cover_unique count p :
    0 < count -> exists! id, id < count /\ selected h count id p = true.
  Proof.
    intros Hc. exists (h p mod count). split.
    - split; [apply N.mod_lt; lia|]. unfold selected. apply N.eqb_refl.
    - intros id [_ Hs]. unfold selected in Hs. apply N.eqb_eq in Hs. auto.
  Qed.

  Lemma selected_fun count id1 id2 p :
    selected h count id1 p = true -> selected h count id2 p = true -> id1 = id2.
  Proof. unfold selected. rewrite !N.eqb_eq. congruence. Qed.

  (* the ids 0 .. count-1 *)
  Fixpoint ids (n : nat) : list N := match n with O => [] | S k => ids k ++ [N.of_nat k] end.

  Lemma in_ids n x : In x (ids n) <-> x < N.of_nat n.
  Proof.
    induction n as [|k IH]; cbn [ids].
    - split; [intros []|lia].
    - rewrite in_app_iff, IH. cbn. split; [intros [H|[H|[]]]; lia|].
      intros H. destruct (N.eq_dec x (N.of_nat k)); [right; left; congruence|left; lia].
  Qed.

  (* every file is selected by exactly one partition id: the selections are pairwise disjoint
     and together cover the glob's matches *)
  Theorem partition_exact (n : nat) (files : list str) p :
    (0 < n)%nat -> In p files ->
    exists id, In id (ids n) /\ In p (filter (selected h (N.of_nat n) id) files) /\
               forall id', In id' (ids n) -> In p (filter (selected h (N.of_nat n) id') files) -> id' = id.
  Proof.
    intros Hn Hin. exists (h p mod N.of_nat n). split; [|split].
    - apply in_ids. apply N.mod_lt. lia.
    - apply filter_In. split; auto. unfold selected. apply N.eqb_refl.
    - intros id' _ H. apply filter_In in H as [_ H]. unfold selected in H. apply N.eqb_eq in H. auto.
  Qed.

  (* counting form: summing the sizes of the selections gives the number of files *)
  Lemma count_one (n : nat) p : (0 < n)%nat ->
    length (filter (fun id => selected h (N.of_nat n) id p) (ids n)) = 1%nat.
  Proof.
    intros Hn. unfold selected. set (c := N.of_nat n) in *.
    assert (Hx : h p mod c < c) by (apply N.mod_lt; subst c; lia).
    set (x := h p mod c) in *. clearbody x.
    assert (G : forall k, (k <= n)%nat ->
                length (filter (fun id => (x =? id)) (ids k)) = if x <? N.of_nat k then 1%nat else 0%nat).
    { induction k as [|k IH]; intros Hk; cbn [ids].
      - cbn. destruct (N.ltb_spec x 0); [lia|reflexivity].
      - rewrite filter_app, app_length, IH by lia. cbn [filter].
        destruct (N.eqb_spec x (N.of_nat k)) as [E|E]; cbn [length].
        + destruct (N.ltb_spec x (N.of_nat k)); [lia|].
          destruct (N.ltb_spec x (N.of_nat (S k))); lia.
        + destruct (N.ltb_spec x (N.of_nat k)), (N.ltb_spec x (N.of_nat (S k))); lia. }
    rewrite (G n (le_n n)).
    destruct (N.ltb_spec x (N.of_nat n)); [reflexivity|subst c; lia].
  Qed.
End Cover.

(* invalid configurations are rejected instead of running a wrong subset *)
Theorem config_reject count id :
  (count = Some 0 -> partition_config count id = PRejected) /\
  (forall c i, count = Some c -> id = Some i -> c <= i -> partition_config count id = PRejected) /\
  (forall c, count = Some c -> id = None -> partition_config count id = PRejected) /\
  (forall c i, count = Some c -> id = Some i -> 0 < c -> i < c -> partition_config count id = PPart c i).
Proof.
  repeat split.
  - intros ->. cbn. destruct id; reflexivity.
  - intros c i -> -> H. cbn. destruct (N.eqb_spec c 0); [reflexivity|].
    destruct (N.leb_spec c i); [reflexivity|lia].
  - intros c -> ->. reflexivity.
  - intros c i -> -> H0 H1. cbn. destruct (N.eqb_spec c 0); [lia|].
    destruct (N.leb_spec c i); [lia|reflexivity].
Qed.

(* a glob that matched a single file is never filtered; the choice depends on the path alone *)
Theorem single_file_not_filtered h cfg p : select_glob h cfg [p] = [p].
Proof. destruct cfg; reflexivity. Qed.

Theorem selection_is_pure h c i files :
  select_glob h (PPart c i) files =
    match files with _ :: _ :: _ => filter (fun p => (h p mod c) =? i) files | _ => files end.
Proof. reflexivity. Qed.
