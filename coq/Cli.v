(* Cli.v — L2 model of the CLI drivers' bookkeeping (main.rs run_serial / run_parallel result
   loops, RunResult::to_junit, the final exit decision).  A run is the sequence of per-file
   results in the order the driver processes them (file order in serial mode, completion
   order in parallel mode), plus whether Ctrl-C set the cancellation token. *)
From SLT Require Export Base.
Open Scope N_scope.

Inductive fresult :=
| ROk
| RErr (refused : bool)     (* failed; [refused]: the error text contains "Connection refused" *)
| RCancelled                (* in flight when the token was cancelled *)
| RSkipped.                 (* not started: the token was already cancelled *)

Record dstate := mkD { failed : nat; cancelled : bool }.

(* the body of `while let Some(..) = stream.next().await` / `for file in files` *)
Definition on_result (fail_fast : bool) (s : dstate) (r : fresult) : dstate :=
  match r with
  | RErr refused => mkD (S (failed s)) (cancelled s || fail_fast || refused)
  | _ => s
  end.

Definition drive (fail_fast : bool) (rs : list fresult) : dstate :=
  fold_left (on_result fail_fast) rs (mkD 0 false).

(* Err iff failed_cases is non-empty or the token is cancelled (by a failure or by Ctrl-C) *)
Definition exit_status (fail_fast ctrl_c : bool) (rs : list fresult) : N :=
  let s := drive fail_fast rs in
  match failed s with
  | S _ => 1
  | O => if cancelled s || ctrl_c then 1 else 0
  end.

Inductive jstatus := JSuccess | JFailure | JSkipped.
Definition junit_status (r : fresult) : jstatus :=
  match r with ROk => JSuccess | RErr _ => JFailure | RCancelled | RSkipped => JSkipped end.

(* one test case per processed file; tests / failures / disabled of the suite *)
Definition junit_totals (rs : list fresult) : nat * nat * nat :=
  (length rs,
   length (filter (fun r => match junit_status r with JFailure => true | _ => false end) rs),
   length (filter (fun r => match junit_status r with JSkipped => true | _ => false end) rs)).

(* what the drivers can produce: a file is skipped or cancelled only after the token was
   cancelled - by Ctrl-C or while processing an earlier failure under fail-fast / refusal *)
Fixpoint consistent (fail_fast ctrl_c : bool) (tok : bool) (rs : list fresult) : Prop :=
  match rs with
  | [] => True
  | r :: rest =>
      (match r with RCancelled | RSkipped => tok = true \/ ctrl_c = true | _ => True end) /\
      consistent fail_fast ctrl_c (match r with RErr refused => tok || fail_fast || refused | _ => tok end) rest
  end.
