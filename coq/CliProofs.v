(* CliProofs.v — the exit status and the JUnit totals tell the truth (C16, C19). *)
From SLT Require Import Cli.
Open Scope N_scope.

Definition all_ok (rs : list fresult) : Prop := Forall (fun r => r = ROk) rs.

Lemma drive_gen ff rs : forall s,
  let s' := fold_left (on_result ff) rs s in
  (failed s' = failed s + length (filter (fun r => match r with RErr _ => true | _ => false end) rs))%nat /\
  (cancelled s' = cancelled s || existsb (fun r => match r with RErr refused => ff || refused | _ => false end) rs).
Proof.
  induction rs as [|r rs IH]; intros s; cbn [fold_left filter existsb length].
  - split; [lia|now rewrite orb_false_r].
  - destruct (IH (on_result ff s r)) as [A B]. cbv zeta in *. rewrite A, B. destruct r; cbn; split; try lia.
    + reflexivity.
    + now rewrite <- !orb_assoc.
    + reflexivity.
    + reflexivity.
Qed.

Lemma consistent_tok ff cc rs : forall tok,
  consistent ff cc tok rs -> cc = false ->
  Forall (fun r => r <> RCancelled /\ r <> RSkipped) rs \/
  tok = true \/ exists refused, In (RErr refused) rs.
Proof.
  induction rs as [|r rs IH]; intros tok C Hcc; cbn in C.
  - left. constructor.
  - destruct C as [C1 C2]. destruct r.
    + destruct (IH _ C2 Hcc) as [F|[T|[x Hx]]]; [left; constructor; [split; discriminate|exact F]|auto|right; right; exists x; now right].
    + right; right. exists refused. now left.
    + destruct C1 as [T|T]; [auto|congruence].
    + destruct C1 as [T|T]; [auto|congruence].
Qed.

Lemma all_ok_counts ff rs : all_ok rs ->
  length (filter (fun r => match r with RErr _ => true | _ => false end) rs) = 0%nat /\
  existsb (fun r => match r with RErr refused => ff || refused | _ => false end) rs = false.
Proof.
  induction 1 as [|r rs Hr _ IH]; cbn; [split; reflexivity|]. subst r. exact IH.
Qed.

(* exit status 0 exactly when every processed file passed and nobody cancelled - for serial
   order and for EVERY completion order and cancel timing of the parallel driver *)
Theorem exit_truth ff cc rs :
  consistent ff cc false rs ->
  (exit_status ff cc rs = 0 <-> all_ok rs /\ cc = false).
Proof.
  intros C. unfold exit_status, drive.
  destruct (drive_gen ff rs (mkD 0 false)) as [A B]. cbv zeta in A, B. cbn [failed cancelled] in A, B.
  rewrite A, B. cbn [orb Nat.add].
  set (nerr := length (filter (fun r => match r with RErr _ => true | _ => false end) rs)) in *.
  split.
  - intros E. destruct nerr eqn:Hn; [|discriminate].
    destruct (existsb _ rs || cc) eqn:X; [discriminate|]. apply orb_false_iff in X as [X1 X2].
    split; [|exact X2].
    assert (NoErr : forall x, ~ In (RErr x) rs).
    { intros x Hin. assert (In (RErr x) (filter (fun r => match r with RErr _ => true | _ => false end) rs))
        by (apply filter_In; split; auto).
      subst nerr. destruct (filter _ rs); [contradiction|discriminate]. }
    destruct (consistent_tok ff cc rs false C X2) as [F|[T|[x Hx]]]; [|discriminate|exfalso; eapply NoErr; eauto].
    unfold all_ok. rewrite Forall_forall in *. intros r Hr. specialize (F r Hr).
    destruct r; [reflexivity|exfalso; eapply NoErr; eauto|destruct F; congruence|destruct F; congruence].
  - intros [Hok ->]. destruct (all_ok_counts ff rs Hok) as [Z E].
    subst nerr. rewrite Z, E. reflexivity.
Qed.

(* any non-passing file, and Ctrl-C at any time, make the status non-zero *)
Theorem exit_nonzero ff cc rs :
  (exists r, In r rs /\ (exists b, r = RErr b)) \/ cc = true -> exit_status ff cc rs <> 0.
Proof.
  unfold exit_status, drive.
  destruct (drive_gen ff rs (mkD 0 false)) as [A B]. cbv zeta in A, B. cbn [failed cancelled] in A, B.
  rewrite A, B. cbn [orb Nat.add]. intros [(r & Hin & b & Hr)|Hc]; [subst r|subst cc].
  - assert (In (RErr b) (filter (fun r => match r with RErr _ => true | _ => false end) rs)) by (apply filter_In; auto).
    destruct (filter _ rs); [contradiction|discriminate].
  - destruct (length _); [|discriminate]. rewrite orb_true_r. discriminate.
Qed.

(* under fail-fast a failure cancels: everything processed afterwards is skipped or cancelled or
   was already in flight; the token stays set, so the status is non-zero (previous theorem) *)
Theorem fail_fast_cancels rs1 b rs2 :
  cancelled (drive true (rs1 ++ RErr b :: rs2)) = true.
Proof.
  unfold drive. destruct (drive_gen true (rs1 ++ RErr b :: rs2) (mkD 0 false)) as [_ B].
  cbv zeta in B. rewrite B. cbn [cancelled orb]. rewrite existsb_app. cbn. now rewrite orb_true_r.
Qed.

(* JUnit: one case per file, totals add up *)
Theorem junit_totals_add_up rs :
  let '(tests, failures, disabled) := junit_totals rs in
  tests = length rs /\
  (tests = length (filter (fun r => match junit_status r with JSuccess => true | _ => false end) rs) + failures + disabled)%nat /\
  failures = length (filter (fun r => match r with RErr _ => true | _ => false end) rs) /\
  disabled = length (filter (fun r => match r with RCancelled | RSkipped => true | _ => false end) rs).
Proof.
  unfold junit_totals. split; [reflexivity|]. split; [|split].
  - induction rs as [|r rs IH]; cbn [filter length]; [reflexivity|]. destruct r; cbn [junit_status filter length]; lia.
  - induction rs as [|r rs IH]; cbn [filter length]; [reflexivity|]. destruct r; cbn [junit_status length]; lia.
  - induction rs as [|r rs IH]; cbn [filter length]; [reflexivity|]. destruct r; cbn [junit_status length]; lia.
Qed.
