(* FormatSpec.v — L1 for C05: when do two record lists mean the same script. *)
From SLT Require Export Parser Unparse.
Open Scope N_scope.

Definition no_loc : loc := Loc [] 0 None.

(* erase what formatting may change: locations, trailing blanks of comment lines *)
Definition erase (r : record) : record :=
  match r with
  | RInclude _ f => RInclude no_loc f
  | RStatement _ cs c sql e rt => RStatement no_loc cs c sql e rt
  | RQuery _ cs c sql e rt => RQuery no_loc cs c sql e rt
  | RSystem _ cs cmd out rt => RSystem no_loc cs cmd out rt
  | RSleep _ d => RSleep no_loc d
  | RSubtest _ x => RSubtest no_loc x
  | RHalt _ => RHalt no_loc
  | RHashThreshold _ n => RHashThreshold no_loc n
  | RComment ls => RComment (map trim_end ls)
  | other => other
  end.

(* the meaning of a script: its records without blank-line records, with adjacent comment
   blocks merged, everything else in order and field by field (SQL / command text, expectation
   incl. regex text, column types, sort mode, label, retry clause, conditions, connection,
   comment lines) *)
Fixpoint meaning (rs : list record) : list record :=
  match rs with
  | [] => []
  | RNewline :: rest => meaning rest
  | RComment ls :: rest =>
      match meaning rest with
      | RComment ls' :: m => RComment (map trim_end ls ++ ls') :: m
      | m => RComment (map trim_end ls) :: m
      end
  | r :: rest => erase r :: meaning rest
  end.

Definition sem_eq (a b : list record) : Prop := meaning a = meaning b.

(* no physical line of the text ends in a carriage return once str::lines has split it
   (a CR CR LF sequence in the file): such a CR cannot be written back (known finding D16) *)
Definition no_trailing_cr (s : str) : Prop := Forall (fun l => last l 0 <> 13) (lines s).
