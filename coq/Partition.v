(* Partition.v — L2 model of the CLI's partitioning (main.rs HashPartitioner, the option
   validation and the per-glob filter). *)
From SLT Require Export SipHash.
Open Scope N_scope.

Inductive pconfig := PNoPartition | PRejected | PPart (count id : N).

(* --partition-count / --partition-id (or SLT_PARTITION_COUNT / SLT_PARTITION_ID) *)
Definition partition_config (count id : option N) : pconfig :=
  match count with
  | None => PNoPartition                       (* an id without a count is ignored *)
  | Some c =>
      match id with
      | None => PRejected
      | Some i => if c =? 0 then PRejected else if c <=? i then PRejected else PPart c i
      end
  end.

Section Hash.
  Variable h : str -> N.     (* the hash of a path; hash_path for the real thing *)

  Definition selected (count id : N) (p : str) : bool := (h p mod count) =? id.

  (* applied per glob, and only when the glob matched more than one file *)
  Definition select_glob (cfg : pconfig) (files : list str) : list str :=
    match cfg with
    | PPart c i => match files with
                   | _ :: _ :: _ => filter (selected c i) files
                   | _ => files
                   end
    | _ => files
    end.
End Hash.

Definition select_all (cfg : pconfig) (globs : list (list str)) : list str :=
  flat_map (select_glob hash_path cfg) globs.
