(* UpdateFile3.v — C06 at the level of a whole record list, part 3 (the text written, optional
   strengthening of the linking lemma): when [update_loop] ends in UOk, the bytes it reports
   for every file are the trimmed concatenation of [display r ++ newline] over the records
   that [upd] returns for that file, where the records of [upd] are attributed to files by
   the include markers alone ([split_files]). *)
From SLT Require Import TextProofs Runner Update UpdateSpec UpdateProofs UpdateFile1.
Open Scope N_scope.

(* the text of one record as [write_rec] appends it (every record written by a run that ends
   in UOk has a display) *)
Definition rec_text (r : record) : str :=
  match display r with Some t => t ++ [10] | None => [] end.
Definition recs_text (rs : list record) : str := flat_map rec_text rs.

Definition marker (r : record) : option (bool * str) :=
  match r with
  | RBeginInclude g => Some (true, g)
  | REndInclude g => Some (false, g)
  | _ => None
  end.

(* attribute the records of a flat list to files, by its include markers: the stack of open
   files (innermost first) with the records seen so far, and the files closed so far.  As in
   [update_loop], only the innermost file still open at the end is closed. *)
Fixpoint split_files (rs : list record) (stack : list (str * list record)) (done : list (str * list record))
  : option (list (str * list record)) :=
  match rs with
  | [] => match stack with p :: _ => Some (done ++ [p]) | [] => None end
  | r :: rest =>
      match stack with
      | [] => None
      | (f, l) :: below =>
          match marker r with
          | Some (true, g) => split_files rest ((g, []) :: stack) done
          | Some (false, _) => split_files rest below (done ++ [(f, l)])
          | None => split_files rest ((f, l ++ [r]) :: below) done
          end
      end
  end.

Definition item_rel (it : item) (p : str * list record) : Prop :=
  it_file it = fst p /\ it_text it = recs_text (snd p).

(* a file of records and the (name, bytes) pair the driver reports for it *)
Definition closed_as (p : str * list record) (d : str * list N) : Prop :=
  fst d = fst p /\ trim_tail (utf8 (recs_text (snd p))) = TOk (snd d).

Lemma marker_none r : rkind_of r = KOther \/ rkind_of r = KHalt -> marker r = None.
Proof. destruct r; cbn [rkind_of marker]; intros [H|H]; try discriminate; reflexivity. Qed.

Lemma recs_text_snoc l r : recs_text (l ++ [r]) = recs_text l ++ rec_text r.
Proof. unfold recs_text. rewrite flat_map_app. cbn [flat_map]. now rewrite app_nil_r. Qed.

Lemma write_rec_rel it r it' p :
  write_rec it r = Some it' -> item_rel it p ->
  item_rel it' (fst p, snd p ++ [r]) /\ display r <> None.
Proof.
  unfold write_rec, item_rel. intros W [Hf Ht]. destruct (display r) as [t|] eqn:D; [|discriminate].
  inversion W; subst. cbn [it_file it_text fst snd]. split; [|discriminate].
  split; [exact Hf|]. rewrite recs_text_snoc, Ht. unfold rec_text. now rewrite D.
Qed.

Lemma close_item_rel it p d : close_item it = Some d -> item_rel it p -> closed_as p d.
Proof.
  unfold close_item, item_rel, closed_as. intros C [Hf Ht].
  destruct (trim_tail (utf8 (it_text it))) as [b|] eqn:T; [|discriminate].
  inversion C; subst. cbn [fst snd]. split; [exact Hf|]. rewrite <- Ht. exact T.
Qed.

Lemma Forall2_snoc {A B} (R : A -> B -> Prop) l1 l2 a b :
  Forall2 R l1 l2 -> R a b -> Forall2 R (l1 ++ [a]) (l2 ++ [b]).
Proof. intros H1 H2. apply Forall2_app; [exact H1|]. constructor; [exact H2|constructor]. Qed.

Section Files.
  Variable re : str -> str -> bool.
  Variable sep : str.
  Variable strict : bool.
  Variable substitute : bool -> list (str * str) -> str -> subres.
  Variable sc : script.

  Notation apply_record := (apply_record substitute sc).
  Notation update_record := (update_record re sep strict).
  Notation upd := (upd re sep strict substitute sc).
  Notation update_loop := (update_loop re sep strict substitute sc false).

  Lemma rkind_written' r o : rkind_of r = KOther ->
    rkind_of (match update_record r o with Some x => x | None => r end) = KOther.
  Proof.
    intros K. destruct (update_record r o) as [x|] eqn:U; [|exact K].
    apply update_frame in U. destruct r, x; cbn [same_but_expectation] in U; try contradiction; reflexivity.
  Qed.

  Theorem update_loop_files : forall rs stack halt st w done ev0 kn0 written ev kn pstack pdone,
    update_loop rs stack halt st w done ev0 kn0 = UOk written ev kn ->
    Forall2 item_rel stack pstack ->
    Forall2 closed_as pdone done ->
    exists rs' ev' kn' outs files,
      upd rs (length stack) halt st w = Some (rs', ev', kn', outs) /\
      ev = ev0 ++ ev' /\ kn = kn0 ++ kn' /\
      split_files rs' pstack pdone = Some files /\
      Forall2 closed_as files written /\
      Forall (fun r => marker r = None -> display r <> None) rs'.
  Proof.
    induction rs as [|r rest IH]; intros stack halt st w done ev0 kn0 written ev kn pstack pdone H Hst Hdn.
    - cbn [Update.update_loop] in H. destruct stack as [|it below]; [discriminate|].
      destruct (close_item it) as [d|] eqn:C; [|discriminate]. inversion H; subst.
      inversion Hst as [|x p l l' Hx Hl]; subst.
      cbn [length UpdateFile1.upd]. exists [], [], [], [], (pdone ++ [p]).
      split; [reflexivity|]. split; [now rewrite app_nil_r|]. split; [now rewrite app_nil_r|].
      split; [reflexivity|]. split; [|constructor].
      apply Forall2_snoc; [exact Hdn|]. eapply close_item_rel; eauto.
    - destruct stack as [|it below]; [destruct r; discriminate|].
      inversion Hst as [|x p l pbelow Hx Hl]; subst. destruct p as [f recs].
      cbn [length]. cbn [UpdateFile1.upd].
      assert (Hcopy :
                 rkind_of r = KOther \/ rkind_of r = KHalt ->
                 match write_rec it r with
                 | Some it' => update_loop rest (it' :: below) true st w done ev0 kn0
                 | None => UPanic done ev0 (map it_file (it :: below))
                 end = UOk written ev kn ->
                 exists rs' ev' kn' outs files,
                   cons_res r [] [] ONothing (upd rest (S (length below)) true st w) = Some (rs', ev', kn', outs) /\
                   ev = ev0 ++ ev' /\ kn = kn0 ++ kn' /\
                   split_files rs' ((f, recs) :: pbelow) pdone = Some files /\
                   Forall2 closed_as files written /\
                   Forall (fun r => marker r = None -> display r <> None) rs').
      { intros Hk Hc. destruct (write_rec it r) as [it'|] eqn:W; [|discriminate].
        destruct (write_rec_rel _ _ _ _ W Hx) as [Hx' Hd]. cbn [fst snd] in Hx'.
        destruct (IH _ _ _ _ _ _ _ _ _ _ ((f, recs ++ [r]) :: pbelow) pdone Hc) as
          (rs' & ev' & kn' & outs & files & U & -> & -> & S & Cl & Dp); [constructor; assumption|exact Hdn|].
        cbn [length] in U. rewrite U. cbn [cons_res].
        eexists _, _, _, _, files. split; [reflexivity|]. split; [reflexivity|]. split; [reflexivity|].
        split; [cbn [split_files]; rewrite (marker_none _ Hk); exact S|].
        split; [exact Cl|]. constructor; [intros _; exact Hd|exact Dp]. }
      assert (Hexec : rkind_of r = KOther ->
                 (let '(e1, st1, w1, o) := apply_record st w r in
                  let r' := match update_record r o with Some x => x | None => r end in
                  match write_rec it r' with
                  | Some it' => update_loop rest (it' :: below) false st1 w1 done (ev0 ++ e1) (kn0 ++ known_class sep (cfg st1) r o)
                  | None => UPanic done (ev0 ++ e1) (map it_file (it :: below))
                  end) = UOk written ev kn ->
                 exists rs' ev' kn' outs files,
                   (let '(e1, st1, w1, o) := apply_record st w r in
                    let r' := match update_record r o with Some x => x | None => r end in
                    cons_res r' e1 (known_class sep (cfg st1) r o) o (upd rest (S (length below)) false st1 w1))
                   = Some (rs', ev', kn', outs) /\
                   ev = ev0 ++ ev' /\ kn = kn0 ++ kn' /\
                   split_files rs' ((f, recs) :: pbelow) pdone = Some files /\
                   Forall2 closed_as files written /\
                   Forall (fun r => marker r = None -> display r <> None) rs').
      { intros Hk Hc. destruct (apply_record st w r) as [[[e1 st1] w1] o]. cbv zeta in Hc |- *.
        set (r' := match update_record r o with Some x => x | None => r end) in *.
        destruct (write_rec it r') as [it'|] eqn:W; [|discriminate Hc].
        destruct (write_rec_rel _ _ _ _ W Hx) as [Hx' Hd]. cbn [fst snd] in Hx'.
        destruct (IH _ _ _ _ _ _ _ _ _ _ ((f, recs ++ [r']) :: pbelow) pdone Hc) as
          (rs' & ev' & kn' & outs & files & U & -> & -> & S & Cl & Dp); [constructor; assumption|exact Hdn|].
        cbn [length] in U. rewrite U. cbn [cons_res].
        eexists _, _, _, _, files. split; [reflexivity|]. split; [now rewrite app_assoc|].
        split; [now rewrite app_assoc|].
        split; [cbn [split_files]; rewrite (marker_none r') by (left; apply rkind_written'; exact Hk); exact S|].
        split; [exact Cl|]. constructor; [intros _; exact Hd|exact Dp]. }
      destruct r; cbn [Update.update_loop] in H; cbn [rkind_of];
        try (destruct halt;
             [apply Hcopy; [left; reflexivity|exact H] | apply Hexec; [reflexivity|exact H]]).
      + (* halt *)
        destruct halt; apply Hcopy; try (right; reflexivity); exact H.
      + (* begin include *)
        destruct (IH _ _ _ _ _ _ _ _ _ _ ((file, []) :: (f, recs) :: pbelow) pdone H) as
          (rs' & ev' & kn' & outs & files & U & -> & -> & S & Cl & Dp).
        { constructor; [split; reflexivity|constructor; assumption]. }
        { exact Hdn. }
        cbn [length] in U. rewrite U. cbn [cons_res].
        eexists _, _, _, _, files. split; [reflexivity|]. split; [reflexivity|]. split; [reflexivity|].
        split; [cbn [split_files marker]; exact S|].
        split; [exact Cl|]. constructor; [intros X; discriminate X|exact Dp].
      + (* end include *)
        destruct (close_item it) as [d|] eqn:C; [|discriminate].
        destruct (IH _ _ _ _ _ _ _ _ _ _ pbelow (pdone ++ [(f, recs)]) H) as
          (rs' & ev' & kn' & outs & files & U & -> & -> & S & Cl & Dp).
        { exact Hl. }
        { apply Forall2_snoc; [exact Hdn|]. eapply close_item_rel; eauto. }
        rewrite U. cbn [cons_res].
        eexists _, _, _, _, files. split; [reflexivity|]. split; [reflexivity|]. split; [reflexivity|].
        split; [cbn [split_files marker]; exact S|].
        split; [exact Cl|]. constructor; [intros X; discriminate X|exact Dp].
  Qed.

  (* from the start of a run: one open file, nothing written, no halt seen *)
  Corollary update_loop_written main rs st w written ev kn :
    update_loop rs [mkItem main []] false st w [] [] [] = UOk written ev kn ->
    exists rs' outs files,
      upd rs 1 false st w = Some (rs', ev, kn, outs) /\
      split_files rs' [(main, [])] [] = Some files /\
      Forall2 closed_as files written /\
      Forall (fun r => marker r = None -> display r <> None) rs'.
  Proof.
    intros H.
    destruct (update_loop_files _ _ _ _ _ _ _ _ _ _ _ [(main, [])] [] H) as
      (rs' & ev' & kn' & outs & files & U & -> & -> & S & Cl & Dp).
    { constructor; [split; reflexivity|constructor]. }
    { constructor. }
    exists rs', outs, files. cbn [length app] in *. repeat split; assumption.
  Qed.
End Files.
Print Assumptions update_loop_written.
