(* HeaderSpec.v — L1 for C04: the documented directives as a declarative grammar over the
   words of a top-level line.  [valid_header] has one production per documented form. *)
From SLT Require Export Parser.
Open Scope N_scope.

Section Spec.
  Variable col_of_char : N -> option N.
  Variable re_valid : str -> bool.

  (* [retry <attempts> backoff <duration>], attempts a positive u64, duration one humantime word *)
  Inductive valid_retry : list str -> Prop :=
  | vr_none : valid_retry []
  | vr_some a d n ns :
      parse_u64 a = Some n -> n <> 0 -> parse_duration d = DOk ns ->
      valid_retry [lit "retry"; a; lit "backoff"; d].

  (* what may follow `error`: nothing, an inline regex (any words that are not exactly a retry
     clause shape) that the regex crate accepts, or exactly a retry clause *)
  Inductive valid_error_tail : list str -> Prop :=
  | ve_retry r : is_retry_shape r = true -> valid_retry r -> valid_error_tail r
  | ve_inline ws : is_retry_shape ws = false -> (ws = [] \/ re_valid (join [32] ws) = true) -> valid_error_tail ws.

  (* after the type string of a query: [sortmode] [label] [retry clause]; the first word is the sort
     mode iff it is a sort keyword, the next one is the label iff it is not `retry` *)
  Inductive valid_query_tail : list str -> Prop :=
  | vq_sort s rest : parse_sortmode s <> None -> valid_label_tail rest -> valid_query_tail (s :: rest)
  | vq_nosort rest : (match rest with s :: _ => parse_sortmode s = None | [] => True end) ->
                     valid_label_tail rest -> valid_query_tail rest
  with valid_label_tail : list str -> Prop :=
  | vl_label l rest : kw "retry" l = false -> valid_retry rest -> valid_label_tail (l :: rest)
  | vl_nolabel rest : (match rest with l :: _ => kw "retry" l = true | [] => True end) ->
                      valid_retry rest -> valid_label_tail rest.

  Inductive valid_header : list str -> Prop :=
  | vh_include f : valid_header [lit "include"; f]
  | vh_halt : valid_header [lit "halt"]
  | vh_subtest x : valid_header [lit "subtest"; x]
  | vh_sleep d ns : parse_duration d = DOk ns -> valid_header [lit "sleep"; d]
  | vh_skipif l : valid_header [lit "skipif"; l]
  | vh_onlyif l : valid_header [lit "onlyif"; l]
  | vh_connection x : valid_header [lit "connection"; x]
  | vh_statement_ok r : valid_retry r -> valid_header (lit "statement" :: lit "ok" :: r)
  | vh_statement_count c n r :
      parse_u64 c = Some n -> valid_retry r -> valid_header (lit "statement" :: lit "count" :: c :: r)
  | vh_statement_error t : valid_error_tail t -> valid_header (lit "statement" :: lit "error" :: t)
  | vh_query_bare : valid_header [lit "query"]
  | vh_query_error t : valid_error_tail t -> valid_header (lit "query" :: lit "error" :: t)
  | vh_query_results tw types rest :
      kw "error" tw = false -> parse_types col_of_char tw = Some types -> valid_query_tail rest ->
      valid_header (lit "query" :: tw :: rest)
  | vh_system r : valid_retry r -> valid_header (lit "system" :: lit "ok" :: r)
  | vh_control_sort m : parse_sortmode m <> None -> valid_header [lit "control"; lit "sortmode"; m]
  | vh_control_result m : kw "rowwise" m = true \/ kw "valuewise" m = true ->
                          valid_header [lit "control"; lit "resultmode"; m]
  | vh_control_subst v : kw "on" v = true \/ kw "off" v = true ->
                         valid_header [lit "control"; lit "substitution"; v]
  | vh_threshold t n : parse_u64 t = Some n -> valid_header [lit "hash-threshold"; t].

  (* no duration word of the line makes humantime panic (known finding D13) *)
  Definition dur_safe_words (ws : list str) : Prop := forall t, In t ws -> parse_duration t <> DPanic.
End Spec.
