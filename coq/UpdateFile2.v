(* UpdateFile2.v — C06 at the level of a whole record list, part 2: the induction over the
   list.  After `--override` (a) the updated list, re-read, runs to the end (or to its first
   halt) without a failure, (b) the rerun issues the events of the update in the same order,
   (c) updating the updated list again writes the same file; and the C07-style frame of the
   whole list (records after the first halt are written as they are).  See the comments at
   [update_file_converges] for the premises and at [retry_zero_rerun_fails] /
   [strictness_mismatch_rerun_fails] for the statements that are false of the model without
   them. *)
From SLT Require Import TextProofs JudgeSpec JudgeProofs Runner RetryProofs RunnerProofs
                        Update UpdateSpec UpdateProofs UpdateFile1.
Open Scope N_scope.

Lemma sbe_kind r x : same_but_expectation r x -> rkind_of x = KOther.
Proof. destruct r, x; cbn [same_but_expectation]; try contradiction; reflexivity. Qed.

Lemma retry_reread r : record_retry (reread r) = record_retry r.
Proof. destruct r; reflexivity. Qed.

Section File.
  Variable re : str -> str -> bool.
  Variable sep : str.
  Variable strict : bool.
  Variable substitute : bool -> list (str * str) -> str -> subres.
  Variable sc : script.
  Hypothesis Hesc : escape_law re.

  Notation apply_record := (apply_record substitute sc).
  Notation update_record := (update_record re sep strict).
  Notation upd := (upd re sep strict substitute sc).
  Notation run_multi_e := (run_multi_e re substitute sc).
  Notation run_async := (run_async re substitute sc).
  Notation written r o := (match update_record r o with Some x => x | None => r end).

  (* the column strictness handed to the updater is the one of the runner *)
  Definition sok (st : rstate) : Prop := strict = strict_cols (cfg st).

  Lemma sok_step st w r ev st1 w1 o :
    sok st -> apply_record st w r = (ev, st1, w1, o) -> sok st1.
  Proof.
    unfold sok. intros Hs A. rewrite (apply_record_strict _ _ _ _ _ _ _ _ _ A). exact Hs.
  Qed.

  Lemma rkind_written r o : rkind_of r = KOther -> rkind_of (written r o) = KOther.
  Proof.
    intros K. destruct (update_record r o) as [x|] eqn:U; [|exact K].
    apply update_frame in U. eapply sbe_kind; eauto.
  Qed.

  (* ---- one executed record: the update, the rerun and the second update *)
  Lemma exec_step st w r ev st1 w1 o :
    sok st ->
    apply_record st w r = (ev, st1, w1, o) ->
    known_class sep (cfg st1) r o = [] -> cmd_ok o ->
    let r1 := reread (written r o) in
    exists o1,
      apply_record st w r1 = (ev, st1, w1, o1) /\
      judge re (cfg st1) r1 o1 = Pass /\
      record_retry r1 = record_retry r /\
      known_class sep (cfg st1) r1 o1 = [] /\ cmd_ok o1 /\
      reread (written r1 o1) = r1.
  Proof.
    intros Hs A Hk Hc. cbv zeta.
    pose proof (sok_step _ _ _ _ _ _ _ Hs A) as Hs1. unfold sok in Hs1.
    destruct (apply_record_cases _ _ _ _ _ _ _ _ _ A)
      as [[-> A2]|[(a & Hj & -> & A2)|(l & cs & cmd & ex & rt & -> & -> & A2)]].
    - (* nothing *)
      assert (U : forall x, update_record x ONothing = None) by reflexivity.
      rewrite U. exists ONothing. split; [exact A2|]. split; [reflexivity|].
      split; [apply retry_reread|]. split; [destruct r; reflexivity|]. split; [exact I|].
      rewrite U. apply reread_idem.
    - (* judged on the answer a *)
      rewrite Hs1 in *.
      destruct (judged_step re sep Hesc (cfg st1) r a Hj Hk Hc) as (Hf & Hp & Hfix).
      set (r1 := reread _) in *.
      exists (apply (cfg st1) r1 a). split; [apply A2; exact Hf|].
      split; [exact Hp|]. split; [apply sbe_retry; exact Hf|].
      split; [apply known_class_step; assumption|].
      split; [|exact Hfix].
      destruct (cmd_ok_answer _ _ _ Hj Hc) as [Hok Hsp]. apply answer_cmd_ok; assumption.
    - (* background system command: the updater writes the record without expected stdout;
         the rerun spawns the same command and accepts (nothing is expected) *)
      cbn [Update.update_record reread option_map].
      exists (OSystem None false). split; [apply A2|].
      split; [reflexivity|]. split; [reflexivity|]. split; [reflexivity|]. split; [exact I|].
      reflexivity.
  Qed.

  (* ---- once the halt flag is set every record is copied, nothing is executed *)
  Lemma upd_halted rest : forall depth st w rs' ev kn outs,
    upd rest depth true st w = Some (rs', ev, kn, outs) ->
    rs' = rest /\ ev = [] /\ kn = [] /\ Forall (fun o => o = ONothing) outs.
  Proof.
    induction rest as [|r rest IH]; intros depth st w rs' ev kn outs H.
    - cbn [UpdateFile1.upd] in H. destruct depth; [discriminate|]. inversion H; subst.
      repeat split. constructor.
    - cbn [UpdateFile1.upd] in H. destruct depth as [|below]; [discriminate|].
      destruct (rkind_of r) eqn:K;
        apply cons_res_some in H; destruct H as (rs2 & ev2 & kn2 & os & U & E);
        inversion E; subst; destruct (IH _ _ _ _ _ _ _ U) as (-> & -> & -> & Ho); repeat split;
        constructor; auto.
  Qed.

  (* ---- the rerun *)
  Lemma rerun_upd rs : forall depth st w rs' ev outs,
    sok st ->
    Forall retry_ok rs ->
    upd rs depth false st w = Some (rs', ev, [], outs) ->
    Forall cmd_ok outs ->
    exists st' w' e,
      run_multi_e st w (map reread rs') = (ev, st', w', e) /\
      (e = Finished \/ e = Halted).
  Proof.
    induction rs as [|r rest IH]; intros depth st w rs' ev outs Hs Hrt H Hc.
    - cbn [UpdateFile1.upd] in H. destruct depth; [discriminate|]. inversion H; subst.
      cbn [map Runner.run_multi_e]. exists st, w, Finished. split; [reflexivity|left; reflexivity].
    - destruct depth as [|below]; [discriminate H|].
      inversion Hrt as [|x l Hr Hrt']; subst.
      cbn [UpdateFile1.upd] in H.
      destruct (rkind_of r) eqn:K.
      + (* begin include *)
        apply cons_res_some in H. destruct H as (rs2 & ev2 & kn2 & os & U & E).
        inversion E as [[E1 E2 E3 E4]]; subst rs' ev outs. cbn [app] in *. subst kn2.
        inversion Hc as [|o l _ Hc']; subst.
        destruct (IH _ st w rs2 ev2 os Hs Hrt' U Hc') as (st' & w' & e & M & He).
        destruct r; try discriminate K. cbn [map reread].
        rewrite run_multi_cons by (intros l0 X; discriminate).
        cbn [Runner.run_async record_retry Runner.run_no_retry Runner.apply_record judge]. rewrite M.
        exists st', w', e. split; [reflexivity|exact He].
      + (* end include *)
        apply cons_res_some in H. destruct H as (rs2 & ev2 & kn2 & os & U & E).
        inversion E as [[E1 E2 E3 E4]]; subst rs' ev outs. cbn [app] in *. subst kn2.
        inversion Hc as [|o l _ Hc']; subst.
        destruct (IH _ st w rs2 ev2 os Hs Hrt' U Hc') as (st' & w' & e & M & He).
        destruct r; try discriminate K. cbn [map reread].
        rewrite run_multi_cons by (intros l0 X; discriminate).
        cbn [Runner.run_async record_retry Runner.run_no_retry Runner.apply_record judge]. rewrite M.
        exists st', w', e. split; [reflexivity|exact He].
      + (* halt: the rerun stops here, and the update executes nothing further *)
        apply cons_res_some in H. destruct H as (rs2 & ev2 & kn2 & os & U & E).
        inversion E as [[E1 E2 E3 E4]]; subst rs' ev outs. cbn [app] in *.
        destruct (upd_halted _ _ _ _ _ _ _ _ U) as (_ & -> & _).
        destruct r; try discriminate K. cbn [map reread Runner.run_multi_e].
        exists st, w, Halted. split; [reflexivity|right; reflexivity].
      + (* an ordinary record before any halt: executed *)
        destruct (apply_record st w r) as [[[e1 st1] w1] o] eqn:A.
        apply cons_res_some in H. destruct H as (rs2 & ev2 & kn2 & os & U & E).
        inversion E as [[E1 E2 E3 E4]]; subst rs' ev outs. clear E.
        symmetry in E3. apply app_eq_nil in E3 as [Hk ->].
        inversion Hc as [|o' l Hco Hc']; subst.
        destruct (exec_step st w r e1 st1 w1 o Hs A Hk Hco) as (o1 & A1 & J1 & R1 & _).
        set (r1 := reread (written r o)) in *.
        pose proof (sok_step _ _ _ _ _ _ _ Hs A) as Hs1.
        destruct (IH _ st1 w1 rs2 ev2 os Hs1 Hrt' U Hc') as (st' & w' & e & M & He).
        assert (RA : run_async st w r1 = (e1, st1, w1, o1, Pass)).
        { apply run_async_first_pass; auto. unfold retry_ok. rewrite R1. exact Hr. }
        assert (K1 : rkind_of r1 = KOther).
        { unfold r1. rewrite rkind_reread. apply rkind_written. exact K. }
        cbn [map]. fold r1.
        rewrite run_multi_cons by (apply rkind_other_not_halt; exact K1).
        rewrite RA, M.
        exists st', w', e. split; [reflexivity|exact He].
  Qed.

  (* ---- the second update *)
  Lemma second_upd rs : forall depth halt st w rs' ev outs,
    sok st ->
    upd rs depth halt st w = Some (rs', ev, [], outs) ->
    Forall cmd_ok outs ->
    exists rs'' outs'',
      upd (map reread rs') depth halt st w = Some (rs'', ev, [], outs'') /\
      map reread rs'' = map reread rs' /\
      Forall cmd_ok outs''.
  Proof.
    induction rs as [|r rest IH]; intros depth halt st w rs' ev outs Hs H Hc.
    - cbn [UpdateFile1.upd] in H. destruct depth; [discriminate|]. inversion H; subst.
      cbn [map UpdateFile1.upd]. exists [], []. repeat split; constructor.
    - destruct depth as [|below]; [discriminate H|].
      cbn [UpdateFile1.upd] in H.
      assert (Hcopy : forall d h,
                 cons_res r [] [] ONothing (upd rest d h st w) = Some (rs', ev, [], outs) ->
                 exists rs2 os2 rs3 os3,
                   rs' = r :: rs2 /\ outs = ONothing :: os2 /\
                   upd (map reread rs2) d h st w = Some (rs3, ev, [], os3) /\
                   map reread rs3 = map reread rs2 /\ Forall cmd_ok os3).
      { intros d h Hx. apply cons_res_some in Hx. destruct Hx as (rs2 & ev2 & kn2 & os & U & E).
        inversion E as [[E1 E2 E3 E4]]; subst rs' ev outs. cbn [app] in *. subst kn2.
        inversion Hc as [|o l _ Hc']; subst.
        destruct (IH d h st w rs2 ev2 os Hs U Hc') as (rs3 & os3 & U3 & M3 & C3).
        exists rs2, os, rs3, os3. repeat split; assumption. }
      destruct (rkind_of r) eqn:K.
      + destruct (Hcopy _ _ H) as (rs2 & os2 & rs3 & os3 & -> & -> & U3 & M3 & C3).
        cbn [map UpdateFile1.upd]. rewrite rkind_reread, K, U3. cbn [cons_res app].
        exists (reread r :: rs3), (ONothing :: os3). split; [reflexivity|].
        split; [cbn [map]; now rewrite reread_idem, M3|]. constructor; [exact I|exact C3].
      + destruct (Hcopy _ _ H) as (rs2 & os2 & rs3 & os3 & -> & -> & U3 & M3 & C3).
        cbn [map UpdateFile1.upd]. rewrite rkind_reread, K, U3. cbn [cons_res app].
        exists (reread r :: rs3), (ONothing :: os3). split; [reflexivity|].
        split; [cbn [map]; now rewrite reread_idem, M3|]. constructor; [exact I|exact C3].
      + destruct (Hcopy _ _ H) as (rs2 & os2 & rs3 & os3 & -> & -> & U3 & M3 & C3).
        cbn [map UpdateFile1.upd]. rewrite rkind_reread, K, U3. cbn [cons_res app].
        exists (reread r :: rs3), (ONothing :: os3). split; [reflexivity|].
        split; [cbn [map]; now rewrite reread_idem, M3|]. constructor; [exact I|exact C3].
      + destruct halt.
        * destruct (Hcopy _ _ H) as (rs2 & os2 & rs3 & os3 & -> & -> & U3 & M3 & C3).
          cbn [map UpdateFile1.upd]. rewrite rkind_reread, K, U3. cbn [cons_res app].
          exists (reread r :: rs3), (ONothing :: os3). split; [reflexivity|].
          split; [cbn [map]; now rewrite reread_idem, M3|]. constructor; [exact I|exact C3].
        * destruct (apply_record st w r) as [[[e1 st1] w1] o] eqn:A.
          apply cons_res_some in H. destruct H as (rs2 & ev2 & kn2 & os & U & E).
          inversion E as [[E1 E2 E3 E4]]; subst rs' ev outs. clear E.
          symmetry in E3. apply app_eq_nil in E3 as [Hk ->].
          inversion Hc as [|o' l Hco Hc']; subst.
          destruct (exec_step st w r e1 st1 w1 o Hs A Hk Hco) as (o1 & A1 & _ & _ & K1 & C1 & F1).
          set (r1 := reread (written r o)) in *.
          pose proof (sok_step _ _ _ _ _ _ _ Hs A) as Hs1.
          destruct (IH _ false st1 w1 rs2 ev2 os Hs1 U Hc') as (rs3 & os3 & U3 & M3 & C3).
          assert (Kr : rkind_of r1 = KOther).
          { unfold r1. rewrite rkind_reread. apply rkind_written. exact K. }
          cbn [map]. fold r1. cbn [UpdateFile1.upd]. rewrite Kr, A1, U3. cbn [cons_res].
          rewrite K1. cbn [app].
          exists (written r1 o1 :: rs3), (o1 :: os3). split; [reflexivity|].
          split; [cbn [map]; fold r1; now rewrite F1, M3|].
          constructor; assumption.
  Qed.

  (* ---- the frame of the whole list (C07 at file level) *)
  (* record by record: the written record has the kind of the input record (include markers
     and halts at the same positions), is the input record itself unless it is an ordinary
     record, and otherwise differs from it in the expectation at most; once the halt flag is
     set the written list is the input list *)
  Lemma upd_frame rs : forall depth halt st w rs' ev kn outs,
    upd rs depth halt st w = Some (rs', ev, kn, outs) ->
    Forall2 (fun r r' => rkind_of r' = rkind_of r /\
                         (rkind_of r <> KOther -> r' = r) /\
                         (r' = r \/ same_but_expectation r r')) rs rs'.
  Proof.
    induction rs as [|r rest IH]; intros depth halt st w rs' ev kn outs H.
    - cbn [UpdateFile1.upd] in H. destruct depth; [discriminate|]. inversion H; subst. constructor.
    - destruct depth as [|below]; [discriminate H|]. cbn [UpdateFile1.upd] in H.
      assert (Hcopy : forall d h,
                 cons_res r [] [] ONothing (upd rest d h st w) = Some (rs', ev, kn, outs) ->
                 Forall2 (fun r r' => rkind_of r' = rkind_of r /\
                                      (rkind_of r <> KOther -> r' = r) /\
                                      (r' = r \/ same_but_expectation r r')) (r :: rest) rs').
      { intros d h Hx. apply cons_res_some in Hx. destruct Hx as (rs2 & ev2 & kn2 & os & U & E).
        inversion E; subst. constructor; [|eapply IH; eauto].
        split; [reflexivity|]. split; [reflexivity|left; reflexivity]. }
      destruct (rkind_of r) eqn:K; try (eapply Hcopy; exact H).
      destruct halt; [eapply Hcopy; exact H|].
      destruct (apply_record st w r) as [[[e1 st1] w1] o] eqn:A.
      apply cons_res_some in H. destruct H as (rs2 & ev2 & kn2 & os & U & E).
      inversion E; subst. constructor; [|eapply IH; eauto].
      split; [rewrite K; apply rkind_written; exact K|]. split; [intros X; contradiction|].
      destruct (update_record r o) as [x|] eqn:Ux; [right; eapply update_frame; eauto|left; reflexivity].
  Qed.

  (* everything from the first halt on is written as it is *)
  Lemma upd_after_halt pre : forall l post depth st w rs' ev kn outs,
    Forall (fun r => rkind_of r <> KHalt) pre ->
    upd (pre ++ RHalt l :: post) depth false st w = Some (rs', ev, kn, outs) ->
    exists pre', rs' = pre' ++ RHalt l :: post /\ length pre' = length pre.
  Proof.
    induction pre as [|r pre IH]; intros l post depth st w rs' ev kn outs Hp H.
    - cbn [app] in H. cbn [UpdateFile1.upd rkind_of] in H. destruct depth as [|below]; [discriminate|].
      apply cons_res_some in H. destruct H as (rs2 & ev2 & kn2 & os & U & E). inversion E; subst.
      destruct (upd_halted _ _ _ _ _ _ _ _ U) as (-> & _). exists []. split; reflexivity.
    - inversion Hp as [|x l0 Hr Hp']; subst. cbn [app] in H. cbn [UpdateFile1.upd] in H.
      destruct depth as [|below]; [discriminate|].
      destruct (rkind_of r) eqn:K; try (exfalso; apply Hr; reflexivity).
      + apply cons_res_some in H. destruct H as (rs2 & ev2 & kn2 & os & U & E). inversion E; subst.
        destruct (IH _ _ _ _ _ _ _ _ _ Hp' U) as (pre' & -> & L). exists (r :: pre'). split; [reflexivity|cbn [length]; now rewrite L].
      + apply cons_res_some in H. destruct H as (rs2 & ev2 & kn2 & os & U & E). inversion E; subst.
        destruct (IH _ _ _ _ _ _ _ _ _ Hp' U) as (pre' & -> & L). exists (r :: pre'). split; [reflexivity|cbn [length]; now rewrite L].
      + destruct (apply_record st w r) as [[[e1 st1] w1] o] eqn:A.
        apply cons_res_some in H. destruct H as (rs2 & ev2 & kn2 & os & U & E). inversion E; subst.
        destruct (IH _ _ _ _ _ _ _ _ _ Hp' U) as (pre' & -> & L).
        exists (written r o :: pre'). split; [reflexivity|cbn [length]; now rewrite L].
  Qed.
End File.
