(* ParProofs.v — safety of the parallel-run observer automaton (Par.v), proved from its guards.
   None of the properties below is a guard of [pstep]; each is derived from an invariant
   [Inv pa tr st] relating the automaton state to the trace consumed so far. *)
From SLT Require Import Base Par.
Open Scope N_scope.

(* ------------------------------------------------------------------------- *)
(* prun and append                                                            *)

Lemma prun_app : forall pa a b st st', prun pa st (a ++ b) = Some st' ->
    exists st1, prun pa st a = Some st1 /\ prun pa st1 b = Some st'.
Proof.
  intros pa a; induction a as [|e a IH]; intros b st st' H; cbn [app prun] in *.
  - exists st; split; [reflexivity|exact H].
  - destruct (pstep pa st e) as [st2|] eqn:E; [|discriminate H].
    apply IH in H. exact H.
Qed.

Lemma prun_snoc pa tr e st st1 st2 :
  prun pa st tr = Some st1 -> pstep pa st1 e = Some st2 -> prun pa st (tr ++ [e]) = Some st2.
Proof.
  revert st; induction tr as [|x tr IH]; intros st H1 H2; cbn [app prun] in *.
  - injection H1 as <-. rewrite H2. reflexivity.
  - destruct (pstep pa st x) as [st3|]; [|discriminate H1]. apply IH; assumption.
Qed.

(* ------------------------------------------------------------------------- *)
(* decidable equality on events                                               *)

Definition pev_eq_dec : forall a b : pev, {a = b} + {a <> b}.
Proof.
  decide equality; try apply N.eq_dec; apply (list_eq_dec N.eq_dec).
Defined.

(* ------------------------------------------------------------------------- *)
(* boolean memberships vs In                                                  *)

Lemma mem_In x l : mem x l = true <-> In x l.
Proof.
  induction l as [|y l IH]; cbn [mem In].
  - split; [discriminate|tauto].
  - rewrite orb_true_iff, IH, str_eqb_eq. split; intros [H|H]; auto.
Qed.

Lemma mem_false_In x l : mem x l = false <-> ~ In x l.
Proof.
  rewrite <- mem_In. destruct (mem x l); split; congruence.
Qed.

Lemma memN_In x l : memN x l = true <-> In x l.
Proof.
  induction l as [|y l IH]; cbn [memN In].
  - split; [discriminate|tauto].
  - rewrite orb_true_iff, IH, N.eqb_eq. split; intros [H|H]; auto.
Qed.

Lemma sess_eqb_eq a b : sess_eqb a b = true <-> a = b.
Proof.
  destruct a as [d s], b as [d' s']. unfold sess_eqb; cbn [fst snd].
  rewrite andb_true_iff, str_eqb_eq, N.eqb_eq. split.
  - intros [-> ->]; reflexivity.
  - intros H; injection H; auto.
Qed.

Lemma mem_sess_In x l : mem_sess x l = true <-> In x l.
Proof.
  induction l as [|y l IH]; cbn [mem_sess In].
  - split; [discriminate|tauto].
  - rewrite orb_true_iff, IH, sess_eqb_eq. split; intros [H|H]; auto.
Qed.

Lemma has_open_ex db l : has_open db l = true <-> exists s, In (db, s) l.
Proof.
  unfold has_open. rewrite existsb_exists. split.
  - intros [[d s] [Hin He]]. cbn [fst] in He. apply str_eqb_eq in He. subst d. eauto.
  - intros [s Hin]. exists (db, s). split; [exact Hin|]. cbn [fst]. apply str_eqb_refl.
Qed.

Lemma has_open_false db l : has_open db l = false <-> forall s, ~ In (db, s) l.
Proof.
  split.
  - intros H s Hin. assert (has_open db l = true) by (apply has_open_ex; eauto). congruence.
  - intros H. destruct (has_open db l) eqn:E; [|reflexivity].
    apply has_open_ex in E. destruct E as [s Hs]. destruct (H s Hs).
Qed.

Lemma remove_sess_In x y l : In y (remove_sess x l) -> In y l.
Proof.
  induction l as [|z l IH]; cbn [remove_sess In]; [tauto|].
  destruct (sess_eqb x z); cbn [In]; intuition.
Qed.

Lemma remove_sess_other x y l : In y l -> y <> x -> In y (remove_sess x l).
Proof.
  induction l as [|z l IH]; cbn [remove_sess In]; [tauto|].
  intros [H|H] Hne.
  - subst z. destruct (sess_eqb x y) eqn:E.
    + apply sess_eqb_eq in E. congruence.
    + left; reflexivity.
  - destruct (sess_eqb x z); [exact H|]. right. apply IH; assumption.
Qed.

Lemma remove_sess_NoDup x l : NoDup l -> NoDup (remove_sess x l) /\ ~ In x (remove_sess x l).
Proof.
  induction l as [|z l IH]; cbn [remove_sess]; intros Hnd.
  - split; [constructor|intros []].
  - inversion Hnd as [|z' l' Hz Hl]; subst.
    destruct (sess_eqb x z) eqn:E.
    + apply sess_eqb_eq in E. subst z. split; assumption.
    + destruct (IH Hl) as [IH1 IH2]. split.
      * constructor; [|exact IH1]. intros Hin. apply Hz. eapply remove_sess_In; exact Hin.
      * intros [Heq|Hin]; [|exact (IH2 Hin)].
        subst z. assert (sess_eqb x x = true) by (apply sess_eqb_eq; reflexivity). congruence.
Qed.

Lemma in_snoc {A} (x e : A) l : In x (l ++ [e]) <-> In x l \/ e = x.
Proof. rewrite in_app_iff. cbn [In]. tauto. Qed.

Lemma count_occ_snoc (tr : list pev) e x :
  count_occ pev_eq_dec (tr ++ [e]) x =
  (count_occ pev_eq_dec tr x + (if pev_eq_dec e x then 1 else 0))%nat.
Proof.
  rewrite count_occ_app. cbn [count_occ]. destruct (pev_eq_dec e x); reflexivity.
Qed.

Lemma filter_length_le {A} (f g : A -> bool) l :
  (forall x, f x = true -> g x = true) -> (length (filter f l) <= length (filter g l))%nat.
Proof.
  intros H. induction l as [|x l IH]; cbn [filter length]; [lia|].
  destruct (f x) eqn:E.
  - rewrite (H _ E). cbn [length]. lia.
  - destruct (g x); cbn [length]; lia.
Qed.

Lemma filter_snoc_length {A} (f : A -> bool) l x :
  (length (filter f (l ++ [x])) <= S (length (filter f l)))%nat.
Proof.
  rewrite filter_app, app_length. cbn [filter]. destruct (f x); cbn [length]; lia.
Qed.

(* ------------------------------------------------------------------------- *)
(* the invariant: automaton state vs the trace consumed so far                *)

Record Inv (pa : params) (tr : list pev) (st : pst) : Prop := mkInv {
  i_created : forall db, mem db (created st) = true <-> In (PCreate db) tr;
  i_sess : forall db s, In (db, s) (sessions st) -> In (PConnect db s) tr /\ ~ In (PClose db s) tr;
  i_conn : forall db s, In (PConnect db s) tr -> In (PClose db s) tr \/ In (db, s) (sessions st);
  i_seen : forall db s, In (PConnect db s) tr -> memN s (seen st) = true;
  i_close : forall db s, In (PClose db s) tr -> In (PConnect db s) tr;
  i_nodup : NoDup (sessions st);
  i_fin : forall db, mem db (finished st) = true ->
                     has_open db (sessions st) = false /\ mem db (closing st) = true;
  i_jobs : (length (inflight st) <= jobs pa)%nat;
  i_started : forall db, mem db (started st) = true <-> exists s, In (PConnect db s) tr;
  i_dropped : forall db, count_occ pev_eq_dec tr (PDrop db) = if mem db (dropped st) then 1%nat else 0%nat;
  i_kept : forall db, In (PDrop db) tr -> mem db (kept pa) = false;
  i_closed : closed_ st = true ->
             inflight st = [] /\
             forallb (fun db => mem db (dropped st) || mem db (kept pa)) (created st) = true
}.

Lemma Inv_init pa : Inv pa [] pst0.
Proof.
  constructor; cbn.
  - intros db; split; [discriminate|tauto].
  - tauto.
  - tauto.
  - tauto.
  - tauto.
  - constructor.
  - discriminate.
  - lia.
  - intros db; split; [discriminate|intros [s []]].
  - reflexivity.
  - tauto.
  - discriminate.
Qed.

Ltac pfields := unfold inflight; cbn [created sessions seen started closing finished dropped cancelled_ dropping closed_].

(* solves a field whose statement is insensitive to the new event [e] *)
Ltac irrelevant_count :=
  let db := fresh "db" in
  intros db; rewrite count_occ_snoc;
  match goal with |- context [pev_eq_dec ?a ?b] => destruct (pev_eq_dec a b) as [E|E]; [discriminate E|] end;
  rewrite Nat.add_0_r; auto.

(* an event that is none of create / connect / close / drop, and leaves the data fields alone *)
Lemma Inv_irr pa tr st e st2 :
  Inv pa tr st ->
  (forall db, e <> PCreate db) -> (forall db s, e <> PConnect db s) ->
  (forall db s, e <> PClose db s) -> (forall db, e <> PDrop db) ->
  created st2 = created st -> sessions st2 = sessions st -> seen st2 = seen st ->
  started st2 = started st -> closing st2 = closing st -> finished st2 = finished st ->
  dropped st2 = dropped st ->
  (closed_ st2 = true ->
     inflight st = [] /\
     forallb (fun db => mem db (dropped st) || mem db (kept pa)) (created st) = true) ->
  Inv pa (tr ++ [e]) st2.
Proof.
  intros I N1 N2 N3 N4 E1 E2 E3 E4 E5 E6 E7 Hc.
  destruct I as [Icr Ise Ico Isn Icl Ind Ifi Ijo Ist Idr Ike Icd].
  constructor; unfold inflight in *; rewrite ?E1, ?E2, ?E3, ?E4, ?E5, ?E6, ?E7.
  - intros db. rewrite in_snoc, Icr. split; [auto|]. intros [H|H]; [exact H|destruct (N1 _ H)].
  - intros db s H. destruct (Ise db s H) as [H1 H2]. rewrite !in_snoc. split; [auto|].
    intros [H3|H3]; [auto|destruct (N3 _ _ H3)].
  - intros db s. rewrite !in_snoc. intros [H|H]; [|destruct (N2 _ _ H)].
    destruct (Ico db s H); auto.
  - intros db s. rewrite !in_snoc. intros [H|H]; [|destruct (N2 _ _ H)]. eauto.
  - intros db s. rewrite !in_snoc. intros [H|H]; [|destruct (N3 _ _ H)]. eauto.
  - exact Ind.
  - exact Ifi.
  - exact Ijo.
  - intros db. rewrite Ist. split; intros [s H]; exists s; rewrite in_snoc in *; auto.
    destruct H as [H|H]; [exact H|destruct (N2 _ _ H)].
  - intros db. rewrite count_occ_snoc.
    destruct (pev_eq_dec e (PDrop db)) as [E|E]; [destruct (N4 _ E)|].
    rewrite Nat.add_0_r. apply Idr.
  - intros db. rewrite in_snoc. intros [H|H]; [|destruct (N4 _ H)]. auto.
  - exact Hc.
Qed.

Lemma Inv_step pa tr st e st' :
  Inv pa tr st -> pstep pa st e = Some st' -> Inv pa (tr ++ [e]) st'.
Proof.
  intros I Hs.
  destruct I as [Icr Ise Ico Isn Icl Ind Ifi Ijo Ist Idr Ike Icd].
  unfold pstep in Hs. unfold inflight in *.
  destruct (closed_ st) eqn:Gcl; [discriminate Hs|].
  destruct e as [d|d s|d s|d s| |d|].
  - (* PCreate d *)
    destruct (dropping st || mem d (created st)) eqn:G1; [discriminate Hs|].
    destruct (started st) eqn:Gs; [|discriminate Hs].
    injection Hs as <-.
    apply orb_false_iff in G1; destruct G1 as [Gd Gc].
    constructor; pfields.
    + intros db. rewrite mem_In, !in_snoc, <- mem_In, Icr.
      split; intros [H|H]; auto; right; congruence.
    + intros db s H. destruct (Ise db s H) as [H1 H2]. rewrite !in_snoc. split; [auto|].
      intros [H3|H3]; [auto|discriminate H3].
    + intros db s. rewrite !in_snoc. intros [H|H]; [|discriminate H].
      destruct (Ico db s H); auto.
    + intros db s. rewrite !in_snoc. intros [H|H]; [|discriminate H]. eauto.
    + intros db s. rewrite !in_snoc. intros [H|H]; [|discriminate H]. eauto.
    + exact Ind.
    + exact Ifi.
    + cbn [filter length]. lia.
    + intros db. rewrite Ist. split; intros [s H]; exists s; rewrite in_snoc in *; auto.
      destruct H as [H|H]; [exact H|discriminate H].
    + irrelevant_count.
    + intros db. rewrite in_snoc. intros [H|H]; [|discriminate H]. auto.
    + discriminate.
  - (* PConnect d s *)
    destruct (dropping st || negb (mem d (created st)) || mem d (closing st) || memN s (seen st)) eqn:G1;
      [discriminate Hs|].
    apply orb_false_iff in G1; destruct G1 as [G1 Gsn].
    apply orb_false_iff in G1; destruct G1 as [G1 Gclo].
    apply orb_false_iff in G1; destruct G1 as [Gd Gc].
    apply negb_false_iff in Gc.
    assert (Hfresh : forall db, ~ In (PConnect db s) tr).
    { intros db H. apply Isn in H. congruence. }
    assert (Common :
      forall st2,
        created st2 = created st -> sessions st2 = (d, s) :: sessions st -> seen st2 = s :: seen st ->
        closing st2 = closing st -> finished st2 = finished st -> dropped st2 = dropped st ->
        closed_ st2 = false ->
        (length (inflight st2) <= jobs pa)%nat ->
        (forall db, mem db (started st2) = true <-> mem db (started st) = true \/ d = db) ->
        Inv pa (tr ++ [PConnect d s]) st2).
    { intros st2 E1 E2 E3 E4 E5 E6 E7 Hj Hst.
      constructor; rewrite ?E1, ?E2, ?E3, ?E4, ?E5, ?E6, ?E7.
      + intros db. rewrite in_snoc, Icr. split; [auto|]. intros [H|H]; [exact H|discriminate H].
      + intros db s0 [H|H].
        * injection H as <- <-. rewrite !in_snoc. split; [right; reflexivity|].
          intros [H|H]; [|discriminate H]. apply Icl in H. exact (Hfresh _ H).
        * destruct (Ise db s0 H) as [H1 H2]. rewrite !in_snoc. split; [auto|].
          intros [H3|H3]; [auto|discriminate H3].
      + intros db s0. rewrite !in_snoc. intros [H|H].
        * destruct (Ico db s0 H); [auto|right; right; assumption].
        * injection H as <- <-. right; left; reflexivity.
      + intros db s0. rewrite in_snoc. cbn [memN]. intros [H|H].
        * rewrite (Isn db s0 H). apply orb_true_r.
        * injection H as <- <-. rewrite N.eqb_refl. reflexivity.
      + intros db s0. rewrite !in_snoc. intros [H|H]; [|discriminate H]. eauto.
      + constructor; [|exact Ind]. intros H. apply Ise in H. destruct H as [H _]. exact (Hfresh _ H).
      + intros db H. destruct (Ifi db H) as [H1 H2]. split; [|exact H2].
        unfold has_open in *. cbn [existsb fst]. rewrite H1, orb_false_r.
        destruct (str_eqb_spec d db) as [->|Hne]; [congruence|reflexivity].
      + exact Hj.
      + intros db. rewrite Hst, Ist. split.
        * intros [[s0 H]|H]; [exists s0; rewrite in_snoc; auto|].
          subst db. exists s. rewrite in_snoc. right; reflexivity.
        * intros [s0 H]. rewrite in_snoc in H. destruct H as [H|H]; [left; eauto|].
          injection H as <- <-. right; reflexivity.
      + irrelevant_count.
      + intros db. rewrite in_snoc. intros [H|H]; [|discriminate H]. auto.
      + discriminate. }
    destruct (mem d (started st)) eqn:Gst.
    + injection Hs as <-. apply Common; try reflexivity.
      * unfold inflight; pfields. exact Ijo.
      * pfields. intros db. split; [auto|]. intros [H|H]; [exact H|subst db; exact Gst].
    + destruct (cancelled_ st || negb (Nat.ltb (length (filter (fun db => negb (mem db (finished st))) (started st))) (jobs pa))) eqn:G2;
        [discriminate Hs|].
      apply orb_false_iff in G2; destruct G2 as [Gca Glt].
      apply negb_false_iff, Nat.ltb_lt in Glt.
      injection Hs as <-. apply Common; try reflexivity.
      * unfold inflight; pfields.
        pose proof (filter_snoc_length (fun db => negb (mem db (finished st))) (started st) d). lia.
      * pfields. intros db. rewrite !mem_In, in_snoc. tauto.
  - (* PSql d s *)
    destruct (mem_sess (d, s) (sessions st) && negb (mem d (closing st))); [|discriminate Hs].
    injection Hs as <-.
    apply (Inv_irr pa tr st (PSql d s) st); try reflexivity; try discriminate.
    + constructor; try assumption. rewrite Gcl; discriminate.
    + rewrite Gcl. discriminate.
  - (* PClose d s *)
    destruct (mem_sess (d, s) (sessions st)) eqn:Gm; [|discriminate Hs].
    injection Hs as <-.
    apply mem_sess_In in Gm.
    destruct (remove_sess_NoDup (d, s) _ Ind) as [Hnd Hnot].
    constructor; pfields.
    + intros db. rewrite in_snoc, Icr. split; [auto|]. intros [H|H]; [exact H|discriminate H].
    + intros db s0 H. pose proof (remove_sess_In _ _ _ H) as H0.
      destruct (Ise db s0 H0) as [H1 H2]. rewrite !in_snoc. split; [auto|].
      intros [H3|H3]; [auto|]. injection H3 as -> ->. exact (Hnot H).
    + intros db s0. rewrite !in_snoc. intros [H|H]; [|discriminate H].
      destruct (Ico db s0 H) as [H1|H1]; [auto|].
      destruct (sess_eqb (db, s0) (d, s)) eqn:E.
      * apply sess_eqb_eq in E. injection E as -> ->. left; right; reflexivity.
      * right. apply remove_sess_other; [exact H1|]. intros E2. apply sess_eqb_eq in E2. congruence.
    + intros db s0. rewrite !in_snoc. intros [H|H]; [|discriminate H]. eauto.
    + intros db s0. rewrite !in_snoc. intros [H|H]; [eauto|].
      injection H as <- <-. left. apply (Ise d s Gm).
    + exact Hnd.
    + assert (Hsub : forall db, has_open db (sessions st) = false ->
                                has_open db (remove_sess (d, s) (sessions st)) = false).
      { intros db H. rewrite has_open_false in *. intros s0 Hin. apply (H s0).
        eapply remove_sess_In; exact Hin. }
      assert (Hclo : forall db, mem db (closing st) = true ->
                                mem db (if mem d (closing st) then closing st else d :: closing st) = true).
      { intros db H. destruct (mem d (closing st)); [exact H|]. cbn [mem]. rewrite H. apply orb_true_r. }
      intros db H.
      destruct (has_open d (remove_sess (d, s) (sessions st))) eqn:Ho.
      * destruct (Ifi db H) as [H1 H2]. split; [apply Hsub; exact H1|apply Hclo; exact H2].
      * cbn [mem] in H. destruct (str_eqb_spec db d) as [->|Hne].
        -- split; [exact Ho|]. destruct (mem d (closing st)) eqn:Em; [exact Em|].
           cbn [mem]. rewrite str_eqb_refl. reflexivity.
        -- cbn [orb] in H. destruct (Ifi db H) as [H1 H2].
           split; [apply Hsub; exact H1|apply Hclo; exact H2].
    + eapply Nat.le_trans; [|exact Ijo]. apply filter_length_le.
      intros x. destruct (has_open d (remove_sess (d, s) (sessions st))); [auto|].
      cbn [mem]. rewrite !negb_true_iff. intros H. apply orb_false_iff in H. apply H.
    + intros db. rewrite Ist. split; intros [s0 H]; exists s0; rewrite in_snoc in *; auto.
      destruct H as [H|H]; [exact H|discriminate H].
    + irrelevant_count.
    + intros db. rewrite in_snoc. intros [H|H]; [|discriminate H]. auto.
    + discriminate.
  - (* PCancel *)
    injection Hs as <-.
    apply (Inv_irr pa tr st); try reflexivity; try discriminate.
    constructor; try assumption. rewrite Gcl; discriminate.
  - (* PDrop d *)
    destruct (filter (fun db => negb (mem db (finished st))) (started st)) eqn:Gin; [|discriminate Hs].
    destruct (negb (mem d (created st)) || mem d (dropped st) || mem d (kept pa)) eqn:G1; [discriminate Hs|].
    apply orb_false_iff in G1; destruct G1 as [G1 Gk].
    apply orb_false_iff in G1; destruct G1 as [Gc Gdr].
    injection Hs as <-.
    constructor; pfields; rewrite ?Gin.
    + intros db. rewrite in_snoc, Icr. split; [auto|]. intros [H|H]; [exact H|discriminate H].
    + intros db s H. destruct (Ise db s H) as [H1 H2]. rewrite !in_snoc. split; [auto|].
      intros [H3|H3]; [auto|discriminate H3].
    + intros db s. rewrite !in_snoc. intros [H|H]; [|discriminate H].
      destruct (Ico db s H); auto.
    + intros db s. rewrite !in_snoc. intros [H|H]; [|discriminate H]. eauto.
    + intros db s. rewrite !in_snoc. intros [H|H]; [|discriminate H]. eauto.
    + exact Ind.
    + exact Ifi.
    + exact Ijo.
    + intros db. rewrite Ist. split; intros [s H]; exists s; rewrite in_snoc in *; auto.
      destruct H as [H|H]; [exact H|discriminate H].
    + intros db. rewrite count_occ_snoc, Idr. cbn [mem].
      destruct (pev_eq_dec (PDrop d) (PDrop db)) as [E|E].
      * injection E as <-. rewrite Gdr, str_eqb_refl. reflexivity.
      * destruct (str_eqb_spec db d) as [->|Hne]; [congruence|].
        cbn [orb]. rewrite Nat.add_0_r. reflexivity.
    + intros db. rewrite in_snoc. intros [H|H]; [auto|]. injection H as <-. exact Gk.
    + discriminate.
  - (* PMgmtClose *)
    destruct (filter (fun db => negb (mem db (finished st))) (started st)) eqn:Gin; [|discriminate Hs].
    destruct (forallb (fun db => mem db (dropped st) || mem db (kept pa)) (created st)) eqn:Gall;
      [|discriminate Hs].
    injection Hs as <-.
    apply (Inv_irr pa tr st); try reflexivity; try discriminate.
    + constructor; unfold inflight; rewrite ?Gin; try assumption. rewrite Gcl; discriminate.
    + intros _. unfold inflight. rewrite Gin. split; [reflexivity|exact Gall].
Qed.

(* ------------------------------------------------------------------------- *)
(* the invariant holds of every reachable state                               *)

Lemma Inv_reach pa tr : forall st, prun pa pst0 tr = Some st -> Inv pa tr st.
Proof.
  induction tr as [|e tr IH] using rev_ind; intros st H.
  - cbn [prun] in H. injection H as <-. apply Inv_init.
  - apply prun_app in H. destruct H as [st1 [H1 H2]].
    cbn [prun] in H2. destruct (pstep pa st1 e) as [st2|] eqn:E; [|discriminate H2].
    injection H2 as <-. eapply Inv_step; [apply IH; exact H1|exact E].
Qed.

Lemma split_step pa pre e post st :
  prun pa pst0 (pre ++ e :: post) = Some st ->
  exists st1 st2, prun pa pst0 pre = Some st1 /\ pstep pa st1 e = Some st2 /\
                  prun pa st2 post = Some st /\ Inv pa pre st1.
Proof.
  intros H. apply prun_app in H. destruct H as [st1 [H1 H2]].
  cbn [prun] in H2. destruct (pstep pa st1 e) as [st2|] eqn:E; [|discriminate H2].
  exists st1, st2. split; [exact H1|]. split; [exact E|]. split; [exact H2|].
  apply Inv_reach; exact H1.
Qed.

(* guards, read off [pstep] *)

Lemma guard_connect pa st d s st2 :
  pstep pa st (PConnect d s) = Some st2 ->
  mem d (created st) = true /\ memN s (seen st) = false /\
  (cancelled_ st = true -> mem d (started st) = true).
Proof.
  unfold pstep. destruct (closed_ st); [discriminate|].
  destruct (dropping st || negb (mem d (created st)) || mem d (closing st) || memN s (seen st)) eqn:G1;
    [discriminate|].
  apply orb_false_iff in G1; destruct G1 as [G1 Gsn].
  apply orb_false_iff in G1; destruct G1 as [G1 Gclo].
  apply orb_false_iff in G1; destruct G1 as [Gd Gc].
  apply negb_false_iff in Gc. intros H. split; [exact Gc|split; [exact Gsn|]].
  intros Hc. destruct (mem d (started st)); [reflexivity|].
  rewrite Hc in H. cbn [orb] in H. discriminate H.
Qed.

Lemma guard_sql pa st d s st2 :
  pstep pa st (PSql d s) = Some st2 -> In (d, s) (sessions st).
Proof.
  unfold pstep. destruct (closed_ st); [discriminate|].
  destruct (mem_sess (d, s) (sessions st)) eqn:G; [|discriminate].
  intros _. apply mem_sess_In; exact G.
Qed.

Lemma guard_close pa st d s st2 :
  pstep pa st (PClose d s) = Some st2 -> In (d, s) (sessions st).
Proof.
  unfold pstep. destruct (closed_ st); [discriminate|].
  destruct (mem_sess (d, s) (sessions st)) eqn:G; [|discriminate].
  intros _. apply mem_sess_In; exact G.
Qed.

Lemma guard_drop pa st d st2 :
  pstep pa st (PDrop d) = Some st2 -> inflight st = [] /\ mem d (created st) = true.
Proof.
  unfold pstep. destruct (closed_ st); [discriminate|].
  destruct (inflight st); [|discriminate].
  destruct (negb (mem d (created st)) || mem d (dropped st) || mem d (kept pa)) eqn:G1; [discriminate|].
  apply orb_false_iff in G1; destruct G1 as [G1 Gk].
  apply orb_false_iff in G1; destruct G1 as [Gc Gdr].
  apply negb_false_iff in Gc. auto.
Qed.

(* a database with an open session belongs to a file in flight *)
Lemma open_inflight pa tr st db :
  Inv pa tr st -> has_open db (sessions st) = true -> In db (inflight st).
Proof.
  intros I H. pose proof H as H0. apply has_open_ex in H. destruct H as [s Hs].
  unfold inflight. apply filter_In. split.
  - apply mem_In. apply (i_started _ _ _ I). exists s. apply (i_sess _ _ _ I). exact Hs.
  - destruct (mem db (finished st)) eqn:E; [|reflexivity].
    apply (i_fin _ _ _ I) in E. destruct E as [E _]. congruence.
Qed.

(* ------------------------------------------------------------------------- *)
(* 1. a database is used only after it was created                            *)

Theorem create_before_use :
  forall pa pre e post st db s, prun pa pst0 (pre ++ e :: post) = Some st ->
    (e = PConnect db s \/ e = PSql db s \/ e = PDrop db) -> In (PCreate db) pre.
Proof.
  intros pa pre e post st db s H He.
  apply split_step in H. destruct H as [st1 [st2 [H1 [H2 [H3 I]]]]].
  apply (i_created _ _ _ I).
  destruct He as [-> | [-> | ->]].
  - apply guard_connect in H2. apply H2.
  - apply guard_sql in H2. apply (i_sess _ _ _ I) in H2. destruct H2 as [H2 _].
    (* the connect was itself accepted earlier, hence created; use the invariant on a prefix *)
    apply in_split in H2. destruct H2 as [l1 [l2 ->]].
    apply split_step in H1. destruct H1 as [sa [sb [Ha [Hb [Hc Ia]]]]].
    apply guard_connect in Hb. destruct Hb as [Hb _].
    apply (i_created _ _ _ Ia) in Hb. apply (i_created _ _ _ I).
    apply in_or_app. left; exact Hb.
  - apply guard_drop in H2. apply H2.
Qed.
Print Assumptions create_before_use.

(* ------------------------------------------------------------------------- *)
(* 2. exclusive use of sessions                                               *)

Theorem session_integrity :
  forall pa pre e post st db s, prun pa pst0 (pre ++ e :: post) = Some st ->
    (e = PSql db s \/ e = PClose db s) -> In (PConnect db s) pre /\ ~ In (PClose db s) pre.
Proof.
  intros pa pre e post st db s H He.
  apply split_step in H. destruct H as [st1 [st2 [H1 [H2 [H3 I]]]]].
  apply (i_sess _ _ _ I).
  destruct He as [-> | ->].
  - eapply guard_sql; exact H2.
  - eapply guard_close; exact H2.
Qed.
Print Assumptions session_integrity.

Theorem session_unique :
  forall pa pre post st db db' s, prun pa pst0 (pre ++ PConnect db s :: post) = Some st ->
    ~ In (PConnect db' s) pre.
Proof.
  intros pa pre post st db db' s H Hin.
  apply split_step in H. destruct H as [st1 [st2 [H1 [H2 [H3 I]]]]].
  apply guard_connect in H2. destruct H2 as [_ [H2 _]].
  apply (i_seen _ _ _ I) in Hin. congruence.
Qed.
Print Assumptions session_unique.

(* ------------------------------------------------------------------------- *)
(* 3. bounded concurrency                                                     *)

Theorem bounded_concurrency :
  forall pa tr st, prun pa pst0 tr = Some st ->
    (length (inflight st) <= jobs pa)%nat /\
    (forall db, has_open db (sessions st) = true -> In db (inflight st)).
Proof.
  intros pa tr st H. apply Inv_reach in H. split.
  - apply (i_jobs _ _ _ H).
  - intros db Hdb. eapply open_inflight; eassumption.
Qed.
Print Assumptions bounded_concurrency.

(* ------------------------------------------------------------------------- *)
(* 4. close before drop                                                       *)

Theorem close_before_drop :
  forall pa pre post st db, prun pa pst0 (pre ++ PDrop db :: post) = Some st ->
    forall s, In (PConnect db s) pre -> In (PClose db s) pre.
Proof.
  intros pa pre post st db H s Hin.
  apply split_step in H. destruct H as [st1 [st2 [H1 [H2 [H3 I]]]]].
  apply guard_drop in H2. destruct H2 as [Hfl _].
  destruct (i_conn _ _ _ I db s Hin) as [Hc|Ho]; [exact Hc|].
  assert (Hopen : has_open db (sessions st1) = true) by (apply has_open_ex; eauto).
  apply (open_inflight _ _ _ _ I) in Hopen. rewrite Hfl in Hopen. destruct Hopen.
Qed.
Print Assumptions close_before_drop.

(* ------------------------------------------------------------------------- *)
(* 7. everything is released at the end                                       *)

Lemma closed_sessions_nil pa tr st : Inv pa tr st -> closed_ st = true -> sessions st = [].
Proof.
  intros I Hc. destruct (i_closed _ _ _ I Hc) as [Hfl _].
  destruct (sessions st) as [|[d s] l] eqn:E; [reflexivity|].
  assert (Hopen : has_open d (sessions st) = true).
  { apply has_open_ex. exists s. rewrite E. left; reflexivity. }
  apply (open_inflight _ _ _ _ I) in Hopen. rewrite Hfl in Hopen. destruct Hopen.
Qed.

Theorem all_released :
  forall pa tr st, prun pa pst0 tr = Some st -> closed_ st = true ->
    sessions st = [] /\ forall db s, In (PConnect db s) tr -> In (PClose db s) tr.
Proof.
  intros pa tr st H Hc. apply Inv_reach in H.
  pose proof (closed_sessions_nil _ _ _ H Hc) as Hnil. split; [exact Hnil|].
  intros db s Hin. destruct (i_conn _ _ _ H db s Hin) as [Hcl|Ho]; [exact Hcl|].
  rewrite Hnil in Ho. destruct Ho.
Qed.
Print Assumptions all_released.

(* ------------------------------------------------------------------------- *)
(* 5. dropped exactly once unless kept                                        *)

Theorem dropped_exactly_once :
  forall pa tr st, prun pa pst0 tr = Some st -> closed_ st = true ->
    forall db, In (PCreate db) tr ->
      (mem db (kept pa) = true /\ ~ In (PDrop db) tr) \/
      (mem db (kept pa) = false /\ count_occ pev_eq_dec tr (PDrop db) = 1%nat).
Proof.
  intros pa tr st H Hc db Hin. apply Inv_reach in H.
  destruct (i_closed _ _ _ H Hc) as [_ Hall].
  rewrite forallb_forall in Hall.
  apply (i_created _ _ _ H) in Hin. apply mem_In in Hin. specialize (Hall db Hin).
  destruct (mem db (kept pa)) eqn:Ek.
  - left. split; [reflexivity|]. intros Hd. apply (i_kept _ _ _ H) in Hd. congruence.
  - right. split; [reflexivity|]. rewrite orb_false_r in Hall.
    rewrite (i_dropped _ _ _ H), Hall. reflexivity.
Qed.
Print Assumptions dropped_exactly_once.

(* ------------------------------------------------------------------------- *)
(* 6. no new file after cancellation                                          *)

Lemma cancelled_step pa st e st' :
  pstep pa st e = Some st' -> cancelled_ st = true ->
  cancelled_ st' = true /\ started st' = started st.
Proof.
  intros H Hc. unfold pstep in H.
  destruct (closed_ st); [discriminate H|].
  destruct e as [d|d s|d s|d s| |d|].
  - destruct (dropping st || mem d (created st)); [discriminate H|].
    destruct (started st) eqn:Es; [|discriminate H]. injection H as <-. cbn. auto.
  - destruct (dropping st || negb (mem d (created st)) || mem d (closing st) || memN s (seen st));
      [discriminate H|].
    destruct (mem d (started st)).
    + injection H as <-. cbn. auto.
    + rewrite Hc in H. cbn [orb] in H. discriminate H.
  - destruct (mem_sess (d, s) (sessions st) && negb (mem d (closing st))); [|discriminate H].
    injection H as <-. auto.
  - destruct (mem_sess (d, s) (sessions st)); [|discriminate H]. injection H as <-. cbn. auto.
  - injection H as <-. cbn. auto.
  - destruct (inflight st); [|discriminate H].
    destruct (negb (mem d (created st)) || mem d (dropped st) || mem d (kept pa)); [discriminate H|].
    injection H as <-. cbn. auto.
  - destruct (inflight st); [|discriminate H].
    destruct (forallb (fun db => mem db (dropped st) || mem db (kept pa)) (created st)); [|discriminate H].
    injection H as <-. cbn. auto.
Qed.

Lemma cancelled_run pa tr : forall st st',
  prun pa st tr = Some st' -> cancelled_ st = true ->
  cancelled_ st' = true /\ started st' = started st.
Proof.
  induction tr as [|e tr IH]; intros st st' H Hc; cbn [prun] in H.
  - injection H as <-. auto.
  - destruct (pstep pa st e) as [st2|] eqn:E; [|discriminate H].
    destruct (cancelled_step _ _ _ _ E Hc) as [H1 H2].
    destruct (IH _ _ H H1) as [H3 H4]. split; [exact H3|congruence].
Qed.

Theorem no_new_file_after_cancel :
  forall pa pre mid post st db s,
    prun pa pst0 (pre ++ PCancel :: mid ++ PConnect db s :: post) = Some st ->
    exists s', In (PConnect db s') pre.
Proof.
  intros pa pre mid post st db s H.
  apply split_step in H. destruct H as [st1 [st2 [H1 [H2 [H3 I]]]]].
  apply prun_app in H3. destruct H3 as [st3 [H3 H4]].
  cbn [prun] in H4. destruct (pstep pa st3 (PConnect db s)) as [st4|] eqn:E; [|discriminate H4].
  assert (Hc2 : cancelled_ st2 = true /\ started st2 = started st1).
  { unfold pstep in H2. destruct (closed_ st1); [discriminate H2|]. injection H2 as <-. cbn. auto. }
  destruct Hc2 as [Hc2 Hs2].
  destruct (cancelled_run _ _ _ _ H3 Hc2) as [Hc3 Hs3].
  apply guard_connect in E. destruct E as [_ [_ E]]. specialize (E Hc3).
  rewrite Hs3, Hs2 in E. apply (i_started _ _ _ I) in E. exact E.
Qed.
Print Assumptions no_new_file_after_cancel.

Print Assumptions prun_app.

(* ------------------------------------------------------------------------- *)
(* non-vacuity: a realistic two-file run with jobs = 1 and one kept database  *)

Example accepted_run :
  let a := lit "a" in let b := lit "b" in
  accepts (mkParams 1 [b])
    [PCreate a; PCreate b;
     PConnect a 1; PSql a 1; PConnect a 2; PSql a 2; PClose a 1; PClose a 2;
     PCancel;
     PDrop a; PMgmtClose] = true
  /\ accepts (mkParams 1 [])
    [PCreate a; PCreate b; PConnect a 1; PConnect b 2] = false   (* over the jobs bound *)
  /\ accepts (mkParams 2 [])
    [PCreate a; PConnect a 1; PDrop a] = false                   (* drop while in flight *)
  /\ accepts (mkParams 2 [])
    [PCreate a; PCancel; PConnect a 1] = false.                  (* new file after cancel *)
Proof. vm_compute. repeat split. Qed.
