(* RunnerBackground.v — `system` records whose command ends in '&' (background commands).

   Rust (Runner::apply_record, Record::System, after the skip check and the substitution):
     let is_background = command.trim().ends_with('&');
     if is_background { command = command.trim_end_matches('&').trim().to_string(); }
     ... if is_background { spawn, do not wait, no run_command hook;
                            return RecordOutput::System { error, stdout: None } }
   Model: [is_background], [strip_amps], [background_cmd] and the [EBackground] event of
   Runner.v.  Spawning is assumed to succeed (error = None). *)
From SLT Require Import TextProofs Runner Entry RetryProofs RunnerProofs.
Open Scope N_scope.

(* ------------------------------------------------------------------ the text functions *)
Lemma is_background_unfold c :
  is_background c = match frev (trim c) with x :: _ => x =? 38 | [] => false end.
Proof. reflexivity. Qed.

Lemma strip_amps_unfold c :
  strip_amps c = frev (drop_while (fun x => x =? 38) (frev c)).
Proof. reflexivity. Qed.

Lemma drop_while_app_not p (a : str) x b :
  (forall y, In y a -> p y = true) -> p x = false -> drop_while p (a ++ x :: b) = x :: b.
Proof.
  intros Ha Hx. induction a as [|y a IH]; cbn [app drop_while].
  - now rewrite Hx.
  - rewrite (Ha y (or_introl eq_refl)). apply IH. intros z Hz. apply Ha. now right.
Qed.

(* trim_end_matches('&'): every trailing '&' goes, and nothing else *)
Theorem strip_amps_spec s n :
  last s 0 <> 38 -> strip_amps (s ++ repeat 38 n) = s.
Proof.
  intros Hl. rewrite strip_amps_unfold, !frev_rev, rev_app_distr.
  destruct (rev s) as [|x r] eqn:E.
  - assert (Hs : s = []) by (rewrite <- (rev_involutive s), E; reflexivity). subst s.
    rewrite app_nil_r.
    assert (D : forall l, (forall y, In y l -> (y =? 38) = true) -> drop_while (fun x => x =? 38) l = []).
    { induction l as [|y l IH]; intros H; cbn [drop_while]; [reflexivity|].
      rewrite (H y (or_introl eq_refl)). apply IH. intros z Hz. apply H. now right. }
    rewrite D; [reflexivity|].
    intros y Hy. apply in_rev in Hy. apply repeat_spec in Hy. subst y. reflexivity.
  - assert (Hs : s = rev r ++ [x]) by (rewrite <- (rev_involutive s), E; reflexivity).
    rewrite Hs, last_last in Hl.
    rewrite drop_while_app_not.
    + rewrite <- E. apply rev_involutive.
    + intros y Hy. apply in_rev in Hy. apply repeat_spec in Hy. subst y. reflexivity.
    + apply N.eqb_neq. exact Hl.
Qed.

(* the quirk: a blank after the last '&' protects it *)
Theorem strip_amps_blocked s c :
  c <> 38 -> strip_amps (s ++ [c]) = s ++ [c].
Proof.
  intros Hc. rewrite <- (app_nil_r (s ++ [c])) at 1.
  change (@nil N) with (repeat 38 0). apply strip_amps_spec.
  rewrite last_last. exact Hc.
Qed.

(* ------------------------------------------------------------------ pinned values *)
Definition NBSP : N := 160.        (* U+00A0 *)
Definition IDSP : N := 12288.      (* U+3000 *)

Example bg_sleep :
  (is_background (lit "sleep 5 &"), background_cmd (lit "sleep 5 &")) = (true, lit "sleep 5").
Proof. vm_compute. reflexivity. Qed.

Example bg_two_amps :
  (is_background (lit "x &&"), background_cmd (lit "x &&")) = (true, lit "x").
Proof. vm_compute. reflexivity. Qed.

(* trim_end_matches sees the untrimmed text: nothing is stripped, bash gets "x &" *)
Example bg_quirk_trailing_blank :
  (is_background (lit "x & "), background_cmd (lit "x & ")) = (true, lit "x &").
Proof. vm_compute. reflexivity. Qed.

Example bg_inner_amp : is_background (lit "a & b") = false.
Proof. vm_compute. reflexivity. Qed.

Example bg_only_amp :
  (is_background (lit "&"), background_cmd (lit "&")) = (true, []).
Proof. vm_compute. reflexivity. Qed.

Example bg_empty : is_background [] = false /\ is_background (lit "  ") = false.
Proof. vm_compute. split; reflexivity. Qed.

(* str::trim is Unicode White_Space: U+00A0 / U+3000 after the '&' still give a background
   command, and (the quirk again) the '&' stays in the command *)
Example bg_unicode_trim :
  is_background (lit "x &" ++ [NBSP]) = true /\
  is_background (lit "x &" ++ [IDSP]) = true /\
  is_background ([NBSP] ++ lit "x &" ++ [IDSP; 32; NBSP]) = true /\
  background_cmd (lit "x &" ++ [NBSP]) = lit "x &" /\
  background_cmd (lit "x &" ++ [IDSP]) = lit "x &".
Proof. vm_compute. repeat split; reflexivity. Qed.

(* U+200B ZERO WIDTH SPACE is not White_Space: not trimmed, hence not a background command *)
Example bg_zwsp_not_trimmed : is_background (lit "x &" ++ [8203]) = false.
Proof. vm_compute. reflexivity. Qed.

(* ------------------------------------------------------------------ apply_record *)
Section Background.
  Variable substitute : bool -> list (str * str) -> str -> subres.
  Variable sc : script.

  Notation apply_record := (apply_record substitute sc).

  (* a skipped system record produces no event at all - neither ECmd nor EBackground - and no
     output, whatever its command.  This is C11_skipped_system_is_silent
     (RunnerProofs.skipped_system) verbatim: its statement has no premise on the command, so it
     already covers commands ending in '&'; restated here under the requested name. *)
  Theorem skipped_system_is_silent_bg st w l cs cmd ex r :
    should_skip (labels st) [] cs = true ->
    apply_record st w (RSystem l cs cmd ex r) = ([], st, w, ONothing).
  Proof. exact (skipped_system substitute sc st w l cs cmd ex r). Qed.

  (* the same, with the command spelled out as a background command *)
  Corollary skipped_background_system_no_event st w l cs cmd ex r :
    should_skip (labels st) [] cs = true ->
    is_background cmd = true ->
    forall ev st' w' o,
      apply_record st w (RSystem l cs cmd ex r) = (ev, st', w', o) ->
      ev = [] /\ o = ONothing /\ st' = st /\ w' = w /\ forall c, ~ In (EBackground c) ev.
  Proof.
    intros Hs _ ev st' w' o A. rewrite (skipped_system_is_silent_bg st w l cs cmd ex r Hs) in A.
    inversion A; subst. repeat split; try reflexivity. intros c [].
  Qed.

  (* a non-skipped background command: one EBackground event carrying the stripped command,
     the world (scripted shell answers, all call counters) and the runner state untouched,
     output "no stdout, no error" *)
  Theorem background_system_event st w l cs cmd ex r cmd' :
    should_skip (labels st) [] cs = false ->
    may_substitute substitute st false cmd = SubOk cmd' ->
    is_background cmd' = true ->
    apply_record st w (RSystem l cs cmd ex r) =
      ([EBackground (background_cmd cmd')], st, w, OSystem None false).
  Proof.
    intros Hs Hm Hb. cbn [Runner.apply_record]. rewrite Hs, Hm, Hb. reflexivity.
  Qed.

  (* when the command is not a background command the behaviour is what it was before the
     background case was modelled: exactly [ECmd cmd'], one answer of the scripted shell
     consumed (the one at index sys_calls w), only the sys_calls counter moves *)
  Theorem foreground_unchanged st w l cs cmd ex r cmd' :
    should_skip (labels st) [] cs = false ->
    may_substitute substitute st false cmd = SubOk cmd' ->
    is_background cmd' = false ->
    apply_record st w (RSystem l cs cmd ex r) =
      ([ECmd cmd'], st,
       mkWorld (calls w) (makes w) (next_conn w) (sys_calls w + 1) (per_conn w),
       apply_system ex (nth (N.to_nat (sys_calls w)) (sys_answers sc) (sys_default sc))).
  Proof.
    intros Hs Hm Hb. cbn [Runner.apply_record]. rewrite Hs, Hm, Hb. reflexivity.
  Qed.

  (* the judge on a background command: accepted iff no stdout is expected, or the expected
     stdout is empty (Rust: actual_stdout.unwrap_or_default()) *)
  Theorem background_system_verdict re g l cs cmd ex r :
    judge re g (RSystem l cs cmd ex r) (OSystem None false) =
      match ex with
      | None => Pass
      | Some e => if str_eqb e [] then Pass else Fail KStdoutMismatch
      end.
  Proof. destruct ex as [e|]; reflexivity. Qed.

  (* every event of a non-skipped, successfully substituted system record is one of the two *)
  Theorem system_event_cases st w l cs cmd ex r cmd' ev st' w' o :
    should_skip (labels st) [] cs = false ->
    may_substitute substitute st false cmd = SubOk cmd' ->
    apply_record st w (RSystem l cs cmd ex r) = (ev, st', w', o) ->
    (is_background cmd' = true /\ ev = [EBackground (background_cmd cmd')] /\ w' = w) \/
    (is_background cmd' = false /\ ev = [ECmd cmd'] /\ sys_calls w' = sys_calls w + 1).
  Proof.
    intros Hs Hm A. destruct (is_background cmd') eqn:Hb.
    - rewrite (background_system_event st w l cs cmd ex r cmd' Hs Hm Hb) in A.
      inversion A; subst. left. repeat split; reflexivity.
    - rewrite (foreground_unchanged st w l cs cmd ex r cmd' Hs Hm Hb) in A.
      inversion A; subst. right. repeat split; reflexivity.
  Qed.
End Background.

(* ------------------------------------------------------------------ a whole run (non-vacuity) *)
(* three records: a background command expecting nothing, a skipped background command, a
   foreground command.  The single scripted shell answer goes to the FOREGROUND command: the
   background one did not consume it, the skipped one left no trace. *)
Definition bg_st0 := mkRState (mkConfig None None 0 false) false [lit "mydb"] [] [].
Definition bg_sc := mkScript [] (AOut (DComplete 0)) [] [SysExit true (lit "hi")] SysSpawnErr [].
Definition bg_L n := Loc (lit "b.slt") n None.
Definition bg_recs :=
  [RSystem (bg_L 1) [] (lit "sleep 5 &") None None;
   RSystem (bg_L 4) [OnlyIf (lit "pg")] (lit "rm -rf x &") None None;
   RSystem (bg_L 7) [] (lit "echo hi") (Some (lit "hi")) None].

Example bg_run :
  run_multi_e (fun _ _ => false) (fun _ _ s => SubOk s) bg_sc bg_st0 world0 bg_recs =
    ([EBackground (lit "sleep 5"); ECmd (lit "echo hi")], bg_st0, mkWorld 0 0 0 1 [], Finished).
Proof. vm_compute. reflexivity. Qed.

(* a background command with a non-empty expected stdout fails with a stdout mismatch *)
Example bg_run_expected_stdout :
  run_multi_e (fun _ _ => false) (fun _ _ s => SubOk s) bg_sc bg_st0 world0
    [RSystem (bg_L 1) [] (lit "echo hi &") (Some (lit "hi")) None] =
    ([EBackground (lit "echo hi")], bg_st0, world0, Stopped (FErr KStdoutMismatch (bg_L 1))).
Proof. vm_compute. reflexivity. Qed.

(* the serialisation of the new event in the extracted dispatcher *)
Example bg_event_serialised :
  e_event (EBackground (lit "sleep 5")) = vtag "bg" [VS (lit "sleep 5")].
Proof. reflexivity. Qed.

Print Assumptions bg_run.
Print Assumptions bg_run_expected_stdout.
Print Assumptions bg_event_serialised.
Print Assumptions strip_amps_spec.
Print Assumptions strip_amps_blocked.
Print Assumptions bg_sleep.
Print Assumptions bg_two_amps.
Print Assumptions bg_quirk_trailing_blank.
Print Assumptions bg_inner_amp.
Print Assumptions bg_only_amp.
Print Assumptions bg_unicode_trim.
Print Assumptions skipped_system_is_silent_bg.
Print Assumptions skipped_background_system_no_event.
Print Assumptions background_system_event.
Print Assumptions foreground_unchanged.
Print Assumptions background_system_verdict.
Print Assumptions system_event_cases.

(* the statement used by Props/C11.v: an admitted system record runs exactly once, one way or the other *)
Lemma system_runs_once :
  forall substitute sc st w l cs cmd ex r cmd',
    should_skip (labels st) [] cs = false ->
    may_substitute substitute st false cmd = SubOk cmd' ->
    (is_background cmd' = false /\
     exists a w', apply_record substitute sc st w (RSystem l cs cmd ex r) = ([ECmd cmd'], st, w', apply_system ex a)
                  /\ sys_calls w' = (sys_calls w + 1)%N /\ calls w' = calls w) \/
    (is_background cmd' = true /\
     apply_record substitute sc st w (RSystem l cs cmd ex r) = ([EBackground (background_cmd cmd')], st, w, OSystem None false)).
Proof.
  intros substitute sc st w l cs cmd ex r cmd' Hs Hm.
  destruct (is_background cmd') eqn:Hb; [right | left]; split; try reflexivity.
  - exact (executed_system_bg substitute sc st w l cs cmd ex r cmd' Hs Hm Hb).
  - exact (executed_system substitute sc st w l cs cmd ex r cmd' Hs Hm Hb).
Qed.
