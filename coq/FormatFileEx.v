(* FormatFileEx.v — instances of FormatFile.v and UpdateTextFrame.v: the premises can be met
   (non-vacuity), and the D19 premise [dangling_end frs = false] of the per-file conclusion of
   `--format` cannot be dropped (witness through the driver). *)
From Coq Require Import String.
From SLT Require Import Base Text Syntax Duration Parser Render TextProofs RenderProofs
     Unparse FsTrim FsProofs FormatSpec FormatProofs Runner Update UpdateSpec UpdateProofs
     Include IncludeSpec IncludeProofs
     UpdateFile1 UpdateFile2 UpdateFile3 UpdateFile UpdateFs UpdateText UpdateText2 UpdateText3 UpdateText5
     UpdateText6 UpdateText7 UpdateText8 UpdateEndToEnd FormatFile UpdateTextFrame.
Open Scope N_scope.

(* ------------------------------------------------------------------ 1. `--format` on a tree *)
(* m.slt: a comment with trailing blanks, a statement, an include, a `halt`, a query AFTER the
   halt (written as parsed too), superfluous blank lines at the end; a.slt: a command with an
   expected stdout, three blank lines at the end. *)
Module FmtTree.
  Definition M : str := lit "m.slt".
  Definition A : str := lit "a.slt".
  Definition m_text : str :=
    src ["# c   "; "statement   ok"; "select 1"; ""; "include a.slt"; ""; "halt"; "";
         "query I"; "select 2"; "----"; "2"; ""; ""; ""]%string.
  Definition a_text : str := src ["system ok"; "echo x"; "----"; "x"; ""; ""; ""]%string.
  Definition fsx (f : str) : option fentry :=
    if str_eqb f M then Some (FFile m_text) else if str_eqb f A then Some (FFile a_text) else None.
  Definition glob1 (p : str) : globres := GOk [p].
  Definition rs : list record :=
    match parse_file default_col rvT fsx glob1 5 M with FOkR l => l | _ => [] end.

  Lemma tree_parses : parse_file default_col rvT fsx glob1 5 M = FOkR rs.
  Proof. vm_compute. reflexivity. Qed.

  Lemma fsx_no_cr : forall f s, fsx f = Some (FFile s) -> no_trailing_cr s.
  Proof.
    intros f s. unfold fsx. destruct (str_eqb f M).
    - intros H. inversion H; subst. unfold no_trailing_cr. vm_compute. repeat constructor; discriminate.
    - destruct (str_eqb f A); [|discriminate].
      intros H. inversion H; subst. unfold no_trailing_cr. vm_compute. repeat constructor; discriminate.
  Qed.

  (* what the two files hold afterwards *)
  Definition m_out : str :=
    src ["# c"; "statement ok"; "select 1"; ""; "include a.slt"; ""; "halt"; "";
         "query I"; "select 2"; "----"; "2"]%string.
  Definition a_out : str := src ["system ok"; "echo x"; "----"; "x"]%string.

  Lemma format_writes :
    update_loop rmF [9] false NV.no_subst NV.sc true rs [mkItem M []] false NV.st0 world0 [] [] []
      = UOk [(A, utf8 a_out); (M, utf8 m_out)] [] [].
  Proof. vm_compute. reflexivity. Qed.

  (* the theorem applies, and for the main file the conclusion is not vacuous: the records of
     m.slt do not end in a dangling empty SQL line *)
  Example format_file_end_to_end_instance :
    exists s up frs text R,
      fsx M = Some (FFile s) /\
      parse default_col rvT M up s = POk frs /\
      dangling_end frs = false /\
      utf8 m_out = utf8 text /\
      parse default_col rvT M None text = POk R /\
      meaning R = meaning frs /\
      update_loop rmF [9] false NV.no_subst NV.sc true R [mkItem M []] false NV.st0 world0 [] [] []
        = UOk [(M, utf8 m_out)] [] [].
  Proof.
    destruct (format_file_end_to_end_written default_col rvT rmF [9] false NV.no_subst NV.sc
                fsx glob1 5 M rs NV.st0 world0 _ _ _ default_col_stable fsx_no_cr tree_parses
                format_writes) as (_ & _ & Hall).
    destruct (Hall M (utf8 m_out)) as (s & up & frs & Hf & Hp & _ & Hfix); [right; left; reflexivity|].
    assert (Hs : s = m_text) by (vm_compute in Hf; inversion Hf; reflexivity). subst s.
    assert (Hend : dangling_end frs = false).
    { assert (Hup : forall u, dangling_end
                (match parse default_col rvT M u m_text with POk l => l | _ => [] end) = false).
      { intros u. vm_compute. reflexivity. }
      specialize (Hup up). rewrite Hp in Hup. exact Hup. }
    destruct (Hfix Hend M None) as (text & R & Hb & HpR & Hm & Hagain).
    exists m_text, up, frs, text, R. repeat split; try assumption. apply Hagain.
  Qed.
End FmtTree.
Print Assumptions FmtTree.format_file_end_to_end_instance.

(* ------------------------------------------------------------------ 2. D19 through `--format` *)
(* The premise [dangling_end frs = false] is needed.  A file that ends with a statement whose SQL
   block is the empty line parses; `--format` completes (UOk), writes `statement ok` + LF, and
   that file no longer parses: UnexpectedEOF.  Every premise of format_file_single holds. *)
Example format_dangling_does_not_reparse :
  exists rs bytes,
    no_trailing_cr dangling_src /\
    parse default_col rvT F None dangling_src = POk rs /\
    dangling_end rs = true /\
    update_loop rmF [9] false NV.no_subst NV.sc true rs [mkItem F []] false NV.st0 world0 [] [] []
      = UOk [(F, bytes)] [] [] /\
    bytes = utf8 (src ["statement ok"]%string) /\
    parse default_col rvT F None (src ["statement ok"]%string) = PErr PUnexpectedEOF 2.
Proof.
  eexists _, _. split.
  { unfold no_trailing_cr. vm_compute. repeat constructor; discriminate. }
  split; [vm_compute; reflexivity|]. split; [vm_compute; reflexivity|].
  split; [vm_compute; reflexivity|]. split; vm_compute; reflexivity.
Qed.
Print Assumptions format_dangling_does_not_reparse.

(* ------------------------------------------------------------------ 3. the text frame of `--override` *)
(* UpdateText8.NV: a comment, a statement that fails, a query with a wrong expectation, a command
   with a stale expected stdout.  All premises of update_text_frame hold; the meaning changes
   (so the "same_but_expectation" alternative is used) while the comment block is kept. *)
Example update_text_frame_instance :
  exists written ev kn text R,
    update_loop rmF [9] false NV.no_subst NV.sc false NV.rs [mkItem F []] false NV.st0 world0 [] [] []
      = UOk written ev kn /\
    written = [(F, utf8 text)] /\
    parse default_col rvT F None text = POk R /\
    Forall2 (text_frame_rel rmF [9] false) (meaning_o NV.rs NV.outs) (meaning R) /\
    Forall2 (fun a b => b = a \/ same_but_expectation a b) (meaning NV.rs) (meaning R) /\
    length (meaning R) = 4%nat /\
    meaning R <> meaning NV.rs /\
    hd RNewline (meaning R) = hd RNewline (meaning NV.rs).
Proof.
  destruct (update_loop rmF [9] false NV.no_subst NV.sc false NV.rs [mkItem F []] false NV.st0 world0 [] [] [])
    as [written ev kn|] eqn:HU; [|vm_compute in HU; discriminate HU].
  destruct (update_text_frame default_col rvT rmF [9] false NV.no_subst NV.sc default_col_stable
              rvT_escape_valid F None F NV.rs NV.st0 world0 written ev kn NV.rs_parsed_ok HU NV.outs_repr)
    as (text & R & H1 & H2 & _ & H4 & H5 & _ & _); [vm_compute; reflexivity|].
  fold NV.outs in H4.
  exists written, ev, kn, text, R. split; [reflexivity|]. split; [exact H1|]. split; [exact H2|].
  split; [exact H4|]. split; [exact H5|].
  (* the three claims follow from the Forall2 with the computed original meaning *)
  assert (Hlen : length (meaning R) = 4%nat).
  { apply Forall2_length in H5. rewrite <- H5. vm_compute. reflexivity. }
  split; [exact Hlen|].
  remember (meaning R) as X eqn:EX.
  remember (meaning_o NV.rs NV.outs) as MO eqn:EMO. vm_compute in EMO. subst MO.
  inversion H4 as [|p0 b0 l0 m0 Hr0 Hrest0]; subst.
  inversion Hrest0 as [|p1 b1 l1 m1 Hr1 Hrest1]; subst.
  destruct Hr0 as (_ & Hkeep & _). destruct Hr1 as (_ & _ & Hnew).
  cbn [fst snd] in Hkeep, Hnew.
  pose proof (Hkeep eq_refl) as Hb0.
  pose proof (Hnew _ eq_refl) as Hb1.
  split.
  - (* the statement now expects the error *)
    intros Heq. remember (meaning NV.rs) as MR eqn:EMR. vm_compute in EMR. subst MR.
    inversion Heq as [[Hx0 Hx1 Hx2]]. rewrite Hb1 in Hx1. vm_compute in Hx1. discriminate Hx1.
  - (* the comment block is kept *)
    cbn [hd]. rewrite Hb0. vm_compute. reflexivity.
Qed.
Print Assumptions update_text_frame_instance.
