(* DriverTrans.v — the transitions of Driver.dstep as an inductive relation (one constructor per
   branch of the code), proved complete for the function: every proof about the driver model
   is then a case analysis on [trans] / [ttrans] instead of on the nested matches. *)
From SLT Require Import Base Par Cli ParProofs Driver.
Open Scope N_scope.

(* ---- list update ---- *)
Lemma upd_length {A} i (x : A) l : length (upd i x l) = length l.
Proof. revert i; induction l as [|y l IH]; intros [|i]; cbn [upd length]; auto. Qed.

Lemma nth_error_upd_eq {A} i (x y : A) l : nth_error l i = Some y -> nth_error (upd i x l) i = Some x.
Proof.
  revert i; induction l as [|z l IH]; intros [|i]; cbn [upd nth_error]; try discriminate; auto.
Qed.

Lemma nth_error_upd_ne {A} i j (x : A) l : i <> j -> nth_error (upd i x l) j = nth_error l j.
Proof.
  revert i j; induction l as [|z l IH]; intros [|i] [|j] H; cbn [upd nth_error]; auto; try congruence.
Qed.

Lemma nth_error_upd {A} i j (x y z : A) l :
  nth_error l i = Some y -> nth_error (upd i x l) j = Some z ->
  (i = j /\ z = x) \/ (i <> j /\ nth_error l j = Some z).
Proof.
  intros H1 H2. destruct (Nat.eq_dec i j) as [E|E].
  - subst j. rewrite (nth_error_upd_eq _ _ _ _ H1) in H2. injection H2 as <-. auto.
  - rewrite nth_error_upd_ne in H2 by exact E. auto.
Qed.

Lemma map_fst_upd {A B} i (f : A) (t t' : B) l :
  nth_error l i = Some (f, t) -> map fst (upd i (f, t') l) = map fst l.
Proof.
  revert i; induction l as [|[g u] l IH]; intros [|i]; cbn [upd nth_error map fst]; try discriminate.
  - intros H; injection H as -> ->. reflexivity.
  - intros H. f_equal. apply IH; exact H.
Qed.

Lemma filter_upd_length {A} (g : A -> bool) i x y l : nth_error l i = Some y ->
  (length (filter g (upd i x l)) + (if g y then 1 else 0) = length (filter g l) + (if g x then 1 else 0))%nat.
Proof.
  revert i; induction l as [|z l IH]; intros [|i]; cbn [upd nth_error filter]; try discriminate.
  - intros H; injection H as ->. destruct (g x), (g y); cbn [length]; lia.
  - intros H. specialize (IH _ H). destruct (g z); cbn [length]; lia.
Qed.

Lemma forallb_nth {A} (g : A -> bool) l i x : forallb g l = true -> nth_error l i = Some x -> g x = true.
Proof.
  intros H1 H2. rewrite forallb_forall in H1. apply H1. eapply nth_error_In; exact H2.
Qed.

Lemma forallb_upd {A} (g : A -> bool) l i x : forallb g l = true -> g x = true -> forallb g (upd i x l) = true.
Proof.
  revert i; induction l as [|z l IH]; intros [|i]; cbn [upd forallb]; auto; rewrite !andb_true_iff; intros [H1 H2] H3; auto.
Qed.

Lemma first_idle_spec l i : first_idle l = Some i -> exists f, nth_error l i = Some (f, TIdle).
Proof.
  revert i; induction l as [|[f t] l IH]; intros i; cbn [first_idle]; [discriminate|].
  destruct t; cbn [is_idle];
    try (destruct (first_idle l) as [j|]; cbn [option_map]; [|discriminate];
         intros H; injection H as <-; cbn [nth_error]; apply IH; reflexivity).
  intros H; injection H as <-. exists f. reflexivity.
Qed.

(* ---- task transitions ---- *)
Inductive ttrans (f : fcfg) (token noread : bool) (next : N) : tstate -> tstate -> list pev -> N -> Prop :=
| tt_same t : ttrans f token noread next t t [] next
| tt_skipwait : token = true -> ttrans f token noread next TSpawned TWaitSkip [] next
| tt_start : token = false -> ttrans f token noread next TSpawned (TRunning (f_script f) []) [] next
| tt_skipped : noread = true -> ttrans f token noread next TWaitSkip (TDone RSkipped false) [] next
| tt_cancel rest conns : token = true ->
    ttrans f token noread next (TRunning rest conns) (TClosing RCancelled (map snd conns) (negb (is_nil conns))) [] next
| tt_ok conns : token = false ->
    ttrans f token noread next (TRunning [] conns) (TClosing ROk (map snd conns) (negb (is_nil conns))) [] next
| tt_fail r conns : token = false ->
    ttrans f token noread next (TRunning (AFail :: r) conns) (TClosing (RErr (f_refused f)) (map snd conns) (negb (is_nil conns))) [] next
| tt_connect c r conns : token = false ->
    ttrans f token noread next (TRunning (AConnect c :: r) conns) (TRunning r ((c, next) :: conns)) [PConnect (f_db f) next] (next + 1)
| tt_sql c ok r conns s : token = false -> lookupN c conns = Some s ->
    ttrans f token noread next (TRunning (ASql c ok :: r) conns) (TRunning (if ok then r else AFail :: r) conns) [PSql (f_db f) s] next
| tt_sql_none c ok r conns : token = false -> lookupN c conns = None ->
    ttrans f token noread next (TRunning (ASql c ok :: r) conns) (TRunning r conns) [] next
| tt_closed r had : ttrans f token noread next (TClosing r [] had) (TDone r had) [] next
| tt_close r open had s : In s open ->
    ttrans f token noread next (TClosing r open had) (TClosing r (removeN s open) had) [PClose (f_db f) s] next.

Lemma task_step_ttrans f token noread next k t t' evs next' :
  task_step f token noread next k t = (t', evs, next') -> ttrans f token noread next t t' evs next'.
Proof.
  unfold task_step. destruct t as [| | |rest conns|r open had|r had|had]; intros H.
  - injection H as <- <- <-. constructor.
  - destruct token eqn:T; injection H as <- <- <-; constructor; reflexivity.
  - destruct noread eqn:R; injection H as <- <- <-; constructor; reflexivity.
  - destruct token eqn:T; [injection H as <- <- <-; constructor; reflexivity|].
    destruct rest as [|[c|c ok|] r].
    + injection H as <- <- <-; constructor; reflexivity.
    + injection H as <- <- <-; constructor; reflexivity.
    + destruct (lookupN c conns) as [s|] eqn:L.
      * injection H as <- <- <-; econstructor; eauto.
      * injection H as <- <- <-; constructor; auto.
    + injection H as <- <- <-; constructor; reflexivity.
  - destruct open as [|s0 o].
    + injection H as <- <- <-; constructor.
    + injection H as <- <- <-.
      apply (tt_close f token noread next r (s0 :: o) had (nth k (s0 :: o) s0)).
      destruct (Nat.lt_ge_cases k (length (s0 :: o))) as [L|L].
      * apply nth_In; exact L.
      * rewrite nth_overflow by exact L. left; reflexivity.
  - injection H as <- <- <-. constructor.
  - injection H as <- <- <-. constructor.
Qed.

(* ---- transitions of the whole system ---- *)
Definition all_tasks (P : tstate -> bool) (l : list (fcfg * tstate)) : bool := forallb (fun p => P (snd p)) l.

Definition report_result (cf : cfg) (st : dst) (i : nat) (f : fcfg) (r : fresult) (had : bool) : dst * list pev :=
  let tasks' := upd i (f, TReported had) (d_tasks st) in
  let rep' := d_reported st ++ [(f_db f, r)] in
  match r with
  | RErr rf =>
      let refused' := d_refused st || rf in
      let cancel := c_ff cf || refused' in
      (mkDst DStream tasks' (d_token st || cancel) (d_ctrlc st) (f_db f :: d_failed_db st) refused' rep' (d_next st),
       if cancel then [PCancel] else [])
  | _ => (mkDst DStream tasks' (d_token st) (d_ctrlc st) (d_failed_db st) (d_refused st) rep' (d_next st), [])
  end.

Inductive trans (cf : cfg) (st : dst) : dst -> list pev -> Prop :=
| t_stutter : trans cf st st []
| t_create_done : d_phase st = DCreate [] -> trans cf st (set_phase st DStream) []
| t_create db todo : d_phase st = DCreate (db :: todo) -> trans cf st (set_phase st (DCreate todo)) [PCreate db]
| t_spawn i f : d_phase st = DStream -> (n_active (d_tasks st) < c_jobs cf)%nat ->
    nth_error (d_tasks st) i = Some (f, TIdle) ->
    trans cf st (set_tasks st (upd i (f, TSpawned) (d_tasks st)) (d_next st)) []
| t_stream_done : d_phase st = DStream -> all_tasks is_reported (d_tasks st) = true ->
    trans cf st (set_phase st (if d_refused st then DClose else DDrop (dbs_of cf))) []
| t_drop_done : d_phase st = DDrop [] -> trans cf st (set_phase st DClose) []
| t_drop_skip db todo : d_phase st = DDrop (db :: todo) -> c_keep cf && mem db (d_failed_db st) = true ->
    trans cf st (set_phase st (DDrop todo)) []
| t_drop db todo : d_phase st = DDrop (db :: todo) -> c_keep cf && mem db (d_failed_db st) = false ->
    trans cf st (set_phase st (DDrop todo)) [PDrop db]
| t_mgmt : d_phase st = DClose -> trans cf st (set_phase st DEnd) [PMgmtClose]
| t_task i f t t' evs next' : d_phase st = DStream -> nth_error (d_tasks st) i = Some (f, t) ->
    ttrans f (d_token st) (no_readers (d_tasks st)) (d_next st) t t' evs next' ->
    trans cf st (set_tasks st (upd i (f, t') (d_tasks st)) next') evs
| t_report i f r had : d_phase st = DStream -> nth_error (d_tasks st) i = Some (f, TDone r had) ->
    trans cf st (fst (report_result cf st i f r had)) (snd (report_result cf st i f r had))
| t_ctrlc : d_phase st <> DEnd ->
    trans cf st (mkDst (d_phase st) (d_tasks st) true true (d_failed_db st) (d_refused st) (d_reported st) (d_next st)) [PCancel].

Lemma dstep_trans cf st c st' evs : dstep cf st c = (st', evs) -> trans cf st st' evs.
Proof.
  destruct c as [|i k|i|]; cbn [dstep].
  - unfold driver_step. destruct (d_phase st) as [[|db todo]| |[|db todo]| |] eqn:P; intros H.
    + injection H as <- <-. apply t_create_done; exact P.
    + injection H as <- <-. apply t_create; exact P.
    + destruct (Nat.ltb (n_active (d_tasks st)) (c_jobs cf)) eqn:L.
      * destruct (first_idle (d_tasks st)) as [i|] eqn:F.
        -- destruct (first_idle_spec _ _ F) as [f Hf]. rewrite Hf in H. injection H as <- <-.
           apply t_spawn; auto. apply Nat.ltb_lt; exact L.
        -- destruct (forallb _ _) eqn:A; injection H as <- <-; [apply t_stream_done; assumption|constructor].
      * destruct (forallb _ _) eqn:A; injection H as <- <-; [apply t_stream_done; assumption|constructor].
    + injection H as <- <-. apply t_drop_done; exact P.
    + destruct (c_keep cf && mem db (d_failed_db st)) eqn:Kp; injection H as <- <-.
      * eapply t_drop_skip; eauto.
      * eapply t_drop; eauto.
    + injection H as <- <-. apply t_mgmt; exact P.
    + injection H as <- <-. constructor.
  - destruct (d_phase st) eqn:P; try (intros H; injection H as <- <-; constructor).
    destruct (nth_error (d_tasks st) i) as [[f t]|] eqn:Nt; [|intros H; injection H as <- <-; constructor].
    destruct (task_step f (d_token st) (no_readers (d_tasks st)) (d_next st) k t) as [[t' ev] nx] eqn:Ts.
    intros H; injection H as <- <-. eapply t_task; eauto. eapply task_step_ttrans; eauto.
  - unfold report_step. destruct (d_phase st) eqn:P; try (intros H; injection H as <- <-; constructor).
    destruct (nth_error (d_tasks st) i) as [[f t]|] eqn:Nt; [|intros H; injection H as <- <-; constructor].
    destruct t as [| | |rest conns|r open had|r had|had]; try (intros H; injection H as <- <-; constructor).
    intros H.
    pose proof (t_report cf st i f r had P Nt) as T. unfold report_result in T.
    destruct r; cbn [fst snd] in T; injection H as <- <-; exact T.
  - destruct (d_phase st) eqn:P; intros H; injection H as <- <-;
      try (rewrite <- P; apply t_ctrlc; rewrite P; discriminate).
    constructor.
Qed.

(* runs as iterated transitions *)
Inductive reach (cf : cfg) : dst -> dst -> list pev -> Prop :=
| reach_nil st : reach cf st st []
| reach_cons st st1 st2 e1 e2 : trans cf st st1 e1 -> reach cf st1 st2 e2 -> reach cf st st2 (e1 ++ e2).

Lemma drun_reach cf sched : forall st st' tr, drun cf st sched = (st', tr) -> reach cf st st' tr.
Proof.
  induction sched as [|c r IH]; intros st st' tr; cbn [drun].
  - intros H; injection H as <- <-. constructor.
  - destruct (dstep cf st c) as [st1 e1] eqn:S. destruct (drun cf st1 r) as [st2 e2] eqn:R.
    intros H; injection H as <- <-. econstructor; [eapply dstep_trans; eauto|apply IH; exact R].
Qed.
