(* Extract.v — extraction of the executable model to OCaml.  Only ExtrOcamlBasic
   is used (its Extract Inductive for bool, option, unit, list, prod, sumbool,
   sumor and the inlining it declares); N, positive, nat stay the extracted
   inductive types; there is no Extract Constant. *)
From Coq Require Import Extraction ExtrOcamlBasic.
From SLT Require Import Entry.
Extraction Language OCaml.
Extraction "model.ml" model_main.
