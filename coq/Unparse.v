(* Unparse.v — L2 model of `impl Display for Record` (parser.rs:214-423) and of the way the
   CLI / update_test_file write records to a file (one writeln! per record, then the
   trailing-newline trimmer of override_with_outfile, modelled in FsTrim below). *)
From SLT Require Export Syntax Duration.
Open Scope N_scope.

Definition sp : str := [32].
Definition nl1 : str := [10].

(* parser.rs format_duration: humantime's rendering with the blanks removed (one token) *)
Definition compact_duration (d : N) : str := filter (fun c => negb (c =? 32)) (format_duration d).

Definition retry_text (r : option retry) : str :=
  match r with
  | None => []
  | Some c => lit " retry " ++ dec (attempts c) ++ lit " backoff " ++ compact_duration (backoff c)
  end.

(* ExpectedError::fmt_inline *)
Definition fmt_inline (e : experr) : str :=
  lit "error" ++ match e with EInline re => sp ++ re | _ => [] end.

(* the trimmed text followed by a line feed; nothing for an empty text *)
Definition multi_body (t : str) : str := match trim t with [] => [] | x => x ++ nl1 end.

(* ExpectedError::fmt_multiline *)
Definition fmt_multiline (e : experr) : str :=
  match e with
  | EMulti t => lit "----" ++ nl1 ++ multi_body t ++ nl1
  | _ => []
  end.

Definition sort_text (m : sortmode) : str :=
  match m with NoSort => lit "nosort" | RowSort => lit "rowsort" | ValueSort => lit "valuesort" end.

(* None = the Display impl panics (injected records) *)
Definition display (r : record) : option str :=
  match r with
  | RInclude _ f => Some (lit "include " ++ f)
  | RStatement _ _ _ sql e rt =>
      Some (lit "statement " ++
            (match e with
             | SOk => lit "ok"
             | SCount n => lit "count " ++ dec n
             | SError x => fmt_inline x
             end) ++ retry_text rt ++ nl1 ++ sql ++ nl1 ++
            (match e with SError x => fmt_multiline x | _ => [] end))
  | RQuery _ _ _ sql e rt =>
      Some (lit "query " ++
            (match e with
             | QResults types s lb _ =>
                 types ++ (match s with Some m => sp ++ sort_text m | None => [] end)
                       ++ (match lb with Some l => sp ++ l | None => [] end)
             | QError x => fmt_inline x
             end) ++ retry_text rt ++ nl1 ++ sql ++ nl1 ++
            (match e with
             | QResults _ _ _ res => lit "----" ++ concat (map (fun l => nl1 ++ l) res) ++ nl1
             | QError x => fmt_multiline x
             end))
  | RSystem _ _ cmd out rt =>
      Some (lit "system ok" ++ retry_text rt ++ nl1 ++ cmd ++ nl1 ++
            (match out with
             | Some t => lit "----" ++ nl1 ++ multi_body t ++ nl1
             | None => []
             end))
  | RSleep _ d => Some (lit "sleep " ++ compact_duration d)
  | RSubtest _ x => Some (lit "subtest " ++ x)
  | RHalt _ => Some (lit "halt")
  | RControl (CtlSortMode m) => Some (lit "control sortmode " ++ sort_text m)
  | RControl (CtlResultMode RowWise) => Some (lit "control resultmode rowwise")
  | RControl (CtlResultMode ValueWise) => Some (lit "control resultmode valuewise")
  | RControl (CtlSubstitution true) => Some (lit "control substitution on")
  | RControl (CtlSubstitution false) => Some (lit "control substitution off")
  | RHashThreshold _ n => Some (lit "hash-threshold " ++ dec n)
  | RCondition (OnlyIf l) => Some (lit "onlyif " ++ l)
  | RCondition (SkipIf l) => Some (lit "skipif " ++ l)
  | RConnection CDefault => Some (lit "connection default")
  | RConnection (CNamed x) => Some (lit "connection " ++ x)
  | RComment ls => Some (join nl1 (map (fun l => 35 :: trim_end l) ls))
  | RNewline => Some []
  | RBeginInclude _ | REndInclude _ => None
  end.

(* one writeln!("{record}") per record *)
Fixpoint write_records (rs : list record) : option str :=
  match rs with
  | [] => Some []
  | r :: rest =>
      match display r, write_records rest with
      | Some a, Some b => Some (a ++ nl1 ++ b)
      | _, _ => None
      end
  end.
