(* SubstProofs.v — proofs for C13: the model of the `subst` crate (Subst.v) meets the
   documented expansion (SubstSpec.v). *)
From SLT Require Import Base Text Subst SubstSpec.
Open Scope N_scope.

(* ------------------------------------------------------------------------- *)
(* 2. lookup order                                                            *)
(* ------------------------------------------------------------------------- *)

Theorem var_lookup_order :
  forall env locals k,
    var_lookup env locals k =
      if str_eqb k (lit "__TEST_DIR__") then Some TESTDIR
      else if str_eqb k (lit "__NOW__") then Some NOW
      else match assoc_str k locals with Some v => Some v | None => env k end.
Proof. intros env locals k. reflexivity. Qed.
Print Assumptions var_lookup_order.

Theorem locals_shadow_env :
  forall env locals k v, k <> lit "__TEST_DIR__" -> k <> lit "__NOW__" ->
    assoc_str k locals = Some v -> var_lookup env locals k = Some v.
Proof.
  intros env locals k v Hk1 Hk2 Hassoc. unfold var_lookup.
  destruct (str_eqb_spec k (lit "__TEST_DIR__")) as [E1|_]; [contradiction|].
  destruct (str_eqb_spec k (lit "__NOW__")) as [E2|_]; [contradiction|].
  rewrite Hassoc. reflexivity.
Qed.
Print Assumptions locals_shadow_env.

(* ------------------------------------------------------------------------- *)
(* 3. values are inserted verbatim                                            *)
(* ------------------------------------------------------------------------- *)

Theorem value_verbatim :
  forall lookup n v rest x, lookup n = Some v -> expand_spec lookup rest = inr x ->
    expand_spec lookup (TBrace n rest) = inr (v ++ x) /\ expand_spec lookup (TBare n rest) = inr (v ++ x).
Proof.
  intros lookup n v rest x Hl Hr. cbn [expand_spec]. rewrite Hl, Hr. split; reflexivity.
Qed.
Print Assumptions value_verbatim.

(* ------------------------------------------------------------------------- *)
(* take_while                                                                 *)
(* ------------------------------------------------------------------------- *)

Definition stops (p : N -> bool) (rest : str) : Prop :=
  match rest with [] => True | c :: _ => p c = false end.

Lemma take_while_app :
  forall p l rest, Forall (fun c => p c = true) l -> stops p rest ->
    take_while p (l ++ rest) = (l, rest).
Proof.
  intros p l rest Hl Hstop. induction Hl as [|c l Hc Hl IH].
  - cbn [app]. destruct rest as [|c r]; [reflexivity|].
    cbn [take_while]. cbn [stops] in Hstop. rewrite Hstop. reflexivity.
  - cbn [app take_while]. rewrite Hc, IH. reflexivity.
Qed.

Definition nsp (c : N) : bool := negb (is_special c).

Lemma nsp_forall :
  forall l, Forall (fun c => is_special c = false) l -> Forall (fun c => nsp c = true) l.
Proof.
  intros l Hl. induction Hl as [|c l Hc Hl IH]; constructor; [|exact IH].
  unfold nsp. rewrite Hc. reflexivity.
Qed.

(* ------------------------------------------------------------------------- *)
(* 5. the known panic                                                         *)
(* ------------------------------------------------------------------------- *)

Theorem trailing_dollar_panics :
  forall env locals s, Forall (fun c => is_special c = false) s ->
    substitute_sql env locals (s ++ [36]) = SPanicked.
Proof.
  intros env locals s Hs. unfold substitute_sql. cbn [tparse].
  change (fun c : N => negb (is_special c)) with nsp.
  rewrite (take_while_app nsp s [36] (nsp_forall s Hs) eq_refl).
  reflexivity.
Qed.
Print Assumptions trailing_dollar_panics.

(* ------------------------------------------------------------------------- *)
(* 4. commands                                                                *)
(* ------------------------------------------------------------------------- *)

Lemma replace_aux_absent :
  forall from to fuel s, contains from s = false -> replace_aux fuel from to s = s.
Proof.
  intros from to fuel. induction fuel as [|fuel IH]; intros s Hc; [reflexivity|].
  destruct s as [|c r]; [reflexivity|].
  cbn [replace_aux]. cbn [contains] in Hc. apply orb_false_iff in Hc. destruct Hc as [Hsw Hr].
  rewrite Hsw. rewrite (IH r Hr). reflexivity.
Qed.

Lemma replace_absent :
  forall from to s, contains from s = false -> replace from to s = s.
Proof.
  intros from to s Hc. unfold replace. destruct from as [|a from']; [reflexivity|].
  apply replace_aux_absent. exact Hc.
Qed.

Theorem substitute_cmd_identity :
  forall locals s,
    contains (lit "$__TEST_DIR__") s = false -> contains (lit "$__NOW__") s = false ->
    (forall k v, In (k, v) locals -> contains (36 :: k) s = false) ->
    substitute_cmd locals s = s.
Proof.
  intros locals s Ht Hn Hl. unfold substitute_cmd.
  rewrite (replace_absent _ TESTDIR s Ht). rewrite (replace_absent _ NOW s Hn).
  induction locals as [|[k v] locals IH]; [reflexivity|].
  cbn [fold_left fst snd]. rewrite (replace_absent (36 :: k) v s).
  - apply IH. intros k' v' Hin. apply (Hl k' v'). right. exact Hin.
  - apply (Hl k v). left. reflexivity.
Qed.
Print Assumptions substitute_cmd_identity.

(* ------------------------------------------------------------------------- *)
(* 1. the parser on rendered well-formed templates                            *)
(* ------------------------------------------------------------------------- *)

Definition cons_lit (l : str) (ps : list part) : list part :=
  match l with [] => ps | _ => PLit l :: ps end.

Definition continue (f : nat) (l : str) (p : part) (after : str) : terr + list part :=
  match tparse f after with
  | inl e => inl e
  | inr ps => inr (cons_lit l (p :: ps))
  end.

Lemma tparse_end :
  forall f l, Forall (fun c => is_special c = false) l -> tparse (S f) l = inr (cons_lit l []).
Proof.
  intros f l Hl. cbn [tparse]. change (fun c : N => negb (is_special c)) with nsp.
  rewrite <- (app_nil_r l) at 1.
  rewrite (take_while_app nsp l [] (nsp_forall l Hl) I). reflexivity.
Qed.

Lemma tparse_esc :
  forall f l c r, Forall (fun c => is_special c = false) l -> unescapable c = true ->
    tparse (S f) (l ++ 92 :: c :: r) = continue f l (PEsc c) r.
Proof.
  intros f l c r Hl Hc. cbn [tparse]. change (fun c : N => negb (is_special c)) with nsp.
  rewrite (take_while_app nsp l (92 :: c :: r) (nsp_forall l Hl) eq_refl).
  rewrite Hc. reflexivity.
Qed.

Lemma N_match_123 {A} (c : N) (a b : A) :
  c <> 123 -> match c with 123 => a | _ => b end = b.
Proof.
  intros Hc. destruct c as [|p]; [reflexivity|].
  do 7 (destruct p as [p|p|]; try reflexivity). congruence.
Qed.

Lemma name_forall :
  forall n, name_ok n -> Forall (fun c => is_name_char c = true) n.
Proof. intros n [_ H]. exact H. Qed.

Lemma tparse_bare :
  forall f l n r, Forall (fun c => is_special c = false) l -> name_ok n -> stops is_name_char r ->
    tparse (S f) (l ++ 36 :: n ++ r) = continue f l (PVar n None) r.
Proof.
  intros f l n r Hl Hn Hr. cbn [tparse]. change (fun c : N => negb (is_special c)) with nsp.
  rewrite (take_while_app nsp l (36 :: n ++ r) (nsp_forall l Hl) eq_refl).
  pose proof (take_while_app is_name_char n r (name_forall n Hn) Hr) as Htw.
  destruct Hn as [Hne Hall]. destruct n as [|c n']; [congruence|].
  inversion Hall as [|c0 n0 Hc Hn' ]; subst c0 n0.
  cbn [app] in *.
  assert (Hc123 : c <> 123) by (intros ->; discriminate Hc).
  rewrite (N_match_123 c _ _ Hc123). rewrite Htw. reflexivity.
Qed.

Lemma tparse_brace :
  forall f l n r, Forall (fun c => is_special c = false) l -> name_ok n ->
    tparse (S f) (l ++ 36 :: 123 :: n ++ 125 :: r) = continue f l (PVar n None) r.
Proof.
  intros f l n r Hl Hn. cbn [tparse]. change (fun c : N => negb (is_special c)) with nsp.
  rewrite (take_while_app nsp l (36 :: 123 :: n ++ 125 :: r) (nsp_forall l Hl) eq_refl).
  pose proof (take_while_app is_name_char n (125 :: r) (name_forall n Hn) eq_refl) as Htw.
  destruct Hn as [Hne Hall]. destruct n as [|c n']; [congruence|].
  cbn [app] in *. rewrite Htw. reflexivity.
Qed.

Lemma tparse_default :
  forall f l n dtext d r,
    Forall (fun c => is_special c = false) l -> name_ok n ->
    close_brace 1 (n ++ 58 :: dtext ++ 125 :: r) [] = Some (n ++ 58 :: dtext, r) ->
    tparse f dtext = inr d ->
    tparse (S f) (l ++ 36 :: 123 :: n ++ 58 :: dtext ++ 125 :: r) = continue f l (PVar n (Some d)) r.
Proof.
  intros f l n dtext d r Hl Hn Hcb Hd. cbn [tparse]. change (fun c : N => negb (is_special c)) with nsp.
  rewrite (take_while_app nsp l (36 :: 123 :: n ++ 58 :: dtext ++ 125 :: r) (nsp_forall l Hl) eq_refl).
  pose proof (take_while_app is_name_char n (58 :: dtext ++ 125 :: r) (name_forall n Hn) eq_refl) as Htw.
  assert (Hskip : skipn (S (length n)) (n ++ 58 :: dtext) = dtext).
  { clear. induction n as [|c n IH]; [reflexivity|]. cbn [length app]. exact IH. }
  destruct Hn as [Hne Hall]. destruct n as [|c n']; [congruence|].
  cbn [app] in *. rewrite Htw. rewrite Hcb. rewrite Hskip. rewrite Hd. reflexivity.
Qed.


(* ------------------------------------------------------------------------- *)
(* close_brace                                                                *)
(* ------------------------------------------------------------------------- *)

Definition plain (c : N) : Prop := c <> 92 /\ c <> 123 /\ c <> 125.

Lemma close_brace_plain1 :
  forall k c x acc, plain c -> close_brace k (c :: x) acc = close_brace k x (c :: acc).
Proof.
  intros k c x acc (H1 & H2 & H3). cbn [close_brace].
  destruct c as [|p]; [reflexivity|].
  do 7 (destruct p as [p|p|]; try reflexivity); congruence.
Qed.

Lemma close_brace_plain :
  forall l k x acc, Forall plain l -> close_brace k (l ++ x) acc = close_brace k x (rev l ++ acc).
Proof.
  induction l as [|c l IH]; intros k x acc Hl; [reflexivity|].
  inversion Hl as [|c0 l0 Hc Hl']; subst c0 l0.
  cbn [app rev]. rewrite (close_brace_plain1 k c (l ++ x) acc Hc). rewrite (IH k x (c :: acc) Hl').
  rewrite <- app_assoc. reflexivity.
Qed.

Lemma name_char_plain : forall c, is_name_char c = true -> plain c.
Proof.
  intros c Hc. repeat split; intros ->; discriminate Hc.
Qed.

Lemma name_plain : forall n, Forall (fun c => is_name_char c = true) n -> Forall plain n.
Proof.
  intros n Hn. induction Hn as [|c n Hc Hn IH]; constructor; [apply name_char_plain; exact Hc|exact IH].
Qed.

Lemma lit_plain :
  forall s, Forall (fun c => is_special c = false) s -> Forall (fun c => c <> 123 /\ c <> 125) s ->
    Forall plain s.
Proof.
  intros s Hs. induction Hs as [|c s Hc Hs IH]; intros Hb; [constructor|].
  inversion Hb as [|c0 s0 [Hb1 Hb2] Hb']; subst c0 s0. constructor; [|exact (IH Hb')].
  repeat split; try assumption. intros ->. discriminate Hc.
Qed.

Lemma close_brace_render :
  forall d k x acc, wf_tmpl false d ->
    close_brace (S k) (render_t d ++ x) acc = close_brace (S k) x (rev (render_t d) ++ acc).
Proof.
  induction d as [|s r IHr|c r IHr|n r IHr|n r IHr|n d IHd r IHr]; intros k x acc Hwf.
  - reflexivity.
  - cbn [wf_tmpl] in Hwf. destruct Hwf as (_ & Hsp & Hbr & _ & Hr).
    cbn [render_t]. rewrite <- app_assoc.
    rewrite (close_brace_plain s (S k) _ acc (lit_plain s Hsp (Hbr eq_refl))).
    rewrite (IHr k x _ Hr). rewrite rev_app_distr, <- app_assoc. reflexivity.
  - cbn [wf_tmpl] in Hwf. destruct Hwf as (_ & Hr).
    cbn [render_t app close_brace]. rewrite (IHr k x _ Hr).
    cbn [rev]. rewrite <- !app_assoc. reflexivity.
  - cbn [wf_tmpl] in Hwf. destruct Hwf as ((_ & Hn) & _ & _ & Hr).
    cbn [render_t app]. rewrite (close_brace_plain1 (S k) 36 _ acc) by (repeat split; discriminate).
    rewrite <- app_assoc. rewrite (close_brace_plain n (S k) _ _ (name_plain n Hn)).
    rewrite (IHr k x _ Hr). cbn [rev]. rewrite !rev_app_distr, <- !app_assoc. reflexivity.
  - cbn [wf_tmpl] in Hwf. destruct Hwf as ((_ & Hn) & Hr).
    cbn [render_t app]. rewrite (close_brace_plain1 (S k) 36 _ acc) by (repeat split; discriminate).
    cbn [close_brace]. rewrite <- app_assoc. rewrite (close_brace_plain n (S (S k)) _ _ (name_plain n Hn)).
    cbn [app close_brace]. rewrite (IHr k x _ Hr).
    cbn [rev]. rewrite !rev_app_distr. cbn [rev app]. rewrite <- !app_assoc. reflexivity.
  - cbn [wf_tmpl] in Hwf. destruct Hwf as ((_ & Hn) & Hd & Hr).
    cbn [render_t app]. rewrite (close_brace_plain1 (S k) 36 _ acc) by (repeat split; discriminate).
    cbn [close_brace]. rewrite <- app_assoc. rewrite (close_brace_plain n (S (S k)) _ _ (name_plain n Hn)).
    cbn [app]. rewrite (close_brace_plain1 (S (S k)) 58) by (repeat split; discriminate).
    rewrite <- app_assoc. rewrite (IHd (S k) _ _ Hd).
    cbn [app close_brace]. rewrite (IHr k x _ Hr).
    cbn [rev]. rewrite !rev_app_distr. cbn [rev app]. rewrite !rev_app_distr. cbn [rev app].
    rewrite <- !app_assoc. reflexivity.
Qed.

Lemma close_brace_default :
  forall n d r, name_ok n -> wf_tmpl false d ->
    close_brace 1 (n ++ 58 :: render_t d ++ 125 :: r) [] = Some (n ++ 58 :: render_t d, r).
Proof.
  intros n d r [_ Hn] Hd.
  rewrite (close_brace_plain n 1 _ [] (name_plain n Hn)).
  rewrite (close_brace_plain1 1 58) by (repeat split; discriminate).
  rewrite (close_brace_render d 0 _ _ Hd).
  cbn [close_brace]. rewrite frev_rev. rewrite app_nil_r.
  rewrite rev_app_distr, rev_involutive. cbn [rev]. rewrite rev_involutive.
  rewrite <- app_assoc. reflexivity.
Qed.

(* ------------------------------------------------------------------------- *)
(* the parts of a template                                                    *)
(* ------------------------------------------------------------------------- *)

Fixpoint parts_of (t : tmpl) : list part :=
  match t with
  | TNil => []
  | TLit s r => PLit s :: parts_of r
  | TEsc c r => PEsc c :: parts_of r
  | TBare n r => PVar n None :: parts_of r
  | TBrace n r => PVar n None :: parts_of r
  | TDefault n d r => PVar n (Some (parts_of d)) :: parts_of r
  end.

Definition lit_free_head (l : str) (t : tmpl) : Prop :=
  match t with TLit _ _ => l = [] | _ => True end.

Lemma lit_free_head_nil : forall t, lit_free_head [] t.
Proof. intros t. destruct t; try exact I. reflexivity. Qed.

Lemma tparse_render :
  forall t top l f, wf_tmpl top t -> Forall (fun c => is_special c = false) l -> lit_free_head l t ->
    (length (l ++ render_t t) < f)%nat ->
    tparse f (l ++ render_t t) = inr (cons_lit l (parts_of t)).
Proof.
  induction t as [|s r IHr|c r IHr|n r IHr|n r IHr|n d IHd r IHr]; intros top l f Hwf Hl Hhead Hf;
    (destruct f as [|f]; [inversion Hf|]); cbn [render_t parts_of] in *.
  - rewrite app_nil_r. apply tparse_end. exact Hl.
  - cbn [lit_free_head] in Hhead. subst l. cbn [app] in *.
    cbn [wf_tmpl] in Hwf. destruct Hwf as (Hne & Hsp & _ & Hnl & Hr).
    rewrite (IHr top s (S f) Hr Hsp).
    + destruct s; [congruence|reflexivity].
    + destruct r; try exact I. contradiction.
    + exact Hf.
  - cbn [wf_tmpl] in Hwf. destruct Hwf as (Hc & Hr).
    rewrite (tparse_esc f l c _ Hl Hc). unfold continue.
    assert (Hlen : (length (render_t r) < f)%nat).
    { rewrite app_length in Hf. cbn [length app] in *. lia. }
    pose proof (IHr top [] f Hr (Forall_nil _) (lit_free_head_nil r) Hlen) as IH.
    cbn [app cons_lit] in IH. rewrite IH. reflexivity.
  - cbn [wf_tmpl] in Hwf. destruct Hwf as (Hn & Hnext & _ & Hr).
    assert (Hlen : (length (render_t r) < f)%nat).
    { rewrite !app_length in Hf. cbn [length app] in *. rewrite app_length in Hf. lia. }
    pose proof (IHr top [] f Hr (Forall_nil _) (lit_free_head_nil r) Hlen) as IH.
    cbn [app cons_lit] in IH.
    rewrite (tparse_bare f l n _ Hl Hn).
    + unfold continue. rewrite IH. reflexivity.
    + unfold next_char in Hnext. unfold stops. destruct (render_t r); exact Hnext.
  - cbn [wf_tmpl] in Hwf. destruct Hwf as (Hn & Hr).
    assert (Hlen : (length (render_t r) < f)%nat).
    { rewrite !app_length in Hf. cbn [length app] in *. rewrite app_length in Hf. cbn [length] in Hf. lia. }
    pose proof (IHr top [] f Hr (Forall_nil _) (lit_free_head_nil r) Hlen) as IH.
    cbn [app cons_lit] in IH.
    rewrite (tparse_brace f l n _ Hl Hn).
    unfold continue. rewrite IH. reflexivity.
  - cbn [wf_tmpl] in Hwf. destruct Hwf as (Hn & Hd & Hr).
    assert (Hlen : (length (render_t d) < f /\ length (render_t r) < f)%nat).
    { rewrite !app_length in Hf. cbn [length app] in *. rewrite app_length in Hf. cbn [length] in Hf.
      rewrite app_length in Hf. cbn [length] in Hf. lia. }
    destruct Hlen as [Hlend Hlenr].
    pose proof (IHr top [] f Hr (Forall_nil _) (lit_free_head_nil r) Hlenr) as IH.
    pose proof (IHd false [] f Hd (Forall_nil _) (lit_free_head_nil d) Hlend) as IH'.
    cbn [app cons_lit] in IH, IH'.
    rewrite (tparse_default f l n (render_t d) (parts_of d) _ Hl Hn (close_brace_default n d _ Hn Hd) IH').
    unfold continue. rewrite IH. reflexivity.
Qed.

(* ------------------------------------------------------------------------- *)
(* expansion of the parts                                                     *)
(* ------------------------------------------------------------------------- *)

Lemma expand_parts_of :
  forall lookup t top f, wf_tmpl top t -> (length (render_t t) < f)%nat ->
    expand_parts lookup f (parts_of t) = expand_spec lookup t.
Proof.
  intros lookup.
  induction t as [|s r IHr|c r IHr|n r IHr|n r IHr|n d IHd r IHr]; intros top f Hwf Hf;
    (destruct f as [|f]; [inversion Hf|]); cbn [render_t parts_of expand_parts expand_spec] in *.
  - reflexivity.
  - cbn [wf_tmpl] in Hwf. destruct Hwf as (Hne & _ & _ & _ & Hr).
    rewrite (IHr top f Hr).
    + destruct (expand_spec lookup r); reflexivity.
    + rewrite app_length in Hf. destruct s; [congruence|]. cbn [length] in Hf. lia.
  - cbn [wf_tmpl] in Hwf. destruct Hwf as (_ & Hr).
    rewrite (IHr top f Hr).
    + destruct (expand_spec lookup r); reflexivity.
    + cbn [length] in Hf. lia.
  - cbn [wf_tmpl] in Hwf. destruct Hwf as (_ & _ & _ & Hr).
    rewrite (IHr top f Hr).
    + destruct (lookup n); [|reflexivity]. destruct (expand_spec lookup r); reflexivity.
    + cbn [length] in Hf. rewrite app_length in Hf. lia.
  - cbn [wf_tmpl] in Hwf. destruct Hwf as (_ & Hr).
    rewrite (IHr top f Hr).
    + destruct (lookup n); [|reflexivity]. destruct (expand_spec lookup r); reflexivity.
    + cbn [length] in Hf. rewrite app_length in Hf. cbn [length] in Hf. lia.
  - cbn [wf_tmpl] in Hwf. destruct Hwf as (_ & Hd & Hr).
    assert (Hlen : (length (render_t d) < f /\ length (render_t r) < f)%nat).
    { cbn [length] in Hf. rewrite app_length in Hf. cbn [length] in Hf.
      rewrite app_length in Hf. cbn [length] in Hf. lia. }
    destruct Hlen as [Hlend Hlenr].
    rewrite (IHr top f Hr Hlenr). rewrite (IHd false f Hd Hlend).
    destruct (lookup n).
    + destruct (expand_spec lookup r); reflexivity.
    + destruct (expand_spec lookup d); [reflexivity|].
      destruct (expand_spec lookup r); reflexivity.
Qed.

(* 1. documented forms expand as documented; defaults may nest; values are inserted verbatim;
      an undefined variable without default fails, naming the variable *)
Theorem substitute_sql_spec :
  forall env locals t, wf_tmpl true t ->
    substitute_sql env locals (render_t t) =
      match expand_spec (var_lookup env locals) t with
      | inr text => SText text
      | inl name => SErrMsg (lit "substitution failed: No such variable: $" ++ name)
      end.
Proof.
  intros env locals t Hwf. unfold substitute_sql.
  pose proof (tparse_render t true [] (S (length (render_t t))) Hwf (Forall_nil _)
                (lit_free_head_nil t) (Nat.lt_succ_diag_r _)) as Hp.
  cbn [app cons_lit] in Hp. rewrite Hp.
  rewrite (expand_parts_of (var_lookup env locals) t true _ Hwf (Nat.lt_succ_diag_r _)).
  reflexivity.
Qed.
Print Assumptions substitute_sql_spec.

(* non-vacuity: `a${X:${Y:\}z}}$B c` with nested defaults is well-formed, and expands as documented *)
Example wf_nested :
  let t := TLit (lit "a") (TDefault (lit "X") (TDefault (lit "Y") (TEsc 125 (TLit (lit "z") TNil)) TNil)
                 (TBare (lit "B") (TLit (lit " c") TNil))) in
  wf_tmpl true t /\
  render_t t = lit "a${X:${Y:\}z}}$B c" /\
  substitute_sql (fun _ => None) [(lit "B", lit "$v{")] (render_t t) = SText (lit "a}z$v{ c").
Proof.
  cbv zeta. split; [|split; vm_compute; reflexivity].
  cbn [wf_tmpl]. unfold name_ok, next_char.
  repeat split; try discriminate; try (intros _); repeat constructor; try discriminate.
Qed.
