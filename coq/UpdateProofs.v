(* UpdateProofs.v — L2 (Update.v, update_record) satisfies L1 (UpdateSpec.v): C07 (frame,
   kind change, records left alone, a passing record keeps its expectation) and C06 (the
   rewritten record is accepted by the judge on the same answer and is a fixed point). *)
From SLT Require Import TextProofs JudgeSpec JudgeProofs UpdateSpec.
Open Scope N_scope.

(* ---- trim is idempotent *)
Section DropWhile.
  Variable p : N -> bool.

  (* the first character, if any, does not satisfy p *)
  Definition hdnp (s : str) : Prop := forall c, hd_error s = Some c -> p c = false.

  Lemma drop_while_hdnp s : hdnp (drop_while p s).
  Proof.
    induction s as [|c s IH]; cbn [drop_while].
    - intros x Hx; discriminate.
    - destruct (p c) eqn:E; [exact IH|].
      intros x Hx. cbn [hd_error] in Hx. inversion Hx; subst; exact E.
  Qed.

  Lemma hdnp_rev_tail c s : hdnp (rev (c :: s)) -> hdnp (rev s).
  Proof.
    cbn [rev]. intros H x Hx. apply H. destruct (rev s); [discriminate|]. exact Hx.
  Qed.

  Lemma drop_while_lastnp s : hdnp (rev s) -> hdnp (rev (drop_while p s)).
  Proof.
    induction s as [|c s IH]; intros H; cbn [drop_while]; [exact H|].
    destruct (p c); [|exact H]. apply IH. eapply hdnp_rev_tail; exact H.
  Qed.
End DropWhile.

Lemma trim_idem s : trim (trim s) = trim s.
Proof.
  unfold trim, trim_start, trim_end. rewrite !frev_rev.
  set (t := drop_while is_ws s). set (u := drop_while is_ws (rev t)).
  assert (Hu : hdnp is_ws u) by apply drop_while_hdnp.
  assert (Hl : hdnp is_ws (rev u)).
  { apply drop_while_lastnp. rewrite rev_involutive. apply drop_while_hdnp. }
  rewrite (drop_while_hd is_ws (rev u)) by exact Hl.
  rewrite rev_involutive. rewrite (drop_while_hd is_ws u) by exact Hu. reflexivity.
Qed.

(* ---- small facts about the validators *)
Lemma col_validate_refl strict t : col_validate strict t t = true.
Proof. unfold col_validate. destruct strict; [apply str_eqb_refl | reflexivity]. Qed.

Lemma existsb_not_single (rows : list (list str)) :
  existsb (fun row => negb (Nat.eqb (length row) 1)) rows = false -> single_columns rows.
Proof.
  unfold single_columns. induction rows as [|r rows IH]; cbn [existsb]; intros H; constructor.
  - apply orb_false_iff in H as [H _]. apply negb_false_iff in H. apply Nat.eqb_eq in H. exact H.
  - apply IH. apply orb_false_iff in H as [_ H]. exact H.
Qed.

Lemma valuewise_single rows : single_columns rows -> valuewise rows = rows.
Proof. intros H. unfold valuewise. symmetry. apply singles_values. exact H. Qed.

Definition escape_law (re : str -> str -> bool) : Prop := forall s, re (re_escape s) s = true.

(* ---- the regenerated error expectation matches the message it was made from *)
Section Err.
  Variable re : str -> str -> bool.
  Hypothesis Hesc : escape_law re.

  Lemma err_match_multi_trim m : err_match re (EMulti (trim m)) m = true.
  Proof. cbn [err_match]. rewrite trim_idem. apply str_eqb_refl. Qed.

  Lemma err_match_from_actual ref m : err_match re (from_actual_error ref m) m = true.
  Proof.
    unfold from_actual_error. cbv zeta.
    match goal with |- context [if ?b then _ else _] => destruct b end.
    - apply err_match_multi_trim.
    - destruct (re_escape m) as [|c esc] eqn:E; [reflexivity|].
      cbn [err_match]. rewrite <- E. apply Hesc.
  Qed.

  Lemma err_match_new_expected ref m hr : err_match re (new_expected_error ref m hr) m = true.
  Proof.
    unfold new_expected_error.
    destruct (from_actual_error ref m) as [|x|t] eqn:E.
    - reflexivity.
    - destruct hr; [apply err_match_multi_trim|]. rewrite <- E. apply err_match_from_actual.
    - rewrite <- E. apply err_match_from_actual.
  Qed.
End Err.

(* ---- C07 *)
Ltac brk H :=
  repeat match type of H with
         | context [match ?x with _ => _ end] => destruct x eqn:?
         end.

(* C07. frame: only the expectation may change *)
Theorem update_frame :
  forall re sep strict r o r', update_record re sep strict r o = Some r' -> same_but_expectation r r'.
Proof.
  intros re sep strict r o r' H.
  destruct r; destruct o as [|t rows err|cnt err|out failed]; cbn [update_record] in H;
    try discriminate; brk H; try discriminate; inversion H; subst; cbn [same_but_expectation];
    repeat split; reflexivity.
Qed.
Print Assumptions update_frame.

(* the kind changes only for a query answered with a statement completion *)
Theorem update_kind_change :
  forall re sep strict l cs c sql e rt o l' cs' c' sql' e' rt',
    update_record re sep strict (RQuery l cs c sql e rt) o = Some (RStatement l' cs' c' sql' e' rt') ->
    exists n, o = OStatement n None /\ e' = SCount n.
Proof.
  intros re sep strict l cs c sql e rt o l' cs' c' sql' e' rt' H.
  destruct o as [|t rows err|cnt err|out failed]; cbn [update_record] in H;
    try discriminate; brk H; try discriminate; inversion H; subst.
  eexists; split; reflexivity.
Qed.
Print Assumptions update_kind_change.

(* skipped records, and failing system commands, are left alone *)
Theorem update_skipped : forall re sep strict r, update_record re sep strict r ONothing = None.
Proof. intros re sep strict r. reflexivity. Qed.
Print Assumptions update_skipped.

Theorem update_failed_command :
  forall re sep strict l cs cmd ex rt out, update_record re sep strict (RSystem l cs cmd ex rt) (OSystem out true) = None.
Proof. intros. reflexivity. Qed.
Print Assumptions update_failed_command.

(* a record that passes keeps its expectation as written (row-wise result mode; D5 otherwise) *)
Theorem update_pass_keeps :
  forall re sep cfg r a,
    judged r a -> rmode cfg <> Some ValueWise ->
    run_record re cfg r a = Pass ->
    (forall l cs c sql e rt n, r = RQuery l cs c sql e rt -> a <> ADb (DComplete n)) ->   (* not the allowed kind change *)
    match update_record re sep (strict_cols cfg) r (apply cfg r a) with
    | None => True
    | Some r' => written_expectation_eq r r'
    end.
Proof.
  intros re sep cfg r a Hj Hrm Hp Hk. unfold run_record in Hp.
  destruct r; destruct a as [d|s]; cbn [judged] in Hj; try contradiction.
  - (* statement *)
    destruct d as [t rows|n|m]; cbn [apply apply_stmt] in *; cbn [judge] in Hp;
      cbn [update_record written_expectation_eq].
    + destruct e as [|k|x]; try discriminate; [reflexivity|].
      destruct (N.eqb_spec k (N.of_nat (length rows))) as [E|E]; [|discriminate].
      cbn [written_expectation_eq]. congruence.
    + destruct e as [|k|x]; try discriminate; [reflexivity|].
      destruct (N.eqb_spec k n) as [E|E]; [|discriminate].
      cbn [written_expectation_eq]. congruence.
    + destruct e as [|k|x]; try discriminate.
      destruct (err_match re x m); [exact I|discriminate].
  - (* query *)
    destruct d as [t rows|n|m]; cbn [apply apply_query] in *.
    + set (rows' := shape _ _ _ _ _) in *. clearbody rows'.
      cbn [judge] in Hp. cbn [update_record].
      destruct e as [et s lb res|x]; [|discriminate].
      destruct (col_validate (strict_cols cfg) t et); cbn [negb] in Hp; [|discriminate].
      assert (Hv : validate rows' res = true).
      { destruct (rmode cfg) as [[|]|]; try congruence;
          destruct (validate rows' res); congruence. }
      rewrite Hv. cbn [written_expectation_eq]. reflexivity.
    + exfalso. eapply Hk; reflexivity.
    + cbn [judge] in Hp. cbn [update_record].
      destruct e as [et s lb res|x]; [discriminate|].
      destruct (err_match re x m); [exact I|discriminate].
  - (* system *)
    destruct s as [[|] out|]; cbn [apply apply_system] in *; cbn [judge] in Hp; try discriminate.
    cbn [update_record written_expectation_eq].
    destruct stdout as [ex|]; [|reflexivity].
    destruct (str_eqb_spec ex (trim out)) as [E|E]; [|discriminate].
    subst ex. cbn [option_map]. rewrite trim_idem. reflexivity.
Qed.
Print Assumptions update_pass_keeps.

(* ---- C06 *)
(* what `known_class ... = []` gives for a query answered with rows *)
Lemma known_class_rows sep cfg l cs c sql e rt t rows :
  known_class sep cfg (RQuery l cs c sql e rt) (OQuery t rows None) = [] ->
  validate rows (map (join sep) rows) = true /\
  (rmode cfg = Some ValueWise -> single_columns rows).
Proof.
  cbn [known_class]. intros H. apply app_eq_nil in H as [H1 H2]. split.
  - destruct (validate rows (map (join sep) rows)); [reflexivity|discriminate].
  - intros Hm. rewrite Hm in H1. apply existsb_not_single.
    destruct (existsb _ rows); [discriminate|reflexivity].
Qed.

(* C06. the rewritten record is accepted by the judge on the same answer and is a fixed point *)
Theorem update_converges :
  forall re sep cfg r a r',
    escape_law re -> judged r a ->
    known_class sep cfg r (apply cfg r a) = [] ->                      (* outside the known findings D5 / D12 *)
    (forall ok out, a = ASys (SysExit ok out) -> ok = true) ->        (* commands succeed (premise of C06) *)
    a <> ASys SysSpawnErr ->
    update_record re sep (strict_cols cfg) r (apply cfg r a) = Some r' ->
    (* judged on what apply produces for the rewritten record and the same answer *)
    run_record re cfg (reread r') a = Pass /\
    match update_record re sep (strict_cols cfg) (reread r') (apply cfg (reread r') a) with
    | None => True
    | Some r'' => written_expectation_eq (reread r') r''
    end.
Proof.
  intros re sep cfg r a r' Hesc Hj Hkc Hok Hsp Hu. unfold run_record.
  destruct r; destruct a as [d|s]; cbn [judged] in Hj; try contradiction.
  - (* statement *)
    destruct d as [t rows|n|m]; cbn [apply apply_stmt] in Hu; cbn [update_record] in Hu.
    + inversion Hu; subst r'; clear Hu. cbn [reread apply apply_stmt judge update_record].
      destruct e as [|k|x]; cbn [written_expectation_eq]; try (split; reflexivity).
      rewrite N.eqb_refl. split; reflexivity.
    + inversion Hu; subst r'; clear Hu. cbn [reread apply apply_stmt judge update_record].
      destruct e as [|k|x]; cbn [written_expectation_eq]; try (split; reflexivity).
      rewrite N.eqb_refl. split; reflexivity.
    + assert (Hr : exists ref, r' = RStatement l conds c sql (SError (new_expected_error ref m (has_retry r))) r).
      { destruct e as [|k|x]; [| |destruct (err_match re x m); [discriminate|]];
          inversion Hu; eexists; reflexivity. }
      destruct Hr as [ref ->]. cbn [reread apply apply_stmt judge update_record].
      rewrite err_match_new_expected by exact Hesc. split; [reflexivity|exact I].
  - (* query *)
    destruct d as [t rows|n|m]; cbn [apply apply_query] in Hu, Hkc.
    + set (rows' := shape _ _ _ _ _) in *.
      apply known_class_rows in Hkc as [Hv Hs].
      cbn [update_record] in Hu.
      set (res' := match e with
                   | QResults _ _ _ ex => if validate rows' ex then ex else map (join sep) rows'
                   | QError _ => map (join sep) rows'
                   end) in *.
      set (ty' := match e with
                  | QResults et _ _ _ => if col_validate (strict_cols cfg) t et then et else t
                  | QError _ => t
                  end) in *.
      assert (Hres : validate rows' res' = true).
      { subst res'. destruct e as [et s lb ex|x]; [|exact Hv].
        destruct (validate rows' ex) eqn:E; [exact E|exact Hv]. }
      assert (Hty : col_validate (strict_cols cfg) t ty' = true).
      { subst ty'. destruct e as [et s lb ex|x]; [|apply col_validate_refl].
        destruct (col_validate (strict_cols cfg) t et) eqn:E; [exact E|apply col_validate_refl]. }
      assert (Hr : r' = RQuery l conds c sql (QResults ty' (query_sort e) match e with QResults _ _ lb _ => lb | QError _ => None end res') r).
      { destruct e; inversion Hu; reflexivity. }
      subst r'. cbn [reread apply apply_query query_sort]. fold rows'.
      cbn [judge update_record]. rewrite Hty, Hres. cbn [negb].
      assert (Hact : validate match rmode cfg with Some ValueWise => valuewise rows' | _ => rows' end res' = true).
      { destruct (rmode cfg) as [[|]|]; try exact Hres.
        rewrite valuewise_single by (apply Hs; reflexivity). exact Hres. }
      rewrite Hact. split; reflexivity.
    + cbn [update_record] in Hu. inversion Hu; subst r'; clear Hu.
      cbn [reread apply apply_stmt judge update_record written_expectation_eq].
      rewrite N.eqb_refl. split; reflexivity.
    + cbn [update_record] in Hu.
      assert (Hr : exists ref, r' = RQuery l conds c sql (QError (new_expected_error ref m (has_retry r))) r).
      { destruct e as [et s lb ex|x]; [|destruct (err_match re x m); [discriminate|]];
          inversion Hu; eexists; reflexivity. }
      destruct Hr as [ref ->]. cbn [reread apply apply_query judge update_record].
      rewrite err_match_new_expected by exact Hesc. split; [reflexivity|exact I].
  - (* system *)
    destruct s as [ok out|]; [|congruence].
    rewrite (Hok ok out eq_refl) in *. cbn [apply apply_system] in Hu. cbn [update_record] in Hu.
    inversion Hu; subst r'; clear Hu.
    destruct stdout as [ex|]; cbn [reread option_map apply apply_system judge update_record written_expectation_eq].
    + rewrite str_eqb_refl. split; [reflexivity|]. rewrite trim_idem. reflexivity.
    + split; reflexivity.
Qed.
Print Assumptions update_converges.

(* when the record is left alone (update = None) it was skipped or it passes: after the fix of
   D6 there is no arm left that the code leaves alone without looking *)
Theorem update_none_passes :
  forall re sep cfg r a,
    judged r a -> (forall ok out, a = ASys (SysExit ok out) -> ok = true) -> a <> ASys SysSpawnErr ->
    update_record re sep (strict_cols cfg) r (apply cfg r a) = None ->
    apply cfg r a = ONothing \/ run_record re cfg r a = Pass.
Proof.
  intros re sep cfg r a Hj Hok Hsp Hu. right. unfold run_record.
  destruct r; destruct a as [d|s]; cbn [judged] in Hj; try contradiction.
  - (* statement *)
    destruct d as [t rows|n|m]; cbn [apply apply_stmt] in *; cbn [update_record] in Hu;
      try discriminate.
    cbn [judge].
    destruct e as [|k|x]; try discriminate.
    destruct (err_match re x m); [reflexivity|discriminate].
  - (* query *)
    destruct d as [t rows|n|m]; cbn [apply apply_query] in *; cbn [update_record] in Hu;
      try discriminate.
    cbn [judge].
    destruct e as [et s lb ex|x]; try discriminate.
    destruct (err_match re x m); [reflexivity|discriminate].
  - (* system *)
    destruct s as [ok out|]; [|congruence].
    rewrite (Hok ok out eq_refl) in *. cbn [apply apply_system] in *. cbn [update_record] in Hu.
    discriminate.
Qed.
Print Assumptions update_none_passes.
