(* Runner.v — L2 model of Runner: connection table, guards, apply_record for
   every record kind, the retry loop of run_async, run_multi_async; the scripted
   database / shell the correspondence harness uses is modelled as [script]+[world]. *)
From SLT Require Export Judge.
Open Scope N_scope.

Inductive event :=
| EConnect (id : N)
| EConnectFail (k : N)
| ESql (id : N) (sql : str)
| ECmd (cmd : str)
| EBackground (cmd : str)    (* `system` command ending in '&': spawned, not waited for, run_command not called *)
| ESleep (d : N)
| EShutdown (id : N)
| EPanicked.                 (* the implementation would panic here (substitution, known finding D9) *)

(* outcome of Runner::may_substitute *)
Inductive subres := SubOk (s : str) | SubErr (m : str) | SubPanic.

Inductive ans := AOut (d : dbout) | AEcho.

(* the scripted environment (constant during a run) *)
Record script := mkScript {
  answers : list ans;
  default_ans : ans;
  make_fail : list N;
  sys_answers : list sysout;
  sys_default : sysout;
  engine : str
}.

(* mutable state of the scripted environment *)
Record world := mkWorld {
  calls : N;            (* database requests so far (all sessions) *)
  makes : N;            (* MakeConnection::make invocations so far *)
  next_conn : N;        (* id of the next session *)
  sys_calls : N;
  per_conn : list (N * N)   (* session id -> requests so far *)
}.
Definition world0 : world := mkWorld 0 0 0 0 [].

Record rstate := mkRState {
  cfg : config;
  subst_on : bool;
  labels : list str;
  conns : list (conn * N);     (* Connections: name -> session id *)
  vars : list (str * str)      (* RunnerLocals.variables, in key order *)
}.

Definition conn_eqb (a b : conn) : bool :=
  match a, b with
  | CDefault, CDefault => true
  | CNamed x, CNamed y => str_eqb x y
  | _, _ => false
  end.

Fixpoint find_conn (c : conn) (l : list (conn * N)) : option N :=
  match l with
  | [] => None
  | (c', id) :: r => if conn_eqb c c' then Some id else find_conn c r
  end.

Fixpoint mem_str (x : str) (l : list str) : bool :=
  match l with [] => false | y :: r => str_eqb x y || mem_str x r end.
Fixpoint mem_N (x : N) (l : list N) : bool :=
  match l with [] => false | y :: r => (x =? y) || mem_N x r end.

(* Condition::should_skip *)
Definition cond_skips (ls : list str) (c : cond) : bool :=
  match c with
  | OnlyIf l => negb (mem_str l ls)
  | SkipIf l => mem_str l ls
  end.
(* should_skip(labels, engine_name, conditions) *)
Definition should_skip (ls : list str) (engine_name : str) (cs : list cond) : bool :=
  let ls' := match engine_name with [] => ls | _ => ls ++ [engine_name] end in
  existsb (cond_skips ls') cs.

Fixpoint assoc_N (k : N) (l : list (N * N)) : N :=
  match l with [] => 0 | (k', v) :: r => if k =? k' then v else assoc_N k r end.
Fixpoint bump_N (k : N) (l : list (N * N)) : list (N * N) :=
  match l with
  | [] => [(k, 1)]
  | (k', v) :: r => if k =? k' then (k', v + 1) :: r else (k', v) :: bump_N k r
  end.

Definition connect_failed_msg (k : N) : str := lit "connect failed " ++ dec k.

(* background `system` commands:
     let is_background = command.trim().ends_with('&');
     if is_background { command = command.trim_end_matches('&').trim().to_string(); }
   38 = '&'.  trim_end_matches is applied to the UNtrimmed command, so for "x & " nothing is
   stripped and the command handed to bash is "x &" (quirk kept on purpose). *)
Definition AMP : N := 38.
Definition is_background (c : str) : bool := ends_with_cp AMP (trim c).
Definition strip_amps (c : str) : str := trim_end_matches_cp AMP c.
Definition background_cmd (c : str) : str := trim (strip_amps c).

(* the for-loop of run_async, generic in what one attempt does:
   for _ in 0..n { r = attempt(); if r is ok return r; sleep(d); last = r }  return last *)
Section RetryGeneric.
  Variables St Out : Type.
  Variable attempt : St -> list event * St * Out * verdict.
  Variable no_output : Out.

  Fixpoint retry_gen (n : nat) (d : N) (s : St) (last : verdict) : list event * St * Out * verdict :=
    match n with
    | O => ([], s, no_output, last)
    | S n' =>
        let '(ev, s1, o, v) := attempt s in
        match v with
        | Pass => (ev, s1, o, Pass)
        | _ =>
            let '(ev2, s2, o2, v2) := retry_gen n' d s1 v in
            (ev ++ [ESleep d] ++ ev2, s2, o2, v2)
        end
    end.
End RetryGeneric.

Section Runner.
  Variable re_match : str -> str -> bool.
  (* may_substitute with substitution on: sql? -> locals -> text -> Ok text | Err message *)
  Variable substitute : bool -> list (str * str) -> str -> subres.
  Variable sc : script.

  Definition may_substitute (st : rstate) (is_sql : bool) (s : str) : subres :=
    if subst_on st then substitute is_sql (vars st) s else SubOk s.

  (* Connections::get *)
  Definition get_conn (st : rstate) (w : world) (c : conn)
    : list event * rstate * world * option N :=
    match find_conn c (conns st) with
    | Some id => ([], st, w, Some id)
    | None =>
        let k := makes w in
        if mem_N k (make_fail sc) then
          ([EConnectFail k], st,
           mkWorld (calls w) (k + 1) (next_conn w) (sys_calls w) (per_conn w), None)
        else
          let id := next_conn w in
          ([EConnect id],
           mkRState (cfg st) (subst_on st) (labels st) (conns st ++ [(c, id)]) (vars st),
           mkWorld (calls w) (k + 1) (id + 1) (sys_calls w) (per_conn w), Some id)
    end.

  (* one request to the scripted database on session [id] *)
  Definition db_request (w : world) (id : N) : dbout * world :=
    let a := nth (N.to_nat (calls w)) (answers sc) (default_ans sc) in
    let mine := assoc_N id (per_conn w) in
    let w' := mkWorld (calls w + 1) (makes w) (next_conn w) (sys_calls w) (bump_N id (per_conn w)) in
    (match a with
     | AOut d => d
     | AEcho => DRows (lit "II") [[dec id; dec mine]]
     end, w').

  Definition sys_request (w : world) : sysout * world :=
    (nth (N.to_nat (sys_calls w)) (sys_answers sc) (sys_default sc),
     mkWorld (calls w) (makes w) (next_conn w) (sys_calls w + 1) (per_conn w)).

  Definition set_cfg (st : rstate) (c : config) : rstate :=
    mkRState c (subst_on st) (labels st) (conns st) (vars st).

  (* Runner::apply_record *)
  Definition apply_record (st : rstate) (w : world) (r : record)
    : list event * rstate * world * routput :=
    match r with
    | RStatement _ cs c sql _ _ =>
        match may_substitute st true sql with
        | SubPanic => ([EPanicked], st, w, ONothing)
        | SubErr m => ([], st, w, OStatement 0 (Some m))
        | SubOk sql' =>
          match get_conn st w c with
          | (ev, st1, w1, None) => (ev, st1, w1, OStatement 0 (Some (connect_failed_msg (makes w))))
          | (ev, st1, w1, Some id) =>
              if should_skip (labels st1) (engine sc) cs then (ev, st1, w1, ONothing)
              else let '(d, w2) := db_request w1 id in
                   (ev ++ [ESql id sql'], st1, w2, apply_stmt d)
          end
        end
    | RQuery _ cs c sql e _ =>
        match may_substitute st true sql with
        | SubPanic => ([EPanicked], st, w, ONothing)
        | SubErr m => ([], st, w, OQuery [] [] (Some m))
        | SubOk sql' =>
          match get_conn st w c with
          | (ev, st1, w1, None) => (ev, st1, w1, OQuery [] [] (Some (connect_failed_msg (makes w))))
          | (ev, st1, w1, Some id) =>
              if should_skip (labels st1) (engine sc) cs then (ev, st1, w1, ONothing)
              else let '(d, w2) := db_request w1 id in
                   (ev ++ [ESql id sql'], st1, w2, apply_query (cfg st1) e d)
          end
        end
    | RSystem _ cs cmd ex _ =>
        if should_skip (labels st) [] cs then ([], st, w, ONothing)
        else match may_substitute st false cmd with
             | SubPanic => ([EPanicked], st, w, ONothing)
             | SubErr m => ([], st, w, OSystem None true)
             | SubOk cmd' =>
                 if is_background cmd' then
                   (* cmd.spawn() without waiting: the run_command hook is not called, nothing is
                      read from the scripted shell; spawning is assumed to succeed *)
                   ([EBackground (background_cmd cmd')], st, w, OSystem None false)
                 else
                   let '(a, w1) := sys_request w in
                   ([ECmd cmd'], st, w1, apply_system ex a)
             end
    | RSleep _ d => ([ESleep d], st, w, ONothing)
    | RControl c =>
        let g := cfg st in
        (match c with
         | CtlSortMode m => ([], set_cfg st (mkConfig (Some m) (rmode g) (threshold g) (strict_cols g)), w, ONothing)
         | CtlResultMode m => ([], set_cfg st (mkConfig (file_sort g) (Some m) (threshold g) (strict_cols g)), w, ONothing)
         | CtlSubstitution b => ([], mkRState g b (labels st) (conns st) (vars st), w, ONothing)
         end)
    | RHashThreshold _ n =>
        let g := cfg st in
        ([], set_cfg st (mkConfig (file_sort g) (rmode g) n (strict_cols g)), w, ONothing)
    | _ => ([], st, w, ONothing)
    end.

  Definition record_loc (r : record) : loc :=
    match r with
    | RInclude l _ | RStatement l _ _ _ _ _ | RQuery l _ _ _ _ _ | RSystem l _ _ _ _
    | RSleep l _ | RSubtest l _ | RHalt l | RHashThreshold l _ => l
    | _ => Loc [] 0 None
    end.

  Definition record_retry (r : record) : option retry :=
    match r with
    | RStatement _ _ _ _ _ x | RQuery _ _ _ _ _ x | RSystem _ _ _ _ x => x
    | _ => None
    end.

  (* run_async_no_retry *)
  Definition run_no_retry (st : rstate) (w : world) (r : record)
    : list event * rstate * world * routput * verdict :=
    let '(ev, st1, w1, o) := apply_record st w r in
    (ev, st1, w1, o, judge re_match (cfg st1) r o).

  Definition attempt_record (r : record) (sw : rstate * world)
    : list event * (rstate * world) * routput * verdict :=
    let '(ev, st1, w1, o, v) := run_no_retry (fst sw) (snd sw) r in (ev, (st1, w1), o, v).

  Definition retry_loop (n : nat) (d : N) (st : rstate) (w : world) (r : record) (last : verdict)
    : list event * rstate * world * routput * verdict :=
    let '(ev, sw, o, v) := retry_gen _ _ (attempt_record r) ONothing n d (st, w) last in
    (ev, fst sw, snd sw, o, v).

  (* Runner::run_async *)
  Definition run_async (st : rstate) (w : world) (r : record)
    : list event * rstate * world * routput * verdict :=
    match record_retry r with
    | None => run_no_retry st w r
    | Some rt => retry_loop (N.to_nat (attempts rt)) (backoff rt) st w r Unreachable
    end.

  Inductive final := FOk | FErr (k : kind) (l : loc) | FBug.

  (* how a run over a list of records ends: ran off the end, stopped at a halt, or failed *)
  Inductive ending := Finished | Halted | Stopped (f : final).

  (* Runner::run_multi_async *)
  Fixpoint run_multi_e (st : rstate) (w : world) (rs : list record)
    : list event * rstate * world * ending :=
    match rs with
    | [] => ([], st, w, Finished)
    | RHalt _ :: _ => ([], st, w, Halted)
    | r :: rest =>
        let '(ev, st1, w1, _, v) := run_async st w r in
        match v with
        | Pass => let '(ev2, st2, w2, f) := run_multi_e st1 w1 rest in (ev ++ ev2, st2, w2, f)
        | Fail k => (ev, st1, w1, Stopped (FErr k (record_loc r)))
        | Unreachable => (ev, st1, w1, Stopped FBug)
        end
    end.

  Definition final_of (e : ending) : final :=
    match e with Finished | Halted => FOk | Stopped f => f end.

  Definition run_multi (st : rstate) (w : world) (rs : list record)
    : list event * rstate * world * final :=
    let '(ev, st', w', e) := run_multi_e st w rs in (ev, st', w', final_of e).

  (* calling Runner::run on each record in turn, whatever the verdicts (harness mode "each") *)
  Fixpoint run_each (st : rstate) (w : world) (rs : list record)
    : list event * rstate * world * list (routput * verdict) :=
    match rs with
    | [] => ([], st, w, [])
    | r :: rest =>
        let '(ev, st1, w1, o, v) := run_async st w r in
        let '(ev2, st2, w2, l) := run_each st1 w1 rest in
        (ev ++ ev2, st2, w2, (o, v) :: l)
    end.

  (* Connections::shutdown_all (order unspecified in the implementation: HashMap) *)
  Definition shutdown_all (st : rstate) : list event := map (fun p => EShutdown (snd p)) (conns st).
End Runner.
