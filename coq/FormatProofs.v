(* FormatProofs.v — C05: formatting (parse, write the records, parse again). *)
From SLT Require Import Base Text Syntax Duration Parser Render TextProofs RenderProofs
     Unparse FormatSpec.
From Coq Require Import ZArith Zify ZifyClasses.
Open Scope N_scope.

(* ------------------------------------------------------------------ *)
(* 0. a concrete well-formed script using every item kind              *)

Definition hl (n : nat) : hlay := mkHlay [] (repeat [32] (n - 1)) [].

Definition sample : list item :=
  [ IComment [lit " a comment"; lit "second line"];
    IBlank;
    ISpace [32; 9];
    ICond (mkHlay [9] [[160]] [32]) (OnlyIf (lit "pg"));
    IConnection (hl 2) (lit "c1");
    IControl (hl 3) (CtlSortMode RowSort);
    IThreshold (hl 2) 8;
    ISleep (hl 2) (lit "1s500ms") 1500000000;
    ISubtest (hl 2) (lit "t1");
    IInclude (hl 2) (lit "other.slt");
    IStatement (hl 6) SFOk (Some (mkRClause 3 (lit "1s") 1000000000))
               [lit "create table t(a int)"] EndBlank MEndDouble;
    IStatement (hl 4) (SFErrInline [lit "div"; lit "by"]) None [lit "select 1/0"] EndBlank MEndDouble;
    IStatement (hl 2) (SFErrMulti [lit "line1"; []; lit "line3"]) None
               [lit "select"; lit "x"] EndBlank MEndDouble;
    IQuery (mkHlay [] [[9]; [32; 32]; [160]; [32]; [32]; [32]; [32]] [9])
           (QFResults (lit "IT") (lit "IT") (Some RowSort) (Some (lit "lbl")) true [lit "1 a"; lit "2 b"])
           (Some (mkRClause 2 (lit "10ms") 10000000)) [lit "select * from t"] EndBlank MEndDouble;
    IQuery (hl 2) (QFErrMulti [lit "boom"]) None [lit "select 2"] EndBlank MEndDouble;
    IHalt (hl 1);
    ISystem (hl 2) None [lit "echo hi"] (Some [lit "hi"; lit "there"]) EndBlank MEndEof ].

Lemma sample_parse :
  parse default_col (fun _ => true) (lit "t.slt") None (render sample [true; false; true] false)
  = POk (elab (lit "t.slt") None sample).
Proof. vm_compute. reflexivity. Qed.

Lemma blank_check b :
  forallb (fun c => is_ws c && negb (c =? 10) && negb (c =? 13)) b = true -> blank b.
Proof.
  intros H. apply Forall_forall. intros c Hc. rewrite forallb_forall in H. apply H in Hc.
  apply andb_true_iff in Hc as [Hc H3]. apply andb_true_iff in Hc as [H1 H2].
  apply negb_true_iff in H2, H3. apply N.eqb_neq in H2, H3. repeat split; assumption.
Qed.

Lemma line_ok_check l :
  forallb (fun c => negb (c =? 10)) l && negb (last l 0 =? 13) = true -> line_ok l.
Proof.
  intros H. apply andb_true_iff in H as [H1 H2]. split.
  - intros Hin. rewrite forallb_forall in H1. apply H1 in Hin. discriminate Hin.
  - apply negb_true_iff in H2. apply N.eqb_neq in H2. exact H2.
Qed.

Lemma nodbl_wf t :
  nodbl t -> forall a b u v, t = u ++ a :: b :: v -> ~ (a = [] /\ b = []).
Proof.
  intros Hn a b u. revert t Hn. induction u as [|x u IH]; intros t Hn v E; subst t.
  - cbn in Hn. destruct Hn as [Hn _]. exact Hn.
  - cbn [app nodbl] in Hn. destruct Hn as [_ Hn]. eapply IH; [exact Hn | reflexivity].
Qed.

Ltac wfs :=
  repeat first
    [ exact I
    | discriminate
    | lia
    | apply token_check; vm_compute; reflexivity
    | apply blank_check; vm_compute; reflexivity
    | apply line_ok_check; vm_compute; reflexivity
    | apply Forall_nil
    | apply Forall_cons
    | apply nodbl_wf; cbn [nodbl]
    | match goal with
      | |- forall c, hd_error _ = Some c -> _ =>
          let c := fresh "c" in let H := fresh "H" in
          intros c H; vm_compute in H; injection H as <-; reflexivity
      | |- ~ (_ /\ _) => let H := fresh "H" in intros [H ?]; discriminate
      | |- _ = _ => vm_compute; reflexivity
      | |- _ -> _ => intro
      end
    | split ].

Lemma sample_wf : wf_script default_col (fun _ => true) sample.
Proof.
  unfold sample. cbn [wf_script wf_item wf_sform wf_qform wf_inline wf_retry wf_rclause wf_block
                       wf_multi wf_hlay is_comment hl h_lead h_trail h_seps rc_attempts rc_dtok rc_ns].
  wfs.
Qed.

Example wf_sample : exists a, wf_script default_col (fun _ => true) a /\ (length a >= 12)%nat /\
    parse default_col (fun _ => true) (lit "t.slt") None (render a [true;false;true] false)
    = POk (elab (lit "t.slt") None a).
Proof.
  exists sample. split; [exact sample_wf|]. split; [cbn; lia | exact sample_parse].
Qed.

(* ------------------------------------------------------------------ *)
(* 3. durations                                                        *)

Ltac divlia := zify; Z.to_euclidean_division_equations; lia.

Definition unit_char (c : N) : bool := is_alpha c && negb (is_digit c).
Definition good_unit (u : str) : Prop := u <> [] /\ Forall (fun c => unit_char c = true) u.

Lemma good_unit_check u :
  (match u with [] => false | _ => true end) && forallb unit_char u = true -> good_unit u.
Proof.
  intros H. apply andb_true_iff in H as [H1 H2]. split.
  - destruct u; [discriminate H1 | discriminate].
  - apply Forall_forall. rewrite forallb_forall in H2. exact H2.
Qed.

Lemma digits_val_le : forall ds a b, digits_val a ds = Some b -> a <= b.
Proof.
  induction ds as [|c ds IH]; intros a b H; cbn [digits_val] in H.
  - inversion H; subst. lia.
  - destruct (is_digit c); [|discriminate]. apply IH in H. lia.
Qed.

Lemma dur_go_digits : forall ds n s cur v,
  digits_val n ds = Some v -> v <= U64MAX ->
  dur_go (ds ++ s) (DNum n) cur = dur_go s (DNum v) cur.
Proof.
  induction ds as [|c ds IH]; intros n s cur v H Hv; cbn [digits_val] in H.
  - inversion H; subst. reflexivity.
  - destruct (is_digit c) eqn:Ed; [|discriminate].
    cbn [app dur_go]. rewrite Ed.
    pose proof (digits_val_le _ _ _ H) as Hle.
    destruct (N.ltb_spec U64MAX (n * 10 + (c - 48))) as [Hlt|Hge]; [lia|].
    apply IH; assumption.
Qed.

Lemma dur_go_unit : forall u acc n s cur,
  Forall (fun c => unit_char c = true) u ->
  dur_go (u ++ s) (DUnit n acc) cur = dur_go s (DUnit n (rev u ++ acc)) cur.
Proof.
  induction u as [|c u IH]; intros acc n s cur H; [reflexivity|].
  inversion H as [|c' u' Hc Hu]; subst. unfold unit_char in Hc.
  apply andb_true_iff in Hc as [Ha Hd]. apply negb_true_iff in Hd.
  cbn [app dur_go rev]. rewrite Hd, Ha. rewrite IH by assumption.
  rewrite <- app_assoc. reflexivity.
Qed.

Lemma dur_go_unit0 u n s cur :
  good_unit u -> dur_go (u ++ s) (DNum n) cur = dur_go s (DUnit n (rev u)) cur.
Proof.
  intros [Hne H]. destruct u as [|c u]; [contradiction|].
  inversion H as [|c' u' Hc Hu]; subst. unfold unit_char in Hc.
  apply andb_true_iff in Hc as [Ha Hd]. apply negb_true_iff in Hd.
  cbn [app dur_go rev]. rewrite Hd, Ha. apply dur_go_unit. assumption.
Qed.

Definition comp := (N * str)%type.
Definition comp_str (p : comp) : str := dec (fst p) ++ snd p.
Definition comps_text (cs : list comp) : str := flat_map comp_str cs.

Fixpoint go_comps (cs : list comp) (cur : N * N) : option (N * N) :=
  match cs with
  | [] => Some cur
  | p :: r => match parse_unit (fst p) (snd p) cur with
              | Some cur' => go_comps r cur'
              | None => None
              end
  end.

Definition comp_ok (p : comp) : Prop := good_unit (snd p) /\ fst p <= U64MAX.

Lemma dec_split v : exists c ds, dec v = c :: ds /\ is_digit c = true /\ digits_val (c - 48) ds = Some v.
Proof.
  pose proof (dec_nonnil v) as Hne. pose proof (dec_val v) as Hv.
  destruct (dec v) as [|c ds]; [contradiction|]. exists c, ds.
  cbn [digits_val] in Hv. destruct (is_digit c); [|discriminate].
  repeat split. exact Hv.
Qed.

Lemma dur_comps : forall r p cur,
  comp_ok p -> Forall comp_ok r ->
  exists c tl, comps_text (p :: r) = c :: tl /\ is_digit c = true /\
               dur_go tl (DNum (c - 48)) cur = go_comps (p :: r) cur.
Proof.
  induction r as [|q r IH]; intros [v u] cur [Hu Hv] Hr; cbn [fst snd] in *;
    destruct (dec_split v) as (c & ds & Ed & Hc & Hds); exists c.
  - exists (ds ++ u). unfold comps_text, comp_str. cbn [flat_map fst snd]. rewrite Ed, app_nil_r.
    repeat split; [exact Hc|].
    rewrite (dur_go_digits ds _ _ _ v Hds Hv).
    rewrite <- (app_nil_r u) at 1. rewrite dur_go_unit0 by assumption.
    cbn [dur_go go_comps fst snd]. rewrite frev_rev_id.
    destruct (parse_unit v u cur); reflexivity.
  - inversion Hr as [|q' r' Hq Hr']; subst.
    exists (ds ++ u ++ comps_text (q :: r)). unfold comps_text at 1. cbn [flat_map].
    unfold comp_str at 1. cbn [fst snd]. rewrite Ed. fold (comps_text (q :: r)).
    split; [rewrite <- app_assoc; reflexivity|]. split; [exact Hc|].
    rewrite (dur_go_digits ds _ _ _ v Hds Hv).
    rewrite dur_go_unit0 by assumption.
    cbn [go_comps fst snd].
    destruct (IH q (0, 0) Hq Hr') as (c1 & tl1 & E1 & Hc1 & _).
    rewrite E1. cbn [dur_go]. rewrite Hc1. rewrite frev_rev_id.
    destruct (parse_unit v u cur) as [cur'|]; [|reflexivity].
    destruct (IH q cur' Hq Hr') as (c2 & tl2 & E2 & _ & Hgo).
    rewrite E1 in E2. inversion E2; subst. exact Hgo.
Qed.

(* total seconds / nanoseconds denoted by a component list *)
Fixpoint sums (cs : list comp) : N * N :=
  match cs with
  | [] => (0, 0)
  | p :: r =>
      match unit_of (snd p) with
      | Some (true, k) => (fst p * k + fst (sums r), snd (sums r))
      | Some (false, k) => (fst (sums r), fst p * k + snd (sums r))
      | None => sums r
      end
  end.

Lemma go_comps_sums : forall cs s0 n0,
  Forall (fun p => unit_of (snd p) <> None) cs ->
  s0 + fst (sums cs) <= U64MAX -> n0 + snd (sums cs) <= NS_PER_S ->
  go_comps cs (s0, n0) = Some (s0 + fst (sums cs), n0 + snd (sums cs)).
Proof.
  induction cs as [|[v u] r IH]; intros s0 n0 Hu Hs Hn.
  - cbn [go_comps sums fst snd]. rewrite !N.add_0_r. reflexivity.
  - inversion Hu as [|p r' Hp Hr]; subst. cbn [fst snd] in Hp.
    cbn [go_comps sums fst snd] in *.
    destruct (unit_of u) as [[b k]|] eqn:Eu; [|contradiction].
    unfold parse_unit. rewrite Eu.
    unfold U64MAX, NS_PER_S in *.
    destruct b; cbn [fst snd] in *;
      repeat match goal with
             | |- context [?a <? ?b] => destruct (N.ltb_spec a b); [lia|]
             end;
      (rewrite IH; [f_equal; f_equal; lia | assumption | lia | lia]).
Qed.

Definition nz (p : comp) : bool := negb (fst p =? 0).

Lemma sums_filter cs : sums (filter nz cs) = sums cs.
Proof.
  induction cs as [|[v u] r IH]; [reflexivity|].
  cbn [filter]. unfold nz at 1. cbn [fst].
  destruct (N.eqb_spec v 0) as [->|Hv]; cbn [negb sums fst snd]; rewrite IH.
  - destruct (unit_of u) as [[[] k]|]; try reflexivity; destruct (sums r); reflexivity.
  - reflexivity.
Qed.

Lemma comps_text_filter p r :
  comps_text (filter nz (p :: r)) =
  (if fst p =? 0 then [] else comp_str p) ++ comps_text (filter nz r).
Proof.
  cbn [filter]. unfold nz at 1. destruct (fst p =? 0); reflexivity.
Qed.

(* the components written by format_duration *)
Definition uname (name : str) (pl : bool) (v : N) : str :=
  name ++ (if pl && (1 <? v) then lit "s" else []).

Definition dur_comps9 (d : N) : list comp :=
  let secs := d / NS_PER_S in
  let nanos := d mod NS_PER_S in
  let ydays := secs mod 31557600 in
  let mdays := ydays mod 2630016 in
  let day_secs := mdays mod 86400 in
  [ (secs / 31557600, uname (lit "year") true (secs / 31557600));
    (ydays / 2630016, uname (lit "month") true (ydays / 2630016));
    (mdays / 86400, uname (lit "day") true (mdays / 86400));
    (day_secs / 3600, uname (lit "h") false (day_secs / 3600));
    (day_secs mod 3600 / 60, uname (lit "m") false (day_secs mod 3600 / 60));
    (day_secs mod 60, uname (lit "s") false (day_secs mod 60));
    (nanos / 1000000, uname (lit "ms") false (nanos / 1000000));
    (nanos / 1000 mod 1000, uname (lit "us") false (nanos / 1000 mod 1000));
    (nanos mod 1000, uname (lit "ns") false (nanos mod 1000)) ].

Definition nsp (c : N) : bool := negb (c =? 32).

Lemma filter_id {A} (f : A -> bool) l : Forall (fun x => f x = true) l -> filter f l = l.
Proof.
  induction l as [|x l IH]; intros H; [reflexivity|].
  inversion H as [|x' l' Hx Hl]; subst. cbn [filter]. rewrite Hx, IH by assumption. reflexivity.
Qed.

Lemma filter_nsp_dec v : filter nsp (dec v) = dec v.
Proof.
  apply filter_id. eapply Forall_impl; [|apply dec_digits]. intros c Hc.
  apply is_digit_range in Hc. unfold nsp. destruct (N.eqb_spec c 32); [lia|reflexivity].
Qed.

Lemma fmt_item_filter st name pl v :
  filter nsp name = name ->
  filter nsp (fst (fmt_item st name pl v)) =
  if v =? 0 then [] else dec v ++ uname name pl v.
Proof.
  intros Hn. unfold fmt_item, uname. destruct (v =? 0); cbn [fst]; [reflexivity|].
  rewrite !filter_app, filter_nsp_dec, Hn.
  replace (filter nsp (if st then [32] else [])) with (@nil N) by (destruct st; reflexivity).
  destruct (pl && (1 <? v)); reflexivity.
Qed.

Lemma compact_comps d :
  (d / NS_PER_S =? 0) && (d mod NS_PER_S =? 0) = false ->
  compact_duration d = comps_text (filter nz (dur_comps9 d)).
Proof.
  intros Hz. unfold compact_duration, format_duration. fold nsp. rewrite Hz. cbv zeta.
  repeat match goal with
         | |- context [fmt_item ?a ?b ?c ?d] =>
             let E := fresh "E" in
             destruct (fmt_item a b c d) as [? ?] eqn:E;
             apply (f_equal fst) in E; cbn [fst] in E
         end.
  rewrite !filter_app.
  repeat match goal with
         | E : fst (fmt_item _ _ _ _) = _ |- _ => rewrite <- E; clear E
         end. rewrite !fmt_item_filter by reflexivity.
  unfold dur_comps9. cbv zeta. rewrite !comps_text_filter. cbn [fst filter comps_text flat_map].
  rewrite app_nil_r. unfold comp_str. cbn [fst snd]. reflexivity.
Qed.

Lemma unit_of_year v : unit_of (uname (lit "year") true v) = Some (true, 31557600).
Proof. unfold uname. destruct (1 <? v); reflexivity. Qed.
Lemma unit_of_month v : unit_of (uname (lit "month") true v) = Some (true, 2630016).
Proof. unfold uname. destruct (1 <? v); reflexivity. Qed.
Lemma unit_of_day v : unit_of (uname (lit "day") true v) = Some (true, 86400).
Proof. unfold uname. destruct (1 <? v); reflexivity. Qed.
Lemma unit_of_h v : unit_of (uname (lit "h") false v) = Some (true, 3600).
Proof. reflexivity. Qed.
Lemma unit_of_m v : unit_of (uname (lit "m") false v) = Some (true, 60).
Proof. reflexivity. Qed.
Lemma unit_of_s v : unit_of (uname (lit "s") false v) = Some (true, 1).
Proof. reflexivity. Qed.
Lemma unit_of_ms v : unit_of (uname (lit "ms") false v) = Some (false, 1000000).
Proof. reflexivity. Qed.
Lemma unit_of_us v : unit_of (uname (lit "us") false v) = Some (false, 1000).
Proof. reflexivity. Qed.
Lemma unit_of_ns v : unit_of (uname (lit "ns") false v) = Some (false, 1).
Proof. reflexivity. Qed.

Lemma sums_cons_sec v u k r :
  unit_of u = Some (true, k) -> sums ((v, u) :: r) = (v * k + fst (sums r), snd (sums r)).
Proof. intros H. cbn [sums fst snd]. rewrite H. reflexivity. Qed.
Lemma sums_cons_ns v u k r :
  unit_of u = Some (false, k) -> sums ((v, u) :: r) = (fst (sums r), v * k + snd (sums r)).
Proof. intros H. cbn [sums fst snd]. rewrite H. reflexivity. Qed.

Definition comps_of (y mo da h m s ms us ns : N) : list comp :=
  [ (y, uname (lit "year") true y); (mo, uname (lit "month") true mo);
    (da, uname (lit "day") true da); (h, uname (lit "h") false h);
    (m, uname (lit "m") false m); (s, uname (lit "s") false s);
    (ms, uname (lit "ms") false ms); (us, uname (lit "us") false us);
    (ns, uname (lit "ns") false ns) ].

Lemma sums_comps_of y mo da h m s ms us ns :
  sums (comps_of y mo da h m s ms us ns) =
  (y * 31557600 + (mo * 2630016 + (da * 86400 + (h * 3600 + (m * 60 + (s * 1 + 0))))),
   ms * 1000000 + (us * 1000 + (ns * 1 + 0))).
Proof.
  unfold comps_of.
  rewrite (sums_cons_sec _ _ _ _ (unit_of_year y)).
  rewrite (sums_cons_sec _ _ _ _ (unit_of_month mo)).
  rewrite (sums_cons_sec _ _ _ _ (unit_of_day da)).
  rewrite (sums_cons_sec _ _ _ _ (unit_of_h h)).
  rewrite (sums_cons_sec _ _ _ _ (unit_of_m m)).
  rewrite (sums_cons_sec _ _ _ _ (unit_of_s s)).
  rewrite (sums_cons_ns _ _ _ _ (unit_of_ms ms)).
  rewrite (sums_cons_ns _ _ _ _ (unit_of_us us)).
  rewrite (sums_cons_ns _ _ _ _ (unit_of_ns ns)).
  cbn [sums fst snd]. reflexivity.
Qed.

Lemma dur_comps9_of d :
  dur_comps9 d =
  let secs := d / NS_PER_S in
  let nanos := d mod NS_PER_S in
  let ydays := secs mod 31557600 in
  let mdays := ydays mod 2630016 in
  let day_secs := mdays mod 86400 in
  comps_of (secs / 31557600) (ydays / 2630016) (mdays / 86400) (day_secs / 3600)
           (day_secs mod 3600 / 60) (day_secs mod 60) (nanos / 1000000)
           (nanos / 1000 mod 1000) (nanos mod 1000).
Proof. reflexivity. Qed.

Lemma sums_dur_comps9 d : sums (dur_comps9 d) = (d / NS_PER_S, d mod NS_PER_S).
Proof.
  rewrite dur_comps9_of. cbv zeta. rewrite sums_comps_of.
  unfold NS_PER_S. f_equal; divlia.
Qed.

Lemma good_unit_uname name pl v :
  good_unit name -> good_unit (uname name pl v).
Proof.
  intros [Hne H]. unfold uname. split.
  - destruct name; [contradiction | discriminate].
  - apply Forall_app. split; [exact H|].
    destruct (pl && (1 <? v)); repeat constructor.
Qed.

Lemma dur_comps9_ok d :
  d <= U64MAX * NS_PER_S + 999999999 -> Forall comp_ok (dur_comps9 d).
Proof.
  intros Hd. unfold dur_comps9. cbv zeta. unfold U64MAX, NS_PER_S in *.
  repeat (apply Forall_cons || apply Forall_nil); split; cbn [fst snd];
    try (apply good_unit_uname; apply good_unit_check; vm_compute; reflexivity);
    unfold U64MAX; divlia.
Qed.

Lemma dur_comps9_units d : Forall (fun p => unit_of (snd p) <> None) (dur_comps9 d).
Proof.
  unfold dur_comps9. cbv zeta.
  repeat (apply Forall_cons || apply Forall_nil); cbn [snd];
    rewrite ?unit_of_year, ?unit_of_month, ?unit_of_day; discriminate.
Qed.

Lemma Forall_filter {A} (P : A -> Prop) f l : Forall P l -> Forall P (filter f l).
Proof.
  intros H. apply Forall_forall. intros x Hx. apply filter_In in Hx as [Hx _].
  rewrite Forall_forall in H. apply H. exact Hx.
Qed.

Lemma alpha_not_ws c : is_alpha c = true -> is_ws c = false.
Proof.
  intros H.
  assert (Hr : 65 <= c <= 122).
  { unfold is_alpha in H. apply orb_true_iff in H as [H|H];
      apply andb_true_iff in H as [H1 H2]; apply N.leb_le in H1, H2; lia. }
  assert (Hall : forallb (fun c => negb (is_ws c)) (map N.of_nat (seq 65 58)) = true)
    by (vm_compute; reflexivity).
  rewrite forallb_forall in Hall.
  assert (Hin : In c (map N.of_nat (seq 65 58))).
  { apply in_map_iff. exists (N.to_nat c). split; [apply N2Nat.id|]. apply in_seq. lia. }
  apply Hall in Hin. apply negb_true_iff in Hin. exact Hin.
Qed.

Lemma comp_str_no_ws p : comp_ok p -> Forall (fun c => is_ws c = false) (comp_str p).
Proof.
  intros [[_ Hu] _]. unfold comp_str. apply Forall_app. split; [apply dec_no_ws|].
  eapply Forall_impl; [|exact Hu]. intros c Hc. unfold unit_char in Hc.
  apply andb_true_iff in Hc as [Ha _]. apply alpha_not_ws. exact Ha.
Qed.

Theorem compact_duration_roundtrip :
  forall d, d <= U64MAX * NS_PER_S + 999999999 ->
    parse_duration (compact_duration d) = DOk d /\ token (compact_duration d).
Proof.
  intros d Hd.
  destruct ((d / NS_PER_S =? 0) && (d mod NS_PER_S =? 0)) eqn:Hz.
  - apply andb_true_iff in Hz as [H1 H2]. apply N.eqb_eq in H1, H2.
    assert (d = 0) by (unfold NS_PER_S in *; divlia). subst d.
    split; [vm_compute; reflexivity | tok_lit].
  - rewrite (compact_comps d Hz).
    pose proof (sums_filter (dur_comps9 d)) as Hsum. rewrite sums_dur_comps9 in Hsum.
    pose proof (Forall_filter _ nz _ (dur_comps9_ok d Hd)) as Hok.
    pose proof (Forall_filter _ nz _ (dur_comps9_units d)) as Hun.
    destruct (filter nz (dur_comps9 d)) as [|p r] eqn:Ef.
    { cbn [sums] in Hsum. inversion Hsum as [[H1 H2]]. rewrite <- H1, <- H2 in Hz. discriminate Hz. }
    inversion Hok as [|p' r' Hp Hr]; subst.
    destruct (dur_comps r p (0, 0) Hp Hr) as (c & tl & Et & Hc & Hgo).
    split.
    + rewrite Et. unfold parse_duration. rewrite Hc, Hgo.
      rewrite go_comps_sums; [| exact Hun | rewrite Hsum | rewrite Hsum]; cbn [fst snd].
      * rewrite Hsum. cbn [fst snd]. rewrite !N.add_0_l.
        assert (Hn : d mod NS_PER_S < NS_PER_S) by (apply N.mod_lt; discriminate).
        destruct (N.eqb_spec (d mod NS_PER_S) NS_PER_S) as [E|E]; [lia|].
        cbn [andb]. f_equal. unfold NS_PER_S in *. divlia.
      * unfold U64MAX, NS_PER_S in *. divlia.
      * unfold NS_PER_S in *. divlia.
    + split.
      * rewrite Et. discriminate.
      * unfold comps_text. clear Et Hgo Ef Hsum Hun.
        induction Hok as [|q l Hq Hl IH]; [constructor|].
        cbn [flat_map]. apply Forall_app. split; [apply comp_str_no_ws; exact Hq | exact IH].
Qed.

Print Assumptions compact_duration_roundtrip.


(* ------------------------------------------------------------------ *)
(* 1a. strings as LF-separated lines                                   *)

Fixpoint nlsplit (s : str) : list str :=
  match s with
  | [] => [[]]
  | c :: r => if c =? 10 then [] :: nlsplit r
              else match nlsplit r with
                   | a :: rest => (c :: a) :: rest
                   | [] => [[c]]
                   end
  end.

Lemma nlsplit_nonnil s : nlsplit s <> [].
Proof.
  destruct s as [|c r]; cbn [nlsplit]; [discriminate|].
  destruct (c =? 10); [discriminate|]. destruct (nlsplit r); discriminate.
Qed.

Lemma join_nlsplit s : join nl (nlsplit s) = s.
Proof.
  induction s as [|c r IH]; [reflexivity|]. cbn [nlsplit].
  pose proof (nlsplit_nonnil r) as Hne.
  destruct (N.eqb_spec c 10) as [->|Hc].
  - destruct (nlsplit r) as [|a rest]; [contradiction|].
    rewrite join_cons2. rewrite IH. reflexivity.
  - destruct (nlsplit r) as [|a rest]; [contradiction|].
    destruct rest as [|b rest].
    + cbn [join] in *. rewrite IH. reflexivity.
    + rewrite join_cons2 in *. rewrite <- IH. reflexivity.
Qed.

Lemma nlsplit_noLF s : Forall (fun l => ~ In 10 l) (nlsplit s).
Proof.
  induction s as [|c r IH]; cbn [nlsplit].
  - constructor; [intros H; exact H | constructor].
  - destruct (N.eqb_spec c 10) as [->|Hc].
    + constructor; [intros H; exact H | exact IH].
    + destruct (nlsplit r) as [|a rest].
      * constructor; [|constructor]. intros [E|E]; [congruence | exact E].
      * inversion IH as [|a' rest' Ha Hrest]; subst. constructor; [|exact Hrest].
        intros [E|E]; [congruence | exact (Ha E)].
Qed.

Lemma nlsplit_line a s : ~ In 10 a -> nlsplit (a ++ 10 :: s) = a :: nlsplit s.
Proof.
  induction a as [|c a IH]; intros H; [reflexivity|].
  cbn [app nlsplit]. destruct (N.eqb_spec c 10) as [->|Hc]; [exfalso; apply H; left; reflexivity|].
  rewrite IH by (intros E; apply H; right; exact E). reflexivity.
Qed.

Lemma nlsplit_single a : ~ In 10 a -> nlsplit a = [a].
Proof.
  induction a as [|c a IH]; intros H; [reflexivity|].
  cbn [nlsplit]. destruct (N.eqb_spec c 10) as [->|Hc]; [exfalso; apply H; left; reflexivity|].
  rewrite IH by (intros E; apply H; right; exact E). reflexivity.
Qed.

Lemma nlsplit_join ls :
  ls <> [] -> Forall (fun l => ~ In 10 l) ls -> nlsplit (join nl ls) = ls.
Proof.
  induction ls as [|a ls IH]; intros Hne H; [contradiction|].
  inversion H as [|a' ls' Ha Hls]; subst.
  destruct ls as [|b ls].
  - cbn [join]. apply nlsplit_single. exact Ha.
  - rewrite join_cons2. unfold nl at 1. cbn [app]. rewrite nlsplit_line by exact Ha.
    rewrite IH; [reflexivity | discriminate | exact Hls].
Qed.

Lemma nlsplit_hd_nil r rest : nlsplit r = [] :: rest -> r = [] \/ hd_error r = Some 10.
Proof.
  destruct r as [|c r]; [left; reflexivity|]. cbn [nlsplit hd_error].
  destruct (N.eqb_spec c 10) as [->|Hc]; [right; reflexivity|].
  destruct (nlsplit r); discriminate.
Qed.

Lemma nlsplit_last_nil : forall t, last (nlsplit t) [] = [] -> t = [] \/ last t 0 = 10.
Proof.
  induction t as [|c r IH]; intros H; [left; reflexivity|]. right.
  cbn [nlsplit] in H. pose proof (nlsplit_nonnil r) as Hne.
  destruct (N.eqb_spec c 10) as [->|Hc].
  - destruct (nlsplit r) as [|a rest] eqn:E; [contradiction|].
    change (last ([] :: a :: rest) []) with (last (a :: rest) []) in H.
    destruct (IH H) as [->|Hl]; [reflexivity|].
    destruct r as [|c' r']; [cbn in E; reflexivity | exact Hl].
  - destruct (nlsplit r) as [|a rest] eqn:E; [contradiction|].
    destruct rest as [|b rest]; [discriminate H|].
    change (last ((c :: a) :: b :: rest) []) with (last (a :: b :: rest) []) in H.
    destruct (IH H) as [->|Hl]; [discriminate E|].
    destruct r as [|c' r']; [discriminate E | exact Hl].
Qed.

(* forbidden patterns: CR LF, and LF LF LF *)
Fixpoint nocrlf (s : str) : Prop :=
  match s with
  | [] => True
  | c :: r => ~ (c = 13 /\ hd_error r = Some 10) /\ nocrlf r
  end.

Definition starts2 (s : str) : Prop := hd_error s = Some 10 /\ hd_error (tl s) = Some 10.

Fixpoint ok3 (s : str) : Prop :=
  match s with
  | [] => True
  | c :: r => ~ (c = 10 /\ starts2 r) /\ ok3 r
  end.

Lemma nocrlf_suffix a b : nocrlf (a ++ b) -> nocrlf b.
Proof. induction a as [|c a IH]; intros H; [exact H|]. apply IH. apply H. Qed.

Lemma ok3_suffix a b : ok3 (a ++ b) -> ok3 b.
Proof. induction a as [|c a IH]; intros H; [exact H|]. apply IH. apply H. Qed.

Lemma hd_error_app {A} (a b : list A) x : hd_error a = Some x -> hd_error (a ++ b) = Some x.
Proof. destruct a; [discriminate | intros H; exact H]. Qed.

Lemma nocrlf_prefix a b : nocrlf (a ++ b) -> nocrlf a.
Proof.
  induction a as [|c a IH]; intros H; [exact I|]. cbn [app nocrlf] in *. destruct H as [H1 H2].
  split; [|apply IH; exact H2]. intros [Hc Hh]. apply H1. split; [exact Hc|].
  apply hd_error_app. exact Hh.
Qed.

Lemma starts2_app a b : starts2 a -> starts2 (a ++ b).
Proof.
  intros [H1 H2]. destruct a as [|x a]; [discriminate H1|]. cbn [tl] in H2.
  split; [exact H1|]. cbn [app tl]. apply hd_error_app. exact H2.
Qed.

Lemma ok3_prefix a b : ok3 (a ++ b) -> ok3 a.
Proof.
  induction a as [|c a IH]; intros H; [exact I|]. cbn [app ok3] in *. destruct H as [H1 H2].
  split; [|apply IH; exact H2]. intros [Hc Hs]. apply H1. split; [exact Hc|].
  apply starts2_app. exact Hs.
Qed.

(* lines to string *)
Definition lf_lines (ms : list str) : str := flat_map (fun l => l ++ [10]) ms.

Lemma nocrlf_line l rest :
  ~ In 10 l -> last l 0 <> 13 -> nocrlf rest -> nocrlf (l ++ 10 :: rest).
Proof.
  intros Hlf Hcr Hrest. induction l as [|c l IH].
  - cbn [app nocrlf]. split; [|exact Hrest]. intros [E _]. discriminate E.
  - cbn [app nocrlf]. split.
    + intros [Hc Hh]. destruct l as [|c' l].
      * cbn in Hcr. contradiction.
      * cbn in Hh. inversion Hh; subst. apply Hlf. right. left. reflexivity.
    + apply IH.
      * intros E. apply Hlf. right. exact E.
      * destruct l as [|c' l]; [cbn; discriminate | exact Hcr].
Qed.

Lemma nocrlf_lf_lines ms : Forall line_ok ms -> nocrlf (lf_lines ms).
Proof.
  induction ms as [|l ms IH]; intros H; [exact I|].
  inversion H as [|l' ms' [H1 H2] Hms]; subst.
  unfold lf_lines. cbn [flat_map]. rewrite <- app_assoc. cbn [app].
  apply nocrlf_line; [assumption | assumption | apply IH; assumption].
Qed.

Lemma ok3_line l rest :
  ~ In 10 l -> ~ starts2 rest -> ok3 rest -> ok3 (l ++ 10 :: rest).
Proof.
  intros Hlf Hs Hrest. induction l as [|c l IH].
  - cbn [app ok3]. split; [|exact Hrest]. intros [_ E]. exact (Hs E).
  - cbn [app ok3]. split.
    + intros [Hc _]. apply Hlf. left. exact Hc.
    + apply IH. intros E. apply Hlf. right. exact E.
Qed.

Lemma starts2_lf_lines ms :
  Forall (fun l => ~ In 10 l) ms -> starts2 (lf_lines ms) ->
  exists r, ms = [] :: [] :: r.
Proof.
  intros Hlf [H1 H2]. destruct ms as [|a ms]; [discriminate H1|].
  inversion Hlf as [|a' ms' Ha Hms]; subst.
  unfold lf_lines in *. cbn [flat_map] in *.
  destruct a as [|c a].
  - cbn [app tl] in H2. destruct ms as [|b ms]; [discriminate H2|].
    inversion Hms as [|b' ms'' Hb _]; subst. cbn [flat_map] in H2.
    destruct b as [|c b]; [exists ms; reflexivity|].
    cbn in H2. inversion H2; subst. exfalso. apply Hb. left. reflexivity.
  - cbn in H1. inversion H1; subst. exfalso. apply Ha. left. reflexivity.
Qed.

Lemma ok3_lf_lines ms :
  Forall (fun l => ~ In 10 l) ms -> nodbl ms -> ok3 (lf_lines ms).
Proof.
  induction ms as [|l ms IH]; intros Hlf Hnd; [exact I|].
  inversion Hlf as [|l' ms' Hl Hms]; subst. destruct Hnd as [Hd Hnd].
  unfold lf_lines. cbn [flat_map]. rewrite <- app_assoc. cbn [app].
  apply ok3_line; [exact Hl | | apply IH; assumption].
  intros Hs. destruct (starts2_lf_lines ms Hms Hs) as [r ->].
  destruct Hnd as [Hd' _]. apply Hd'. split; reflexivity.
Qed.

(* from the string properties back to lines *)
Lemma nocrlf_nlsplit : forall t,
  nocrlf t -> last t 0 <> 13 -> Forall (fun l => last l 0 <> 13) (nlsplit t).
Proof.
  induction t as [|c r IH]; intros Hn Hl.
  - constructor; [cbn; discriminate | constructor].
  - cbn [nocrlf] in Hn. destruct Hn as [Hn1 Hn2].
    assert (Hlr : last r 0 <> 13) by (destruct r; [cbn; discriminate | exact Hl]).
    specialize (IH Hn2 Hlr). cbn [nlsplit].
    destruct (N.eqb_spec c 10) as [->|Hc].
    + constructor; [cbn; discriminate | exact IH].
    + pose proof (nlsplit_nonnil r) as Hne.
      destruct (nlsplit r) as [|a rest] eqn:E; [contradiction|].
      inversion IH as [|a' rest' Ha Hrest]; subst. constructor; [|exact Hrest].
      destruct a as [|c' a]; [|exact Ha].
      cbn [last]. intros ->. destruct (nlsplit_hd_nil _ _ E) as [->|Hh].
      * apply Hl. reflexivity.
      * apply Hn1. split; [reflexivity | exact Hh].
Qed.

Lemma ok3_nlsplit : forall s,
  ok3 s -> s <> [] -> last s 0 <> 10 ->
  nodbl (tl (nlsplit s)) /\ (~ starts2 s -> nodbl (nlsplit s)).
Proof.
  induction s as [|c r IH]; intros Hok Hne Hl; [contradiction|].
  cbn [ok3] in Hok. destruct Hok as [Hok1 Hok2].
  destruct r as [|c2 r2] eqn:Er.
  - cbn [last] in Hl. cbn [nlsplit]. destruct (N.eqb_spec c 10) as [->|Hc]; [contradiction|].
    cbn. repeat split; intros [E _]; discriminate E.
  - rewrite <- Er in *.
    assert (Hrne : r <> []) by (rewrite Er; discriminate).
    assert (Hlr : last r 0 <> 10) by (rewrite Er; rewrite Er in Hl; exact Hl).
    destruct (IH Hok2 Hrne Hlr) as [IH1 IH2].
    cbn [nlsplit].
    destruct (N.eqb_spec c 10) as [->|Hc].
    + cbn [tl].
      assert (Hns : ~ starts2 r) by (intros E; apply Hok1; split; [reflexivity | exact E]).
      split; [apply IH2; exact Hns|].
      intros Hs. pose proof (nlsplit_nonnil r) as Hnn.
      destruct (nlsplit r) as [|a rest] eqn:E; [contradiction|].
      cbn [nodbl]. split; [|apply IH2; exact Hns].
      intros [_ ->]. destruct (nlsplit_hd_nil _ _ E) as [E'|E']; [contradiction|].
      apply Hs. split; [reflexivity | exact E'].
    + pose proof (nlsplit_nonnil r) as Hnn.
      destruct (nlsplit r) as [|a rest] eqn:E; [contradiction|].
      cbn [tl] in *. split; [exact IH1|]. intros _. cbn [nodbl].
      split; [|exact IH1]. destruct rest; [exact I|]. intros [E' _]. discriminate E'.
Qed.

(* trim *)
Lemma drop_while_split p s :
  exists a, s = a ++ drop_while p s /\ Forall (fun c => p c = true) a.
Proof.
  induction s as [|c r IH]; [exists []; split; [reflexivity | constructor]|].
  cbn [drop_while]. destruct (p c) eqn:E.
  - destruct IH as (a & Ha & Hall). exists (c :: a). split; [cbn [app]; rewrite <- Ha; reflexivity|].
    constructor; assumption.
  - exists []. split; [reflexivity | constructor].
Qed.

Lemma drop_while_hd_false p s c r : drop_while p s = c :: r -> p c = false.
Proof.
  induction s as [|x s IH]; [discriminate|]. cbn [drop_while]. destruct (p x) eqn:E.
  - exact IH.
  - intros H. inversion H; subst. exact E.
Qed.

Lemma trim_end_split x : exists b, x = trim_end x ++ b.
Proof.
  unfold trim_end. destruct (drop_while_split is_ws (frev x)) as (a & Ha & _).
  exists (rev a). rewrite (frev_rev (drop_while is_ws (frev x))).
  rewrite <- rev_app_distr, <- Ha. rewrite frev_rev. symmetry. apply rev_involutive.
Qed.

Lemma trim_split s : exists a b, s = a ++ trim s ++ b.
Proof.
  unfold trim, trim_start. destruct (drop_while_split is_ws s) as (a & Ha & _).
  destruct (trim_end_split (drop_while is_ws s)) as (b & Hb).
  exists a, b. rewrite <- Hb. exact Ha.
Qed.

Lemma trim_shape s :
  trim s = [] \/
  ((forall c, hd_error (trim s) = Some c -> is_ws c = false) /\ is_ws (last (trim s) 0) = false).
Proof.
  unfold trim, trim_start, trim_end.
  set (x := drop_while is_ws s).
  destruct (drop_while is_ws (frev x)) as [|c r] eqn:Ed; [left; reflexivity|]. right.
  pose proof (drop_while_hd_false _ _ _ _ Ed) as Hc.
  rewrite frev_rev. cbn [rev]. split.
  - destruct (drop_while_split is_ws (frev x)) as (a & Ha & _). rewrite Ed in Ha.
    rewrite frev_rev in Ha. apply (f_equal (@rev N)) in Ha.
    rewrite rev_involutive, rev_app_distr in Ha. cbn [rev] in Ha.
    intros c0 Hc0.
    assert (Hx : hd_error x = Some c0).
    { rewrite Ha. apply hd_error_app. exact Hc0. }
    subst x. destruct (drop_while is_ws s) as [|y ys] eqn:Es; [discriminate Hx|].
    cbn in Hx. inversion Hx; subst. eapply drop_while_hd_false. exact Es.
  - rewrite last_last. exact Hc.
Qed.

Lemma trim_id s :
  (forall c, hd_error s = Some c -> is_ws c = false) -> is_ws (last s 0) = false -> trim s = s.
Proof.
  intros Hh Hl. unfold trim, trim_start, trim_end.
  rewrite (drop_while_hd is_ws s) by exact Hh.
  rewrite (drop_while_hd is_ws (frev s)).
  - apply frev_involutive.
  - intros c Hc. rewrite frev_rev in Hc. rewrite <- (rev_involutive s) in Hl.
    destruct (rev s) as [|x m]; [discriminate Hc|].
    cbn in Hc. inversion Hc; subst. cbn [rev] in Hl. rewrite last_last in Hl. exact Hl.
Qed.

Definition mtext_ok (t : str) : Prop :=
  t = [] \/
  ((forall c, hd_error t = Some c -> is_ws c = false) /\ is_ws (last t 0) = false /\
   ok3 t /\ nocrlf t).

Lemma line_ok_noLF ms : Forall line_ok ms -> Forall (fun l => ~ In 10 l) ms.
Proof. intros H. eapply Forall_impl; [|exact H]. intros l [Hl _]. exact Hl. Qed.

Lemma mtext_of_lines ms :
  Forall line_ok ms -> nodbl ms -> mtext_ok (trim (lf_lines ms)).
Proof.
  intros Hok Hnd.
  destruct (trim_shape (lf_lines ms)) as [E|[Hh Hl]]; [left; exact E|]. right.
  destruct (trim_split (lf_lines ms)) as (a & b & Hab).
  pose proof (ok3_lf_lines ms (line_ok_noLF ms Hok) Hnd) as H3.
  pose proof (nocrlf_lf_lines ms Hok) as Hc.
  rewrite Hab in H3, Hc.
  repeat split; try assumption.
  - eapply ok3_prefix. eapply ok3_suffix. exact H3.
  - eapply nocrlf_prefix. eapply nocrlf_suffix. exact Hc.
Qed.

Lemma nlsplit_cons_nonLF c r : c <> 10 -> exists a rest, nlsplit (c :: r) = (c :: a) :: rest.
Proof.
  intros Hc. cbn [nlsplit]. destruct (N.eqb_spec c 10); [contradiction|].
  destruct (nlsplit r) as [|a rest]; eexists; eexists; reflexivity.
Qed.

Lemma mtext_wf t :
  mtext_ok t -> t <> [] -> wf_multi (nlsplit t) /\ trim t = t /\ text_of (nlsplit t) = t.
Proof.
  intros [E|(Hh & Hl & H3 & Hc)] Hne; [contradiction|].
  split; [|split; [apply trim_id; assumption | apply join_nlsplit]].
  destruct t as [|c r]; [contradiction|].
  assert (Hcws : is_ws c = false) by (apply Hh; reflexivity).
  assert (Hc10 : c <> 10) by (intros ->; discriminate Hcws).
  destruct (nlsplit_cons_nonLF c r Hc10) as (a & rest & Esp).
  assert (Hlast : last (nlsplit (c :: r)) [] <> []).
  { intros E. destruct (nlsplit_last_nil _ E) as [E'|E']; [discriminate E'|].
    rewrite E' in Hl. discriminate Hl. }
  unfold wf_multi. split; [apply nlsplit_nonnil|]. split; [|split; [|split; [|split]]].
  - assert (H13 : last (c :: r) 0 <> 13) by (intros E; rewrite E in Hl; discriminate Hl).
    pose proof (nocrlf_nlsplit _ Hc H13) as Hcr. pose proof (nlsplit_noLF (c :: r)) as Hlf.
    rewrite Forall_forall in *. intros l Hin. split; [apply Hlf | apply Hcr]; exact Hin.
  - rewrite Esp. cbn. intros c0 Hc0. inversion Hc0; subst. exact Hcws.
  - rewrite Esp. cbn. discriminate.
  - split; [exact Hlast|].
    rewrite <- (join_last nl _ 0 Hlast). rewrite join_nlsplit. exact Hl.
  - apply nodbl_wf.
    assert (H10 : last (c :: r) 0 <> 10) by (intros E; rewrite E in Hl; discriminate Hl).
    destruct (ok3_nlsplit _ H3 ltac:(discriminate) H10) as [_ H]. apply H.
    intros [Hs _]. cbn in Hs. inversion Hs. contradiction.
Qed.


(* ------------------------------------------------------------------ *)
(* 1b. what str::lines and split_whitespace return                     *)

Lemma in_frev {A} (x : A) l : In x (frev l) <-> In x l.
Proof. rewrite frev_rev. symmetry. apply in_rev. Qed.

Lemma lines_aux_noLF_out : forall s cur,
  ~ In 10 cur -> Forall (fun l => ~ In 10 l) (lines_aux cur s).
Proof.
  induction s as [|c r IH]; intros cur Hcur; cbn [lines_aux].
  - destruct cur as [|x cur]; [constructor|]. constructor; [|constructor].
    intros H. apply (proj1 (in_frev _ _)) in H. exact (Hcur H).
  - destruct (N.eqb_spec c 10) as [->|Hc].
    + constructor; [|apply IH; intros H; exact H].
      unfold strip_cr_rev. destruct cur as [|x cur]; [intros H; exact H|].
      destruct (x =? 13); intros H; apply (proj1 (in_frev _ _)) in H; apply Hcur; [right|]; exact H.
    + apply IH. intros [E|E]; [congruence | exact (Hcur E)].
Qed.

Lemma lines_noLF s : Forall (fun l => ~ In 10 l) (lines s).
Proof. apply lines_aux_noLF_out. intros H; exact H. Qed.

Lemma lines_line_ok s : no_trailing_cr s -> Forall line_ok (lines s).
Proof.
  intros H. pose proof (lines_noLF s) as Hlf. unfold no_trailing_cr in H.
  rewrite Forall_forall in *. intros l Hin. split; [apply Hlf | apply H]; exact Hin.
Qed.

Lemma split_aux_tokens p : forall s cur,
  Forall (fun c => p c = false) cur ->
  Forall (fun t => t <> [] /\ Forall (fun c => p c = false) t) (split_aux p cur s).
Proof.
  assert (Hrev : forall cur, cur <> [] -> Forall (fun c => p c = false) cur ->
                 frev cur <> [] /\ Forall (fun c => p c = false) (frev cur)).
  { intros cur Hne H. rewrite frev_rev. split; [apply rev_nonnil; exact Hne|].
    apply Forall_forall. intros x Hx. apply in_rev in Hx. rewrite Forall_forall in H. apply H. exact Hx. }
  induction s as [|c r IH]; intros cur Hcur; cbn [split_aux].
  - destruct cur as [|x cur]; [constructor|]. constructor; [|constructor].
    apply Hrev; [discriminate | exact Hcur].
  - destruct (p c) eqn:E.
    + destruct cur as [|x cur]; [apply IH; constructor|].
      constructor; [apply Hrev; [discriminate | exact Hcur] | apply IH; constructor].
    + apply IH. constructor; assumption.
Qed.

Lemma split_ws_tokens s : Forall token (split_ws s).
Proof. unfold split_ws. apply (split_aux_tokens is_ws s []). constructor. Qed.

Lemma weave_sp : forall toks k, weave toks (repeat [32] k) = join [32] toks.
Proof.
  induction toks as [|t ts IH]; intros k; [reflexivity|].
  destruct ts as [|t2 ts]; [reflexivity|].
  change (weave (t :: t2 :: ts) (repeat [32] k))
    with (t ++ hd [32] (repeat [32] k) ++ weave (t2 :: ts) (tl (repeat [32] k))).
  rewrite join_cons2.
  destruct k as [|k]; cbn [repeat hd tl].
  - rewrite <- (IH 0%nat). reflexivity.
  - rewrite <- (IH k). reflexivity.
Qed.

Lemma split_ws_join ws : ws <> [] -> Forall token ws -> split_ws (join [32] ws) = ws.
Proof.
  intros Hne Htok. rewrite <- (weave_sp ws 0). rewrite <- (app_nil_r (weave ws _)).
  apply split_ws_weave; [exact Hne | exact Htok | constructor | constructor].
Qed.

(* ------------------------------------------------------------------ *)
(* 1c. what the header parsers return                                  *)

Definition DMAX : N := U64MAX * NS_PER_S + 999999999.

Lemma parse_u64_bound a n : parse_u64 a = Some n -> n <= U64MAX.
Proof.
  unfold parse_u64.
  destruct (match a with [] => [] | c :: r => if c =? 43 then r else a end) as [|c r]; [discriminate|].
  destruct (digits_val 0 (c :: r)) as [v|]; [|discriminate].
  destruct (N.leb_spec v U64MAX) as [Hv|Hv]; [|discriminate]. intros E. inversion E; subst. exact Hv.
Qed.

Lemma parse_unit_bound n u cur s' n' :
  parse_unit n u cur = Some (s', n') -> s' <= U64MAX /\ n' <= NS_PER_S.
Proof.
  unfold parse_unit. destruct (unit_of u) as [[b k]|]; [|discriminate].
  repeat match goal with
         | |- context [if ?a <? ?b then _ else _] => destruct (N.ltb_spec a b)
         end; try discriminate; intros E; inversion E; subst; clear E;
    (split; [assumption|]); unfold NS_PER_S in *; try lia; divlia.
Qed.

Lemma dur_go_bound : forall s st cur s' n',
  dur_go s st cur = Some (s', n') -> s' <= U64MAX /\ n' <= NS_PER_S.
Proof.
  induction s as [|c r IH]; intros st cur s' n' H; cbn [dur_go] in H.
  - destruct st; eapply parse_unit_bound; exact H.
  - destruct st as [n|n u].
    + destruct (is_digit c).
      * destruct (U64MAX <? n * 10 + (c - 48)); [discriminate|]. eapply IH; exact H.
      * destruct (is_alpha c); [|discriminate]. eapply IH; exact H.
    + destruct (is_digit c).
      * destruct (parse_unit n (frev u) cur); [|discriminate]. eapply IH; exact H.
      * destruct (is_alpha c); [|discriminate]. eapply IH; exact H.
Qed.

Lemma parse_duration_bound s d : parse_duration s = DOk d -> d <= DMAX.
Proof.
  unfold parse_duration. destruct s as [|c r]; [discriminate|].
  destruct (is_digit c); [|discriminate].
  destruct (dur_go r (DNum (c - 48)) (0, 0)) as [[sec nsec]|] eqn:E; [|discriminate].
  apply dur_go_bound in E. destruct E as [H1 H2].
  destruct (N.eqb_spec nsec NS_PER_S) as [En|En]; destruct (N.eqb_spec sec U64MAX) as [Es|Es];
    cbn [andb]; try discriminate; intros H; inversion H; subst; clear H;
    unfold DMAX, U64MAX, NS_PER_S in *; lia.
Qed.

Definition retry_ok (r : option retry) : Prop :=
  match r with
  | None => True
  | Some c => 1 <= attempts c <= U64MAX /\ backoff c <= DMAX
  end.

Lemma parse_retry_ok toks r : parse_retry toks = HOk r -> retry_ok r.
Proof.
  unfold parse_retry.
  destruct toks as [|t0 [|a [|b [|d r3]]]];
    try (intros H; inversion H; subst; exact I);
    destruct (negb (kw "retry" t0)); try discriminate.
  - destruct (parse_u64 a); [destruct (_ =? 0)|]; discriminate.
  - destruct (parse_u64 a); [destruct (_ =? 0); [discriminate|]|discriminate].
    destruct (negb (kw "backoff" b)); discriminate.
  - destruct (parse_u64 a) as [n|] eqn:Ea; [|discriminate].
    destruct (N.eqb_spec n 0) as [E0|E0]; [discriminate|].
    destruct (negb (kw "backoff" b)); [discriminate|].
    destruct (parse_duration d) as [ns| |] eqn:Ed; try discriminate.
    destruct r3; [|discriminate]. intros H. inversion H; subst. cbn [retry_ok attempts backoff].
    apply parse_u64_bound in Ea. apply parse_duration_bound in Ed. repeat split; try assumption. lia.
Qed.


(* column types: the canonical characters are fixed points, never blank, and the canonical
   type word is never `error` (extra premise of format_sound / format_idem) *)
Definition col_stable (col : N -> option N) : Prop :=
  (forall c c', col c = Some c' -> col c' = Some c' /\ is_ws c' = false) /\
  parse_types col (lit "error") <> Some (lit "error").

Lemma default_col_stable : col_stable default_col.
Proof.
  split.
  - intros c c'. unfold default_col.
    destruct ((c =? 84) || (c =? 73) || (c =? 82)) eqn:E; intros H; inversion H; subst; clear H.
    + rewrite E. split; [reflexivity|].
      apply orb_true_iff in E as [E|E]; [apply orb_true_iff in E as [E|E]|];
        apply N.eqb_eq in E; subst; reflexivity.
    + split; reflexivity.
  - vm_compute. discriminate.
Qed.

Lemma two_col_stable : col_stable two_col.
Proof.
  split.
  - intros c c'. unfold two_col.
    destruct ((c =? 84) || (c =? 73)) eqn:E; intros H; inversion H; subst; clear H.
    rewrite E. split; [reflexivity|].
    apply orb_true_iff in E as [E|E]; apply N.eqb_eq in E; subst; reflexivity.
  - vm_compute. discriminate.
Qed.

Section Hdr.
  Variable col : N -> option N.
  Variable re : str -> bool.
  Hypothesis Hcol : col_stable col.

  Definition err_ok (x : experr) (r : option retry) : Prop :=
    match x with
    | EEmpty => True
    | EInline s => r = None /\ exists ws, s = join [32] ws /\ wf_inline re ws
    | EMulti t => mtext_ok t
    end.

  Definition sexp_ok (e : stmt_expect) (r : option retry) : Prop :=
    match e with
    | SOk => True
    | SCount n => n <= U64MAX
    | SError x => err_ok x r
    end.

  Definition qhead_ok (types : str) (s : option sortmode) (lb : option str) (r : option retry) : Prop :=
    (types = [] /\ s = None /\ lb = None /\ r = None) \/
    (token types /\ kw "error" types = false /\ parse_types col types = Some types /\
     match lb with
     | Some l => token l /\ kw "retry" l = false /\ (s = None -> parse_sortmode l = None)
     | None => True
     end).

  Definition res_ok (res : list str) : Prop := Forall (fun l => line_ok l /\ l <> []) res.

  Definition qexp_ok (e : query_expect) (r : option retry) : Prop :=
    match e with
    | QResults t s lb res => qhead_ok t s lb r /\ res_ok res
    | QError x => err_ok x r
    end.

  Definition hdr_ok (h : hdr) : Prop :=
    match h with
    | HStatement e r => sexp_ok e r /\ retry_ok r
    | HQuery e r => qexp_ok e r /\ retry_ok r
    | HSystem r => retry_ok r
    end.

  Lemma with_retry_inv toks f h :
    with_retry toks f = HOk h -> exists r, parse_retry toks = HOk r /\ h = f r.
  Proof.
    unfold with_retry. destruct (parse_retry toks) as [r| |]; try discriminate.
    intros H. inversion H; subst. exists r. split; reflexivity.
  Qed.

  Lemma parse_inline_inv toks e :
    parse_inline re toks = HOk e -> Forall token toks -> is_retry_shape toks = false ->
    err_ok e None.
  Proof.
    unfold parse_inline. intros H Htok Hsh.
    destruct (join [32] toks) as [|c s] eqn:E.
    - inversion H; subst. exact I.
    - destruct (re (c :: s)) eqn:Er; [|discriminate]. inversion H; subst. cbn [err_ok].
      split; [reflexivity|]. exists toks. split; [symmetry; exact E|].
      repeat split; try assumption.
      + intros ->. discriminate E.
      + rewrite E. exact Er.
  Qed.

  Lemma error_tail_ok (rest : list str) (mk : experr -> option retry -> hdr) h :
    Forall token rest ->
    (if is_retry_shape rest then with_retry rest (mk EEmpty)
     else match parse_inline re rest with
          | HOk e => HOk (mk e None)
          | HErr k => HErr k
          | HPanic => HPanic
          end) = HOk h ->
    exists e r, h = mk e r /\ err_ok e r /\ retry_ok r.
  Proof.
    intros Htok H. destruct (is_retry_shape rest) eqn:Esh.
    - apply with_retry_inv in H as (r & Hr & ->). exists EEmpty, r.
      repeat split. eapply parse_retry_ok. exact Hr.
    - destruct (parse_inline re rest) as [e| |] eqn:Ei; try discriminate.
      inversion H; subst. exists e, None. repeat split.
      eapply parse_inline_inv; eassumption.
  Qed.

  Lemma parse_statement_header_ok args h :
    Forall token args -> parse_statement_header re args = HOk h -> hdr_ok h.
  Proof.
    intros Htok. unfold parse_statement_header.
    destruct args as [|t rest]; [discriminate|].
    inversion Htok as [|t' rest' Ht Hrest]; subst.
    destruct (kw "ok" t).
    { intros H. apply with_retry_inv in H as (r & Hr & ->). split; [exact I|].
      eapply parse_retry_ok; exact Hr. }
    destruct (kw "error" t).
    { intros H. apply (error_tail_ok rest (fun e r => HStatement (SError e) r)) in H; [|exact Hrest].
      destruct H as (e & r & -> & He & Hr). split; assumption. }
    destruct (kw "count" t); [|discriminate].
    destruct rest as [|c rest']; [discriminate|].
    destruct (parse_u64 c) as [n|] eqn:En; [|discriminate].
    intros H. apply with_retry_inv in H as (r & Hr & ->). split.
    - cbn. eapply parse_u64_bound; exact En.
    - eapply parse_retry_ok; exact Hr.
  Qed.

  Lemma parse_types_stable : forall tw ty,
    parse_types col tw = Some ty ->
    parse_types col ty = Some ty /\ Forall (fun c => is_ws c = false) ty /\ (tw <> [] -> ty <> []).
  Proof.
    destruct Hcol as [Hc _].
    induction tw as [|c tw IH]; intros ty H; cbn [parse_types] in H.
    - inversion H; subst. repeat split; [constructor | intros E; exact E].
    - destruct (col c) as [c'|] eqn:Ec; [|discriminate].
      destruct (parse_types col tw) as [ty'|] eqn:Et; [|discriminate].
      inversion H; subst. destruct (IH ty' eq_refl) as (H1 & H2 & _).
      destruct (Hc c c' Ec) as [Hc1 Hc2].
      cbn [parse_types]. rewrite Hc1, H1. repeat split; [constructor; assumption | discriminate].
  Qed.

  Lemma parse_query_header_ok args h :
    Forall token args -> parse_query_header col re args = HOk h -> hdr_ok h.
  Proof.
    intros Htok. unfold parse_query_header.
    destruct args as [|t rest].
    { intros H. inversion H; subst. cbn. repeat split; [|constructor].
      left. repeat split. }
    inversion Htok as [|t' rest' Ht Hrest]; subst.
    destruct (kw "error" t) eqn:Eerr.
    { intros H. apply (error_tail_ok rest (fun e r => HQuery (QError e) r)) in H; [|exact Hrest].
      destruct H as (e & r & -> & He & Hr). split; assumption. }
    destruct (parse_types col t) as [types|] eqn:Ety; [|discriminate].
    cbv zeta. intros H. apply with_retry_inv in H as (r & Hr & ->).
    split; [|eapply parse_retry_ok; exact Hr].
    split; [|constructor]. right.
    destruct (parse_types_stable t types Ety) as (Hst & Hws & Hne).
    assert (Htt : token types) by (split; [apply Hne; apply Ht | exact Hws]).
    split; [exact Htt|]. split.
    { destruct (kw "error" types) eqn:E; [|reflexivity]. exfalso.
      unfold kw in E. apply str_eqb_eq in E. subst types.
      destruct Hcol as [_ Hbad]. apply Hbad. exact Hst. }
    split; [exact Hst|].
    destruct rest as [|s0 rest1]; [exact I|].
    inversion Hrest as [|s0' rest1' Hs0 Hrest1]; subst.
    destruct (parse_sortmode s0) as [m|] eqn:Esm; cbn [tl].
    - destruct rest1 as [|l rest2]; [exact I|].
      inversion Hrest1 as [|l' rest2' Hl _]; subst.
      destruct (kw "retry" l) eqn:El; [exact I|].
      split; [exact Hl|]. split; [first [exact El | reflexivity]|]. intros E; discriminate E.
    - destruct (kw "retry" s0) eqn:El; [exact I|].
      split; [exact Hs0|]. split; [first [exact El | reflexivity]|]. intros _. exact Esm.
  Qed.
End Hdr.


(* ------------------------------------------------------------------ *)
(* 2. an invariant of everything the parser returns                    *)

Definition body_ok (sql : str) : Prop := exists ls, sql = text_of ls /\ wf_block ls.

(* conditions / connection attached to statement, query and system records are exactly the
   pending RCondition / RConnection records; [k] receives what is pending at the end *)
Fixpoint scanP (cs : list cond) (cn : conn) (rs : list record)
         (k : list cond -> conn -> Prop) : Prop :=
  match rs with
  | [] => k cs cn
  | r :: rest =>
      match r with
      | RCondition c => scanP (cs ++ [c]) cn rest k
      | RConnection c => scanP cs c rest k
      | RStatement _ cs' cn' _ _ _ => cs' = cs /\ cn' = cn /\ scanP [] CDefault rest k
      | RQuery _ cs' cn' _ _ _ => cs' = cs /\ cn' = cn /\ scanP [] CDefault rest k
      | RSystem _ cs' _ _ _ => cs' = cs /\ scanP [] cn rest k
      | _ => scanP cs cn rest k
      end
  end.

Lemma scanP_snoc : forall a cs cn r (k k' : list cond -> conn -> Prop),
  scanP cs cn a k ->
  (forall cs' cn', k cs' cn' -> scanP cs' cn' [r] k') ->
  scanP cs cn (a ++ [r]) k'.
Proof.
  induction a as [|x a IH]; intros cs cn r k k' H Hk.
  - apply Hk. exact H.
  - cbn [app scanP] in *. destruct x; try (eapply IH; eassumption);
      repeat match goal with H : _ /\ _ |- _ => destruct H end;
      repeat split; try assumption; eapply IH; eassumption.
Qed.

Definition neutral (r : record) : bool :=
  match r with
  | RCondition _ | RConnection _ | RStatement _ _ _ _ _ _ | RQuery _ _ _ _ _ _
  | RSystem _ _ _ _ _ => false
  | _ => true
  end.

Section Inv.
  Variable col : N -> option N.
  Variable re : str -> bool.
  Variable file : str.
  Variable upper : option loc.
  Hypothesis Hcol : col_stable col.

  Notation step := (Parser.step col re file upper).
  Notation run_lines := (Parser.run_lines col re file upper).
  Notation top_line := (Parser.top_line col re file upper).
  Notation finish := (Parser.finish file upper).
  Notation erec := (RenderProofs.erec file upper).
  Notation hdr_ok := (hdr_ok col re).
  Notation sexp_ok := (sexp_ok re).
  Notation qexp_ok := (qexp_ok col re).
  Notation err_ok := (err_ok re).

  Definition rec_ok (r : record) : Prop :=
    match r with
    | RInclude _ f => token f
    | RStatement _ _ _ sql e rt => body_ok sql /\ sexp_ok e rt /\ retry_ok rt
    | RQuery _ _ _ sql e rt => body_ok sql /\ qexp_ok e rt /\ retry_ok rt
    | RSystem _ _ cmd out rt =>
        body_ok cmd /\ match out with Some t => mtext_ok t | None => True end /\ retry_ok rt
    | RSleep _ d => d <= DMAX
    | RSubtest _ x => token x
    | RHalt _ | RControl _ | RNewline => True
    | RHashThreshold _ n => n <= U64MAX
    | RCondition c => token (match c with OnlyIf l | SkipIf l => l end)
    | RConnection c => match c with CDefault => True | CNamed x => token x /\ kw "default" x = false end
    | RComment ls => ls <> [] /\ Forall line_ok ls
    | RBeginInclude _ | REndInclude _ => False
    end.

  Definition mode_ok (m : mode) : Prop :=
    match m with
    | Top => True
    | First _ h => hdr_ok h
    | Body _ h sql => hdr_ok h /\ body_ok sql
    | ResultLines _ h sql acc =>
        hdr_ok h /\ body_ok sql /\ res_ok acc /\
        exists t s lb x r, h = HQuery (QResults t s lb x) r
    | MultiLine _ h sql acc pend =>
        hdr_ok h /\ body_ok sql /\ is_multi_hdr h = true /\
        exists ms, acc = lf_lines ms /\ Forall line_ok ms /\ nodbl ms /\ (ms = [] \/ last ms [] <> [])
    end.

  Definition Inv (p : pstate) : Prop :=
    Forall rec_ok (recs p) /\
    scanP [] CDefault (recs p) (fun cs cn => cs = pconds p /\ cn = pconn p) /\
    Forall line_ok (pcomments p) /\
    mode_ok (pmode p).

  Lemma Inv_push rs cs cn cm ln r :
    Inv (mkP rs cs cn cm ln Top) -> rec_ok r -> neutral r = true ->
    Inv (mkP (rs ++ [r]) cs cn cm ln Top).
  Proof.
    intros (H1 & H2 & H3 & _) Hr Hn. cbn [recs pconds pconn pcomments pmode] in *.
    repeat split; try assumption.
    - apply Forall_app. split; [exact H1 | constructor; [exact Hr | constructor]].
    - eapply scanP_snoc; [exact H2|]. intros cs' cn' [-> ->].
      destruct r; try discriminate Hn; cbn; split; reflexivity.
  Qed.

  Lemma Inv_mode rs cs cn cm ln m m' :
    Inv (mkP rs cs cn cm ln m) -> mode_ok m' -> Inv (mkP rs cs cn cm ln m').
  Proof. intros (H1 & H2 & H3 & _) Hm. repeat split; assumption. Qed.

  Lemma Inv_ln rs cs cn cm ln ln' m : Inv (mkP rs cs cn cm ln m) -> Inv (mkP rs cs cn cm ln' m).
  Proof. intros H. exact H. Qed.

  Lemma rec_ok_erec hl cs cn h sql fq fe fo :
    hdr_ok h -> body_ok sql -> res_ok fq ->
    match fe with Some (EMulti t) => mtext_ok t | Some _ => False | None => True end ->
    match fo with Some t => mtext_ok t | None => True end ->
    rec_ok (erec hl cs cn h sql fq fe fo).
  Proof.
    intros Hh Hb Hq He Ho. destruct h as [e r|e r|r]; cbn [RenderProofs.erec rec_ok].
    - destruct Hh as [He' Hr]. repeat split; try assumption.
      destruct fe as [[| |t]|]; try contradiction; [|exact He'].
      destruct e; try exact He'. exact He.
    - destruct Hh as [He' Hr]. repeat split; try assumption.
      destruct e as [t s lb x|x].
      + destruct He' as [Hhd _]. split; assumption.
      + destruct fe as [[| |t]|]; try contradiction; [exact He | exact He'].
    - repeat split; assumption.
  Qed.

  Lemma Inv_emit rs cs cn cm ln m hl h sql fq fe fo ln' :
    Inv (mkP rs cs cn cm ln m) -> rec_ok (erec hl cs cn h sql fq fe fo) ->
    Inv (mkP (rs ++ [erec hl cs cn h sql fq fe fo]) [] (econn h cn) cm ln' Top).
  Proof.
    intros (H1 & H2 & H3 & _) Hr. cbn [recs pconds pconn pcomments pmode] in *.
    repeat split; try assumption.
    - apply Forall_app. split; [exact H1 | constructor; [exact Hr | constructor]].
    - eapply scanP_snoc; [exact H2|]. intros cs' cn' [-> ->].
      destruct h; cbn; repeat split; reflexivity.
  Qed.

  Lemma Inv_flush rs cs cn cm ln ln' :
    Inv (mkP rs cs cn cm ln Top) -> Inv (mkP (vr rs cm) cs cn [] ln' Top).
  Proof.
    intros H. unfold vr. destruct cm as [|c cm].
    - rewrite app_nil_r. exact H.
    - assert (H' : Inv (mkP (rs ++ [RComment (c :: cm)]) cs cn (c :: cm) ln' Top)).
      { apply Inv_push; [exact H | | reflexivity]. destruct H as (_ & _ & H3 & _).
        split; [discriminate | exact H3]. }
      destruct H' as (H1 & H2 & _ & H4). repeat split; try assumption. constructor.
  Qed.

  Lemma body_ok_first l : line_ok l -> body_ok l.
  Proof.
    intros H. exists [l]. split; [reflexivity|].
    repeat split; [discriminate | constructor; [exact H | constructor] | constructor].
  Qed.

  Lemma body_ok_snoc sql l :
    body_ok sql -> line_ok l -> l <> [] -> l <> DELIM -> body_ok (sql ++ [10] ++ l).
  Proof.
    intros (ls & -> & Hne & Hok & Htl) Hl H1 H2. exists (ls ++ [l]). split.
    - unfold text_of. rewrite join_snoc by exact Hne. reflexivity.
    - split; [intros E; apply app_eq_nil in E as [_ E]; discriminate E|]. split.
      + apply Forall_app. split; [exact Hok | constructor; [exact Hl | constructor]].
      + destruct ls as [|a ls]; [contradiction|]. cbn [app tl] in *.
        apply Forall_app. split; [exact Htl | constructor; [split; assumption | constructor]].
  Qed.

  Lemma nodbl_snoc ms x : nodbl ms -> x <> [] -> nodbl (ms ++ [x]).
  Proof.
    intros H Hx. induction ms as [|a r IH]; [cbn; split; exact I|].
    destruct H as [Hd Hr]. destruct r as [|b r'].
    - cbn. repeat split; try exact I. intros [_ E]. exact (Hx E).
    - cbn [app nodbl] in *. split; [exact Hd | apply IH; exact Hr].
  Qed.

  Lemma nodbl_snoc_nil ms : nodbl ms -> (ms = [] \/ last ms [] <> []) -> nodbl (ms ++ [[]]).
  Proof.
    intros H Hl. induction ms as [|a r IH]; [cbn; split; exact I|].
    destruct H as [Hd Hr]. destruct r as [|b r'].
    - cbn. repeat split; try exact I. intros [E _]. destruct Hl as [Hl|Hl]; [discriminate Hl|].
      apply Hl. exact E.
    - cbn [app nodbl] in *. split; [exact Hd|]. apply IH; [exact Hr|].
      right. destruct Hl as [Hl|Hl]; [discriminate Hl | exact Hl].
  Qed.

  Lemma lf_lines_app a b : lf_lines (a ++ b) = lf_lines a ++ lf_lines b.
  Proof. unfold lf_lines. apply flat_map_app. Qed.

  Lemma lf_lines_two x : lf_lines [[]; x] = [10] ++ x ++ [10].
  Proof. unfold lf_lines. cbn [flat_map app]. rewrite app_nil_r. reflexivity. Qed.
  Lemma lf_lines_one x : lf_lines [x] = x ++ [10].
  Proof. unfold lf_lines. cbn [flat_map app]. rewrite app_nil_r. reflexivity. Qed.

  Lemma line_ok_comment_inv l : line_ok (35 :: l) -> line_ok l.
  Proof.
    intros [H1 H2]. split.
    - intros E. apply H1. right. exact E.
    - destruct l as [|c l]; [cbn; discriminate | exact H2].
  Qed.

  Lemma step_inv_nontop rs cs cn cm ln m line p' :
    m <> Top -> Inv (mkP rs cs cn cm ln m) -> line_ok line ->
    step (mkP rs cs cn cm ln m) line = SNext p' -> Inv p'.
  Proof.
    intros Hm HI Hl Hs. pose proof HI as (H1 & H2 & H3 & H4).
    cbn [recs pconds pconn pcomments pmode] in *.
    destruct m as [|hl h|hl h sql|hl h sql acc|hl h sql acc pend]; [contradiction| | | |].
    - rewrite step_first in Hs. inversion Hs; subst. eapply Inv_mode; [exact HI|].
      split; [exact H4 | apply body_ok_first; exact Hl].
    - destruct H4 as [Hh Hb]. destruct line as [|c l].
      + rewrite step_body_blank in Hs. inversion Hs; subst.
        eapply Inv_emit; [exact HI|]. apply rec_ok_erec; try assumption; try exact I. apply Forall_nil.
      + destruct (str_eqb_spec (c :: l) DELIM) as [E|E].
        * rewrite E in Hs. rewrite step_body_delim in Hs.
          unfold on_delimiter in Hs.
          destruct h as [[| |e] r|[t s lb x|e] r|r].
          -- discriminate Hs.
          -- discriminate Hs.
          -- destruct e; cbn [experr_is_empty] in Hs; try discriminate Hs.
             inversion Hs; subst. eapply Inv_mode; [exact HI|].
             split; [exact Hh|]. split; [exact Hb|]. split; [reflexivity|]. exists [].
             split; [reflexivity|]. split; [apply Forall_nil|]. split; [exact I | left; reflexivity].
          -- inversion Hs; subst. eapply Inv_mode; [exact HI|].
             split; [exact Hh|]. split; [exact Hb|]. split; [apply Forall_nil|]. repeat eexists.
          -- destruct e; cbn [experr_is_empty] in Hs; try discriminate Hs.
             inversion Hs; subst. eapply Inv_mode; [exact HI|].
             split; [exact Hh|]. split; [exact Hb|]. split; [reflexivity|]. exists [].
             split; [reflexivity|]. split; [apply Forall_nil|]. split; [exact I | left; reflexivity].
          -- inversion Hs; subst. eapply Inv_mode; [exact HI|].
             split; [exact Hh|]. split; [exact Hb|]. split; [reflexivity|]. exists [].
             split; [reflexivity|]. split; [apply Forall_nil|]. split; [exact I | left; reflexivity].
        * rewrite step_body_line in Hs by (try discriminate; exact E).
          inversion Hs; subst. eapply Inv_mode; [exact HI|].
          split; [exact Hh|]. apply body_ok_snoc; try assumption. discriminate.
    - destruct H4 as (Hh & Hb & Hacc & Hq). destruct line as [|c l].
      + rewrite step_result_blank in Hs. inversion Hs; subst.
        eapply Inv_emit; [exact HI|]. apply rec_ok_erec; try assumption; exact I.
      + rewrite step_result_line in Hs by discriminate. inversion Hs; subst.
        eapply Inv_mode; [exact HI|]. repeat split; try assumption.
        apply Forall_app. split; [exact Hacc|]. constructor; [|constructor].
        split; [exact Hl | discriminate].
    - destruct H4 as (Hh & Hb & Hmh & ms & -> & Hms & Hnd & Hlast). destruct line as [|c l].
      + destruct pend.
        * rewrite step_multi_blank1 in Hs. inversion Hs; subst.
          eapply Inv_emit; [exact HI|].
          pose proof (mtext_of_lines ms Hms Hnd) as Hmt.
          apply rec_ok_erec; try assumption; [apply Forall_nil | |];
            destruct h; cbn [multi_fe multi_fo]; try exact I; exact Hmt.
        * rewrite step_multi_blank0 in Hs. inversion Hs; subst.
          eapply Inv_mode; [exact HI|]. repeat split; try assumption.
          exists ms. repeat split; assumption.
      + rewrite step_multi_line in Hs by discriminate. inversion Hs; subst.
        eapply Inv_mode; [exact HI|]. repeat split; try assumption.
        destruct pend.
        * exists (ms ++ [[]; c :: l]). split; [|split; [|split]].
          -- rewrite lf_lines_app, lf_lines_two. rewrite <- !app_assoc. reflexivity.
          -- apply Forall_app. split; [exact Hms|].
             constructor; [apply line_ok_nil | constructor; [exact Hl | constructor]].
          -- change (ms ++ [[]; c :: l]) with (ms ++ [[]] ++ [c :: l]). rewrite app_assoc.
             apply nodbl_snoc; [apply nodbl_snoc_nil; assumption | discriminate].
          -- right. change (ms ++ [[]; c :: l]) with (ms ++ [[]] ++ [c :: l]). rewrite app_assoc.
             rewrite last_last. discriminate.
        * exists (ms ++ [c :: l]). split; [|split; [|split]].
          -- rewrite lf_lines_app, lf_lines_one. reflexivity.
          -- apply Forall_app. split; [exact Hms | constructor; [exact Hl | constructor]].
          -- apply nodbl_snoc; [assumption | discriminate].
          -- right. rewrite last_last. discriminate.
  Qed.

  Lemma Inv_cond rs cs cn cm ln c :
    Inv (mkP rs cs cn cm ln Top) -> rec_ok (RCondition c) ->
    Inv (mkP (rs ++ [RCondition c]) (cs ++ [c]) cn cm ln Top).
  Proof.
    intros (H1 & H2 & H3 & _) Hr. cbn [recs pconds pconn pcomments pmode] in *.
    repeat split; try assumption.
    - apply Forall_app. split; [exact H1 | constructor; [exact Hr | constructor]].
    - eapply scanP_snoc; [exact H2|]. intros cs' cn' [-> ->]. cbn. split; reflexivity.
  Qed.

  Lemma Inv_conn rs cs cn cm ln c :
    Inv (mkP rs cs cn cm ln Top) -> rec_ok (RConnection c) ->
    Inv (mkP (rs ++ [RConnection c]) cs c cm ln Top).
  Proof.
    intros (H1 & H2 & H3 & _) Hr. cbn [recs pconds pconn pcomments pmode] in *.
    repeat split; try assumption.
    - apply Forall_app. split; [exact H1 | constructor; [exact Hr | constructor]].
    - eapply scanP_snoc; [exact H2|]. intros cs' cn' [-> ->]. cbn. split; reflexivity.
  Qed.

  Ltac head_if :=
    match goal with |- (if ?b then _ else _) = _ -> _ => destruct b eqn:? end.
  Ltac got H := intros H; inversion H; subst; clear H; unfold push, set_mode;
    cbn [recs pconds pconn pcomments lineno pmode].

  Lemma top_line_inv rs cs cn ln n line p' :
    Inv (mkP rs cs cn [] ln Top) ->
    top_line (mkP rs cs cn [] ln Top) n line = SNext p' -> Inv p'.
  Proof.
    intros HI. unfold Parser.top_line. destruct line as [|c0 l0].
    { got H. apply Inv_push; [exact HI | exact I | reflexivity]. }
    cbv zeta. pose proof (split_ws_tokens (c0 :: l0)) as Htok.
    destruct (split_ws (c0 :: l0)) as [|t args].
    { got H. exact HI. }
    inversion Htok as [|t' args' Ht Hargs]; subst.
    head_if.
    { destruct args as [|f [|? ?]]; try discriminate. got H. inversion Hargs; subst.
      apply Inv_push; [exact HI | assumption | reflexivity]. }
    head_if.
    { destruct args as [|? ?]; try discriminate. got H.
      apply Inv_push; [exact HI | exact I | reflexivity]. }
    head_if.
    { destruct args as [|f [|? ?]]; try discriminate. got H. inversion Hargs; subst.
      apply Inv_push; [exact HI | assumption | reflexivity]. }
    head_if.
    { destruct args as [|d [|? ?]]; try discriminate.
      destruct (parse_duration d) as [ns| |] eqn:Ed; try discriminate. got H.
      apply Inv_push; [exact HI | | reflexivity]. cbn. eapply parse_duration_bound. exact Ed. }
    head_if.
    { destruct args as [|x [|? ?]]; try discriminate. got H. inversion Hargs; subst.
      apply (Inv_cond _ _ _ _ _ (SkipIf x) HI); assumption. }
    head_if.
    { destruct args as [|x [|? ?]]; try discriminate. got H. inversion Hargs; subst.
      apply (Inv_cond _ _ _ _ _ (OnlyIf x) HI); assumption. }
    head_if.
    { destruct args as [|x [|? ?]]; try discriminate. got H. inversion Hargs; subst.
      apply (Inv_conn _ _ _ _ _ _ HI). cbn. destruct (kw "default" x) eqn:Ed; [exact I|].
      split; [assumption | first [exact Ed | reflexivity]]. }
    head_if.
    { destruct (parse_statement_header re args) as [h| |] eqn:Eh; try discriminate. got H.
      eapply Inv_mode; [exact HI|]. cbn. eapply parse_statement_header_ok; eassumption. }
    head_if.
    { destruct (parse_query_header col re args) as [h| |] eqn:Eh; try discriminate. got H.
      eapply Inv_mode; [exact HI|]. cbn. eapply parse_query_header_ok; eassumption. }
    head_if.
    { destruct args as [|o rest]; try discriminate. head_if; [|discriminate].
      destruct (parse_retry rest) as [r| |] eqn:Er; try discriminate. got H.
      eapply Inv_mode; [exact HI|]. cbn. eapply parse_retry_ok. exact Er. }
    head_if.
    { destruct args as [|what [|v [|? ?]]]; try discriminate.
      repeat head_if; try discriminate;
        try (destruct (parse_sortmode v); try discriminate);
        got H; (apply Inv_push; [exact HI | exact I | reflexivity]). }
    head_if; [|discriminate].
    destruct args as [|x [|? ?]]; try discriminate.
    destruct (parse_u64 x) as [v|] eqn:Ev; try discriminate. got H.
    apply Inv_push; [exact HI | | reflexivity]. cbn. eapply parse_u64_bound. exact Ev.
  Qed.

  Lemma step_inv p line p' : Inv p -> line_ok line -> step p line = SNext p' -> Inv p'.
  Proof.
    intros HI Hl Hs. destruct p as [rs cs cn cm ln m].
    destruct m as [|hl h|hl h sql|hl h sql acc|hl h sql acc pend];
      try (eapply step_inv_nontop; [| exact HI | exact Hl | exact Hs]; discriminate).
    destruct (N.eq_dec (hd 0 line) 35) as [E|E].
    - destruct line as [|c l]; [discriminate E|]. cbn [hd] in E. subst c.
      rewrite step_comment in Hs. inversion Hs; subst.
      destruct HI as (H1 & H2 & H3 & H4). repeat split; try assumption.
      cbn [pcomments] in *. apply Forall_app. split; [exact H3|].
      constructor; [apply line_ok_comment_inv; exact Hl | constructor].
    - rewrite step_top in Hs by exact E.
      eapply top_line_inv; [|exact Hs]. eapply Inv_flush. exact HI.
  Qed.

  Lemma run_lines_inv : forall ls p p',
    Inv p -> Forall line_ok ls -> run_lines p ls = SNext p' -> Inv p'.
  Proof.
    induction ls as [|l ls IH]; intros p p' HI Hls Hr; cbn [Parser.run_lines] in Hr.
    - inversion Hr; subst. exact HI.
    - inversion Hls as [|l' ls' Hl Hls']; subst.
      destruct (step p l) as [p1| |] eqn:Es; try discriminate.
      eapply IH; [eapply step_inv; eassumption | exact Hls' | exact Hr].
  Qed.

  Lemma scanP_mono : forall rs cs cn (k k' : list cond -> conn -> Prop),
    (forall a b, k a b -> k' a b) -> scanP cs cn rs k -> scanP cs cn rs k'.
  Proof.
    induction rs as [|r rs IH]; intros cs cn k k' Hk H; [apply Hk; exact H|].
    cbn [scanP] in *. destruct r; try (eapply IH; eassumption);
      repeat match goal with H : _ /\ _ |- _ => destruct H end;
      repeat split; try assumption; eapply IH; eassumption.
  Qed.

  Definition parsed_ok (rs : list record) : Prop :=
    Forall rec_ok rs /\ scanP [] CDefault rs (fun _ _ => True).

  Lemma Inv_parsed p : Inv p -> parsed_ok (recs p).
  Proof.
    intros (H1 & H2 & _). split; [exact H1|].
    eapply scanP_mono; [|exact H2]. intros; exact I.
  Qed.

  Lemma finish_inv p rs : Inv p -> finish p = POk rs -> parsed_ok rs.
  Proof.
    intros HI Hf. destruct p as [rs0 cs cn cm ln m]. pose proof HI as (H1 & H2 & H3 & H4).
    cbn [recs pconds pconn pcomments pmode] in *.
    destruct m as [|hl h|hl h sql|hl h sql acc|hl h sql acc pend]; cbn [Parser.finish pmode] in Hf.
    - rewrite flush_mk in Hf. inversion Hf; subst. cbn [recs].
      apply (Inv_parsed (mkP (vr rs0 cm) cs cn [] ln Top)). eapply Inv_flush. exact HI.
    - discriminate Hf.
    - rewrite emit_mk in Hf. inversion Hf; subst. cbn [recs]. destruct H4 as [Hh Hb].
      eapply (Inv_parsed (mkP _ _ _ _ _ _)). eapply (Inv_emit _ _ _ _ _ _ _ _ _ _ _ _ ln); [exact HI|].
      apply rec_ok_erec; try assumption; try exact I. apply Forall_nil.
    - rewrite emit_mk in Hf. inversion Hf; subst. cbn [recs]. destruct H4 as (Hh & Hb & Hacc & _).
      eapply (Inv_parsed (mkP _ _ _ _ _ _)). eapply (Inv_emit _ _ _ _ _ _ _ _ _ _ _ _ ln); [exact HI|].
      apply rec_ok_erec; try assumption; exact I.
    - rewrite finish_multi_mk in Hf. inversion Hf; subst. cbn [recs].
      destruct H4 as (Hh & Hb & Hmh & ms & -> & Hms & Hnd & Hlast).
      eapply (Inv_parsed (mkP _ _ _ _ _ _)). eapply (Inv_emit _ _ _ _ _ _ _ _ _ _ _ _ ln); [exact HI|].
      pose proof (mtext_of_lines ms Hms Hnd) as Hmt.
      apply rec_ok_erec; try assumption; [apply Forall_nil | |];
        destruct h; cbn [multi_fe multi_fo]; try exact I; exact Hmt.
  Qed.

  Theorem parse_parsed_ok s rs :
    no_trailing_cr s -> parse col re file upper s = POk rs -> parsed_ok rs.
  Proof.
    intros Hcr Hp. unfold parse, parse_lines_list in Hp.
    destruct (run_lines pstate0 (lines s)) as [p| |] eqn:Er; try discriminate.
    eapply finish_inv; [|exact Hp].
    eapply run_lines_inv; [| apply lines_line_ok; exact Hcr | exact Er].
    repeat split; try constructor.
  Qed.
End Inv.


(* ------------------------------------------------------------------ *)
(* 3. records as items in the canonical layout                         *)

Lemma join_app sep (a b : list str) :
  a <> [] -> b <> [] -> join sep (a ++ b) = join sep a ++ sep ++ join sep b.
Proof.
  intros Ha Hb. induction a as [|x a IH]; [contradiction|].
  destruct a as [|y a].
  - cbn [app]. destruct b as [|z b]; [contradiction|]. rewrite join_cons2. reflexivity.
  - change ((x :: y :: a) ++ b) with (x :: (y :: a) ++ b).
    change ((y :: a) ++ b) with (y :: (a ++ b)) at 1. rewrite join_cons2.
    change (y :: a ++ b) with ((y :: a) ++ b). rewrite IH by discriminate.
    rewrite join_cons2. rewrite <- !app_assoc. reflexivity.
Qed.

Lemma header_hl n ws : header (hl n) ws = join [32] ws.
Proof.
  unfold header, hl. cbn [h_lead h_seps h_trail app]. rewrite weave_sp, app_nil_r. reflexivity.
Qed.

Lemma wf_hlay_hl n : (1 <= n)%nat -> wf_hlay n (hl n).
Proof.
  intros Hn. unfold wf_hlay, hl. cbn [h_lead h_seps h_trail].
  split; [constructor|]. split; [constructor|]. split; [rewrite repeat_length; lia|].
  apply Forall_forall. intros x Hx. apply repeat_spec in Hx. subst x.
  split; [|discriminate]. constructor; [|constructor].
  split; [reflexivity | split; discriminate].
Qed.

Definition rc_of (rt : option retry) : option rclause :=
  match rt with
  | None => None
  | Some c => Some (mkRClause (attempts c) (compact_duration (backoff c)) (backoff c))
  end.

Lemma retry_of_rc rt : retry_of (rc_of rt) = rt.
Proof. destruct rt as [[a b]|]; reflexivity. Qed.

Lemma wf_retry_rc rt : retry_ok rt -> wf_retry (rc_of rt).
Proof.
  destruct rt as [[a b]|]; cbn [retry_ok rc_of wf_retry attempts backoff]; [|intros; exact I].
  intros [Ha Hb]. destruct (compact_duration_roundtrip b Hb) as [Hp Ht].
  split; [exact Ha|]. split; [exact Ht | exact Hp].
Qed.

Lemma retry_text_words rt :
  retry_text rt = match retry_words (rc_of rt) with [] => [] | ws => sp ++ join sp ws end.
Proof.
  destruct rt as [[a b]|]; [|reflexivity]. unfold retry_text, rc_of, retry_words.
  cbn [attempts backoff rc_attempts rc_dtok]. rewrite !join_cons2. cbn [join].
  unfold sp. rewrite <- ?app_assoc. reflexivity.
Qed.

Lemma join_words_retry (A : list str) rt :
  A <> [] -> join sp (A ++ retry_words (rc_of rt)) = join sp A ++ retry_text rt.
Proof.
  intros HA. rewrite retry_text_words.
  destruct (retry_words (rc_of rt)) as [|w ws] eqn:E.
  - rewrite !app_nil_r. reflexivity.
  - rewrite join_app by (try assumption; discriminate). reflexivity.
Qed.

Lemma join_res_lines x (res : list str) :
  join nl (x :: res ++ [[]]) = x ++ concat (map (fun l => nl1 ++ l) res) ++ nl1.
Proof.
  revert x. induction res as [|r res IH]; intros x.
  - reflexivity.
  - change (x :: (r :: res) ++ [[]]) with (x :: r :: res ++ [[]]). rewrite join_cons2.
    rewrite IH. cbn [map concat]. unfold nl, nl1. rewrite <- !app_assoc. reflexivity.
Qed.

Lemma sort_text_word m : sort_text m = sort_word m.
Proof. destruct m; reflexivity. Qed.

Definition sform_of (e : stmt_expect) : sform :=
  match e with
  | SOk => SFOk
  | SCount n => SFCount n
  | SError EEmpty => SFErrAny
  | SError (EInline x) => SFErrInline (split_ws x)
  | SError (EMulti t) => SFErrMulti (nlsplit t)
  end.

Definition qform_of (e : query_expect) : qform :=
  match e with
  | QResults ty s lb res => QFResults ty ty s lb true res
  | QError EEmpty => QFErrAny
  | QError (EInline x) => QFErrInline (split_ws x)
  | QError (EMulti t) => QFErrMulti (nlsplit t)
  end.

Definition conn_word (c : conn) : str := match c with CDefault => lit "default" | CNamed x => x end.

Definition item_of (r : record) : item :=
  match r with
  | RInclude _ f => IInclude (hl 2) f
  | RStatement _ _ _ sql e rt =>
      IStatement (hl (length (sform_words (sform_of e) ++ retry_words (rc_of rt))))
                 (sform_of e) (rc_of rt) (nlsplit sql) EndBlank MEndDouble
  | RQuery _ _ _ sql e rt =>
      IQuery (hl (length (qform_words (qform_of e) ++ retry_words (rc_of rt))))
             (qform_of e) (rc_of rt) (nlsplit sql) EndBlank MEndDouble
  | RSystem _ _ cmd out rt =>
      ISystem (hl (length ([lit "system"; lit "ok"] ++ retry_words (rc_of rt))))
              (rc_of rt) (nlsplit cmd) (option_map nlsplit out) EndBlank MEndDouble
  | RSleep _ d => ISleep (hl 2) (compact_duration d) d
  | RSubtest _ x => ISubtest (hl 2) x
  | RHalt _ => IHalt (hl 1)
  | RControl c => IControl (hl 3) c
  | RHashThreshold _ n => IThreshold (hl 2) n
  | RCondition c => ICond (hl 2) c
  | RConnection c => IConnection (hl 2) (conn_word c)
  | RComment ls => IComment ls
  | _ => IBlank
  end.

Definition bare_query (r : record) : bool :=
  match r with RQuery _ _ _ _ (QResults [] _ _ _) _ => true | _ => false end.
Definition empty_multi (r : record) : bool :=
  match r with
  | RStatement _ _ _ _ (SError (EMulti [])) _ | RQuery _ _ _ _ (QError (EMulti [])) _
  | RSystem _ _ _ (Some []) _ => true
  | _ => false
  end.
Definition is_rcomment (r : record) : bool := match r with RComment _ => true | _ => false end.
Definition regular (r : record) : bool :=
  negb (bare_query r) && negb (empty_multi r) && negb (is_rcomment r).

Definition conds_match (cs : list cond) (cn : conn) (r : record) : Prop :=
  match r with
  | RStatement _ cs' cn' _ _ _ | RQuery _ cs' cn' _ _ _ => cs' = cs /\ cn' = cn
  | RSystem _ cs' _ _ _ => cs' = cs
  | _ => True
  end.

Definition next_st (cs : list cond) (cn : conn) (r : record) : list cond * conn :=
  match r with
  | RCondition c => (cs ++ [c], cn)
  | RConnection c => (cs, c)
  | RStatement _ _ _ _ _ _ | RQuery _ _ _ _ _ _ => ([], CDefault)
  | RSystem _ _ _ _ _ => ([], cn)
  | _ => (cs, cn)
  end.

Lemma scanP_cons cs cn r rest k :
  scanP cs cn (r :: rest) k <->
  conds_match cs cn r /\ scanP (fst (next_st cs cn r)) (snd (next_st cs cn r)) rest k.
Proof. destruct r; cbn; tauto. Qed.

Section Items.
  Variable col : N -> option N.
  Variable re : str -> bool.
  Variable file : str.
  Variable upper : option loc.

  Notation rec_ok := (rec_ok col re).
  Notation elab_item := (Render.elab_item file upper).

  Definition reloc (n : N) (r : record) : record :=
    let l := Loc file n upper in
    match r with
    | RInclude _ f => RInclude l f
    | RStatement _ cs c sql e rt => RStatement l cs c sql e rt
    | RQuery _ cs c sql e rt => RQuery l cs c sql e rt
    | RSystem _ cs cmd out rt => RSystem l cs cmd out rt
    | RSleep _ d => RSleep l d
    | RSubtest _ x => RSubtest l x
    | RHalt _ => RHalt l
    | RHashThreshold _ n => RHashThreshold l n
    | other => other
    end.

  Lemma wf_block_nlsplit sql : body_ok sql -> wf_block (nlsplit sql).
  Proof.
    intros (ls & -> & Hwf). unfold text_of. rewrite nlsplit_join; [exact Hwf | apply Hwf|].
    apply line_ok_noLF. apply Hwf.
  Qed.

  Lemma wf_inline_split x :
    (exists ws, x = join [32] ws /\ wf_inline re ws) ->
    wf_inline re (split_ws x) /\ join [32] (split_ws x) = x.
  Proof.
    intros (ws & -> & Hwf). pose proof Hwf as (Hne & Htok & _).
    rewrite split_ws_join by assumption. split; [exact Hwf | reflexivity].
  Qed.

  Lemma wf_sform_of e rt :
    sexp_ok re e rt -> e <> SError (EMulti []) -> wf_sform re (sform_of e) (rc_of rt).
  Proof.
    destruct e as [|n|[|x|t]]; cbn [sexp_ok err_ok sform_of wf_sform]; intros H Hne; try exact I.
    - exact H.
    - destruct H as [-> Hws]. split; [apply wf_inline_split; exact Hws | reflexivity].
    - apply mtext_wf; [exact H | intros ->; apply Hne; reflexivity].
  Qed.

  Lemma wf_qform_of e rt :
    qexp_ok col re e rt ->
    e <> QError (EMulti []) -> (forall s lb res, e <> QResults [] s lb res) ->
    wf_qform col re (qform_of e) (rc_of rt).
  Proof.
    destruct e as [ty s lb res|[|x|t]]; cbn [qexp_ok err_ok qform_of wf_qform]; intros H Hne Hb;
      try exact I.
    - destruct H as [[(-> & _)|(Ht & He & Hp & Hl)] Hres]; [exfalso; eapply Hb; reflexivity|].
      split; [exact Ht|]. split; [exact He|]. split; [exact Hp|]. split; [exact Hl|].
      split; [intros _ _; destruct (rc_of rt); exact I | exact Hres].
    - destruct H as [-> Hws]. split; [apply wf_inline_split; exact Hws | reflexivity].
    - apply mtext_wf; [exact H | intros ->; apply Hne; reflexivity].
  Qed.

  Lemma words_len (A B : list str) : A <> [] -> (1 <= length (A ++ B))%nat.
  Proof. destruct A; [contradiction|]. intros _. cbn. lia. Qed.

  Lemma item_of_wf r : rec_ok r -> regular r = true -> wf_item col re false (item_of r).
  Proof.
    intros Hr Hreg. unfold regular in Hreg.
    apply andb_true_iff in Hreg as [Hreg Hc]. apply andb_true_iff in Hreg as [Hb He].
    apply negb_true_iff in Hb, He, Hc.
    destruct r as [l f|l cs c sql e rt|l cs c sql e rt|l cs cmd out rt|l d|l x|l|c|l n|c|c|ls| | |];
      cbn [rec_ok item_of wf_item] in *; try discriminate Hc; try contradiction; try exact I.
    - split; [apply wf_hlay_hl; lia | exact Hr].
    - destruct Hr as (Hsql & Hexp & Hrt).
      split; [apply wf_hlay_hl; apply words_len; destruct (sform_of e); discriminate|].
      split; [apply wf_sform_of; [exact Hexp | intros ->; discriminate He]|].
      split; [apply wf_retry_rc; exact Hrt|]. split; [apply wf_block_nlsplit; exact Hsql|].
      intros _. split; reflexivity.
    - destruct Hr as (Hsql & Hexp & Hrt).
      split; [apply wf_hlay_hl; apply words_len; destruct (qform_of e); discriminate|].
      split; [apply wf_qform_of; [exact Hexp | intros ->; discriminate He
                                 | intros s lb res ->; discriminate Hb]|].
      split; [apply wf_retry_rc; exact Hrt|]. split; [apply wf_block_nlsplit; exact Hsql|].
      intros _. split; reflexivity.
    - destruct Hr as (Hcmd & Hout & Hrt).
      split; [apply wf_hlay_hl; apply words_len; discriminate|].
      split; [apply wf_retry_rc; exact Hrt|]. split; [apply wf_block_nlsplit; exact Hcmd|].
      split; [|intros _; split; reflexivity].
      destruct out as [t|]; cbn [option_map]; [|exact I].
      apply mtext_wf; [exact Hout | intros ->; discriminate He].
    - split; [apply wf_hlay_hl; lia|]. destruct (compact_duration_roundtrip d Hr) as [Hp Ht].
      split; assumption.
    - split; [apply wf_hlay_hl; lia | exact Hr].
    - apply wf_hlay_hl; lia.
    - apply wf_hlay_hl; lia.
    - split; [apply wf_hlay_hl; lia | exact Hr].
    - split; [apply wf_hlay_hl; lia | exact Hr].
    - split; [apply wf_hlay_hl; lia|]. destruct c as [|x]; [tok_lit | apply Hr].
  Qed.

  Lemma multi_body_id t : trim t = t -> t <> [] -> multi_body t = t ++ nl1.
  Proof. intros Ht Hne. unfold multi_body. rewrite Ht. destruct t; [contradiction | reflexivity]. Qed.

  Lemma block_text h (sqlL tail : list str) :
    sqlL <> [] -> tail <> [] ->
    join nl (h :: sqlL ++ tail) = h ++ nl ++ join nl sqlL ++ nl ++ join nl tail.
  Proof.
    intros H1 H2. destruct sqlL as [|a sqlL]; [contradiction|].
    change (h :: (a :: sqlL) ++ tail) with (h :: a :: (sqlL ++ tail)). rewrite join_cons2.
    change (a :: sqlL ++ tail) with ((a :: sqlL) ++ tail).
    rewrite join_app by (try assumption; discriminate). reflexivity.
  Qed.

  Lemma multi_tail_text tL :
    tL <> [] -> join nl (multi_lines tL MEndDouble) = lit "----" ++ nl ++ join nl tL ++ nl ++ nl.
  Proof.
    intros H. unfold multi_lines, mend_lines.
    destruct tL as [|a tL]; [contradiction|].
    change (DELIM :: (a :: tL) ++ [[]; []]) with (DELIM :: a :: (tL ++ [[]; []])).
    rewrite join_cons2. change (a :: tL ++ [[]; []]) with ((a :: tL) ++ [[]; []]).
    rewrite join_app by discriminate. reflexivity.
  Qed.

  Lemma sform_text e rt :
    sexp_ok re e rt ->
    join sp (sform_words (sform_of e)) =
    lit "statement " ++ match e with
                        | SOk => lit "ok"
                        | SCount n => lit "count " ++ dec n
                        | SError x => fmt_inline x
                        end.
  Proof.
    destruct e as [|n|[|x|t]]; cbn [sform_of sform_words sexp_ok err_ok fmt_inline]; intros H;
      try reflexivity.
    destruct H as [_ Hws]. destruct (wf_inline_split x Hws) as [(Hne & _) Hj].
    destruct (split_ws x) as [|w ws]; [contradiction|].
    unfold sp. rewrite !join_cons2. rewrite Hj. reflexivity.
  Qed.

  Lemma qform_text e rt :
    qexp_ok col re e rt -> (forall s lb res, e <> QResults [] s lb res) ->
    join sp (qform_words (qform_of e)) =
    lit "query " ++ match e with
                    | QResults types s lb _ =>
                        types ++ (match s with Some m => sp ++ sort_text m | None => [] end)
                              ++ (match lb with Some l => sp ++ l | None => [] end)
                    | QError x => fmt_inline x
                    end.
  Proof.
    destruct e as [ty s lb res|[|x|t]]; cbn [qform_of qform_words qexp_ok err_ok fmt_inline];
      intros H Hb; try reflexivity.
    - destruct s as [m|]; destruct lb as [l|]; cbn [app]; rewrite ?sort_text_word;
        rewrite ?join_cons2; cbn [join]; unfold sp; rewrite <- ?app_assoc; rewrite ?app_nil_r;
        reflexivity.
    - destruct H as [_ Hws]. destruct (wf_inline_split x Hws) as [(Hne & _) Hj].
      destruct (split_ws x) as [|w ws]; [contradiction|].
      unfold sp. rewrite !join_cons2. rewrite Hj. reflexivity.
  Qed.

  Lemma nlsplit_ne s : nlsplit s <> [].
  Proof. apply nlsplit_nonnil. Qed.

  Lemma item_of_display r :
    rec_ok r -> regular r = true -> display r = Some (join nl (render_item (item_of r))).
  Proof.
    intros Hr Hreg. unfold regular in Hreg.
    apply andb_true_iff in Hreg as [Hreg Hc]. apply andb_true_iff in Hreg as [Hb He].
    apply negb_true_iff in Hb, He, Hc.
    destruct r as [l f|l cs c sql e rt|l cs c sql e rt|l cs cmd out rt|l d|l x|l|c|l n|c|c|ls| | |];
      cbn [rec_ok item_of render_item display] in *; try discriminate Hc; try contradiction;
      rewrite ?header_hl; try reflexivity.
    - (* statement *)
      destruct Hr as (Hsql & Hexp & Hrt). f_equal.
      rewrite join_words_retry by (destruct (sform_of e); discriminate).
      rewrite (sform_text e rt Hexp).
      destruct e as [|n|[|x|t]]; cbn [sform_of end_lines];
        try (rewrite block_text by (try apply nlsplit_ne; discriminate);
             rewrite join_nlsplit; cbn [join]; unfold nl, nl1; rewrite <- ?app_assoc; reflexivity).
      assert (Htne : t <> []) by (intros ->; discriminate He).
      destruct (mtext_wf t Hexp Htne) as (_ & Htrim & Htxt).
      rewrite block_text by (try apply nlsplit_ne; discriminate).
      rewrite multi_tail_text by apply nlsplit_ne.
      rewrite !join_nlsplit. cbn [fmt_multiline]. rewrite (multi_body_id t Htrim Htne).
      unfold nl, nl1. rewrite <- ?app_assoc. reflexivity.
    - (* query *)
      destruct Hr as (Hsql & Hexp & Hrt). f_equal.
      rewrite join_words_retry by (destruct (qform_of e); discriminate).
      rewrite (qform_text e rt Hexp) by (intros s lb res ->; discriminate Hb).
      destruct e as [ty s lb res|[|x|t]]; cbn [qform_of end_lines];
        try (rewrite block_text by (try apply nlsplit_ne; discriminate);
             rewrite join_nlsplit; cbn [join]; unfold nl, nl1; rewrite <- ?app_assoc; reflexivity).
      + rewrite block_text by (try apply nlsplit_ne; discriminate).
        rewrite join_nlsplit. rewrite join_res_lines.
        unfold nl, nl1. rewrite <- ?app_assoc. reflexivity.
      + assert (Htne : t <> []) by (intros ->; discriminate He).
        destruct (mtext_wf t Hexp Htne) as (_ & Htrim & Htxt).
        rewrite block_text by (try apply nlsplit_ne; discriminate).
        rewrite multi_tail_text by apply nlsplit_ne.
        rewrite !join_nlsplit. cbn [fmt_multiline]. rewrite (multi_body_id t Htrim Htne).
        unfold nl, nl1. rewrite <- ?app_assoc. reflexivity.
    - (* system *)
      destruct Hr as (Hcmd & Hout & Hrt). f_equal.
      rewrite join_words_retry by discriminate.
      destruct out as [t|]; cbn [option_map].
      + assert (Htne : t <> []) by (intros ->; discriminate He).
        destruct (mtext_wf t Hout Htne) as (_ & Htrim & Htxt).
        rewrite block_text by (try apply nlsplit_ne; discriminate).
        rewrite multi_tail_text by apply nlsplit_ne.
        rewrite !join_nlsplit. rewrite (multi_body_id t Htrim Htne).
        unfold nl, nl1. rewrite <- ?app_assoc. reflexivity.
      + rewrite block_text by (try apply nlsplit_ne; discriminate).
        rewrite join_nlsplit. cbn [join end_lines]. unfold nl, nl1. rewrite <- ?app_assoc. reflexivity.
    - (* control *)
      destruct c as [[]|[]|[]]; reflexivity.
    - (* condition *)
      destruct c; reflexivity.
    - (* connection *)
      destruct c; reflexivity.
  Qed.

  Lemma sform_expect_of e rt : sexp_ok re e rt -> sform_expect (sform_of e) = e.
  Proof.
    destruct e as [|n|[|x|t]]; cbn [sform_of sform_expect sexp_ok err_ok]; intros H; try reflexivity.
    - destruct H as [_ Hws]. destruct (wf_inline_split x Hws) as [_ Hj]. rewrite Hj. reflexivity.
    - unfold text_of. rewrite join_nlsplit. reflexivity.
  Qed.

  Lemma qform_expect_of e rt : qexp_ok col re e rt -> qform_expect (qform_of e) = e.
  Proof.
    destruct e as [ty s lb res|[|x|t]]; cbn [qform_of qform_expect qexp_ok err_ok]; intros H;
      try reflexivity.
    - destruct H as [_ Hws]. destruct (wf_inline_split x Hws) as [_ Hj]. rewrite Hj. reflexivity.
    - unfold text_of. rewrite join_nlsplit. reflexivity.
  Qed.

  Lemma item_of_elab r cs cn ln :
    rec_ok r -> regular r = true -> conds_match cs cn r ->
    elab_item (mkE cs cn ln) (item_of r) =
    ([reloc (ln + 1) r],
     mkE (fst (next_st cs cn r)) (snd (next_st cs cn r))
         (ln + N.of_nat (length (render_item (item_of r))))).
  Proof.
    intros Hr Hreg Hm. unfold regular in Hreg.
    apply andb_true_iff in Hreg as [Hreg Hc]. apply negb_true_iff in Hc.
    destruct r as [l f|l cs' c sql e rt|l cs' c sql e rt|l cs' cmd out rt|l d|l x|l|c|l n|c|c|ls| | |];
      cbn [rec_ok] in Hr; try discriminate Hc; try contradiction;
      cbn [conds_match] in Hm;
      cbn [item_of Render.elab_item reloc next_st fst snd e_conds e_conn e_line]; try reflexivity.
    - destruct Hm as [-> ->]. destruct Hr as (_ & Hexp & _).
      unfold text_of. rewrite join_nlsplit, (sform_expect_of e rt Hexp), retry_of_rc. reflexivity.
    - destruct Hm as [-> ->]. destruct Hr as (_ & Hexp & _).
      unfold text_of. rewrite join_nlsplit, (qform_expect_of e rt Hexp), retry_of_rc. reflexivity.
    - subst cs'. unfold text_of. rewrite join_nlsplit, retry_of_rc.
      destruct out as [t|]; cbn [option_map]; [rewrite join_nlsplit|]; reflexivity.
    - destruct c as [|x]; [reflexivity|]. destruct Hr as [_ Hd].
      cbn [conn_word]. unfold conn_of_name. rewrite Hd. reflexivity.
  Qed.

  Lemma item_of_not_comment r : is_rcomment r = false -> is_comment (item_of r) = false.
  Proof. destruct r; intros H; try discriminate H; reflexivity. Qed.

  Notation run_lines := (Parser.run_lines col re file upper).

  Lemma regular_run r R cs cn cm ln :
    rec_ok r -> regular r = true -> conds_match cs cn r ->
    run_lines (mkP R cs cn cm ln Top) (render_item (item_of r)) =
    SNext (mkP (vr R cm ++ [reloc (ln + 1) r]) (fst (next_st cs cn r)) (snd (next_st cs cn r)) []
               (ln + N.of_nat (length (render_item (item_of r)))) Top).
  Proof.
    intros Hr Hreg Hm.
    assert (Hnc : is_rcomment r = false).
    { unfold regular in Hreg. apply andb_true_iff in Hreg as [_ Hc]. apply negb_true_iff in Hc. exact Hc. }
    pose proof (item_run col re file upper false (item_of r) R cm (mkE cs cn ln)
                  (item_of_wf r Hr Hreg) (fun _ => item_of_not_comment r Hnc)) as (p' & Hrun & _ & Hcl).
    cbn [e_conds e_conn e_line] in Hrun. rewrite Hrun. rewrite (Hcl eq_refl).
    rewrite pfin_of_plain by (apply item_of_not_comment; exact Hnc).
    rewrite (item_of_elab r cs cn ln Hr Hreg Hm). reflexivity.
  Qed.

  Notation step := (Parser.step col re file upper).
  Notation top_line := (Parser.top_line col re file upper).
  Notation erec := (RenderProofs.erec file upper).

  (* a block whose text under `----` is empty: the delimiter and the two blank lines that end
     the block *)
  Lemma empty_multi_tail R cs cn n h sqlL :
    is_multi_hdr h = true -> wf_block sqlL ->
    run_lines (mkP R cs cn [] n (First n h)) (sqlL ++ [DELIM; []; []]) =
    SNext (mkP (R ++ [erec n cs cn h (text_of sqlL) [] (multi_fe h []) (multi_fo h [])])
               [] (econn h cn) [] (n + N.of_nat (length (sqlL ++ [DELIM; []; []]))) Top).
  Proof.
    intros Hh Hb. rewrite run_lines_app. rewrite front_run by exact Hb.
    cbn [Parser.run_lines]. rewrite step_body_delim_multi by exact Hh.
    rewrite step_multi_blank0, step_multi_blank1.
    change (trim []) with (@nil N).
    do 2 f_equal. rewrite app_length. cbn [length]. lia.
  Qed.

  Lemma words_split (W : list str) :
    W <> [] -> Forall token W -> split_ws (join sp W) = W.
  Proof. intros. apply split_ws_join; assumption. Qed.

  Lemma stmt_words_token rc :
    wf_retry rc -> Forall token ([lit "statement"; lit "error"] ++ retry_words rc).
  Proof.
    intros H. apply Forall_app. split; [|apply retry_words_token; exact H].
    repeat (apply Forall_cons || apply Forall_nil); tok_lit.
  Qed.
  Lemma query_words_token rc :
    wf_retry rc -> Forall token ([lit "query"; lit "error"] ++ retry_words rc).
  Proof.
    intros H. apply Forall_app. split; [|apply retry_words_token; exact H].
    repeat (apply Forall_cons || apply Forall_nil); tok_lit.
  Qed.
  Lemma system_words_token rc :
    wf_retry rc -> Forall token ([lit "system"; lit "ok"] ++ retry_words rc).
  Proof.
    intros H. apply Forall_app. split; [|apply retry_words_token; exact H].
    repeat (apply Forall_cons || apply Forall_nil); tok_lit.
  Qed.

  Lemma hdr_step_stmt_err R cs cn cm ln rt :
    retry_ok rt ->
    step (mkP R cs cn cm ln Top) (join sp ([lit "statement"; lit "error"] ++ retry_words (rc_of rt))) =
    SNext (mkP (vr R cm) cs cn [] (ln + 1) (First (ln + 1) (HStatement (SError EEmpty) rt))).
  Proof.
    intros Hrt. pose proof (wf_retry_rc rt Hrt) as Hrc.
    assert (Hs : split_ws (join sp ([lit "statement"; lit "error"] ++ retry_words (rc_of rt))) =
                 lit "statement" :: lit "error" :: retry_words (rc_of rt))
      by (apply words_split; [discriminate | apply stmt_words_token; exact Hrc]).
    eapply header_step; [exact Hs | vm_compute; discriminate|].
    rewrite (top_line_statement _ _ _ _ _ _ _ _ Hs).
    pose proof (parse_statement_header_words re SFErrAny (rc_of rt) I Hrc) as Hp.
    cbn [sform_words app tl shdr_expect sform_expect] in Hp. rewrite Hp, retry_of_rc. reflexivity.
  Qed.

  Lemma hdr_step_query_err R cs cn cm ln rt :
    retry_ok rt ->
    step (mkP R cs cn cm ln Top) (join sp ([lit "query"; lit "error"] ++ retry_words (rc_of rt))) =
    SNext (mkP (vr R cm) cs cn [] (ln + 1) (First (ln + 1) (HQuery (QError EEmpty) rt))).
  Proof.
    intros Hrt. pose proof (wf_retry_rc rt Hrt) as Hrc.
    assert (Hs : split_ws (join sp ([lit "query"; lit "error"] ++ retry_words (rc_of rt))) =
                 lit "query" :: lit "error" :: retry_words (rc_of rt))
      by (apply words_split; [discriminate | apply query_words_token; exact Hrc]).
    eapply header_step; [exact Hs | vm_compute; discriminate|].
    rewrite (top_line_query _ _ _ _ _ _ _ _ Hs).
    pose proof (parse_query_header_words col re QFErrAny (rc_of rt) I Hrc) as Hp.
    cbn [qform_words app tl qhdr_expect qform_expect] in Hp. rewrite Hp, retry_of_rc. reflexivity.
  Qed.

  Lemma hdr_step_system R cs cn cm ln rt :
    retry_ok rt ->
    step (mkP R cs cn cm ln Top) (join sp ([lit "system"; lit "ok"] ++ retry_words (rc_of rt))) =
    SNext (mkP (vr R cm) cs cn [] (ln + 1) (First (ln + 1) (HSystem rt))).
  Proof.
    intros Hrt. pose proof (wf_retry_rc rt Hrt) as Hrc.
    assert (Hs : split_ws (join sp ([lit "system"; lit "ok"] ++ retry_words (rc_of rt))) =
                 lit "system" :: lit "ok" :: retry_words (rc_of rt))
      by (apply words_split; [discriminate | apply system_words_token; exact Hrc]).
    eapply header_step; [exact Hs | vm_compute; discriminate|].
    rewrite (top_line_system _ _ _ _ _ _ _ _ Hs).
    rewrite (parse_retry_words _ Hrc), retry_of_rc. reflexivity.
  Qed.

  Lemma hdr_step_query_bare R cs cn cm ln :
    step (mkP R cs cn cm ln Top) (lit "query ") =
    SNext (mkP (vr R cm) cs cn [] (ln + 1) (First (ln + 1) (HQuery (QResults [] None None []) None))).
  Proof.
    assert (Hs : split_ws (lit "query ") = [lit "query"]) by (vm_compute; reflexivity).
    eapply header_step; [exact Hs | vm_compute; discriminate|].
    rewrite (top_line_query _ _ _ _ _ _ _ _ Hs). reflexivity.
  Qed.


  Lemma words_line_ok W : W <> [] -> Forall token W -> line_ok (join sp W).
  Proof.
    intros Hne Htok. unfold sp. rewrite <- (header_hl (length W) W).
    eapply header_line_ok; [apply wf_hlay_hl|exact Htok]. destruct W; [contradiction | cbn; lia].
  Qed.

  Lemma empty_tail_ok : Forall line_ok [DELIM; []; []].
  Proof. repeat (apply Forall_cons || apply Forall_nil); first [apply line_ok_delim | apply line_ok_nil]. Qed.

  Lemma empty_tail_text : join nl [DELIM; []; []] = lit "----" ++ nl1 ++ multi_body [] ++ nl1.
  Proof. reflexivity. Qed.

  Lemma ln_cons (ln : N) {A} (x : A) (l : list A) :
    ln + 1 + N.of_nat (length l) = ln + N.of_nat (length (x :: l)).
  Proof. cbn [length]. lia. Qed.

  Definition run_spec (r : record) (R : list record) cs cn cm ln (L : list str) : Prop :=
    display r = Some (join nl L) /\ Forall line_ok L /\ L <> [] /\
    run_lines (mkP R cs cn cm ln Top) L =
    SNext (mkP (vr R cm ++ [reloc (ln + 1) r])
               (fst (next_st cs cn r)) (snd (next_st cs cn r)) []
               (ln + N.of_nat (length L)) Top).

  Lemma record_run_stmt l sql rt R cs cn cm ln :
    body_ok sql -> retry_ok rt ->
    run_spec (RStatement l cs cn sql (SError (EMulti [])) rt) R cs cn cm ln
      (join sp ([lit "statement"; lit "error"] ++ retry_words (rc_of rt))
         :: nlsplit sql ++ [DELIM; []; []]).
  Proof.
    intros Hsql Hrt. pose proof (wf_block_nlsplit sql Hsql) as Hb.
    pose proof (wf_retry_rc rt Hrt) as Hrc. split; [|split; [|split]].
    - cbn [display]. f_equal.
      rewrite block_text by (try apply nlsplit_ne; discriminate).
      rewrite join_nlsplit, empty_tail_text, join_words_retry by discriminate.
      change (join sp [lit "statement"; lit "error"]) with (lit "statement " ++ fmt_inline (EMulti [])).
      cbn [fmt_multiline]. unfold nl, nl1. rewrite <- ?app_assoc. reflexivity.
    - apply Forall_cons; [apply words_line_ok; [discriminate | apply stmt_words_token; exact Hrc]|].
      apply Forall_app. split; [apply Hb | apply empty_tail_ok].
    - discriminate.
    - cbn [Parser.run_lines]. rewrite hdr_step_stmt_err by exact Hrt.
      rewrite empty_multi_tail by (try reflexivity; exact Hb).
      cbn [RenderProofs.erec multi_fe multi_fo econn reloc next_st fst snd].
      unfold text_of. rewrite join_nlsplit.
      rewrite <- ln_cons. reflexivity.
  Qed.

  Lemma record_run_query_err l sql rt R cs cn cm ln :
    body_ok sql -> retry_ok rt ->
    run_spec (RQuery l cs cn sql (QError (EMulti [])) rt) R cs cn cm ln
      (join sp ([lit "query"; lit "error"] ++ retry_words (rc_of rt))
         :: nlsplit sql ++ [DELIM; []; []]).
  Proof.
    intros Hsql Hrt. pose proof (wf_block_nlsplit sql Hsql) as Hb.
    pose proof (wf_retry_rc rt Hrt) as Hrc. split; [|split; [|split]].
    - cbn [display]. f_equal.
      rewrite block_text by (try apply nlsplit_ne; discriminate).
      rewrite join_nlsplit, empty_tail_text, join_words_retry by discriminate.
      change (join sp [lit "query"; lit "error"]) with (lit "query " ++ fmt_inline (EMulti [])).
      cbn [fmt_multiline]. unfold nl, nl1. rewrite <- ?app_assoc. reflexivity.
    - apply Forall_cons; [apply words_line_ok; [discriminate | apply query_words_token; exact Hrc]|].
      apply Forall_app. split; [apply Hb | apply empty_tail_ok].
    - discriminate.
    - cbn [Parser.run_lines]. rewrite hdr_step_query_err by exact Hrt.
      rewrite empty_multi_tail by (try reflexivity; exact Hb).
      cbn [RenderProofs.erec multi_fe multi_fo econn reloc next_st fst snd].
      unfold text_of. rewrite join_nlsplit.
      rewrite <- ln_cons. reflexivity.
  Qed.

  Lemma record_run_system l cmd rt R cs cn cm ln :
    body_ok cmd -> retry_ok rt ->
    run_spec (RSystem l cs cmd (Some []) rt) R cs cn cm ln
      (join sp ([lit "system"; lit "ok"] ++ retry_words (rc_of rt))
         :: nlsplit cmd ++ [DELIM; []; []]).
  Proof.
    intros Hsql Hrt. pose proof (wf_block_nlsplit cmd Hsql) as Hb.
    pose proof (wf_retry_rc rt Hrt) as Hrc. split; [|split; [|split]].
    - cbn [display]. f_equal.
      rewrite block_text by (try apply nlsplit_ne; discriminate).
      rewrite join_nlsplit, empty_tail_text, join_words_retry by discriminate.
      change (join sp [lit "system"; lit "ok"]) with (lit "system ok").
      unfold nl, nl1. rewrite <- ?app_assoc. reflexivity.
    - apply Forall_cons; [apply words_line_ok; [discriminate | apply system_words_token; exact Hrc]|].
      apply Forall_app. split; [apply Hb | apply empty_tail_ok].
    - discriminate.
    - cbn [Parser.run_lines]. rewrite hdr_step_system by exact Hrt.
      rewrite empty_multi_tail by (try reflexivity; exact Hb).
      cbn [RenderProofs.erec multi_fe multi_fo econn reloc next_st fst snd].
      unfold text_of. rewrite join_nlsplit.
      rewrite <- ln_cons. reflexivity.
  Qed.

  Lemma record_run_bare l sql res R cs cn cm ln :
    body_ok sql -> res_ok res ->
    run_spec (RQuery l cs cn sql (QResults [] None None res) None) R cs cn cm ln
      (lit "query " :: nlsplit sql ++ DELIM :: res ++ [[]]).
  Proof.
    intros Hsql Hres. pose proof (wf_block_nlsplit sql Hsql) as Hb. split; [|split; [|split]].
    - cbn [display retry_text]. f_equal.
      rewrite block_text by (try apply nlsplit_ne; discriminate).
      rewrite join_nlsplit, join_res_lines.
      unfold nl, nl1. rewrite ?app_nil_r. rewrite <- ?app_assoc. reflexivity.
    - apply Forall_cons; [apply line_ok_check; vm_compute; reflexivity|].
      apply Forall_app. split; [apply Hb|]. apply Forall_cons; [apply line_ok_delim|].
      apply Forall_app. split; [|apply Forall_cons; [apply line_ok_nil | apply Forall_nil]].
      eapply Forall_impl; [|exact Hres]. intros x [Hx _]. exact Hx.
    - discriminate.
    - cbn [Parser.run_lines]. rewrite hdr_step_query_bare.
      rewrite run_lines_app. rewrite front_run by exact Hb.
      assert (Hne : Forall (fun x : str => x <> []) res)
        by (eapply Forall_impl; [|exact Hres]; intros x [_ Hx]; exact Hx).
      destruct (tail_res col re file upper (vr R cm) cs cn
                  (ln + 1 + N.of_nat (length (nlsplit sql))) (ln + 1) (text_of (nlsplit sql))
                  [] None None [] None res EndBlank Hne) as (p' & Hrun & _ & Hcl).
      cbn [end_lines] in Hrun. rewrite Hrun. rewrite (Hcl eq_refl).
      cbn [RenderProofs.erec reloc next_st fst snd].
      unfold text_of. rewrite join_nlsplit. do 2 f_equal.
      cbn [length]. rewrite !app_length. cbn [length]. rewrite app_length. cbn [length]. lia.
  Qed.

  Lemma regular_false_cases r :
    rec_ok r -> is_rcomment r = false -> regular r = false ->
    (exists l cs cn sql rt, r = RStatement l cs cn sql (SError (EMulti [])) rt) \/
    (exists l cs cn sql rt, r = RQuery l cs cn sql (QError (EMulti [])) rt) \/
    (exists l cs cmd rt, r = RSystem l cs cmd (Some []) rt) \/
    (exists l cs cn sql res, r = RQuery l cs cn sql (QResults [] None None res) None).
  Proof.
    intros Hr Hc Hreg. unfold regular in Hreg. rewrite Hc in Hreg. cbn [negb] in Hreg.
    rewrite andb_true_r in Hreg.
    destruct r as [l f|l cs c sql e rt|l cs c sql e rt|l cs cmd out rt|l d|l x|l|c|l n|c|c|ls| | |];
      try discriminate Hreg.
    - destruct e as [|n|[|x|[|a t]]]; try discriminate Hreg. left. repeat eexists.
    - destruct e as [[|a ty] s lb res|[|x|[|a t]]]; try discriminate Hreg.
      + right. right. right. destruct Hr as (_ & [[(_ & -> & -> & ->)|(Ht & _)] _] & _).
        * repeat eexists.
        * destruct Ht as [Ht _]. contradiction.
      + right. left. repeat eexists.
    - destruct out as [[|a t]|]; try discriminate Hreg. right. right. left. repeat eexists.
  Qed.

  Lemma record_run r R cs cn cm ln :
    rec_ok r -> is_rcomment r = false -> conds_match cs cn r ->
    exists L, run_spec r R cs cn cm ln L.
  Proof.
    intros Hr Hc Hm. destruct (regular r) eqn:Hreg.
    - exists (render_item (item_of r)). split; [|split; [|split]].
      + apply item_of_display; assumption.
      + eapply render_item_ok. apply item_of_wf; eassumption.
      + destruct r; try discriminate Hc; cbn; discriminate.
      + rewrite regular_run by assumption. reflexivity.
    - destruct (regular_false_cases r Hr Hc Hreg)
        as [(l & cs' & cn' & sql & rt & ->)|[(l & cs' & cn' & sql & rt & ->)|
            [(l & cs' & cmd & rt & ->)|(l & cs' & cn' & sql & res & ->)]]]; cbn [conds_match] in Hm.
      + destruct Hm as [-> ->]. destruct Hr as (Hsql & _ & Hrt).
        eexists. apply record_run_stmt; assumption.
      + destruct Hm as [-> ->]. destruct Hr as (Hsql & _ & Hrt).
        eexists. apply record_run_query_err; assumption.
      + subst cs'. destruct Hr as (Hsql & _ & Hrt).
        eexists. apply record_run_system; assumption.
      + destruct Hm as [-> ->]. destruct Hr as (Hsql & [_ Hres] & _).
        eexists. apply record_run_bare; assumption.
  Qed.
End Items.


(* ------------------------------------------------------------------ *)
(* 4. the whole script                                                 *)

Lemma unlines_lf : forall ls, unlines ls [] true = lf_lines ls.
Proof.
  induction ls as [|l r IH]; [reflexivity|].
  destruct r as [|l2 r].
  - cbn. rewrite app_nil_r. reflexivity.
  - change (unlines (l :: l2 :: r) [] true) with (l ++ eol false ++ unlines (l2 :: r) [] true).
    rewrite IH. unfold lf_lines. cbn [flat_map eol]. rewrite <- !app_assoc. reflexivity.
Qed.

Lemma lines_lf_lines ls : Forall line_ok ls -> lines (lf_lines ls) = ls.
Proof.
  intros H. rewrite <- unlines_lf. apply lines_unlines; [exact H | intros E; discriminate E].
Qed.

Lemma lf_lines_join (L : list str) : L <> [] -> join nl L ++ nl = lf_lines L.
Proof. intros H. unfold lf_lines, nl. symmetry. apply flat_map_nl_join. exact H. Qed.

Lemma trim_end_idem l : trim_end (trim_end l) = trim_end l.
Proof.
  unfold trim_end. rewrite frev_involutive.
  destruct (drop_while is_ws (frev l)) as [|c r] eqn:E; [reflexivity|].
  rewrite <- E at 1. rewrite E. rewrite (drop_while_hd is_ws (c :: r)); [reflexivity|].
  intros c0 Hc0. cbn in Hc0. inversion Hc0; subst. eapply drop_while_hd_false. exact E.
Qed.

Lemma line_ok_trim_end l : ~ In 10 l -> line_ok (trim_end l).
Proof.
  intros Hlf. destruct (trim_end_split l) as (b & Hb). split.
  - intros Hin. apply Hlf. rewrite Hb. apply in_or_app. left. exact Hin.
  - unfold trim_end. destruct (drop_while is_ws (frev l)) as [|c r] eqn:E; [cbn; discriminate|].
    rewrite frev_rev. cbn [rev]. rewrite last_last. intros ->.
    apply drop_while_hd_false in E. discriminate E.
Qed.

Definition cline (l : str) : str := 35 :: trim_end l.

Lemma cline_trim l : cline (trim_end l) = cline l.
Proof. unfold cline. rewrite trim_end_idem. reflexivity. Qed.

Definition flushc (cm : list str) : list record := match cm with [] => [] | _ => [RComment cm] end.

Lemma vr_flushc R cm : vr R cm = R ++ flushc cm.
Proof. reflexivity. Qed.

Definition rlines (r : record) : list str :=
  match display r with Some d => nlsplit d | None => [] end.

Section Script.
  Variable col : N -> option N.
  Variable re : str -> bool.
  Variable file : str.
  Variable upper : option loc.

  Notation rec_ok := (rec_ok col re).
  Notation run_lines := (Parser.run_lines col re file upper).
  Notation complete := (RenderProofs.complete col re file upper).
  Notation reloc := (reloc file upper).

  Fixpoint reparse (ln : N) (cm : list str) (rs : list record) : list record :=
    match rs with
    | [] => flushc cm
    | r :: rest =>
        match r with
        | RComment ls => reparse (ln + N.of_nat (length ls)) (cm ++ map trim_end ls) rest
        | _ => flushc cm ++ reloc (ln + 1) r ::
               reparse (ln + N.of_nat (length (rlines r))) [] rest
        end
    end.

  Lemma reparse_step r rest ln cm :
    is_rcomment r = false ->
    reparse ln cm (r :: rest) =
    flushc cm ++ reloc (ln + 1) r :: reparse (ln + N.of_nat (length (rlines r))) [] rest.
  Proof. destruct r; intros H; try discriminate H; reflexivity. Qed.

  Lemma reparse_run : forall rs R cs cn cm ln,
    Forall rec_ok rs -> scanP cs cn rs (fun _ _ => True) ->
    exists LL, write_records rs = Some (lf_lines LL) /\ Forall line_ok LL /\
               complete (mkP R cs cn cm ln Top) LL = POk (R ++ reparse ln cm rs).
  Proof.
    induction rs as [|r rest IH]; intros R cs cn cm ln Hok Hsc.
    - exists []. split; [reflexivity|]. split; [constructor|].
      unfold RenderProofs.complete. cbn [Parser.run_lines reparse].
      change (Parser.finish file upper (mkP R cs cn cm ln Top))
        with (POk (recs (flush_comments (mkP R cs cn cm ln Top)))).
      rewrite flush_mk. reflexivity.
    - inversion Hok as [|r' rest' Hr Hrest]; subst.
      apply scanP_cons in Hsc as [Hm Hsc].
      destruct (is_rcomment r) eqn:Hc.
      + destruct r; try discriminate Hc. cbn [rec_ok] in Hr. destruct Hr as [Hne Hls].
        cbn [next_st fst snd] in Hsc.
        destruct (IH R cs cn (cm ++ map trim_end ls) (ln + N.of_nat (length ls)) Hrest Hsc)
          as (LL & Hw & HLL & Hrun).
        exists (map cline ls ++ LL). split; [|split].
        * cbn [write_records display]. rewrite Hw. f_equal.
          rewrite lf_lines_app. fold cline. unfold nl1. rewrite app_assoc. f_equal.
          apply (lf_lines_join (map cline ls)). destruct ls; [contradiction | discriminate].
        * apply Forall_app. split; [|exact HLL]. apply Forall_forall. intros x Hx.
          apply in_map_iff in Hx as (l & <- & Hl). apply line_ok_comment.
          apply line_ok_trim_end. rewrite Forall_forall in Hls. apply (Hls l Hl).
        * unfold RenderProofs.complete in *. rewrite run_lines_app.
          replace (map cline ls) with (map (fun l => 35 :: l) (map trim_end ls))
            by (rewrite map_map; reflexivity).
          rewrite comment_run. rewrite map_length. rewrite Hrun. reflexivity.
      + destruct (record_run col re file upper r R cs cn cm ln Hr Hc Hm)
          as (L & Hd & HL & HLne & HrunL).
        destruct (IH (vr R cm ++ [reloc (ln + 1) r]) (fst (next_st cs cn r))
                     (snd (next_st cs cn r)) [] (ln + N.of_nat (length L)) Hrest Hsc)
          as (LL & Hw & HLL & Hrun).
        assert (HrL : rlines r = L).
        { unfold rlines. rewrite Hd. apply nlsplit_join; [exact HLne | apply line_ok_noLF; exact HL]. }
        exists (L ++ LL). split; [|split].
        * cbn [write_records]. rewrite Hd, Hw. f_equal. rewrite lf_lines_app.
          unfold nl1. rewrite app_assoc. f_equal. apply lf_lines_join. exact HLne.
        * apply Forall_app. split; assumption.
        * unfold RenderProofs.complete in *. rewrite run_lines_app, HrunL, Hrun.
          rewrite reparse_step by exact Hc. rewrite HrL, vr_flushc.
          rewrite <- !app_assoc. reflexivity.
  Qed.

  Theorem reparse_parse rs :
    parsed_ok col re rs ->
    exists f, write_records rs = Some f /\
              parse col re file upper f = POk (reparse 0 [] rs).
  Proof.
    intros [Hok Hsc].
    destruct (reparse_run rs [] [] CDefault [] 0 Hok Hsc) as (LL & Hw & HLL & Hrun).
    exists (lf_lines LL). split; [exact Hw|].
    unfold parse. rewrite lines_lf_lines by exact HLL. exact Hrun.
  Qed.
End Script.


(* ------------------------------------------------------------------ *)
(* 5. meaning and text of the reparsed records                         *)

Definition mcomment (cm : list str) (m : list record) : list record :=
  match cm with
  | [] => m
  | _ => match m with
         | RComment ls' :: m' => RComment (cm ++ ls') :: m'
         | _ => RComment cm :: m
         end
  end.

Definition trimmed (cm : list str) : Prop := map trim_end cm = cm.

Lemma trimmed_app a b : trimmed a -> trimmed b -> trimmed (a ++ b).
Proof. unfold trimmed. intros Ha Hb. rewrite map_app, Ha, Hb. reflexivity. Qed.

Lemma trimmed_map ls : trimmed (map trim_end ls).
Proof.
  unfold trimmed. rewrite map_map. apply map_ext. intros l. apply trim_end_idem.
Qed.

Lemma meaning_flushc cm X : trimmed cm -> meaning (flushc cm ++ X) = mcomment cm (meaning X).
Proof.
  intros Ht. destruct cm as [|c cm]; [reflexivity|].
  cbn [flushc app meaning]. rewrite Ht. cbn [mcomment].
  destruct (meaning X) as [|[] m]; reflexivity.
Qed.

Definition mhead (r : record) : list record :=
  match r with RNewline => [] | _ => [erase r] end.

Lemma meaning_cons_plain r X :
  is_rcomment r = false -> meaning (r :: X) = mhead r ++ meaning X.
Proof. destruct r; intros H; try discriminate H; reflexivity. Qed.

Lemma mcomment_mhead cm r M :
  is_rcomment r = false -> r <> RNewline ->
  mcomment cm (mhead r ++ M) = flushc cm ++ mhead r ++ M.
Proof.
  intros Hc Hn. destruct cm as [|c cm]; [reflexivity|].
  destruct r; try discriminate Hc; try contradiction; reflexivity.
Qed.

Section Meaning.
  Variable file : str.
  Variable upper : option loc.
  Notation reloc := (reloc file upper).
  Notation rp := (reparse file upper).

  Lemma erase_reloc n r : erase (reloc n r) = erase r.
  Proof. destruct r; reflexivity. Qed.

  Lemma mhead_reloc n r : mhead (reloc n r) = mhead r.
  Proof. destruct r; reflexivity. Qed.

  Lemma is_rcomment_reloc n r : is_rcomment (reloc n r) = is_rcomment r.
  Proof. destruct r; reflexivity. Qed.


  Lemma meaning_reparse : forall rs ln cm,
    Forall (fun r => match r with RComment ls => ls <> [] | _ => True end) rs ->
    trimmed cm -> meaning (rp ln cm rs) = mcomment cm (meaning rs).
  Proof.
    induction rs as [|r rest IH]; intros ln cm Hne Ht.
    - cbn [reparse]. rewrite <- (app_nil_r (flushc cm)). apply meaning_flushc. exact Ht.
    - inversion Hne as [|r' rest' Hr Hrest]; subst.
      destruct (is_rcomment r) eqn:Hc.
      + destruct r; try discriminate Hc. cbn [reparse].
        rewrite IH by first [assumption | apply trimmed_app; [exact Ht | apply trimmed_map]].
        cbn [meaning].
        destruct ls as [|l0 ls]; [contradiction|].
        destruct cm as [|c cm].
        * cbn [app map mcomment]. destruct (meaning rest) as [|[] m]; reflexivity.
        * cbn [app map mcomment].
          destruct (meaning rest) as [|[] m]; cbn [app]; rewrite <- ?app_assoc; reflexivity.
      + rewrite reparse_step by exact Hc.
        rewrite meaning_flushc by exact Ht.
        rewrite meaning_cons_plain by (rewrite is_rcomment_reloc; exact Hc).
        rewrite mhead_reloc.
        rewrite IH by first [assumption | reflexivity]. cbn [mcomment].
        rewrite meaning_cons_plain by exact Hc. reflexivity.
  Qed.

  (* the text written for the reparsed records *)
  Definition wc (cm : list str) : str := lf_lines (map cline cm).

  Lemma display_reloc n r : display (reloc n r) = display r.
  Proof. destruct r; reflexivity. Qed.

  Lemma write_flushc cm X x :
    write_records X = Some x -> write_records (flushc cm ++ X) = Some (wc cm ++ x).
  Proof.
    intros H. destruct cm as [|c cm]; [exact H|].
    cbn [flushc app write_records display]. rewrite H. f_equal. unfold wc. fold cline.
    unfold nl1. rewrite app_assoc. f_equal. apply (lf_lines_join (map cline (c :: cm))). discriminate.
  Qed.

  Lemma wc_app a b : wc (a ++ b) = wc a ++ wc b.
  Proof. unfold wc. rewrite map_app. apply lf_lines_app. Qed.

  Lemma write_reparse : forall rs ln cm f,
    Forall (fun r => match r with RComment ls => ls <> [] | _ => True end) rs ->
    write_records rs = Some f ->
    write_records (rp ln cm rs) = Some (wc cm ++ f).
  Proof.
    induction rs as [|r rest IH]; intros ln cm f Hne Hw.
    - cbn [write_records] in Hw. inversion Hw; subst. cbn [reparse].
      rewrite <- (app_nil_r (flushc cm)). apply write_flushc. reflexivity.
    - inversion Hne as [|r' rest' Hr Hrest]; subst.
      cbn [write_records] in Hw.
      destruct (display r) as [a|] eqn:Hd; [|discriminate].
      destruct (write_records rest) as [b|] eqn:Hb; [|discriminate]. inversion Hw; subst. clear Hw.
      destruct (is_rcomment r) eqn:Hc.
      + destruct r; try discriminate Hc. cbn [reparse].
        rewrite (IH _ _ b Hrest eq_refl). apply f_equal.
        rewrite wc_app. rewrite <- (app_assoc (wc cm)). apply f_equal.
        cbn [display] in Hd. inversion Hd; subst. fold cline.
        change (10 :: b) with ([10] ++ b). rewrite (app_assoc _ [10] b).
        apply (f_equal (fun x => x ++ b)).
        unfold wc. rewrite map_map. rewrite (map_ext _ cline cline_trim).
        symmetry. apply (lf_lines_join (map cline ls)). destruct ls; [contradiction | discriminate].
      + rewrite reparse_step by exact Hc. apply write_flushc.
        cbn [app write_records].
        rewrite display_reloc, Hd. rewrite (IH _ _ b Hrest eq_refl). reflexivity.
  Qed.
End Meaning.

(* ------------------------------------------------------------------ *)
(* 6. C05                                                              *)

Lemma rec_ok_comment_ne col re rs :
  Forall (rec_ok col re) rs ->
  Forall (fun r => match r with RComment ls => ls <> [] | _ => True end) rs.
Proof.
  intros H. eapply Forall_impl; [|exact H]. intros r Hr. destruct r; try exact I. apply Hr.
Qed.

(* EXTRA PREMISE (both theorems): [col_stable col] -- see the counterexamples below. *)
Theorem format_sound :
  forall col re file upper s rs,
    col_stable col ->
    no_trailing_cr s -> parse col re file upper s = POk rs ->
    exists f rs', write_records rs = Some f /\ parse col re file upper f = POk rs' /\ sem_eq rs rs'.
Proof.
  intros col re file upper s rs Hcol Hcr Hp.
  pose proof (parse_parsed_ok col re file upper Hcol s rs Hcr Hp) as Hok.
  destruct (reparse_parse col re file upper rs Hok) as (f & Hw & Hp').
  exists f, (reparse file upper 0 [] rs). split; [exact Hw|]. split; [exact Hp'|].
  unfold sem_eq. rewrite meaning_reparse; [reflexivity | | reflexivity].
  eapply rec_ok_comment_ne. apply Hok.
Qed.

Theorem format_idem :
  forall col re file upper s rs f rs',
    col_stable col ->
    no_trailing_cr s -> parse col re file upper s = POk rs -> write_records rs = Some f ->
    parse col re file upper f = POk rs' -> write_records rs' = Some f.
Proof.
  intros col re file upper s rs f rs' Hcol Hcr Hp Hw Hp'.
  pose proof (parse_parsed_ok col re file upper Hcol s rs Hcr Hp) as Hok.
  destruct (reparse_parse col re file upper rs Hok) as (f0 & Hw0 & Hp0).
  rewrite Hw in Hw0. inversion Hw0; subst f0. rewrite Hp0 in Hp'. inversion Hp'; subst rs'.
  rewrite (write_reparse file upper rs 0 [] f); [reflexivity | | exact Hw].
  eapply rec_ok_comment_ne. apply Hok.
Qed.

Print Assumptions format_sound.
Print Assumptions format_idem.

(* ------------------------------------------------------------------ *)
(* 7. the extra premise [col_stable] is needed: counterexamples; regressions *)

Definition fmt_twice (col : N -> option N) (re : str -> bool) (s : str)
  : option (list record * str * list record * option str) :=
  match parse col re (lit "t.slt") None s with
  | POk rs =>
      match write_records rs with
      | Some f =>
          match parse col re (lit "t.slt") None f with
          | POk rs' => Some (rs, f, rs', write_records rs')
          | _ => None
          end
      | None => None
      end
  | _ => None
  end.

Definition cx_lines (l : list string) : str := flat_map (fun x => lit x ++ [10]) l.

(* (a) a column-type function whose canonical characters are not fixed points: the type word
   written back is read as a different type, so format_sound fails without [col_stable] *)
Definition cx_col (c : N) : option N := Some (c + 1).
Definition cx_a : str := cx_lines ["query I"; "select 1"; "----"; "1"; ""]%string.

Eval vm_compute in fmt_twice cx_col (fun _ => true) cx_a.

Example format_sound_needs_col_stable :
  no_trailing_cr cx_a /\
  exists rs f rs',
    parse cx_col (fun _ => true) (lit "t.slt") None cx_a = POk rs /\
    write_records rs = Some f /\
    parse cx_col (fun _ => true) (lit "t.slt") None f = POk rs' /\
    ~ sem_eq rs rs'.
Proof.
  split.
  - unfold no_trailing_cr. vm_compute. repeat constructor; discriminate.
  - do 3 eexists. split; [vm_compute; reflexivity|]. split; [vm_compute; reflexivity|].
    split; [vm_compute; reflexivity|]. unfold sem_eq. vm_compute. intros H. discriminate H.
Qed.

(* a canonical type word that reads `error` *)
Definition cx_col2 (c : N) : option N := if c =? 69 then Some 101 else Some c.
Definition cx_a2 : str := cx_lines ["query Error"; "select 1"; "----"; "1"; ""]%string.
Eval vm_compute in fmt_twice cx_col2 (fun _ => true) cx_a2.

(* (b) regression: an empty text under `----` (formerly a counterexample to idempotence: three
   blank lines were written and the third was re-read as a blank line of the script).  The
   formatter now writes the delimiter and one blank line, and the script formats idempotently. *)
Definition cx_b : str := cx_lines ["statement error"; "select 1"; "----"; ""; ""]%string.

Eval vm_compute in fmt_twice default_col (fun _ => true) cx_b.

Example format_idem_empty_text :
  no_trailing_cr cx_b /\
  exists rs f rs',
    parse default_col (fun _ => true) (lit "t.slt") None cx_b = POk rs /\
    write_records rs = Some f /\
    parse default_col (fun _ => true) (lit "t.slt") None f = POk rs' /\
    rs' = rs /\ write_records rs' = Some f.
Proof.
  split.
  - unfold no_trailing_cr. vm_compute. repeat constructor; discriminate.
  - do 3 eexists. split; [vm_compute; reflexivity|]. split; [vm_compute; reflexivity|].
    split; [vm_compute; reflexivity|]. split; vm_compute; reflexivity.
Qed.

Definition cx_b2 : str := cx_lines ["system ok"; "echo"; "----"; "  "; ""; ""]%string.
Example format_idem_empty_stdout :
  exists rs f rs',
    parse default_col (fun _ => true) (lit "t.slt") None cx_b2 = POk rs /\
    write_records rs = Some f /\
    parse default_col (fun _ => true) (lit "t.slt") None f = POk rs' /\
    write_records rs' = Some f.
Proof.
  do 3 eexists. split; [vm_compute; reflexivity|]. split; [vm_compute; reflexivity|].
  split; vm_compute; reflexivity.
Qed.

Print Assumptions wf_sample.
Print Assumptions compact_duration_roundtrip.
Print Assumptions format_sound.
Print Assumptions format_idem.
